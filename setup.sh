#!/bin/bash
# MANIFEST.setup_cmd: regenerate Gen/*.v from /repo and build the whole Coq development (offline)
cd "$(dirname "$0")"
export PYTHONPATH=/repo/src
exec /venv/bin/python -c "
import sys
from vlib import common
b = common.build()
print(b.log[-2000:])
print('build ok' if b.ok else 'BUILD FAILED', 'missing:', getattr(b,'missing',None))
sys.exit(0 if b.ok else 1)
"
