"""correspondence families for ngo.minmax_aggregates (model: coq/Model/MinMax.v)

Every case works on a freshly parsed and *preprocessed* program (ngo.normalize.preprocess) with a random list
of input predicates (drawn from the program's predicates, sometimes foreign ones).  Exceptions of the real
code are observed results (`Raise "<class>"`); the constructor and the call are observed together.

minmax_charvars            _characteristic_variables on all terms of the inputs
minmax_analysis            _minmax_agg(rule) and _translatable_element(elem) for every rule / minimize
minmax_simple_translation  _simple_translation(rule, first min/max aggregate), called directly on every
                           statement that has a min/max aggregate (also where _process_rule would not)
minmax_chain_translation   _chain_translation(rule, first min/max aggregate) on a fresh object, result and
                           _minmax_preds afterwards
minmax_process_rule        _process_rule on all rules / minimize statements with ONE object (the first loop of
                           execute): list of returned lists and the final _minmax_preds
minmax_split_element       after that loop: _split_element(elem, rest) on sum-aggregate elements (program + synthetic)
minmax_replace_minimize    after that loop: _replace_results_in_minimize(stm, minimizes) (program + synthetic)
minmax_replace_sum         after that loop: _replace_results_in_sum(stm) (program + synthetic)
minmax_execute             MinMaxAggregator(prg, ins).execute(prg)

Statement lists are compared with list_eqb stmt_eqb (rule lines ignored; the generated names carry the line,
which ser.stmt takes from location.begin.line).  Nothing is compared modulo order.  The only hash-order
dependent spot (`old2new` in _simple_translation) can matter only when a local variable V of an aggregate element
is renamed while V0..V9 all occur in the rule; such inputs are skipped and counted in SKIPPED["hash_order"].

CHANGED[family] = [cases in which the pass produced something different from its input, cases];
set MINMAX_FRAGMENT=1 to turn every case into "does the model answer inside its fragment?".
"""
import copy
import logging
import os
from collections import defaultdict

from clingo.ast import AST, ASTType, AggregateFunction

from . import ser
from .corr import Case
from .inputs import parse, try_parse

IMPORTS = ["Model.Traverse", "Model.Corr", "Model.Globals", "Model.Dependency", "Model.MinMax"]
FRAGMENT_MODE = bool(os.environ.get("MINMAX_FRAGMENT"))
MAX_TEXT = 40000
FOREIGN = [("__dom_p", 1), ("__dom___max_0_1", 1), ("__max_0_1", 2), ("p", 1), ("a", 1), ("in", 1), ("zzz", 2),
           ("__chain_0_0__max___dom___max_0_1", 1), ("__min_0_0__dom___max_0_1", 1), ("__next_0_0__dom___max_0_1", 2)]
CHANGED = defaultdict(lambda: [0, 0])
SKIPPED = defaultdict(int)
MINMAX = (AggregateFunction.Min, AggregateFunction.Max)
SUMS = (AggregateFunction.Sum, AggregateFunction.SumPlus)


def quiet():
    logging.disable(logging.CRITICAL)


def walk(node):
    yield node
    for k in node.child_keys:
        v = getattr(node, k)
        if v is None:
            continue
        if isinstance(v, AST):
            yield from walk(v)
        else:
            try:
                it = list(v)
            except TypeError:
                continue
            for x in it:
                if isinstance(x, AST):
                    yield from walk(x)


def has_minmax(stm):
    return first_minmax(stm) is not None


def first_minmax(stm):
    if stm.ast_type not in (ASTType.Rule, ASTType.Minimize):
        return None
    for b in stm.body:
        if b.ast_type == ASTType.Literal and b.atom.ast_type == ASTType.BodyAggregate and b.atom.function in MINMAX:
            return b
    return None


def hash_order_sensitive(stm):
    """some variable V of a min/max aggregate element occurs together with V0..V9 in the statement"""
    agg = first_minmax(stm)
    if agg is None:
        return False
    names = {n.name for n in walk(stm) if n.ast_type == ASTType.Variable}
    inside = {n.name for e in agg.atom.elements for n in walk(e) if n.ast_type == ASTType.Variable}
    return any(all(v + str(i) in names for i in range(10)) for v in inside)


def prepared(inputs, fam):
    """(text, coq text of the preprocessed program, factory of fresh preprocessed copies)"""
    from ngo.normalize import preprocess
    seen = set()
    for inp in inputs:
        text = inp["text"]
        if text in seen:
            continue
        seen.add(text)
        prg = try_parse(text)
        if prg is None:
            continue
        try:
            pp = list(preprocess(prg))
            t = ser.prog(pp)
        except ser.Unsupported:
            continue
        except Exception:  # pylint: disable=broad-except
            continue
        if len(t) > MAX_TEXT:
            continue
        if any(hash_order_sensitive(s) for s in pp):
            SKIPPED["hash_order"] += 1
            continue

        def fresh(text=text):
            return list(preprocess(parse(text)))
        yield text, pp, t, fresh


def all_preds(pp):
    from ngo.utils.ast import predicates
    return sorted({sp.pred for stm in pp for sp in predicates(stm)})


def rand_inputs(rng, pp):
    from ngo.utils.ast import Predicate
    preds = all_preds(pp)
    ins = []
    for _ in range(rng.choice([0, 0, 1, 1, 2, 3])):
        if preds and rng.random() < 0.75:
            ins.append(rng.choice(preds))
        else:
            ins.append(Predicate(*rng.choice(FOREIGN)))
    return ins


def preds_s(ps):
    return ser.lst([ser.pred(p) for p in ps])


def mmpred_s(m):
    f, tr, idx = m
    mapping = ser.lst(["None" if x is None else f"(Some {int(x)})" for x in tr.mapping])
    return f"({ser.AGG[f]}, ({ser.pred(tr.oldpred)}, {ser.pred(tr.newpred)}, {mapping}), {int(idx)})"


def mmpreds_s(ms):
    return ser.lst([mmpred_s(m) for m in ms])


def mmpred_j(m):
    f, tr, idx = m
    return [str(f), str(tr.oldpred), str(tr.newpred), list(tr.mapping), idx]


def observe(fn, conv):
    """(coq text of a result, json-able, raw value or None)"""
    try:
        r = fn()
    except ser.Unsupported:
        raise
    except Exception as e:  # pylint: disable=broad-except
        return ser.result_raise(e), "raise " + type(e).__name__, None
    text, js = conv(r)
    return ser.result_ok(text), js, r


def conv_stmts(r):
    return ser.prog(r), [str(s) for s in r]


def make(fam, expr, frag_expr, desc, nontrivial):
    if FRAGMENT_MODE:
        return Case(frag_expr, desc, nontrivial=nontrivial, key=expr)
    return Case(expr, desc, nontrivial=nontrivial)


def phase1(mma, prg):
    """the first loop of MinMaxAggregator.execute"""
    ret = []
    minimizes = defaultdict(list)
    calls = []
    for rule in prg:
        if rule.ast_type not in (ASTType.Rule, ASTType.Minimize):
            ret.append(rule)
            continue
        new = mma._process_rule(rule)  # pylint: disable=protected-access
        calls.append(new)
        for new_rule in new:
            if new_rule.ast_type == ASTType.Minimize:
                minimizes[(new_rule.weight, new_rule.priority, *new_rule.terms)].append(new_rule)
            ret.append(new_rule)
    return ret, minimizes, calls


def synthetic_statements(rng, mma, pp):
    """minimize statements and sum rules that use the stored result predicates in various ways"""
    out = []
    seen = set()
    for f, tr, idx in mma._minmax_preds:  # pylint: disable=protected-access
        old = tr.oldpred
        if (old, idx) in seen:
            continue
        seen.add((old, idx))
        vs = [f"V{i}" for i in range(old.arity)]
        w = vs[idx]
        others = [v for i, v in enumerate(vs) if i != idx]
        atom = f"{old.name}({','.join(vs)})" if vs else old.name
        tup = "".join("," + v for v in others)
        texts = [
            f":~ {atom}. [{w}@1{tup}]",
            f":~ {atom}. [-{w}@1{tup}]",
            f":~ {atom}, other({w}). [{w}@2{tup},x]",
            f":~ {atom}. [{w}+1@1{tup}]",
            f":~ {atom}. [{w}@1]",
            f":~ not not {atom}. [{w}@1{tup}]",
            f":~ {atom}, {atom}. [{w}@1{tup}]",
            f":~ {atom} : #true. [{w}@1{tup}]",
            f":~ 1 = #sum {{ 1 : {atom} }}. [{w}@1{tup}]",
            f":~ {atom}, q(Z). [{w}@1{tup},f(Z)]",
            f":~ {atom}. [{w}@1{tup.replace(',V', ',g(V', 1) + (')' if ',V' in tup else '')}]",
            f"s(S) :- S = #sum {{ {w}{tup} : {atom} }}.",
            f"s(S) :- S = #sum+ {{ -{w}{tup} : {atom}, q({w}) }}.",
            f"s(S) :- S = #sum {{ {w}{tup} : {atom}; 1{tup} : q }}, r(S).",
            f"s(S) :- S = #sum {{ {w}{tup},a : {atom}; {w}{tup},b : {atom} }}.",
            f"s(S) :- S = #sum {{ {w}*2{tup} : {atom} }}.",
            f"s(S) :- S = #sum {{ {w} : {atom} }}.",
            f"s(S) :- S = #sum {{ {w}{tup} : not not {atom} }}.",
            f"s(S) :- not S != #sum {{ {w}{tup} : {atom}, 1 < #count {{ 1 : {atom} }} }}.",
            f"s(S) :- S = #sum {{ {w}{tup} : {atom}, {atom} }}.",
            f"s(S) :- S = #count {{ {w}{tup} : {atom} }}.",
        ]
        for t in texts:
            prg = try_parse(t)
            if prg is None:
                continue
            out.extend(s for s in prg if s.ast_type in (ASTType.Rule, ASTType.Minimize))
    # statements of the program itself, with a predicate renamed to a stored one
    return out


# ------------------------------------------------------------------------------------------------
class CharVars:
    name = "minmax_charvars"
    imports = IMPORTS
    source = "ngo.minmax_aggregates._characteristic_variables on all terms of the inputs"

    def cases(self, inputs, rng):
        from ngo.minmax_aggregates import _characteristic_variables
        seen = set()
        kinds = {ASTType.Variable, ASTType.SymbolicTerm, ASTType.UnaryOperation, ASTType.BinaryOperation,
                 ASTType.Interval, ASTType.Function, ASTType.Pool}
        for inp in inputs:
            prg = try_parse(inp["text"])
            if prg is None:
                continue
            for s in prg:
                for n in walk(s):
                    if n.ast_type not in kinds or str(n) in seen:
                        continue
                    seen.add(str(n))
                    try:
                        t = ser.term(n)
                    except ser.Unsupported:
                        continue
                    obs = [v.name for v in _characteristic_variables(n)]
                    yield Case(f"chk_charvars {t} {ser.strlist(obs)}",
                               {"fn": "_characteristic_variables", "term": str(n), "observed": obs},
                               nontrivial=bool(obs))


class Analysis:
    name = "minmax_analysis"
    imports = IMPORTS
    source = "MinMaxAggregator._minmax_agg / _translatable_element for every rule and minimize statement"

    def cases(self, inputs, rng):
        from ngo.minmax_aggregates import MinMaxAggregator
        quiet()
        for text, pp, t, fresh in prepared(inputs, self.name):
            ins = rand_inputs(rng, pp)
            hit = False
            js = []
            try:
                mma = MinMaxAggregator(pp, ins)
                items = []
                for s in pp:
                    if s.ast_type not in (ASTType.Rule, ASTType.Minimize):
                        continue
                    agg = mma._minmax_agg(s)  # pylint: disable=protected-access
                    if agg is None:
                        items.append("None")
                        js.append(None)
                        continue
                    answers = []
                    for e in agg.atom.elements:
                        try:
                            b = mma._translatable_element(e)  # pylint: disable=protected-access
                            answers.append(f"(Ok {ser.b(b)})")
                            hit = hit or b
                        except Exception as ex:  # pylint: disable=broad-except
                            answers.append(ser.result_raise(ex))
                    items.append(f"(Some ({ser.lit(agg)}, {ser.lst(answers)}))")
                    js.append([str(agg), answers])
                obs = f"(Ok {ser.lst(items)})"
            except ser.Unsupported:
                continue
            except Exception as ex:  # pylint: disable=broad-except
                obs = ser.result_raise(ex)
            expr = f"chk_analysis {t} {preds_s(ins)} {obs}"
            yield make(self.name, expr, f"in_fragment (mm_init {t} {preds_s(ins)})",
                       {"fn": "_minmax_agg/_translatable_element", "program": text,
                        "inputs": [str(p) for p in ins], "observed": js}, hit)


class SimpleTranslation:
    name = "minmax_simple_translation"
    imports = IMPORTS
    source = "MinMaxAggregator._simple_translation(rule, agg) called directly on every statement with a min/max aggregate"

    def cases(self, inputs, rng):
        from ngo.minmax_aggregates import MinMaxAggregator
        quiet()
        seen = set()
        for text, pp, t, fresh in prepared(inputs, self.name):
            for i, s in enumerate(pp):
                if not has_minmax(s) or str(s) in seen:
                    continue
                seen.add(str(s))
                stm = copy.deepcopy(s)
                try:
                    ts = ser.stmt(stm)
                    mma = MinMaxAggregator([], [])
                    agg = mma._minmax_agg(stm)  # pylint: disable=protected-access
                    obs, js, r = observe(lambda: mma._simple_translation(stm, agg), conv_stmts)  # pylint: disable=protected-access,cell-var-from-loop
                except ser.Unsupported:
                    continue
                CHANGED[self.name][1] += 1
                CHANGED[self.name][0] += r is not None
                expr = f"chk_prog (simple_translation_at [{ts}] 0) {obs}"
                yield make(self.name, expr, f"in_fragment (simple_translation_at [{ts}] 0)",
                           {"fn": "_simple_translation", "stmt": str(s), "observed": js}, r is not None and len(r) > 0)


class ChainTranslation:
    name = "minmax_chain_translation"
    imports = IMPORTS
    source = ("MinMaxAggregator._chain_translation(rule, agg) on a fresh object for every statement with a min/max "
              "aggregate; result and _minmax_preds")

    def cases(self, inputs, rng):
        from ngo.minmax_aggregates import MinMaxAggregator
        quiet()
        for text, pp, t, fresh in prepared(inputs, self.name):
            idxs = [i for i, s in enumerate(pp) if has_minmax(s)]
            for i in idxs[:6]:
                ins = rand_inputs(rng, pp)
                prg = fresh()
                try:
                    def call(prg=prg, i=i, ins=ins):
                        mma = MinMaxAggregator(prg, ins)
                        agg = mma._minmax_agg(prg[i])  # pylint: disable=protected-access
                        r = mma._chain_translation(prg[i], agg)  # pylint: disable=protected-access
                        return r, list(mma._minmax_preds)  # pylint: disable=protected-access
                    obs, js, r = observe(call, lambda x: (f"({ser.prog(x[0])}, {mmpreds_s(x[1])})",
                                                          [[str(s) for s in x[0]], [mmpred_j(m) for m in x[1]]]))
                except ser.Unsupported:
                    continue
                changed = r is not None and [str(x) for x in r[0]] != [str(pp[i])]
                CHANGED[self.name][1] += 1
                CHANGED[self.name][0] += changed
                expr = f"chk_chain (chain_translation_at {t} {preds_s(ins)} {i}) {obs}"
                yield make(self.name, expr, f"in_fragment (chain_translation_at {t} {preds_s(ins)} {i})",
                           {"fn": "_chain_translation", "program": text, "index": i, "stmt": str(pp[i]),
                            "inputs": [str(p) for p in ins], "observed": js}, changed)


class ProcessRule:
    name = "minmax_process_rule"
    imports = IMPORTS
    source = "MinMaxAggregator._process_rule on every rule / minimize statement with one object; final _minmax_preds"

    def cases(self, inputs, rng):
        from ngo.minmax_aggregates import MinMaxAggregator
        quiet()
        for text, pp, t, fresh in prepared(inputs, self.name):
            for rnd in range(2):
                ins = [] if rnd == 0 else rand_inputs(rng, pp)
                if rnd == 1 and not ins:
                    continue
                prg = fresh()
                before = [str(s) for s in prg if s.ast_type in (ASTType.Rule, ASTType.Minimize)]
                try:
                    def call(prg=prg, ins=ins):
                        mma = MinMaxAggregator(prg, ins)
                        _, _, calls = phase1(mma, prg)
                        return calls, list(mma._minmax_preds)  # pylint: disable=protected-access
                    obs, js, r = observe(call, lambda x: (
                        f"({ser.lst([ser.prog(c) for c in x[0]])}, {mmpreds_s(x[1])})",
                        [[[str(s) for s in c] for c in x[0]], [mmpred_j(m) for m in x[1]]]))
                except ser.Unsupported:
                    continue
                changed = r is not None and [[str(s) for s in c] for c in r[0]] != [[b] for b in before]
                CHANGED[self.name][1] += 1
                CHANGED[self.name][0] += changed
                expr = f"chk_process (process_rules {t} {preds_s(ins)}) {obs}"
                yield make(self.name, expr, f"in_fragment (process_rules {t} {preds_s(ins)})",
                           {"fn": "_process_rule", "program": text, "inputs": [str(p) for p in ins], "observed": js},
                           changed)


def after_phase1(pp_fresh, ins):
    """(mma, ret, minimizes) or the exception"""
    from ngo.minmax_aggregates import MinMaxAggregator
    prg = pp_fresh()
    try:
        mma = MinMaxAggregator(prg, ins)
        ret, minimizes, _ = phase1(mma, prg)
        return mma, ret, minimizes, None
    except Exception as e:  # pylint: disable=broad-except
        return None, None, None, e


class ReplaceMinimize:
    name = "minmax_replace_minimize"
    imports = IMPORTS
    source = ("MinMaxAggregator._replace_results_in_minimize(stm, minimizes) after the first loop of execute, for the "
              "minimize statements of the program and synthetic ones over the stored result predicates")
    kind = ASTType.Minimize
    model = "replace_minimize_after"

    def call(self, mma, stm, minimizes):
        return mma._replace_results_in_minimize(stm, minimizes)  # pylint: disable=protected-access

    def wanted(self, stm):
        return stm.ast_type == ASTType.Minimize

    def cases(self, inputs, rng):
        quiet()
        for text, pp, t, fresh in prepared(inputs, self.name):
            ins = rand_inputs(rng, pp) if rng.random() < 0.5 else []
            mma, ret, minimizes, exc = after_phase1(fresh, ins)
            if exc is not None:
                continue            # covered by minmax_process_rule
            if not mma._minmax_preds:  # pylint: disable=protected-access
                cands = [s for s in ret if self.wanted(s)][:1]
            else:
                cands = [s for s in ret if self.wanted(s)] + [s for s in synthetic_statements(rng, mma, pp)
                                                               if self.wanted(s)]
            for stm in cands:
                # one fresh object per call: the helper may create predicates
                mma, ret, minimizes, exc = after_phase1(fresh, ins)
                try:
                    ts = ser.stmt(stm)
                    obs, js, r = observe(lambda: self.call(mma, stm, minimizes), conv_stmts)  # pylint: disable=cell-var-from-loop
                except ser.Unsupported:
                    continue
                changed = r is not None and [str(x) for x in r] != [str(stm)]
                CHANGED[self.name][1] += 1
                CHANGED[self.name][0] += changed
                expr = f"chk_prog ({self.model} {t} {preds_s(ins)} {ts}) {obs}"
                yield make(self.name, expr, f"in_fragment ({self.model} {t} {preds_s(ins)} {ts})",
                           {"fn": self.model, "program": text, "stmt": str(stm), "inputs": [str(p) for p in ins],
                            "observed": js}, changed or r is None)


class ReplaceSum(ReplaceMinimize):
    name = "minmax_replace_sum"
    source = ("MinMaxAggregator._replace_results_in_sum(stm) after the first loop of execute, for the rules with a "
              "#sum/#sum+ body aggregate of the program and synthetic ones over the stored result predicates")
    model = "replace_sum_after"

    def call(self, mma, stm, minimizes):
        return mma._replace_results_in_sum(stm)  # pylint: disable=protected-access

    def wanted(self, stm):
        return stm.ast_type == ASTType.Rule and any(
            b.ast_type == ASTType.Literal and b.atom.ast_type == ASTType.BodyAggregate and b.atom.function in SUMS
            for b in stm.body)


class SplitElement:
    name = "minmax_split_element"
    imports = IMPORTS
    source = "MinMaxAggregator._split_element(loc, elem, rest_elems) after the first loop of execute"

    def cases(self, inputs, rng):
        from ngo.utils.ast import LOC
        quiet()
        for text, pp, t, fresh in prepared(inputs, self.name):
            ins = rand_inputs(rng, pp) if rng.random() < 0.5 else []
            mma, ret, _, exc = after_phase1(fresh, ins)
            if exc is not None:
                continue
            stmts = list(ret)
            if mma._minmax_preds:  # pylint: disable=protected-access
                stmts += synthetic_statements(rng, mma, pp)
            n = 0
            for stm in stmts:
                if stm.ast_type != ASTType.Rule:
                    continue
                for b in stm.body:
                    if not (b.ast_type == ASTType.Literal and b.atom.ast_type == ASTType.BodyAggregate):
                        continue
                    elems = list(b.atom.elements)
                    for e in elems:
                        if n >= 12 and not mma._minmax_preds:  # pylint: disable=protected-access
                            break
                        n += 1
                        rest = [x for x in elems if x != e]
                        if rng.random() < 0.2:
                            rest = elems
                        try:
                            def belem(x):
                                return f"({ser.lst([ser.term(y) for y in x.terms])}, {ser.lst([ser.lit(c) for c in x.condition])})"
                            es = belem(e)
                            rs = ser.lst([belem(x) for x in rest])

                            def conv(r):
                                om, mp, rc = r
                                return (f"({'None' if om is None else '(Some ' + ser.lit(om) + ')'}, "
                                        f"{'None' if mp is None else '(Some ' + mmpred_s(mp) + ')'}, "
                                        f"{ser.lst([ser.lit(c) for c in rc])})",
                                        [str(om), None if mp is None else mmpred_j(mp), [str(c) for c in rc]])
                            obs, js, r = observe(lambda: mma._split_element(LOC, e, rest), conv)  # pylint: disable=protected-access,cell-var-from-loop
                        except ser.Unsupported:
                            continue
                        hit = r is not None and r[1] is not None
                        CHANGED[self.name][1] += 1
                        CHANGED[self.name][0] += hit
                        expr = f"chk_split_element (split_element_after {t} {preds_s(ins)} {es} {rs}) {obs}"
                        yield make(self.name, expr, f"in_fragment (split_element_after {t} {preds_s(ins)} {es} {rs})",
                                   {"fn": "_split_element", "program": text, "elem": str(e),
                                    "rest": [str(x) for x in rest], "inputs": [str(p) for p in ins], "observed": js},
                                   hit)


class Execute:
    name = "minmax_execute"
    imports = IMPORTS
    source = "MinMaxAggregator(prg, input_predicates).execute(prg) on preprocessed programs"

    def cases(self, inputs, rng):
        from ngo.minmax_aggregates import MinMaxAggregator
        quiet()
        for text, pp, t, fresh in prepared(inputs, self.name):
            for rnd in range(2):
                ins = [] if rnd == 0 else rand_inputs(rng, pp)
                if rnd == 1 and not ins:
                    continue
                prg = fresh()
                before = [str(s) for s in prg]
                try:
                    obs, js, r = observe(lambda: MinMaxAggregator(prg, ins).execute(prg), conv_stmts)  # pylint: disable=cell-var-from-loop
                except ser.Unsupported:
                    continue
                changed = r is not None and js != before
                CHANGED[self.name][1] += 1
                CHANGED[self.name][0] += changed
                expr = f"chk_prog (mm_execute {t} {preds_s(ins)} {t}) {obs}"
                yield make(self.name, expr, f"in_fragment (mm_execute {t} {preds_s(ins)} {t})",
                           {"fn": "MinMaxAggregator.execute", "program": text, "preprocessed": before,
                            "inputs": [str(p) for p in ins], "observed": js}, changed)


FAMILIES = [CharVars(), Analysis(), SimpleTranslation(), ChainTranslation(), ProcessRule(), SplitElement(),
            ReplaceMinimize(), ReplaceSum(), Execute()]
