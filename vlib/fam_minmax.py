"""correspondence families for ngo.minmax_aggregates (model: coq/Model/MinMax.v)

Every case works on a freshly parsed and *preprocessed* program (ngo.normalize.preprocess) with a random list
of input predicates (drawn from the program's predicates, sometimes foreign ones).  Exceptions of the real
code are observed results (`Raise "<class>"`); the constructor and the call are observed together.

minmax_charvars            _characteristic_variables on all terms of the inputs
minmax_analysis            _minmax_agg(rule) and _translatable_element(elem) for every rule / minimize
minmax_simple_translation  _simple_translation(rule, first min/max aggregate), called directly on every
                           statement that has a min/max aggregate (also where _process_rule would not)
minmax_chain_translation   _chain_translation(rule, first min/max aggregate) on a fresh object, result and
                           _minmax_preds afterwards
minmax_process_rule        _process_rule on all rules / minimize statements with ONE object (the first loop of
                           execute): list of returned lists and the final _minmax_preds
minmax_split_element       after that loop: _split_element(elem, rest) on sum-aggregate elements (program + synthetic)
minmax_replace_minimize    after that loop: _replace_results_in_minimize(stm, minimizes) (program + synthetic)
minmax_replace_sum         after that loop: _replace_results_in_sum(stm) (program + synthetic)
minmax_execute             MinMaxAggregator(prg, ins).execute(prg)

Statement lists are compared with list_eqb stmt_eqb (rule lines ignored; the generated names carry the line,
which ser.stmt takes from location.begin.line).  Nothing is compared modulo order.  The only hash-order
dependent spot (`old2new` in _simple_translation) can matter only when a local variable V of an aggregate element
is renamed while V0..V9 all occur in the rule; such inputs are skipped and counted in SKIPPED["hash_order"].

CHANGED[family] = [cases in which the pass produced something different from its input, cases]
(CHANGED_MM: the same restricted to programs with a #min/#max body aggregate);
set MINMAX_FRAGMENT=1 to turn every case into "does the model answer inside its fragment?".
"""
import copy
import logging
import os
from collections import defaultdict

from clingo.ast import AST, ASTType, AggregateFunction

from . import ser
from .corr import Case
from .inputs import shared_minmax_elements, parse, try_parse

IMPORTS = ["Model.Traverse", "Model.Corr", "Model.Globals", "Model.Dependency", "Model.MinMax"]
FRAGMENT_MODE = bool(os.environ.get("MINMAX_FRAGMENT"))
MAX_TEXT = 40000
FOREIGN = [("__dom_p", 1), ("__dom___max_0_1", 1), ("__max_0_1", 2), ("p", 1), ("a", 1), ("in", 1), ("zzz", 2),
           ("__chain_0_0__max___dom___max_0_1", 1), ("__min_0_0__dom___max_0_1", 1), ("__next_0_0__dom___max_0_1", 2)]
CHANGED = defaultdict(lambda: [0, 0])
CHANGED_MM = defaultdict(lambda: [0, 0])     # the same, restricted to programs that contain a #min/#max body aggregate
SKIPPED = defaultdict(int)
MINMAX = (AggregateFunction.Min, AggregateFunction.Max)
SUMS = (AggregateFunction.Sum, AggregateFunction.SumPlus)


def quiet():
    logging.disable(logging.CRITICAL)


def walk(node):
    yield node
    for k in node.child_keys:
        v = getattr(node, k)
        if v is None:
            continue
        if isinstance(v, AST):
            yield from walk(v)
        else:
            try:
                it = list(v)
            except TypeError:
                continue
            for x in it:
                if isinstance(x, AST):
                    yield from walk(x)


def has_minmax(stm):
    return first_minmax(stm) is not None


def first_minmax(stm):
    if stm.ast_type not in (ASTType.Rule, ASTType.Minimize):
        return None
    for b in stm.body:
        if b.ast_type == ASTType.Literal and b.atom.ast_type == ASTType.BodyAggregate and b.atom.function in MINMAX:
            return b
    return None


def hash_order_sensitive(stm):
    """some variable V of a min/max aggregate element occurs together with V0..V9 in the statement"""
    agg = first_minmax(stm)
    if agg is None:
        return False
    names = {n.name for n in walk(stm) if n.ast_type == ASTType.Variable}
    inside = {n.name for e in agg.atom.elements for n in walk(e) if n.ast_type == ASTType.Variable}
    return any(all(v + str(i) in names for i in range(10)) for v in inside)


def prepared(inputs, fam):
    """(text, coq text of the preprocessed program, factory of fresh preprocessed copies)"""
    from ngo.normalize import preprocess
    seen = set()
    for inp in inputs:
        text = inp["text"]
        if text in seen:
            continue
        seen.add(text)
        prg = try_parse(text)
        if prg is None:
            continue
        try:
            pp = list(preprocess(prg))
            t = ser.prog(pp)
        except ser.Unsupported:
            continue
        except Exception:  # pylint: disable=broad-except
            continue
        if len(t) > MAX_TEXT:
            continue
        if any(hash_order_sensitive(s) for s in pp):
            SKIPPED["hash_order"] += 1
            continue
        if shared_minmax_elements(pp):
            SKIPPED["shared_elements"] = SKIPPED.get("shared_elements", 0) + 1
            continue

        def fresh(text=text):
            return list(preprocess(parse(text)))
        yield text, pp, t, fresh


def all_preds(pp):
    from ngo.utils.ast import predicates
    return sorted({sp.pred for stm in pp for sp in predicates(stm)})


def rand_inputs(rng, pp):
    from ngo.utils.ast import Predicate
    preds = all_preds(pp)
    ins = []
    for _ in range(rng.choice([0, 0, 1, 1, 2, 3])):
        if preds and rng.random() < 0.75:
            ins.append(rng.choice(preds))
        else:
            ins.append(Predicate(*rng.choice(FOREIGN)))
    return ins


def preds_s(ps):
    return ser.lst([ser.pred(p) for p in ps])


def mmpred_s(m):
    f, tr, idx = m
    mapping = ser.lst(["None" if x is None else f"(Some {int(x)})" for x in tr.mapping])
    return f"({ser.AGG[f]}, ({ser.pred(tr.oldpred)}, {ser.pred(tr.newpred)}, {mapping}), {int(idx)})"


def mmpreds_s(ms):
    return ser.lst([mmpred_s(m) for m in ms])


def mmpred_j(m):
    f, tr, idx = m
    return [str(f), str(tr.oldpred), str(tr.newpred), list(tr.mapping), idx]


def observe(fn, conv):
    """(coq text of a result, json-able, raw value or None)"""
    try:
        r = fn()
    except ser.Unsupported:
        raise
    except Exception as e:  # pylint: disable=broad-except
        return ser.result_raise(e), "raise " + type(e).__name__, None
    text, js = conv(r)
    return ser.result_ok(text), js, r


def conv_stmts(r):
    return ser.prog(r), [str(s) for s in r]


def make(fam, expr, frag_expr, desc, nontrivial):
    if FRAGMENT_MODE:
        return Case(frag_expr, desc, nontrivial=nontrivial, key=expr)
    return Case(expr, desc, nontrivial=nontrivial)


def phase1(mma, prg):
    """the first loop of MinMaxAggregator.execute"""
    ret = []
    minimizes = defaultdict(list)
    calls = []
    for rule in prg:
        if rule.ast_type not in (ASTType.Rule, ASTType.Minimize):
            ret.append(rule)
            continue
        new = mma._process_rule(rule)  # pylint: disable=protected-access
        calls.append(new)
        for new_rule in new:
            if new_rule.ast_type == ASTType.Minimize:
                minimizes[(new_rule.weight, new_rule.priority, *new_rule.terms)].append(new_rule)
            ret.append(new_rule)
    return ret, minimizes, calls


def synthetic_statements(rng, mma, pp):
    """minimize statements and sum rules that use the stored result predicates in various ways"""
    out = []
    seen = set()
    for f, tr, idx in mma._minmax_preds:  # pylint: disable=protected-access
        old = tr.oldpred
        if (old, idx) in seen:
            continue
        seen.add((old, idx))
        vs = [f"V{i}" for i in range(old.arity)]
        w = vs[idx]
        others = [v for i, v in enumerate(vs) if i != idx]
        atom = f"{old.name}({','.join(vs)})" if vs else old.name
        tup = "".join("," + v for v in others)
        texts = [
            f":~ {atom}. [{w}@1{tup}]",
            f":~ {atom}. [-{w}@1{tup}]",
            f":~ {atom}, other({w}). [{w}@2{tup},x]",
            f":~ {atom}. [{w}+1@1{tup}]",
            f":~ {atom}. [{w}@1]",
            f":~ not not {atom}. [{w}@1{tup}]",
            f":~ {atom}, {atom}. [{w}@1{tup}]",
            f":~ {atom} : #true. [{w}@1{tup}]",
            f":~ 1 = #sum {{ 1 : {atom} }}. [{w}@1{tup}]",
            f":~ {atom}, q(Z). [{w}@1{tup},f(Z)]",
            f":~ {atom}. [{w}@1{tup.replace(',V', ',g(V', 1) + (')' if ',V' in tup else '')}]",
            f"s(S) :- S = #sum {{ {w}{tup} : {atom} }}.",
            f"s(S) :- S = #sum+ {{ -{w}{tup} : {atom}, q({w}) }}.",
            f"s(S) :- S = #sum {{ {w}{tup} : {atom}; 1{tup} : q }}, r(S).",
            f"s(S) :- S = #sum {{ {w}{tup},a : {atom}; {w}{tup},b : {atom} }}.",
            f"s(S) :- S = #sum {{ {w}*2{tup} : {atom} }}.",
            f"s(S) :- S = #sum {{ {w} : {atom} }}.",
            f"s(S) :- S = #sum {{ {w}{tup} : not not {atom} }}.",
            f"s(S) :- not S != #sum {{ {w}{tup} : {atom}, 1 < #count {{ 1 : {atom} }} }}.",
            f"s(S) :- S = #sum {{ {w}{tup} : {atom}, {atom} }}.",
            f"s(S) :- S = #count {{ {w}{tup} : {atom} }}.",
        ]
        for t in texts:
            prg = try_parse(t)
            if prg is None:
                continue
            out.extend(s for s in prg if s.ast_type in (ASTType.Rule, ASTType.Minimize))
    # statements of the program itself, with a predicate renamed to a stored one
    return out


# ------------------------------------------------------------------------------------------------
# seeded generator of programs on which the pass has something to do
# ------------------------------------------------------------------------------------------------
class MMGen:
    """programs with choice rules (non static predicates), min/max aggregates of all guard shapes and uses of the
    result predicates in objectives and sum aggregates"""

    def __init__(self, rng):
        self.r = rng

    def pick(self, xs):
        return self.r.choice(xs)

    def base(self):
        out = []
        out.append(self.pick(["{ skill(P,ID,V) : dom(P,ID,V) }.", "{ skill(a,1,3); skill(a,2,5); skill(b,1,7) }.",
                              "skill(P,ID,V) :- dom(P,ID,V), not nskill(P,ID,V).\nnskill(P,ID,V) :- dom(P,ID,V), not skill(P,ID,V).",
                              "skill(a,1,3). skill(b,2,4).", "{ skill(P,ID,V) } :- dom(P,ID,V).",
                              "skill(P,ID,V) :- dom(P,ID,V), skill(P,ID,V).", "1 { skill(P,ID,V) : val(V) } 1 :- dom(P,ID)."]))
        out.append(self.pick(["{ person(a); person(b) }.", "person(a). person(b).", "{ person(P) } :- dom(P,_,_).",
                              "person(P) :- skill(P,_,_).", ""]))
        if self.r.random() < 0.3:
            out.append(self.pick(["{ foo(X) : dom(X) }.", "{ foo(X) : dom(X) }. { bar(X) : dom(X) }.", "foo(X) :- dom(X)."]))
        return [x for x in out if x]

    def element(self, k):
        terms = self.pick(["V,ID", "V", "V,ID", "V,P", "V+1,ID", "f(V),ID", "V,ID,P", "W", "ID", "V,V", "", "V,_",
                           "-V,ID", "V,(ID,P)"])
        cond = self.pick(["skill(P,ID,V)", "skill(P,ID,V)", "skill(P,ID,V)", "skill(P,ID,V), P = 42", "skill(P,ID,V), V > 2",
                          "skill(P,ID,V), person(P)", "not skill(P,ID,V), dom(P,ID,V)", "dom(P,ID,V)", "skill(Q,ID,V)",
                          "skill(P,ID,V), W = V*2", "-skill(P,ID,V)", "skill(P,ID,V), not person(ID)", "foo(V)",
                          "skill(P,ID,V), foo(ID)", "skill(P,_,V)", "skill(P,ID,V0), V = V0", "#true", "skill(p,ID,V)",
                          "skill(P,ID,V), X0 = 1", "not not skill(P,ID,V)"])
        if k > 0 and self.r.random() < 0.5:
            terms = self.pick(["23", "V,ID,x", "X,bar", "V"])
            cond = self.pick(["#true", "bar(V)", "skill(P,ID,V), V*V = 24", "foo(X), X*X = 24", "skill(P,ID,V)"])
        return f"{terms} : {cond}"

    def aggregate(self):
        f = self.pick(["#max", "#min"])
        n = self.pick([1, 1, 1, 1, 2, 2, 3, 0]) if self.r.random() < 0.25 else 1
        elems = "; ".join(self.element(k) for k in range(n))
        shape = self.r.random()
        bound = self.pick(["14", "N", "P", "X", "#sup", "#inf", "Y+1", "f(Y)"])
        if shape < 0.45:
            lg, rg = self.pick(["X = ", "X = ", "X = ", "42 = ", "N = ", "X0 = "]), ""
        elif shape < 0.5:
            lg, rg = "", " = X"
        elif shape < 0.58:
            lg, rg = "X = ", self.pick([" = Y", " < 5", " = X", " != N"])
        elif shape < 0.63:
            lg, rg = self.pick(["3 < ", "Y <= ", "3 != "]), self.pick([" < 5", " = X", " >= Y"])
        elif shape < 0.66:
            lg, rg = "", ""
        else:
            lg, rg = bound + " " + self.pick(["<", "<=", ">", ">=", "!=", "<", ">"]) + " ", ""
        sign = self.pick(["", "", "", "", "not ", "not ", "not not "])
        return f"{sign}{lg}{f} {{ {elems} }}{rg}"

    def others(self):
        n = self.pick([0, 1, 1, 2, 2, 3])
        lits = [self.pick(["person(P)", "person(P)", "random(Y)", "person(P,Y)", "not bad(P)", "P != 3", "other(ID)",
                           "q(P) : r(P)", "q(V) : r(V,P)", "X > 3", "person(Q)", "limit(N)", "skill(P,I2,V2)", "b",
                           "Z = #count { P : person(P) }", "foo(ID,V)", "person(_)", "not person(V)", "P = (1..2)"])
                for _ in range(n)]
        return lits

    def minmax_rule(self):
        name = self.pick(["max", "max", "min", "best", "res"])
        head = self.pick([f"{name}(P,X)", f"{name}(P,X)", f"{name}(P,X)", f"{name}(X,P)", f"{name}(X)", f"{name}(P,X,X)",
                          f"{name}(P,f(X))", f"{{ {name}(P,X) }}", "", f"{name}(P,X); b", f"{name}(P,Y,X)", f"{name}(a,X)",
                          f"{name}(P,ID,X)", "a", f"not {name}(P,X)", f"{name}(X,X)", f"{name}(P,Q,X)", f"{name}(P*3,|X|)",
                          f"{name}(P,N)"])
        body = self.others()
        body.insert(self.r.randint(0, len(body)), self.aggregate())
        if self.r.random() < 0.08:
            body.insert(self.r.randint(0, len(body)), self.aggregate())
        if self.r.random() < 0.1:
            tup = self.pick(["X@1", "X@Y,P", "X@1,P", "Y@Y", "-X@2,P", "X@P,P,ID", "X+1@1,P"])
            return f":~ {'; '.join(body)}. [{tup}]", name
        if head:
            return f"{head} :- {'; '.join(body)}.", name
        return f":- {'; '.join(body)}.", name

    def use(self, name):
        v = self.pick(["V", "V", "X", "W"])
        atom = self.pick([f"{name}(P,{v})", f"{name}(P,{v})", f"{name}(P,{v})", f"{name}({v},P)", f"{name}({v})",
                          f"{name}(P,{v},{v})", f"{name}(P,Q,{v})", f"{name}(a,{v})", f"{name}(P,_,{v})"])
        w = self.pick([v, v, v, f"-{v}", f"{v}*2", "1", f"{v}+P"])
        tup = self.pick(["P", "P", "P", "", "P,x", "f(P)", "P,Q", "Q", "g(P,a)", "P+1", "(P,1)"])
        extra = self.pick(["", "", "", ", special(P)", ", not special(P)", f", {v} > 2", ", person(Q)",
                           f", other({v})", f", {atom}"])
        tupc = ("," + tup) if tup else ""
        kind = self.r.random()
        if kind < 0.25:
            return f"#minimize {{ {w}@{self.pick(['1', 'P', '2'])}{tupc} : {atom}{extra} }}."
        if kind < 0.4:
            return f"#maximize {{ {w}@1{tupc} : {atom}{extra} }}."
        if kind < 0.55:
            return f":~ {atom}{extra}. [{w}@{self.pick(['1', 'P'])}{tupc}]"
        if kind < 0.6:
            return f"#minimize {{ {w}@1{tupc} : {atom}{extra}; {w}@1{tupc} : foo(P,{v}) }}."
        fn = self.pick(["#sum", "#sum", "#sum+", "#count", "#max"])
        more = self.pick(["", "", "15; ", f"{w}{tupc} : mux(P,{v}); ", f"{v},z : zzz({v}); ", "1,P : person(P); "])
        tail = self.pick(["", "", ", person(_)", ", limit(S)"])
        sign = self.pick(["", "", "", "not "])
        g = self.pick(["S = ", "S = ", "3 < ", "S != "])
        return f"mysum(S) :- {sign}{g}{fn} {{ {more}{w}{tupc} : {atom}{extra} }}{tail}."

    def clean_program(self):
        """shapes of the tests / README with small variations: the pass nearly always rewrites"""
        f = self.pick(["max", "min"])
        lines = [self.pick(["{ skill(P,ID,V) : dom(P,ID,V) }.", "{ skill(a,1,3); skill(a,2,5); skill(b,1,7) }.",
                            "{ skill(P,ID,V) } :- dom(P,ID,V)."]),
                 self.pick(["{ person(a); person(b) }.", "person(a). person(b).", "{ person(P) } :- dom(P,_,_)."])]
        rest = self.pick(["person(P)", "person(P)", "person(P), random(Y)", "person(P), not bad(P)", "person(P,Y)"])
        kind = self.r.random()
        if kind < 0.55:
            head = self.pick([f"{f}(P,X)", f"{f}(P,X)", f"{f}(P,X)", f"best(P,X)", f"{f}(X,P)", ""])
            guard = self.pick(["X = ", "X = ", "X = ", "42 = ", "N < " if f == "min" else "N > "])
            if not head.strip() or guard != "X = ":
                head = self.pick(["", "ok(P)"])
            lines.append(f"{head} :- {guard}#{f} {{ V,ID : skill(P,ID,V) }}, {rest}.")
            name = head.split("(")[0] if "(" in head else None
            if name and name != "ok":
                v = "V"
                atom = head.replace("X", v)
                for _ in range(self.pick([0, 1, 1, 2])):
                    w = self.pick([v, v, "-" + v])
                    lines.append(self.pick([f"#minimize {{ {w}@P,P : {atom} }}.", f"#maximize {{ {w}@1,P : {atom} }}.",
                                            f":~ {atom}, special(P). [{w}@1,P]",
                                            f"mysum(S) :- S = #sum {{ 15; {w},P : {atom} }}, person(_).",
                                            f"mysum(S) :- S = #sum+ {{ {w},P,x : {atom}, special(P); 1,P : person(P) }}.",
                                            f"#minimize {{ {w}@1 : {atom} }}."]))
        elif kind < 0.8:
            op = self.pick([">", ">="]) if f == "min" else self.pick(["<", "<="])
            neg = self.r.random() < 0.35
            if neg:
                op = {"<": ">", "<=": ">=", ">": "<", ">=": "<="}[op]
            elems = self.pick(["V,ID : skill(P,ID,V)", "V : skill(P,ID,V)", "V,ID : skill(P,ID,V); V,x : skill(Q,ID,V), person(Q)",
                               "V,ID : skill(P,ID,V), V != 4"])
            lines.append(f"a(P) :- {rest}, {'not ' if neg else ''}{self.pick(['14', 'N', 'P'])} {op} #{f} {{ {elems} }}.")
        else:
            tup = self.pick(["X@1,P", "X@Y,P", "X@1", "-X@2,P"])
            lines.append(f":~ X = #{f} {{ V,ID : skill(P,ID,V) }}, {rest}. [{tup}]")
        return "\n".join(lines)

    def program(self):
        if self.r.random() < 0.45:
            return self.clean_program()
        lines = self.base()
        names = []
        for _ in range(self.pick([1, 1, 1, 2, 2, 3])):
            rule, name = self.minmax_rule()
            names.append(name)
            if self.r.random() < 0.12 and len(names) > 1:
                lines[-1] = lines[-1] + " " + rule          # two rules on one source line
            else:
                lines.append(rule)
        if self.r.random() < 0.15:
            lines.append(self.pick([f"{names[0]}(P,X) :- extra(P,X).", f"{names[0]}(1,2).", f"#show {names[0]}/2.",
                                    f"ok :- {names[0]}(P,X), X > 3."]))
        for _ in range(self.pick([0, 1, 1, 2, 3])):
            lines.append(self.use(self.pick(names)))
        if self.r.random() < 0.12:
            k = self.r.randint(1, len(lines) + 1)
            f = self.pick(["max", "min"])
            lines.insert(self.r.randint(0, len(lines)), self.pick([
                f"__dom___{f}_0_{k}(1).", f"__{f}_0_{k}(P,X) :- person(P), X = 1.", f"{{ __dom___{f}_0_{k}(1..3) }}.",
                f"__chain_0_0__{f}___dom___{f}_0_{k}(1,2).", f"__next_0_0__dom___{f}_0_{k}(1,2).",
                f"__min_0_0__dom___{f}_0_{k}(1).", f"p(__VAR__{f}_0_{k}) :- q(__VAR__{f}_0_{k})."]))
        if self.r.random() < 0.1:
            self.r.shuffle(lines)
        return "\n".join(lines)


def generated(rng, n):
    g = MMGen(rng)
    out = []
    for i in range(n):
        for _ in range(20):
            text = g.program()
            if try_parse(text) is not None:
                out.append({"origin": f"mmgen:{i}", "text": text})
                break
    return out


N_TARGETED = int(os.environ.get("MINMAX_TARGETED", "400"))


def with_targeted(inputs, rng):
    return list(inputs) + generated(rng, N_TARGETED)


# ------------------------------------------------------------------------------------------------
class CharVars:
    name = "minmax_charvars"
    imports = IMPORTS
    source = "ngo.minmax_aggregates._characteristic_variables on all terms of the inputs"

    def cases(self, inputs, rng):
        from ngo.minmax_aggregates import _characteristic_variables
        seen = set()
        kinds = {ASTType.Variable, ASTType.SymbolicTerm, ASTType.UnaryOperation, ASTType.BinaryOperation,
                 ASTType.Interval, ASTType.Function, ASTType.Pool}
        for inp in inputs:
            prg = try_parse(inp["text"])
            if prg is None:
                continue
            for s in prg:
                for n in walk(s):
                    if n.ast_type not in kinds or str(n) in seen:
                        continue
                    seen.add(str(n))
                    try:
                        t = ser.term(n)
                    except ser.Unsupported:
                        continue
                    obs = [v.name for v in _characteristic_variables(n)]
                    yield Case(f"chk_charvars {t} {ser.strlist(obs)}",
                               {"fn": "_characteristic_variables", "term": str(n), "observed": obs},
                               nontrivial=bool(obs))


class Analysis:
    name = "minmax_analysis"
    imports = IMPORTS
    source = "MinMaxAggregator._minmax_agg / _translatable_element for every rule and minimize statement"

    def cases(self, inputs, rng):
        from ngo.minmax_aggregates import MinMaxAggregator
        quiet()
        for text, pp, t, fresh in prepared(with_targeted(inputs, rng), self.name):
            ins = rand_inputs(rng, pp)
            hit = False
            js = []
            try:
                mma = MinMaxAggregator(pp, ins)
                items = []
                for s in pp:
                    if s.ast_type not in (ASTType.Rule, ASTType.Minimize):
                        continue
                    agg = mma._minmax_agg(s)  # pylint: disable=protected-access
                    if agg is None:
                        items.append("None")
                        js.append(None)
                        continue
                    answers = []
                    for e in agg.atom.elements:
                        try:
                            b = mma._translatable_element(e)  # pylint: disable=protected-access
                            answers.append(f"(Ok {ser.b(b)})")
                            hit = hit or b
                        except Exception as ex:  # pylint: disable=broad-except
                            answers.append(ser.result_raise(ex))
                    items.append(f"(Some ({ser.lit(agg)}, {ser.lst(answers)}))")
                    js.append([str(agg), answers])
                obs = f"(Ok {ser.lst(items)})"
            except ser.Unsupported:
                continue
            except Exception as ex:  # pylint: disable=broad-except
                obs = ser.result_raise(ex)
            expr = f"chk_analysis {t} {preds_s(ins)} {obs}"
            yield make(self.name, expr, f"in_fragment (mm_init {t} {preds_s(ins)})",
                       {"fn": "_minmax_agg/_translatable_element", "program": text,
                        "inputs": [str(p) for p in ins], "observed": js}, hit)


class SimpleTranslation:
    name = "minmax_simple_translation"
    imports = IMPORTS
    source = "MinMaxAggregator._simple_translation(rule, agg) called directly on every statement with a min/max aggregate"

    def cases(self, inputs, rng):
        from ngo.minmax_aggregates import MinMaxAggregator
        quiet()
        seen = set()
        for text, pp, t, fresh in prepared(with_targeted(inputs, rng), self.name):
            for i, s in enumerate(pp):
                if not has_minmax(s) or str(s) in seen:
                    continue
                seen.add(str(s))
                stm = copy.deepcopy(s)
                try:
                    ts = ser.stmt(stm)
                    mma = MinMaxAggregator([], [])
                    agg = mma._minmax_agg(stm)  # pylint: disable=protected-access
                    obs, js, r = observe(lambda: mma._simple_translation(stm, agg), conv_stmts)  # pylint: disable=protected-access,cell-var-from-loop
                except ser.Unsupported:
                    continue
                CHANGED[self.name][1] += 1
                CHANGED[self.name][0] += r is not None
                expr = f"chk_prog (simple_translation_at [{ts}] 0) {obs}"
                yield make(self.name, expr, f"in_fragment (simple_translation_at [{ts}] 0)",
                           {"fn": "_simple_translation", "stmt": str(s), "observed": js}, r is not None and len(r) > 0)


class ChainTranslation:
    name = "minmax_chain_translation"
    imports = IMPORTS
    source = ("MinMaxAggregator._chain_translation(rule, agg) on a fresh object for every statement with a min/max "
              "aggregate; result and _minmax_preds")

    def cases(self, inputs, rng):
        from ngo.minmax_aggregates import MinMaxAggregator
        quiet()
        for text, pp, t, fresh in prepared(with_targeted(inputs, rng), self.name):
            idxs = [i for i, s in enumerate(pp) if has_minmax(s)]
            for i in idxs[:6]:
                ins = rand_inputs(rng, pp)
                prg = fresh()
                try:
                    def call(prg=prg, i=i, ins=ins):
                        mma = MinMaxAggregator(prg, ins)
                        agg = mma._minmax_agg(prg[i])  # pylint: disable=protected-access
                        r = mma._chain_translation(prg[i], agg)  # pylint: disable=protected-access
                        return r, list(mma._minmax_preds)  # pylint: disable=protected-access
                    obs, js, r = observe(call, lambda x: (f"({ser.prog(x[0])}, {mmpreds_s(x[1])})",
                                                          [[str(s) for s in x[0]], [mmpred_j(m) for m in x[1]]]))
                except ser.Unsupported:
                    continue
                changed = r is not None and [str(x) for x in r[0]] != [str(pp[i])]
                CHANGED[self.name][1] += 1
                CHANGED[self.name][0] += changed
                expr = f"chk_chain (chain_translation_at {t} {preds_s(ins)} {i}) {obs}"
                yield make(self.name, expr, f"in_fragment (chain_translation_at {t} {preds_s(ins)} {i})",
                           {"fn": "_chain_translation", "program": text, "index": i, "stmt": str(pp[i]),
                            "inputs": [str(p) for p in ins], "observed": js}, changed)


class ProcessRule:
    name = "minmax_process_rule"
    imports = IMPORTS
    source = "MinMaxAggregator._process_rule on every rule / minimize statement with one object; final _minmax_preds"

    def cases(self, inputs, rng):
        from ngo.minmax_aggregates import MinMaxAggregator
        quiet()
        for text, pp, t, fresh in prepared(with_targeted(inputs, rng), self.name):
            for rnd in range(2):
                ins = [] if rnd == 0 else rand_inputs(rng, pp)
                if rnd == 1 and not ins:
                    continue
                prg = fresh()
                before = [str(s) for s in prg if s.ast_type in (ASTType.Rule, ASTType.Minimize)]
                try:
                    def call(prg=prg, ins=ins):
                        mma = MinMaxAggregator(prg, ins)
                        _, _, calls = phase1(mma, prg)
                        return calls, list(mma._minmax_preds)  # pylint: disable=protected-access
                    obs, js, r = observe(call, lambda x: (
                        f"({ser.lst([ser.prog(c) for c in x[0]])}, {mmpreds_s(x[1])})",
                        [[[str(s) for s in c] for c in x[0]], [mmpred_j(m) for m in x[1]]]))
                except ser.Unsupported:
                    continue
                changed = r is not None and [[str(s) for s in c] for c in r[0]] != [[b] for b in before]
                CHANGED[self.name][1] += 1
                CHANGED[self.name][0] += changed
                if any(has_minmax(x) for x in pp):
                    CHANGED_MM[self.name][1] += 1
                    CHANGED_MM[self.name][0] += changed
                expr = f"chk_process (process_rules {t} {preds_s(ins)}) {obs}"
                yield make(self.name, expr, f"in_fragment (process_rules {t} {preds_s(ins)})",
                           {"fn": "_process_rule", "program": text, "inputs": [str(p) for p in ins], "observed": js},
                           changed)


def after_phase1(pp_fresh, ins):
    """(mma, ret, minimizes) or the exception"""
    from ngo.minmax_aggregates import MinMaxAggregator
    prg = pp_fresh()
    try:
        mma = MinMaxAggregator(prg, ins)
        ret, minimizes, _ = phase1(mma, prg)
        return mma, ret, minimizes, None
    except Exception as e:  # pylint: disable=broad-except
        return None, None, None, e


class ReplaceMinimize:
    name = "minmax_replace_minimize"
    imports = IMPORTS
    source = ("MinMaxAggregator._replace_results_in_minimize(stm, minimizes) after the first loop of execute, for the "
              "minimize statements of the program and synthetic ones over the stored result predicates")
    kind = ASTType.Minimize
    model = "replace_minimize_after"

    def call(self, mma, stm, minimizes):
        return mma._replace_results_in_minimize(stm, minimizes)  # pylint: disable=protected-access

    def wanted(self, stm):
        return stm.ast_type == ASTType.Minimize

    def cases(self, inputs, rng):
        quiet()
        for text, pp, t, fresh in prepared(with_targeted(inputs, rng), self.name):
            ins = rand_inputs(rng, pp) if rng.random() < 0.5 else []
            mma, ret, minimizes, exc = after_phase1(fresh, ins)
            if exc is not None:
                continue            # covered by minmax_process_rule
            if not mma._minmax_preds:  # pylint: disable=protected-access
                cands = [s for s in ret if self.wanted(s)][:1]
            else:
                cands = [s for s in ret if self.wanted(s)] + [s for s in synthetic_statements(rng, mma, pp)
                                                               if self.wanted(s)]
            for stm in cands:
                # one fresh object per call: the helper may create predicates
                mma, ret, minimizes, exc = after_phase1(fresh, ins)
                try:
                    ts = ser.stmt(stm)
                    obs, js, r = observe(lambda: self.call(mma, stm, minimizes), conv_stmts)  # pylint: disable=cell-var-from-loop
                except ser.Unsupported:
                    continue
                changed = r is not None and [str(x) for x in r] != [str(stm)]
                CHANGED[self.name][1] += 1
                CHANGED[self.name][0] += changed
                expr = f"chk_prog ({self.model} {t} {preds_s(ins)} {ts}) {obs}"
                yield make(self.name, expr, f"in_fragment ({self.model} {t} {preds_s(ins)} {ts})",
                           {"fn": self.model, "program": text, "stmt": str(stm), "inputs": [str(p) for p in ins],
                            "observed": js}, changed or r is None)


class ReplaceSum(ReplaceMinimize):
    name = "minmax_replace_sum"
    source = ("MinMaxAggregator._replace_results_in_sum(stm) after the first loop of execute, for the rules with a "
              "#sum/#sum+ body aggregate of the program and synthetic ones over the stored result predicates")
    model = "replace_sum_after"

    def call(self, mma, stm, minimizes):
        return mma._replace_results_in_sum(stm)  # pylint: disable=protected-access

    def wanted(self, stm):
        return stm.ast_type == ASTType.Rule and any(
            b.ast_type == ASTType.Literal and b.atom.ast_type == ASTType.BodyAggregate and b.atom.function in SUMS
            for b in stm.body)


class SplitElement:
    name = "minmax_split_element"
    imports = IMPORTS
    source = "MinMaxAggregator._split_element(loc, elem, rest_elems) after the first loop of execute"

    def cases(self, inputs, rng):
        from ngo.utils.ast import LOC
        quiet()
        for text, pp, t, fresh in prepared(with_targeted(inputs, rng), self.name):
            ins = rand_inputs(rng, pp) if rng.random() < 0.5 else []
            mma, ret, _, exc = after_phase1(fresh, ins)
            if exc is not None:
                continue
            stmts = list(ret)
            if mma._minmax_preds:  # pylint: disable=protected-access
                stmts += synthetic_statements(rng, mma, pp)
            n = 0
            for stm in stmts:
                if stm.ast_type != ASTType.Rule:
                    continue
                for b in stm.body:
                    if not (b.ast_type == ASTType.Literal and b.atom.ast_type == ASTType.BodyAggregate):
                        continue
                    elems = list(b.atom.elements)
                    for e in elems:
                        if n >= 12 and not mma._minmax_preds:  # pylint: disable=protected-access
                            break
                        n += 1
                        rest = [x for x in elems if x != e]
                        if rng.random() < 0.2:
                            rest = elems
                        try:
                            def belem(x):
                                return f"({ser.lst([ser.term(y) for y in x.terms])}, {ser.lst([ser.lit(c) for c in x.condition])})"
                            es = belem(e)
                            rs = ser.lst([belem(x) for x in rest])

                            def conv(r):
                                om, mp, rc = r
                                return (f"({'None' if om is None else '(Some ' + ser.lit(om) + ')'}, "
                                        f"{'None' if mp is None else '(Some ' + mmpred_s(mp) + ')'}, "
                                        f"{ser.lst([ser.lit(c) for c in rc])})",
                                        [str(om), None if mp is None else mmpred_j(mp), [str(c) for c in rc]])
                            obs, js, r = observe(lambda: mma._split_element(LOC, e, rest), conv)  # pylint: disable=protected-access,cell-var-from-loop
                        except ser.Unsupported:
                            continue
                        hit = r is not None and r[1] is not None
                        CHANGED[self.name][1] += 1
                        CHANGED[self.name][0] += hit
                        expr = f"chk_split_element (split_element_after {t} {preds_s(ins)} {es} {rs}) {obs}"
                        yield make(self.name, expr, f"in_fragment (split_element_after {t} {preds_s(ins)} {es} {rs})",
                                   {"fn": "_split_element", "program": text, "elem": str(e),
                                    "rest": [str(x) for x in rest], "inputs": [str(p) for p in ins], "observed": js},
                                   hit)


class Execute:
    name = "minmax_execute"
    imports = IMPORTS
    source = "MinMaxAggregator(prg, input_predicates).execute(prg) on preprocessed programs"

    def cases(self, inputs, rng):
        from ngo.minmax_aggregates import MinMaxAggregator
        quiet()
        for text, pp, t, fresh in prepared(with_targeted(inputs, rng), self.name):
            for rnd in range(2):
                ins = [] if rnd == 0 else rand_inputs(rng, pp)
                if rnd == 1 and not ins:
                    continue
                prg = fresh()
                before = [str(s) for s in prg]
                try:
                    obs, js, r = observe(lambda: MinMaxAggregator(prg, ins).execute(prg), conv_stmts)  # pylint: disable=cell-var-from-loop
                except ser.Unsupported:
                    continue
                changed = r is not None and js != before
                CHANGED[self.name][1] += 1
                CHANGED[self.name][0] += changed
                if any(has_minmax(x) for x in pp):
                    CHANGED_MM[self.name][1] += 1
                    CHANGED_MM[self.name][0] += changed
                expr = f"chk_prog (mm_execute {t} {preds_s(ins)} {t}) {obs}"
                yield make(self.name, expr, f"in_fragment (mm_execute {t} {preds_s(ins)} {t})",
                           {"fn": "MinMaxAggregator.execute", "program": text, "preprocessed": before,
                            "inputs": [str(p) for p in ins], "observed": js}, changed)


FAMILIES = [CharVars(), Analysis(), SimpleTranslation(), ChainTranslation(), ProcessRule(), SplitElement(),
            ReplaceMinimize(), ReplaceSum(), Execute()]
