"""correspondence families for ngo.utils.globals.UniqueVariables / UniqueNames (model: coq/Model/Globals.v).

Both classes are stateful, so a case is a *history*: one object, a sequence of method calls, and the
list of returned values (plus the observable state before and after)."""
from clingo.ast import ASTType, Variable

from . import ser
from .corr import Case
from .inputs import parse, try_parse


def _nat(n):
    return str(int(n))


class UniqueVariablesFam:
    name = "unique_variables"
    imports = ["Model.Traverse", "Model.Globals"]
    source = "ngo.utils.globals.UniqueVariables.__init__ / make_unique (histories of 1..8 calls)"

    FIXED = ["AUX", "AUX0", "AUX1", "_", "X", "X0", "X00"]

    def cases(self, inputs, rng):
        from ngo.utils.ast import LOC
        from ngo.utils.globals import AUX_VAR, UniqueVariables
        seen = set()
        stmts = []
        for inp in inputs:
            prg = try_parse(inp["text"])
            if prg is None:
                continue
            for s in prg:
                k = str(s)
                if k in seen or s.ast_type == ASTType.Program:
                    continue
                seen.add(k)
                stmts.append(s)
        for s in stmts:
            try:
                t = ser.stmt(s)
            except ser.Unsupported:
                continue
            for _ in range(2):
                uv = UniqueVariables(s)
                init = [v.name for v in uv._allvars]  # pylint: disable=protected-access
                own = sorted(set(init))
                calls = []
                outs = []
                for _ in range(rng.randint(1, 8)):
                    r = rng.random()
                    if own and r < 0.45:
                        nm = rng.choice(own)
                    elif outs and r < 0.6:
                        nm = rng.choice(outs)        # ask again for a name that was just handed out
                    elif r < 0.7:
                        nm = rng.choice(calls) if calls else AUX_VAR.name
                    else:
                        nm = rng.choice(self.FIXED)
                    var = AUX_VAR if nm == AUX_VAR.name and rng.random() < 0.5 else Variable(LOC, nm)
                    res = uv.make_unique(var)
                    assert res.ast_type == ASTType.Variable
                    calls.append(nm)
                    outs.append(res.name)
                final = [v.name for v in uv._allvars]  # pylint: disable=protected-access
                expr = (f"chk_unique_variables {t} {ser.strlist(calls)} {ser.strlist(init)} "
                        f"{ser.strlist(outs)} {ser.strlist(final)}")
                yield Case(expr,
                           {"fn": "UniqueVariables", "stmt": str(s), "calls": calls, "observed": outs,
                            "allvars_before": init, "allvars_after": final},
                           nontrivial=any(c != o for c, o in zip(calls, outs)))


SYNTH = [
    "__aux_1(X) :- p(X). __aux_2(X) :- __aux_1(X), __dom_p(X).",
    "__aux_1(X) :- p1(X). __aux_2(X) :- __aux_1(X). __aux_3(X) :- __aux_2(X), p2(X), p(X).",
    "__aux_1 :- __aux_2, __aux_3. p :- p1, p2, not __dom_p.",
    "__aux_1(X,Y) :- __aux_2(X,Y), __aux_3(Y,X). __dom_p(X,Y) :- p(X,Y), p1(X,Y), p2(Y,X).",
    "{__aux_1(X,Y,Z) : __aux_2(X,Y,Z)} :- __aux_3(X,Y,Z), __aux_4(X,Y,Z), __aux_6(X,Y,Z). p(1,2,3). p1(1,2,3).",
    "__aux_2(X) :- q(X). __aux_3(X) :- q(X). __aux_5(X) :- q(X).",
    "__dom_p(X) :- __dom_p1(X), __dom_p2(X), __dom_p3(X). __aux_11(X) :- __aux_10(X), __aux_9(X).",
    "p :- p1, p2, p3, p4, p5, p6, p7, p8, p9, p10, p11. __aux_1 :- __aux_2.",
    "#minimize { X@1,Y : __aux_1(X,Y), __aux_2(X,Y) }. :~ p(X,Y), p1(X,Y). [X@2,Y]",
    "a :- X = #sum { Y,Z : __aux_1(Y,Z), not __aux_2(Y,Z) }, 1 { p(A,B) : p1(A,B) } 2, __aux_1(X).",
]


class UniqueNamesFam:
    name = "unique_names"
    imports = ["Model.Traverse", "Model.Globals"]
    source = "ngo.utils.globals.UniqueNames.__init__ / new_auxpredicate / new_predicate (histories of 1..10 calls)"

    def cases(self, inputs, rng):
        from ngo.utils.ast import Predicate, predicates
        from ngo.utils.globals import UniqueNames
        progs = []
        for inp in inputs:
            prg = try_parse(inp["text"])
            if prg is not None:
                progs.append((inp["text"], prg))
        for txt in SYNTH:
            for _ in range(12):
                progs.append((txt, parse(txt)))
        for text, prg in progs:
            try:
                t = ser.prog(prg)
            except ser.Unsupported:
                continue
            names = sorted({(sp.pred.name, sp.pred.arity) for s in prg for sp in predicates(s)})
            pool = [n for n, _ in names]
            # input predicates: some from the program, some foreign ones that collide with invented names
            ins = []
            for _ in range(rng.choice([0, 0, 1, 2, 3])):
                r = rng.random()
                if names and r < 0.5:
                    ins.append(Predicate(*rng.choice(names)))
                else:
                    ins.append(Predicate(rng.choice(["__aux_1", "__aux_2", "__aux_3", "__aux_4", "__dom_p", "p", "p1",
                                                     "p2", "in"]), rng.randint(0, 3)))
            un = UniqueNames(prg, ins)
            init = sorted(un.predicates)
            assert un.auxcounter == 0
            arities = sorted({a for _, a in names}) or [0]
            reqs = []
            outs = []
            for _ in range(rng.randint(1, 10)):
                if rng.random() < 0.5:
                    ar = rng.choice(arities) if rng.random() < 0.6 else rng.randint(0, 3)
                    p = un.new_auxpredicate(ar)
                    reqs.append(f"NewAux {_nat(ar)}")
                else:
                    r = rng.random()
                    if pool and r < 0.45:
                        sim, ar = rng.choice(names)
                        if rng.random() < 0.2:
                            ar = rng.randint(0, 3)
                    elif outs and r < 0.6:
                        sim, ar = rng.choice(outs)
                    else:
                        sim = rng.choice(["__dom_p", "__aux_1", "p", "__aux_", "p1"])
                        ar = rng.choice(arities) if rng.random() < 0.6 else rng.randint(0, 3)
                    p = un.new_predicate(sim, ar)
                    reqs.append(f"NewPred {ser.q(sim)} {_nat(ar)}")
                outs.append((p.name, p.arity))
            final = sorted(un.predicates)
            outp = [Predicate(n, a) for n, a in outs]
            expr = (f"chk_unique_names {t} {ser.lst([ser.pred(p) for p in ins])} {ser.lst(['(' + r + ')' for r in reqs])} "
                    f"{ser.lst([ser.pred(p) for p in init])} {ser.lst([ser.pred(p) for p in outp])} "
                    f"{_nat(un.auxcounter)} {ser.lst([ser.pred(p) for p in final])}")
            # nontrivial: some request had to skip at least one taken name
            skipped = any((r.startswith("NewPred") and r.split('"')[1] != o[0]) for r, o in zip(reqs, outs)) or \
                un.auxcounter != sum(1 for r in reqs if r.startswith("NewAux"))
            yield Case(expr,
                       {"fn": "UniqueNames", "program": text, "input_predicates": [str(p) for p in ins],
                        "requests": reqs, "observed": [f"{n}/{a}" for n, a in outs], "auxcounter": un.auxcounter},
                       nontrivial=skipped)


FAMILIES = [UniqueVariablesFam(), UniqueNamesFam()]
