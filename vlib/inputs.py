"""inputs for correspondence and search: repo test programs (harvested on every run), the curated
corpus, and a seeded grammar-based generator.  Everything random derives from one random.Random."""
import ast as pyast
import glob
import json
import os
import random

from clingo.ast import parse_string

from .common import REPO, VERIF


def parse(text):
    prg = []
    parse_string(text, prg.append, logger=lambda c, m: None)
    return prg


def try_parse(text):
    try:
        return parse(text)
    except Exception:  # pylint: disable=broad-except
        return None


def harvest():
    """string literals that are first elements of pytest parametrize tuples in /repo/tests"""
    out = []
    for f in sorted(glob.glob(os.path.join(REPO, "tests", "test_*.py"))):
        try:
            tree = pyast.parse(open(f, encoding="utf-8").read())
        except SyntaxError:
            continue
        for node in pyast.walk(tree):
            if isinstance(node, pyast.Call) and getattr(node.func, "attr", None) == "parametrize" and len(node.args) >= 2:
                vals = node.args[1]
                if not isinstance(vals, (pyast.Tuple, pyast.List)):
                    continue
                for v in vals.elts:
                    if isinstance(v, (pyast.Tuple, pyast.List)) and v.elts and isinstance(v.elts[0], pyast.Constant) \
                            and isinstance(v.elts[0].value, str):
                        out.append((os.path.basename(f), v.elts[0].value))
                    elif isinstance(v, pyast.Constant) and isinstance(v.value, str):
                        out.append((os.path.basename(f), v.value))
    seen = set()
    res = []
    for f, s in out:
        if s in seen:
            continue
        seen.add(s)
        if try_parse(s) is not None:
            res.append({"origin": "repo-tests:" + f, "text": s})
    return res


def curated():
    res = []
    for f in sorted(glob.glob(os.path.join(VERIF, "corpus", "*.lp"))):
        txt = open(f, encoding="utf-8").read()
        # programs are separated by lines "%%%%"
        for i, chunk in enumerate(txt.split("\n%%%%\n")):
            if chunk.strip() and try_parse(chunk) is not None:
                res.append({"origin": f"corpus:{os.path.basename(f)}#{i}", "text": chunk})
    return res


# ---------------------------------------------------------------------------------------------
# grammar-based generator
# ---------------------------------------------------------------------------------------------
PREDS = ["a", "b", "c", "d", "e", "p", "q", "r", "s", "t", "dom", "edge", "node", "skill", "person", "shift", "day",
         "__aux_1", "__aux_2", "__dom_p", "__dom_a", "unique", "anon__ngo", "__min_0_1", "__max_0_1", "__next_0__dom_p",
         "__chain__max_0_1"]
VARS = ["X", "Y", "Z", "W", "V", "U", "A", "B", "AUX", "AUX0", "AUX1", "__NEXT", "__PREV", "P", "N", "X0", "L", "G0"]
CONSTS = ["a", "b", "c", "n", "unique", "anon__ngo", "none"]
CMPS = ["=", "!=", "<", "<=", ">", ">="]
AGGS = ["#sum", "#sum+", "#count", "#min", "#max"]


class Gen:
    """seeded program generator; `weights` bias towards constructs"""

    def __init__(self, rng: random.Random, rich=True):
        self.r = rng
        self.rich = rich

    def var(self):
        return self.r.choice(VARS[: 8 if self.r.random() < 0.8 else len(VARS)])

    def num(self):
        return str(self.r.choice([0, 1, 2, 3, 5, -1, -2, 10]))

    def term(self, depth=0, allow_pool=True):
        r = self.r.random()
        if depth > 2:
            r = r * 0.6
        if r < 0.35:
            return self.var()
        if r < 0.5:
            return self.num()
        if r < 0.6:
            return self.r.choice(CONSTS)
        if r < 0.63:
            return "_"
        if r < 0.66:
            return self.r.choice(['"str"', "#inf", "#sup"])
        if r < 0.78:
            op = self.r.choice(["+", "-", "*", "+", "-", "/", "\\", "**", "&", "?", "^"])
            return f"({self.term(depth + 1, False)}{op}{self.term(depth + 1, False)})"
        if r < 0.82:
            return self.r.choice([f"-{self.term(depth + 1, False)}", f"|{self.term(depth + 1, False)}|",
                                  f"~{self.term(depth + 1, False)}"])
        if r < 0.87:
            return f"({self.term(depth + 1, False)}..{self.term(depth + 1, False)})"
        if r < 0.95:
            n = self.r.randint(1, 2)
            name = self.r.choice(["f", "g", ""])
            args = ",".join(self.term(depth + 1, False) for _ in range(n))
            if name == "" and n == 1:
                args += ","
            return f"{name}({args})"
        if allow_pool:
            return f"({self.term(depth + 1, False)};{self.term(depth + 1, False)})"
        return self.var()

    def atom(self, preds=None):
        p = self.r.choice(preds or PREDS[: 12 if self.r.random() < 0.85 else len(PREDS)])
        n = self.r.choice([0, 1, 1, 2, 2, 3])
        if n == 0:
            return p
        return f"{p}({','.join(self.term(1) for _ in range(n))})"

    def sign(self):
        return self.r.choice(["", "", "", "not ", "not not "])

    def comparison(self):
        n = self.r.choice([1, 1, 1, 2])
        s = self.term(1, False)
        for _ in range(n):
            s += f" {self.r.choice(CMPS)} {self.term(1, False)}"
        return s

    def simple_lit(self):
        r = self.r.random()
        if r < 0.7:
            return self.sign() + self.atom()
        if r < 0.95:
            return self.sign() + self.comparison()
        return self.sign() + self.r.choice(["#true", "#false"])

    def cond(self, maxn=2):
        return ", ".join(self.simple_lit() for _ in range(self.r.randint(0, maxn)))

    def body_agg(self):
        f = self.r.choice(AGGS)
        es = []
        for _ in range(self.r.randint(1, 2)):
            ts = ",".join(self.term(1, False) for _ in range(self.r.randint(1, 2)))
            c = self.cond(2)
            es.append(ts + (" : " + c if c else ""))
        lg = f"{self.term(1, False)} {self.r.choice(CMPS)} " if self.r.random() < 0.6 else ""
        rg = f" {self.r.choice(CMPS)} {self.term(1, False)}" if self.r.random() < 0.4 else ""
        return f"{self.sign()}{lg}{f}{{ {'; '.join(es)} }}{rg}"

    def old_agg(self):
        es = []
        for _ in range(self.r.randint(1, 2)):
            c = self.cond(1)
            es.append(self.simple_lit() + (" : " + c if c else ""))
        lg = f"{self.term(1, False)} " if self.r.random() < 0.5 else ""
        rg = f" {self.term(1, False)}" if self.r.random() < 0.5 else ""
        return f"{self.sign()}{lg}{{ {'; '.join(es)} }}{rg}"

    def body_elem(self):
        r = self.r.random()
        if r < 0.72:
            return self.simple_lit()
        if r < 0.82:
            return self.body_agg()
        if r < 0.88:
            return self.old_agg()
        c = self.cond(2)
        return self.simple_lit() + " : " + c if c else self.simple_lit()

    def body(self, lo=0, hi=4):
        return "; ".join(self.body_elem() for _ in range(self.r.randint(lo, hi)))

    def head(self):
        r = self.r.random()
        if r < 0.55:
            return self.atom()
        if r < 0.65:
            return ""
        if r < 0.8:
            es = []
            for _ in range(self.r.randint(1, 2)):
                c = self.cond(1)
                es.append(self.atom() + (" : " + c if c else ""))
            lg = f"{self.num()} " if self.r.random() < 0.3 else ""
            rg = f" {self.num()}" if self.r.random() < 0.3 else ""
            return f"{lg}{{ {'; '.join(es)} }}{rg}"
        if r < 0.88:
            es = []
            for _ in range(self.r.randint(2, 3)):
                c = self.cond(1)
                es.append(self.sign() + self.atom() + (" : " + c if c else ""))
            return "; ".join(es)
        if r < 0.95:
            es = []
            for _ in range(self.r.randint(1, 2)):
                c = self.cond(1)
                es.append(f"{self.term(1, False)} : {self.atom()}" + (" : " + c if c else ""))
            return f"{self.r.choice(AGGS)}{{ {'; '.join(es)} }} {self.r.choice(CMPS)} {self.num()}"
        return self.sign() + self.atom()

    def statement(self):
        r = self.r.random()
        if r < 0.8:
            h = self.head()
            b = self.body(0 if h else 1)
            return f"{h} :- {b}." if b else (f"{h}." if h else ":- #true.")
        if r < 0.86:
            ts = ",".join(self.term(1, False) for _ in range(self.r.randint(0, 2)))
            return f":~ {self.body(1)}. [{self.term(1, False)}@{self.num()}{',' + ts if ts else ''}]"
        if r < 0.9:
            kind = self.r.choice(["#minimize", "#maximize"])
            c = self.cond(2)
            return f"{kind} {{ {self.term(1, False)}@{self.num()},{self.term(1, False)}{' : ' + c if c else ''} }}."
        if r < 0.94:
            p = self.r.choice(PREDS[:12])
            return f"#show {p}/{self.r.randint(0, 3)}."
        if r < 0.97:
            c = self.cond(2)
            return f"#show {self.term(1, False)}{' : ' + c if c else ''}."
        return self.r.choice(["#show.", "#const n = 3.", "#external a(X) : b(X).", "#project a/1.", "#program base.",
                              "#defined a/1.", "#edge (X,Y) : edge(X,Y).", "#heuristic a(X) : b(X). [1,true]"])

    def program(self, lo=1, hi=5):
        for _ in range(50):
            txt = "\n".join(self.statement() for _ in range(self.r.randint(lo, hi)))
            if try_parse(txt) is not None:
                return txt
        return "a."


def generated(seed, n, tag="gen"):
    rng = random.Random(seed)
    g = Gen(rng)
    return [{"origin": f"{tag}:{seed}:{i}", "text": g.program()} for i in range(n)]


def sign_mutants(text, rng, n=30):
    """variants of a program with the sign of one or two symbolic body / condition literals toggled
    (used by the failing-input search around a disagreeing input)"""
    from clingo.ast import ASTType, Sign, Transformer
    prg = try_parse(text)
    if prg is None:
        return []

    class Count(Transformer):
        def __init__(self):
            self.n = 0

        def visit_Literal(self, lit):
            if lit.atom.ast_type == ASTType.SymbolicAtom:
                self.n += 1
            return lit.update(**self.visit_children(lit))

    class Toggle(Transformer):
        def __init__(self, which):
            self.i = 0
            self.which = which

        def visit_Literal(self, lit):
            lit = lit.update(**self.visit_children(lit))
            if lit.atom.ast_type == ASTType.SymbolicAtom:
                k = self.i
                self.i += 1
                if k in self.which:
                    return lit.update(sign=Sign.Negation if lit.sign == Sign.NoSign else Sign.NoSign)
            return lit

    out = []
    seen = set()
    for _ in range(n * 3):
        new = []
        ok = True
        for st in prg:
            if st.ast_type not in (ASTType.Rule, ASTType.Minimize) or not st.body:
                new.append(st)
                continue
            c = Count()
            for b in st.body:
                c.visit(b)
            if c.n == 0 or rng.random() < 0.5:
                new.append(st)
                continue
            which = set(rng.sample(range(c.n), min(c.n, rng.choice([1, 1, 2]))))
            t = Toggle(which)
            new.append(st.update(body=[t.visit(b) for b in st.body]))
        txt = "\n".join(str(x) for x in new)
        if txt not in seen and try_parse(txt) is not None:
            seen.add(txt)
            out.append(txt)
        if len(out) >= n:
            break
    return out


def generated_iter(seed, tag="search"):
    rng = random.Random(seed)
    g = Gen(rng)
    i = 0
    while True:
        yield {"origin": f"{tag}:{seed}:{i}", "text": g.program()}
        i += 1


def base_inputs(seed, n_gen):
    """curated first, then repo tests, then generated"""
    return curated() + harvest() + generated(seed, n_gen)


# ---------------------------------------------------------------------------------------------
# neighbourhood mutants of shaped programs: one or two small syntactic twists of a corpus / test program
# (the passes fire on particular shapes; realistic regressions live on "the shape plus a twist")
# ---------------------------------------------------------------------------------------------
def ast_mutants(text, rng, n=4):
    """up to n distinct parseable variants of `text`, each with 1-2 local changes"""
    import clingo
    from clingo.ast import (ASTType, AggregateFunction, BinaryOperation, BinaryOperator, ComparisonOperator,
                            Function, Interval, Sign, SymbolicTerm, Transformer, UnaryOperation, UnaryOperator,
                            Variable)
    prg = try_parse(text)
    if prg is None:
        return []

    class Sites(Transformer):
        """counts the mutation sites in visiting order; with `which` set, applies the mutation at those sites"""

        def __init__(self, which=None, rng=None, vars_=None):
            self.i = 0
            self.which = which or {}
            self.rng = rng
            self.vars = vars_ or []

        def hit(self):
            k = self.i
            self.i += 1
            return self.which.get(k)

        def visit_Literal(self, lit):
            r = self.hit()
            lit = lit.update(**self.visit_children(lit))
            if r is not None:
                order = [Sign.NoSign, Sign.Negation, Sign.DoubleNegation]
                return lit.update(sign=order[(order.index(lit.sign) + 1 + r % 2) % 3])
            return lit

        def visit_Variable(self, var):
            r = self.hit()
            if r is None:
                return var
            loc = var.location
            k = r % 7
            if k == 0 and self.vars:
                return Variable(loc, self.vars[r // 7 % len(self.vars)])
            if k == 1:
                return Function(loc, "f", [var], False)
            if k == 2:
                return BinaryOperation(loc, BinaryOperator.Plus, var, SymbolicTerm(loc, clingo.Number(1)))
            if k == 3:
                return BinaryOperation(loc, BinaryOperator.Division, var, SymbolicTerm(loc, clingo.Number(2)))
            if k == 4:
                return Function(loc, "g", [BinaryOperation(loc, BinaryOperator.Modulo, var,
                                                           SymbolicTerm(loc, clingo.Number(2))), var], False)
            if k == 5:
                return UnaryOperation(loc, UnaryOperator.Absolute, var)
            return Variable(loc, "_")

        def visit_SymbolicTerm(self, t):
            r = self.hit()
            if r is None:
                return t
            loc = t.location
            k = r % 4
            if k == 0:
                return Interval(loc, SymbolicTerm(loc, clingo.Number(1)), SymbolicTerm(loc, clingo.Number(2)))
            if k == 1:
                return BinaryOperation(loc, BinaryOperator.Plus,
                                       Interval(loc, SymbolicTerm(loc, clingo.Number(0)), SymbolicTerm(loc, clingo.Number(1))),
                                       SymbolicTerm(loc, clingo.Number(1)))
            if k == 2 and self.vars:
                return Variable(loc, self.vars[r // 4 % len(self.vars)])
            return SymbolicTerm(loc, clingo.Number([-1, 0, 2, 7][r // 4 % 4]))

        def visit_Guard(self, g):
            r = self.hit()
            g = g.update(**self.visit_children(g))
            if r is not None:
                ops = [ComparisonOperator.Equal, ComparisonOperator.NotEqual, ComparisonOperator.LessThan,
                       ComparisonOperator.LessEqual, ComparisonOperator.GreaterThan, ComparisonOperator.GreaterEqual]
                return g.update(comparison=ops[r % 6])
            return g

        def visit_BodyAggregate(self, a):
            r = self.hit()
            a = a.update(**self.visit_children(a))
            if r is not None:
                fs = [AggregateFunction.Sum, AggregateFunction.SumPlus, AggregateFunction.Count, AggregateFunction.Min,
                      AggregateFunction.Max]
                k = r % 7
                if k < 5:
                    return a.update(function=fs[k])
                if k == 5 and a.left_guard is not None:
                    return a.update(left_guard=a.right_guard, right_guard=a.left_guard) if a.right_guard is not None \
                        else a
                if a.elements:
                    return a.update(elements=list(a.elements) + [a.elements[0]])
            return a

        def visit_SymbolicAtom(self, sa):
            r = self.hit()
            sa = sa.update(**self.visit_children(sa))
            if r is not None and sa.symbol.ast_type == ASTType.Function:
                f = sa.symbol
                args = list(f.arguments)
                k = r % 3
                if k == 0 and self.vars:
                    args.append(Variable(f.location, self.vars[r // 3 % len(self.vars)]))
                elif k == 1 and args:
                    args.pop(r // 3 % len(args))
                elif args:
                    args.append(args[0])
                return sa.update(symbol=f.update(arguments=args))
            return sa

    out, seen = [], {text}
    for _ in range(n * 4):
        idx = [i for i, s in enumerate(prg) if s.ast_type in (ASTType.Rule, ASTType.Minimize, ASTType.ShowTerm)]
        if not idx:
            break
        si = rng.choice(idx)
        st = prg[si]
        c = Sites()
        c.visit(st)
        if c.i == 0:
            continue
        vs = sorted({str(v) for v in _collect_vars(st)} - {"_"})
        which = {rng.randrange(c.i): rng.randrange(1 << 16) for _ in range(rng.choice([1, 1, 1, 2]))}
        try:
            new = Sites(which, rng, vs).visit(st)
            txt = "\n".join(str(new) if i == si else str(s) for i, s in enumerate(prg))
        except Exception:  # pylint: disable=broad-except
            continue
        if txt in seen or try_parse(txt) is None:
            continue
        seen.add(txt)
        out.append(txt)
        if len(out) >= n:
            break
    return out


def _collect_vars(st):
    from clingo.ast import ASTType, Transformer
    res = []

    class V(Transformer):
        def visit_Variable(self, v):
            res.append(v.name)
            return v
    V().visit(st)
    return res


def neighbourhood(base, seed, n, tag="twist"):
    """n mutants spread over the given base inputs (deterministic in seed)"""
    rng = random.Random(seed)
    base = [b for b in base if len(b["text"]) < 3000]
    out = []
    tries = 0
    while base and len(out) < n and tries < n * 5:
        tries += 1
        b = rng.choice(base)
        for m in ast_mutants(b["text"], rng, 1):
            out.append({"origin": f"{tag}:{seed}:{b['origin']}", "text": m})
    return out


def shared_minmax_elements(pp):
    """after preprocess: is one BodyAggregateElement OBJECT of a #min/#max aggregate reachable from two statements?
    (AST.unpool copies shallowly; minmax's simple translation appends to elem.condition in place, so the second unpooled
    rule sees the literal the first one added - a harmless duplicate literal that the Coq model of minmax does not
    reproduce; such inputs are outside the model's fragment and are not compared)"""
    from clingo.ast import ASTType, AggregateFunction
    from clingo._internal import _ffi
    seen = {}
    for k, st in enumerate(pp):
        if st.ast_type not in (ASTType.Rule, ASTType.Minimize):
            continue
        for b in st.body:
            if b.ast_type == ASTType.Literal and b.atom.ast_type == ASTType.BodyAggregate and \
                    b.atom.function in (AggregateFunction.Min, AggregateFunction.Max):
                for e in b.atom.elements:
                    ident = int(_ffi.cast("uintptr_t", e._rep))  # pylint: disable=protected-access
                    if seen.setdefault(ident, k) != k:
                        return True
    return False
