"""correspondence families for coq/Model/Duplication.v (model of ngo/literal_duplication.py and of
ngo.utils.ast.replace_assignments)

duplication_constants            AUX_VAR
duplication_replace_assignments  replace_assignments(stm) on every statement (raw and preprocessed programs)
duplication_sizes                the four static compute_*size* methods on every statement (incl. AssertionError)
duplication_anonymize            anonymize_variables on bodies / sub-lists of bodies / conditions (sorted list and
                                 mapping in insertion order) and unanonymize_variables on the inverse mapping
duplication_occurrences          LiteralCollector(size, prg, {}) with _filter_occurences patched away: the complete
                                 `occurences` dict (keys in insertion order, every RuleRebuilder field)
duplication_filter               LiteralCollector._filter_occurences on the keys collected above (kept keys in order)
duplication_collect              the unpatched LiteralCollector(size, prg, {}).occurences
duplication_rebuild              LiteralCollector.rebuild(rb, name, variables) for the collected RuleRebuilders
duplication_process              lc.process(UniqueNames(prg, ins)): changed_rules, lc.prg afterwards,
                                 additional_rules, final auxcounter
duplication_execute              X = LiteralDuplicationTranslator(prg, ins); X.execute(prg): statement list and which
                                 output lines are the (identical) input objects, i.e. the `restore` flags

All programs handed to the collector / translator are freshly parsed and `ngo.normalize.preprocess`ed; for the
collector families they are additionally mapped through replace_assignments, as execute does.  Besides the
given inputs every family uses *synthesised* programs: a rule of the input program gets one or two sibling
statements that share a (consistently renamed) part of its body, placed in a body, in the condition of a
conditional literal, in a body aggregate element or in a weak constraint -- otherwise random programs almost
never contain a duplicated literal set.

Exceptions of the real code are observed results (Raise "<class>").  Cases the model does not cover
(theory atoms in a rule / weak constraint, pools inside rules) are predicted on the Python side
(`out_of_fragment`); for all other cases the *strict* comparison is used, in which an OutOfFragment answer
of the model is a mismatch.  STATS counts cases, changed programs and out-of-fragment cases per family;
`python -m vlib.fam_duplication [--seed S] [--gen N]` prints them.
"""
import logging

from clingo.ast import AST, ASTType, Transformer, Variable

from . import ser
from .corr import Case
from .inputs import parse, try_parse

IMPORTS = ["Model.Traverse", "Model.Corr", "Model.Binding", "Model.Globals", "Model.Duplication"]
STATS = {}
MAX_BODY = 8          # 2^n subsets per body and per `while` iteration
MAX_STATEMENTS = 60
MAX_SIZE_CASES = 4    # collector families: at most this many sizes per program
SYNTH_INPUT_NAMES = ["__aux_1", "__aux_2", "__aux_3", "__aux_4", "p", "q", "in"]


def stat(name):
    return STATS.setdefault(name, {"cases": 0, "changed": 0, "out_of_fragment": 0})


# ------------------------------------------------------------------------------------------------
# helpers
# ------------------------------------------------------------------------------------------------
def walk(node):
    yield node
    for k in node.child_keys:
        v = getattr(node, k)
        if v is None:
            continue
        if isinstance(v, AST):
            yield from walk(v)
        else:
            try:
                it = list(v)
            except TypeError:
                continue
            for x in it:
                if isinstance(x, AST):
                    yield from walk(x)


def stmt_out_of_fragment(stm):
    """the model's fragment test (Duplication.stmt_opaque + Dependency.dep_in_fragment), conservatively"""
    if stm.ast_type == ASTType.Rule:
        return any(n.ast_type in (ASTType.TheoryAtom, ASTType.Pool) for n in walk(stm))
    if stm.ast_type == ASTType.Minimize:
        return any(n.ast_type == ASTType.TheoryAtom for n in walk(stm))
    return False


def theory_in(stm):
    if stm.ast_type in (ASTType.Rule, ASTType.Minimize):
        return any(n.ast_type == ASTType.TheoryAtom for n in walk(stm))
    return False


def preds(ps):
    return ser.lst([ser.pred(p) for p in ps])


def nats(xs):
    return ser.lst([str(int(x)) for x in xs])


def bools(bs):
    return ser.lst([ser.b(x) for x in bs])


def smap(d):
    return ser.lst([f"({ser.q(k)}, {ser.q(v)})" for k, v in d.items()])


def elems(xs):
    return ser.lst([ser.bodyelem(x) for x in xs])


def belem(e):
    return f"({ser.lst([ser.term(t) for t in e.terms])}, {ser.lst([ser.lit(c) for c in e.condition])})"


def opt(x, f):
    return "None" if x is None else f"(Some {f(x)})"


def rb_text(rb):
    return (f"(mk_rb {rb.ruleid} {opt(rb.sub_ast, ser.bodyelem)} {opt(rb.sub_sub_ast, belem)} "
            f"{elems(rb.original_literals)} {elems(rb.new_literals)} {smap(rb.oldvars2newvars)} "
            f"{smap(rb.newvars2oldvars)})")


def rb_json(rb):
    return {"ruleid": rb.ruleid, "sub": None if rb.sub_ast is None else str(rb.sub_ast),
            "subsub": None if rb.sub_sub_ast is None else str(rb.sub_sub_ast),
            "orig": [str(x) for x in rb.original_literals], "map": dict(rb.oldvars2newvars)}


def occ_text(occ):
    return ser.lst([f"({elems(k)}, {ser.lst([rb_text(rb) for rb in v])})" for k, v in occ.items()])


def occ_json(occ):
    return [{"key": [str(x) for x in k], "builders": [rb_json(rb) for rb in v]} for k, v in occ.items()]


def result_text(fn, conv):
    """run fn; (Coq text of a `result`, json-able, raw value or None)"""
    try:
        r = fn()
    except Exception as e:  # pylint: disable=broad-except
        return ser.result_raise(e), "raise " + type(e).__name__, None
    text, js = conv(r)
    return ser.result_ok(text), js, r


def random_inputs(rng, prg):
    from ngo.utils.ast import Predicate, predicates
    names = sorted({(sp.pred.name, sp.pred.arity) for s in prg for sp in predicates(s)})
    ins = []
    for _ in range(rng.choice([0, 1, 1, 2, 3])):
        if names and rng.random() < 0.7:
            ins.append(Predicate(*rng.choice(names)))
        else:
            ins.append(Predicate(rng.choice(SYNTH_INPUT_NAMES), rng.randint(0, 3)))
    return ins


def body_sizes(stm):
    out = [len(stm.body)]
    for lit in stm.body:
        if lit.ast_type == ASTType.ConditionalLiteral:
            out.append(len(lit.condition))
        elif lit.ast_type == ASTType.Literal and lit.atom.ast_type == ASTType.BodyAggregate:
            out.extend(len(e.condition) for e in lit.atom.elements)
    return out


def max_body(prg):
    return max([x for s in prg if s.ast_type in (ASTType.Rule, ASTType.Minimize) for x in body_sizes(s)] or [0])


class Rename(Transformer):
    """consistent renaming of the variables of a body element"""

    def __init__(self, mapping):
        self.mapping = mapping

    def visit_Variable(self, var):  # pylint: disable=invalid-name
        if var.name == "_":
            return var
        return Variable(var.location, self.mapping.setdefault(var.name, var.name))


SIMPLE_EXTRA = ["zz", "yy(V9)", "not xx", "ww(V8,V9)", "V9 < 3", "uu(1)"]


def synthesise(text, rng):
    """programs in which a part of a rule body is shared with new sibling statements"""
    prg = try_parse(text)
    if prg is None:
        return []
    rules = [s for s in prg if s.ast_type in (ASTType.Rule, ASTType.Minimize) and 2 <= len(s.body) <= MAX_BODY
             and not theory_in(s)]
    if not rules:
        return []
    out = []
    for _ in range(2):
        rule = rng.choice(rules)
        body = list(rule.body)
        k = rng.randint(2, min(len(body), 4))
        idx = sorted(rng.sample(range(len(body)), k))
        lines = [str(s) for s in prg if s.ast_type != ASTType.Program]
        for sib in range(rng.choice([1, 1, 2])):
            mapping = {}
            mode = rng.random()
            if mode < 0.35:
                pass                                   # same variable names
            elif mode < 0.8:
                names = sorted({n.name for i in idx for n in walk(body[i]) if n.ast_type == ASTType.Variable
                                and n.name != "_"})
                fresh = [f"R{sib}{j}" for j in range(len(names))]
                if rng.random() < 0.3:
                    rng.shuffle(fresh)
                mapping = dict(zip(names, fresh))
            else:                                       # merge two variables: a different literal set
                names = sorted({n.name for i in idx for n in walk(body[i]) if n.ast_type == ASTType.Variable
                                and n.name != "_"})
                if len(names) >= 2:
                    a, b = rng.sample(names, 2)
                    mapping = {a: b}
            part = [str(Rename(mapping).visit(body[i])) for i in idx]
            if rng.random() < 0.25:
                rng.shuffle(part)
            extra = rng.sample(SIMPLE_EXTRA, rng.choice([0, 1, 1, 2]))
            plain = all(body[i].ast_type == ASTType.Literal and body[i].atom.ast_type in
                        (ASTType.SymbolicAtom, ASTType.Comparison, ASTType.BooleanConstant) for i in idx)
            place = rng.random()
            head = rng.choice([f"sib{sib}", f"sib{sib}(V9)", ""]) if "V9" in " ".join(extra) and "yy(V9)" in extra \
                else rng.choice([f"sib{sib}", ""])
            if place < 0.5 or not plain:
                lines.append(f"{head} :- {'; '.join(part + extra)}.")
            elif place < 0.65:
                cond = ", ".join(part + [e for e in extra if e in ("zz", "uu(1)")])
                rest = [e for e in extra if e not in ("zz", "uu(1)")]
                lines.append(f"{head} :- {'; '.join(['cc(1): ' + cond] + rest)}.")
            elif place < 0.8:
                cond = ", ".join(part + [e for e in extra if e in ("zz", "uu(1)")])
                rest = [e for e in extra if e not in ("zz", "uu(1)")]
                second = rng.choice(["", "; 2,b: zz, uu(1)", "; 1,a: " + cond])
                lines.append(f"{head} :- {'; '.join(['1 <= #sum { 1,a: ' + cond + second + ' }'] + rest)}.")
            else:
                lines.append(f":~ {'; '.join(part + extra)}. [1@2,s{sib}]")
        if rng.random() < 0.3:
            rng.shuffle(lines)
        txt = "\n".join(lines)
        if try_parse(txt) is not None:
            out.append(txt)
    return out


def programs(inputs, rng, with_raw=False):
    """(kind, text, statements) for all distinct input programs and their synthesised variants;
    statements are freshly parsed and preprocessed (kind 'raw': only parsed)"""
    from ngo.normalize import preprocess
    logging.disable(logging.CRITICAL)
    seen = set()
    for inp in inputs:
        text = inp["text"]
        if text in seen or try_parse(text) is None:
            continue
        seen.add(text)
        variants = [("preprocessed", text)]
        if not inp["origin"].startswith("corpus:duplication"):
            variants += [("synthesised", t) for t in synthesise(text, rng)]
        for kind, txt in variants:
            if kind == "synthesised" and txt in seen:
                continue
            seen.add(txt)
            try:
                prg = preprocess(parse(txt))
            except Exception:  # pylint: disable=broad-except
                continue
            yield kind, txt, prg
            if with_raw and kind == "preprocessed":
                yield "raw", txt, parse(txt)


def serial_prog(prg):
    try:
        return ser.prog(prg)
    except ser.Unsupported:
        return None


def newprogram_of(prg):
    """what execute hands to the LiteralCollector; None if replace_assignments raises"""
    from ngo.utils.ast import replace_assignments
    try:
        return [replace_assignments(s) for s in prg]
    except Exception:  # pylint: disable=broad-except
        return None


def sizes_for(prg, rng):
    m = max_body(prg)
    sizes = list(range(2, m + 1))
    if len(sizes) > MAX_SIZE_CASES:
        sizes = sorted(rng.sample(sizes, MAX_SIZE_CASES))
    return sizes


def small_enough(prg):
    return max_body(prg) <= MAX_BODY and len(prg) <= MAX_STATEMENTS


def chk(strict_name, lenient_name, oof):
    return lenient_name if oof else strict_name


# ------------------------------------------------------------------------------------------------
class DuplicationConstants:
    name = "duplication_constants"
    imports = IMPORTS
    source = "ngo.literal_duplication.AUX_VAR"

    def cases(self, inputs, rng):
        import ngo.literal_duplication as mod
        stat(self.name)["cases"] += 1
        yield Case(f"chk_string AUX_VAR {ser.q(mod.AUX_VAR)}", {"fn": "AUX_VAR", "observed": mod.AUX_VAR})


class DuplicationReplaceAssignments:
    name = "duplication_replace_assignments"
    imports = IMPORTS
    source = "ngo.utils.ast.replace_assignments on every statement of raw and preprocessed programs"

    def cases(self, inputs, rng):
        from ngo.utils.ast import replace_assignments
        st = stat(self.name)
        seen = set()
        for kind, text, prg in programs(inputs, rng, with_raw=True):
            for stm in prg:
                key = str(stm)
                if key in seen:
                    continue
                seen.add(key)
                try:
                    t = ser.stmt(stm)
                except ser.Unsupported:
                    continue
                obs, js, r = result_text(lambda: replace_assignments(stm),  # pylint: disable=cell-var-from-loop
                                         lambda r: (ser.stmt(r), str(r)))
                oof = theory_in(stm)
                st["cases"] += 1
                st["out_of_fragment"] += oof
                changed = r is not None and str(r) != str(stm)
                st["changed"] += changed
                yield Case(f"{chk('chk_stmt_strict', 'chk_stmt', oof)} (replace_assignments {t}) {obs}",
                           {"fn": "replace_assignments", "kind": kind, "stmt": str(stm), "observed": js},
                           nontrivial=changed)


class DuplicationSizes:
    name = "duplication_sizes"
    imports = IMPORTS
    source = "LiteralDuplicationTranslator.compute_size_from_body/_minimize, compute_max_size_from_conditionals/_body_aggregate"

    def cases(self, inputs, rng):
        from ngo.literal_duplication import LiteralDuplicationTranslator as T
        st = stat(self.name)
        seen = set()
        fns = [("compute_size_from_body", T.compute_size_from_body),
               ("compute_size_from_minimize", T.compute_size_from_minimize),
               ("compute_max_size_from_conditionals", T.compute_max_size_from_conditionals),
               ("compute_max_size_from_body_aggregate", T.compute_max_size_from_body_aggregate)]
        for kind, text, prg in programs(inputs, rng):
            for stm in prg:
                key = str(stm)
                if key in seen:
                    continue
                seen.add(key)
                try:
                    t = ser.stmt(stm)
                except ser.Unsupported:
                    continue
                for fname, fn in fns:
                    obs, js, r = result_text(lambda: fn(stm), lambda r: (str(r), r))  # pylint: disable=cell-var-from-loop
                    st["cases"] += 1
                    yield Case(f"chk_nat_strict ({fname} {t}) {obs}",
                               {"fn": fname, "stmt": str(stm), "observed": js}, nontrivial=bool(r))


class DuplicationAnonymize:
    name = "duplication_anonymize"
    imports = IMPORTS
    source = "ngo.literal_duplication.anonymize_variables / unanonymize_variables on bodies, sub-lists and conditions"

    def cases(self, inputs, rng):
        from ngo.literal_duplication import anonymize_variables, unanonymize_variables
        st = stat(self.name)
        seen = set()
        for kind, text, prg in programs(inputs, rng, with_raw=True):
            lists = []
            src = list(prg)
            if kind != "raw":
                src += newprogram_of(prg) or []
            for stm in src:
                if stm.ast_type not in (ASTType.Rule, ASTType.Minimize):
                    continue
                body = list(stm.body)
                lists.append(body)
                for _ in range(2):
                    if len(body) >= 2:
                        k = rng.randint(1, len(body))
                        lists.append([body[i] for i in sorted(rng.sample(range(len(body)), k))])
                if len(body) >= 2:
                    sh = list(body)
                    rng.shuffle(sh)
                    lists.append(sh)
                for lit in body:
                    if lit.ast_type == ASTType.ConditionalLiteral:
                        lists.append(list(lit.condition))
                    elif lit.ast_type == ASTType.Literal and lit.atom.ast_type == ASTType.BodyAggregate:
                        for e in lit.atom.elements:
                            lists.append(list(e.condition))
            for lits in lists:
                key = "; ".join(str(x) for x in lits)
                if key in seen:
                    continue
                seen.add(key)
                try:
                    t = elems(lits)
                except ser.Unsupported:
                    continue
                new, mapping = anonymize_variables(lits)
                oof = any(n.ast_type == ASTType.TheoryAtom for x in lits for n in walk(x))
                st["cases"] += 1
                st["out_of_fragment"] += oof
                st["changed"] += bool(mapping)
                yield Case(f"{chk('chk_anonymize_strict', 'chk_anonymize', oof)} {t} {elems(new)} {smap(mapping)}",
                           {"fn": "anonymize_variables", "literals": [str(x) for x in lits],
                            "observed": [str(x) for x in new], "mapping": dict(mapping)}, nontrivial=bool(mapping))
                # the way back: all new names sorted as Variable nodes, plus names that are not in the mapping
                inverse = {v: k for k, v in mapping.items()}
                names = sorted(inverse) + rng.sample(["X", "_", "__AUX_99", "Y"], rng.randint(0, 2))
                if rng.random() < 0.3:
                    rng.shuffle(names)
                back = unanonymize_variables([Variable(lits[0].location, n) for n in names] if lits else [], inverse)
                st["cases"] += 1
                yield Case(f"chk_strings2 (unanonymize_variables {ser.strlist(names if lits else [])} {smap(inverse)}) "
                           f"{ser.strlist([v.name for v in back])}",
                           {"fn": "unanonymize_variables", "names": names, "mapping": inverse,
                            "observed": [v.name for v in back]}, nontrivial=bool(back))


def unfiltered_collector(size, prg):
    import ngo.literal_duplication as mod
    saved = mod.LiteralCollector._filter_occurences  # pylint: disable=protected-access
    mod.LiteralCollector._filter_occurences = lambda self: None  # pylint: disable=protected-access
    try:
        return mod.LiteralCollector(size, list(prg), {})
    finally:
        mod.LiteralCollector._filter_occurences = saved  # pylint: disable=protected-access


class DuplicationOccurrences:
    name = "duplication_occurrences"
    imports = IMPORTS
    source = "ngo.literal_duplication.LiteralCollector.__init__ without _filter_occurences (all sizes 2..max)"
    model = "collect_unfiltered"
    filtered = False

    def collector(self, size, prg):
        if self.filtered:
            from ngo.literal_duplication import LiteralCollector
            return LiteralCollector(size, list(prg), {})
        return unfiltered_collector(size, prg)

    def cases(self, inputs, rng):
        st = stat(self.name)
        for kind, text, prg in programs(inputs, rng):
            if not small_enough(prg):
                continue
            new = newprogram_of(prg)
            if new is None:
                continue
            t = serial_prog(new)
            if t is None:
                continue
            oof = any(stmt_out_of_fragment(s) for s in new)
            for size in sizes_for(new, rng):
                obs, js, r = result_text(lambda: self.collector(size, new).occurences,  # pylint: disable=cell-var-from-loop
                                         lambda occ: (occ_text(occ), occ_json(occ)))
                st["cases"] += 1
                st["out_of_fragment"] += oof
                nontrivial = r is not None and any(len(v) > 1 for v in r.values())
                st["changed"] += nontrivial
                yield Case(f"{chk('chk_occ_strict', 'chk_occ', oof)} ({self.model} {size} {t}) {obs}",
                           {"fn": self.model, "kind": kind, "size": size, "program": "\n".join(map(str, new)),
                            "observed": js}, nontrivial=nontrivial)


class DuplicationCollect(DuplicationOccurrences):
    name = "duplication_collect"
    source = "ngo.literal_duplication.LiteralCollector(size, prg, {}).occurences (all sizes 2..max)"
    model = "collect_occurences"
    filtered = True


class DuplicationFilter:
    name = "duplication_filter"
    imports = IMPORTS
    source = "ngo.literal_duplication.LiteralCollector._filter_occurences on the unfiltered keys"

    def cases(self, inputs, rng):
        from ngo.literal_duplication import LiteralCollector
        st = stat(self.name)
        for kind, text, prg in programs(inputs, rng):
            if not small_enough(prg):
                continue
            new = newprogram_of(prg)
            if new is None or serial_prog(new) is None:
                continue
            oof = any(theory_in(s) for s in new)
            for size in sizes_for(new, rng):
                try:
                    keys = list(unfiltered_collector(size, new).occurences.keys())
                except Exception:  # pylint: disable=broad-except
                    continue
                if not keys:
                    continue

                def run():
                    lc = LiteralCollector.__new__(LiteralCollector)
                    lc.occurences = {k: [] for k in keys}  # pylint: disable=cell-var-from-loop
                    lc._filter_occurences()  # pylint: disable=protected-access
                    return list(lc.occurences.keys())
                obs, js, r = result_text(run, lambda ks: (ser.lst([elems(k) for k in ks]),
                                                          [[str(x) for x in k] for k in ks]))
                st["cases"] += 1
                st["out_of_fragment"] += oof
                nontrivial = r is not None and 0 < len(r) < len(keys)
                st["changed"] += nontrivial
                yield Case(f"{chk('chk_keys_strict', 'chk_keys', oof)} (filter_keys {ser.lst([elems(k) for k in keys])}) {obs}",
                           {"fn": "_filter_occurences", "keys": [[str(x) for x in k] for k in keys], "observed": js},
                           nontrivial=nontrivial)


class DuplicationRebuild:
    name = "duplication_rebuild"
    imports = IMPORTS
    source = "ngo.literal_duplication.LiteralCollector.rebuild on the collected RuleRebuilders"

    def cases(self, inputs, rng):
        from ngo.literal_duplication import LiteralCollector, unanonymize_variables
        from ngo.utils.ast import collect_binding_information_body
        st = stat(self.name)
        for kind, text, prg in programs(inputs, rng):
            if not small_enough(prg):
                continue
            new = newprogram_of(prg)
            if new is None:
                continue
            t = serial_prog(new)
            if t is None:
                continue
            oof = any(theory_in(s) for s in new)
            budget = 12
            for size in sizes_for(new, rng):
                try:
                    lc = LiteralCollector(size, list(new), {})
                except Exception:  # pylint: disable=broad-except
                    continue
                entries = [(k, rb) for k, v in lc.occurences.items() for rb in v]
                # prefer builders that sit in conditions / aggregates and keys with several builders
                entries.sort(key=lambda e: (e[1].sub_ast is None, len(lc.occurences[e[0]]) < 2))
                for key, rb in entries[:4]:
                    if budget == 0:
                        break
                    budget -= 1
                    bound = sorted(collect_binding_information_body(key)[0])
                    variables = unanonymize_variables(bound, rb.newvars2oldvars)
                    if rng.random() < 0.2:
                        variables = variables[:1]
                    name = rng.choice(["__aux_1", "__aux_7", "zz"])
                    obs, js, r = result_text(lambda: lc.rebuild(rb, name, variables),  # pylint: disable=cell-var-from-loop
                                             lambda body: (elems(body), [str(x) for x in body]))
                    st["cases"] += 1
                    st["out_of_fragment"] += oof
                    st["changed"] += r is not None
                    yield Case(f"{chk('chk_body_strict', 'chk_body', oof)} (rebuild {t} {rb_text(rb)} {ser.q(name)} "
                               f"{ser.strlist([v.name for v in variables])}) {obs}",
                               {"fn": "rebuild", "program": "\n".join(map(str, new)), "builder": rb_json(rb),
                                "name": name, "variables": [v.name for v in variables], "observed": js},
                               nontrivial=rb.sub_ast is not None)


class DuplicationProcess:
    name = "duplication_process"
    imports = IMPORTS
    source = "LiteralCollector(size, prg, additional).process(UniqueNames(prg, ins)) (all sizes 2..max)"

    def cases(self, inputs, rng):
        from collections import defaultdict
        from ngo.literal_duplication import LiteralCollector
        from ngo.utils.globals import UniqueNames
        st = stat(self.name)
        for kind, text, prg in programs(inputs, rng):
            if not small_enough(prg):
                continue
            new = newprogram_of(prg)
            if new is None:
                continue
            t = serial_prog(new)
            if t is None:
                continue
            oof = any(stmt_out_of_fragment(s) for s in new)
            ins = random_inputs(rng, new) if rng.random() < 0.5 else []
            for size in sizes_for(new, rng):
                def run():
                    work = list(new)  # pylint: disable=cell-var-from-loop
                    additional = defaultdict(list)
                    un = UniqueNames(new, ins)  # pylint: disable=cell-var-from-loop
                    lc = LiteralCollector(size, work, additional)  # pylint: disable=cell-var-from-loop
                    changed = lc.process(un)
                    return sorted(changed), work, sorted(additional.items()), un.auxcounter

                def conv(r):
                    changed, work, additional, counter = r
                    add = ser.lst([f"({k}, {ser.prog(v)})" for k, v in additional])
                    return (f"({nats(changed)}, {ser.prog(work)}, {add}, {counter})",
                            {"changed": changed, "prg": [str(s) for s in work],
                             "additional": [[k, [str(s) for s in v]] for k, v in additional], "auxcounter": counter})
                obs, js, r = result_text(run, conv)
                st["cases"] += 1
                st["out_of_fragment"] += oof
                nontrivial = r is not None and bool(r[0])
                st["changed"] += nontrivial
                yield Case(f"{chk('chk_process_strict', 'chk_process', oof)} "
                           f"(collect_and_process {size} {t} (init_names {t} {preds(ins)})) {obs}",
                           {"fn": "process", "kind": kind, "size": size, "inputs": [str(p) for p in ins],
                            "program": "\n".join(map(str, new)), "observed": js}, nontrivial=nontrivial)


class DuplicationExecute:
    name = "duplication_execute"
    imports = IMPORTS
    source = ("X = ngo.literal_duplication.LiteralDuplicationTranslator(prg, ins); X.execute(prg) on preprocessed "
              "programs with random input predicates (statement list and restore flags)")

    def cases(self, inputs, rng):
        from ngo.literal_duplication import LiteralDuplicationTranslator
        st = stat(self.name)
        for kind, text, prg in programs(inputs, rng):
            if not small_enough(prg):
                continue
            t = serial_prog(prg)
            if t is None:
                continue
            oof = any(stmt_out_of_fragment(s) for s in prg)
            for rnd in range(2):
                ins = [] if rnd == 0 else random_inputs(rng, prg)
                if rnd == 1 and not ins:
                    continue
                before = [str(s) for s in prg]

                def run():
                    out = LiteralDuplicationTranslator(prg, list(ins)).execute(prg)  # pylint: disable=cell-var-from-loop
                    ids = {id(s) for s in prg}  # pylint: disable=cell-var-from-loop
                    return out, [id(s) in ids for s in out]
                obs, js, r = result_text(run, lambda r: (f"({ser.prog(r[0])}, {bools(r[1])})",
                                                         [str(s) for s in r[0]]))
                st["cases"] += 1
                st["out_of_fragment"] += oof
                changed = r is not None and js != before
                st["changed"] += changed
                yield Case(f"{chk('chk_execute_strict', 'chk_execute_flags', oof)} (execute_flags {t} {preds(ins)}) {obs}",
                           {"fn": "LiteralDuplicationTranslator.execute", "kind": kind,
                            "inputs": [str(p) for p in ins], "program": "\n".join(before), "source": text,
                            "observed": js}, nontrivial=changed)


FAMILIES = [DuplicationConstants(), DuplicationReplaceAssignments(), DuplicationSizes(), DuplicationAnonymize(),
            DuplicationOccurrences(), DuplicationFilter(), DuplicationCollect(), DuplicationRebuild(),
            DuplicationProcess(), DuplicationExecute()]


def main():
    import argparse
    import random
    from . import inputs as inp
    ap = argparse.ArgumentParser()
    ap.add_argument("--gen", type=int, default=300)
    ap.add_argument("--seed", type=int, default=0)
    a = ap.parse_args()
    for fam in FAMILIES:
        STATS.clear()
        rng = random.Random(a.seed)
        data = inp.curated() + inp.harvest() + inp.generated(a.seed, a.gen)
        n = sum(1 for _ in fam.cases(data, rng))
        s = STATS.get(fam.name, {})
        print(f"{fam.name}: yielded={n} stats={s}")


if __name__ == "__main__":
    main()
