"""serialize clingo.ast / clingo.Symbol values into Coq term text for NGO.Syntax.Ast"""
from clingo.ast import (ASTType, Sign, ComparisonOperator as CO, BinaryOperator as BO,
                        UnaryOperator as UO, AggregateFunction as AF)
from clingo import SymbolType


class Unsupported(Exception):
    """node kind outside the mirror"""


def q(s):
    return '"' + s.replace('"', '""') + '"'


def z(n):
    return f"({n})%Z" if n < 0 else f"{n}%Z"


def lst(xs):
    return "[" + "; ".join(xs) + "]"


def b(x):
    return "true" if x else "false"


SIGN = {Sign.NoSign: "NoSign", Sign.Negation: "Neg", Sign.DoubleNegation: "NegNeg"}
CMP = {CO.Equal: "CEq", CO.NotEqual: "CNe", CO.LessThan: "CLt", CO.LessEqual: "CLe", CO.GreaterThan: "CGt",
       CO.GreaterEqual: "CGe"}
BIN = {BO.XOr: "BXor", BO.Or: "BOr", BO.And: "BAnd", BO.Plus: "BPlus", BO.Minus: "BMinus", BO.Multiplication: "BMul",
       BO.Division: "BDiv", BO.Modulo: "BMod", BO.Power: "BPow"}
UN = {UO.Minus: "UMinus", UO.Negation: "UNeg", UO.Absolute: "UAbs"}
AGG = {AF.Count: "FCount", AF.Sum: "FSum", AF.SumPlus: "FSumPlus", AF.Min: "FMin", AF.Max: "FMax"}


def sym(s):
    t = s.type
    if t == SymbolType.Number:
        return f"(SNum {z(s.number)})"
    if t == SymbolType.Infimum:
        return "SInf"
    if t == SymbolType.Supremum:
        return "SSup"
    if t == SymbolType.String:
        return f"(SStr {q(s.string)})"
    if t == SymbolType.Function:
        return f"(SFun {q(s.name)} {lst([sym(a) for a in s.arguments])} {b(s.positive)})"
    raise Unsupported(str(s))


def term(t):
    k = t.ast_type
    if k == ASTType.Variable:
        return f"(TVar {q(t.name)})"
    if k == ASTType.SymbolicTerm:
        return f"(TSym {sym(t.symbol)})"
    if k == ASTType.UnaryOperation:
        return f"(TUn {UN[t.operator_type]} {term(t.argument)})"
    if k == ASTType.BinaryOperation:
        return f"(TBin {BIN[t.operator_type]} {term(t.left)} {term(t.right)})"
    if k == ASTType.Interval:
        return f"(TInterval {term(t.left)} {term(t.right)})"
    if k == ASTType.Function:
        return f"(TFun {q(t.name)} {lst([term(a) for a in t.arguments])} {b(t.external)})"
    if k == ASTType.Pool:
        return f"(TPool {lst([term(a) for a in t.arguments])})"
    raise Unsupported(str(k))


def guard(g):
    return "None" if g is None else f"(Some ({CMP[g.comparison]}, {term(g.term)}))"


def condlit(c):
    return f"({lit(c.literal)}, {lst([lit(x) for x in c.condition])})"


def atom(a):
    k = a.ast_type
    if k == ASTType.SymbolicAtom:
        return f"(ASym {term(a.symbol)})"
    if k == ASTType.Comparison:
        return f"(ACmp {term(a.term)} {lst([f'({CMP[g.comparison]}, {term(g.term)})' for g in a.guards])})"
    if k == ASTType.BooleanConstant:
        return f"(ABool {b(a.value)})"
    if k == ASTType.BodyAggregate:
        es = [f"({lst([term(t) for t in e.terms])}, {lst([lit(c) for c in e.condition])})" for e in a.elements]
        return f"(ABodyAgg {guard(a.left_guard)} {AGG[a.function]} {lst(es)} {guard(a.right_guard)})"
    if k == ASTType.Aggregate:
        return f"(AAgg {guard(a.left_guard)} {lst([condlit(e) for e in a.elements])} {guard(a.right_guard)})"
    if k == ASTType.TheoryAtom:
        return f"(ATheory {q(str(a))})"
    raise Unsupported(str(k))


def lit(l):
    if l.ast_type != ASTType.Literal:
        raise Unsupported(str(l.ast_type))
    return f"(Lit {SIGN[l.sign]} {atom(l.atom)})"


def bodyelem(x):
    if x.ast_type == ASTType.Literal:
        return f"(BLit {lit(x)})"
    if x.ast_type == ASTType.ConditionalLiteral:
        return f"(BCond {lit(x.literal)} {lst([lit(c) for c in x.condition])})"
    raise Unsupported(str(x.ast_type))


def head(h):
    k = h.ast_type
    if k == ASTType.Literal:
        return f"(HLit {lit(h)})"
    if k == ASTType.Disjunction:
        return f"(HDisj {lst([condlit(e) for e in h.elements])})"
    if k == ASTType.Aggregate:
        return f"(HAgg {guard(h.left_guard)} {lst([condlit(e) for e in h.elements])} {guard(h.right_guard)})"
    if k == ASTType.HeadAggregate:
        es = [f"({lst([term(t) for t in e.terms])}, {condlit(e.condition)})" for e in h.elements]
        return f"(HHeadAgg {guard(h.left_guard)} {AGG[h.function]} {lst(es)} {guard(h.right_guard)})"
    if k == ASTType.TheoryAtom:
        return f"(HTheory {q(str(h))})"
    raise Unsupported(str(k))


def body(bs):
    return lst([bodyelem(x) for x in bs])


def stmt(s):
    k = s.ast_type
    if k == ASTType.Rule:
        return f"(SRule {s.location.begin.line} {head(s.head)} {body(s.body)})"
    if k == ASTType.Minimize:
        return (f"(SMin {s.location.begin.line} {term(s.weight)} {term(s.priority)} "
                f"{lst([term(t) for t in s.terms])} {body(s.body)})")
    if k == ASTType.ShowSignature:
        return f"(SShowSig {q(s.name)} {s.arity} {b(s.positive)})"
    if k == ASTType.ShowTerm:
        return f"(SShowTerm {term(s.term)} {body(s.body)})"
    return f"(SOther {q(str(k))} {q(str(s))})"


def prog(p):
    return lst([stmt(s) for s in p])


def pred(p):
    return f"({q(p.name)}, {p.arity})"


def spred(p):
    return f"({SIGN[p.sign]}, {pred(p.pred)})"


def strlist(xs):
    return lst([q(x) for x in xs])


def result_ok(text):
    return f"(Ok {text})"


def result_raise(exc):
    return f"(Raise {q(type(exc).__name__)})"
