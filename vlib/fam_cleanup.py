"""correspondence families for coq/Model/Cleanup.v (model of ngo/cleanup.py, CleanupTranslator)

cleanup_mappings       _compute_local_superseed / transitive_closure / _find_superseeded
cleanup_superseeded    _superseeded on pairs of body / condition literals
cleanup_apply          _apply_superseeding (returned statement AND the in-place mutated input),
                       remove_boolean, true / false / remove_true_literals / contains_false / cleanup_boolean_*
cleanup_execute_core   CleanupTranslator.execute with ngo.cleanup.inline_arithmetic patched to the identity
cleanup_execute        the unpatched CleanupTranslator.execute (model: Model/CleanupExecute.v = Normalize.inline_arithmetic
                       followed by execute_core); a model answer OutOfFragment (inherited from inline_arithmetic:
                       variables inside theory atoms) is not compared.  CLEANUP_FRAGMENT=1 turns every case of this
                       family into "is the model inside its fragment?", the mismatches are then the OutOfFragment cases.

Sets of Mapping are compared modulo order (mset_eqb).  The real code mutates aggregate nodes of its
input in place, so it is always handed statements that were parsed (or preprocessed) for that one
call; the Coq text of the input is produced before the call.  Exceptions of the real code are
observed results (Raise "<class>").  Programs with node kinds outside the AST mirror are skipped and
counted in SKIPPED.
"""
import logging
import os

from clingo.ast import ASTType, Sign

from . import ser
from .corr import Case
from .inputs import parse, try_parse

IMPORTS = ["Model.Traverse", "Model.Cleanup"]
SKIPPED = {"cleanup_mappings": 0, "cleanup_superseeded": 0, "cleanup_apply": 0, "cleanup_execute_core": 0,
           "cleanup_execute": 0}
FRAGMENT_MODE = bool(os.environ.get("CLEANUP_FRAGMENT"))
SIGNS = [Sign.NoSign, Sign.NoSign, Sign.NoSign, Sign.Negation, Sign.DoubleNegation]


# ------------------------------------------------------------------------------------------------
# serialisation helpers (local to this file)
# ------------------------------------------------------------------------------------------------
def nats(xs):
    return ser.lst([str(int(x)) for x in xs])


def mapping(m):
    return f"(mkMapping {ser.pred(m.head_pred)} {ser.spred(m.body_pred)} {nats(m.var_map)})"


def mappings(ms):
    return ser.lst([mapping(m) for m in ms])


def mstr(ms):
    return sorted(f"{m.head_pred}->{int(m.body_pred.sign)}:{m.body_pred.pred}{list(m.var_map)}" for m in ms)


def preds(ps):
    return ser.lst([ser.pred(p) for p in ps])


def observe(fn, conv):
    """run fn; (Coq text of a `result`, json-able)"""
    try:
        r = fn()
    except Exception as e:  # pylint: disable=broad-except
        return ser.result_raise(e), "raise " + type(e).__name__
    text, js = conv(r)
    return ser.result_ok(text), js


def programs(inputs, fam):
    """(text, Coq text) of every input program that parses and lies inside the mirror"""
    seen = set()
    for inp in inputs:
        text = inp["text"]
        if text in seen:
            continue
        seen.add(text)
        prg = try_parse(text)
        if prg is None:
            continue
        try:
            t = ser.prog(prg)
        except ser.Unsupported:
            SKIPPED[fam] += 1
            continue
        yield text, t


def prog_preds(prg):
    from ngo.utils.ast import predicates
    out = []
    for s in prg:
        for sp in predicates(s):
            if sp.pred not in out:
                out.append(sp.pred)
    return out


def random_inputs(rng, prg):
    """a random list of input predicates (possibly with repetitions / foreign predicates)"""
    from ngo.utils.ast import Predicate
    ps = prog_preds(prg)
    r = rng.random()
    if r < 0.45 or not ps:
        return []
    out = [rng.choice(ps) for _ in range(rng.randint(1, 3))]
    if rng.random() < 0.2:
        out.append(Predicate("foreign", 1))
    return out


def random_mappings(rng, pool, n, wellformed=True):
    """random Mapping set over the predicates in pool; wellformed: len(var_map) = arity of the body
    predicate and every entry < arity of the head predicate"""
    from ngo.cleanup import Mapping
    from ngo.utils.ast import SignedPredicate
    out = set()
    for _ in range(n):
        hp = rng.choice(pool)
        bp = rng.choice(pool)
        if wellformed or rng.random() < 0.5:
            if hp.arity == 0 and bp.arity > 0:
                continue
            vm = tuple(rng.randrange(hp.arity) for _ in range(bp.arity))
        else:
            vm = tuple(rng.randrange(4) for _ in range(rng.randint(0, 3)))
        out.add(Mapping(hp, SignedPredicate(rng.choice(SIGNS), bp), vm))
    return out


# ------------------------------------------------------------------------------------------------
# seeded generator of programs in which literals are implied by others
# ------------------------------------------------------------------------------------------------
class CGen:
    PREDS = [("p", 1), ("q", 1), ("r", 1), ("s", 2), ("t", 2), ("u", 0), ("v", 3), ("p", 2)]
    ARGS = ["X", "X", "Y", "Y", "Z", "1", "2", "_", "f(X)", "X+1"]

    def __init__(self, rng):
        self.r = rng

    def atom(self, args=None):
        n, a = self.r.choice(self.PREDS)
        if a == 0:
            return n
        pool = args or self.ARGS[: self.r.choice([3, 5, 7, 10])]
        return f"{n}({','.join(self.r.choice(pool) for _ in range(a))})"

    def lit(self, args=None, boolp=0.0):
        if self.r.random() < boolp:
            return self.r.choice(["#true", "#false", "#true", "not not #true"])
        return self.r.choice(["", "", "", "", "not ", "not not "]) + self.atom(args)

    def lits(self, lo, hi, args=None, boolp=0.0):
        return ", ".join(self.lit(args, boolp) for _ in range(self.r.randint(lo, hi)))

    def defrule(self):
        """a rule that defines mappings: few distinct arguments so that body arguments occur in the head"""
        args = self.r.choice([["X"], ["X", "Y"], ["X", "Y", "Y"], ["X", "Y", "1"], ["X", "Y", "Z", "_"], ["X", "f(X)", "1"]])
        k = self.r.random()
        body = self.lits(0, 3, args)
        if k < 0.55:
            head = self.atom(args)
        elif k < 0.7:
            head = "{ " + "; ".join(self.atom(args) + (" : " + self.lits(1, 2, args) if self.r.random() < 0.7 else "")
                                    for _ in range(self.r.randint(1, 3))) + " }"
        elif k < 0.82:
            head = "; ".join(self.r.choice(["", "", "not "]) + self.atom(args)
                             + (" : " + self.lits(1, 2, args) if self.r.random() < 0.6 else "")
                             for _ in range(self.r.randint(2, 3)))
        elif k < 0.94:
            head = "#sum { " + "; ".join(f"1,{self.r.choice(args)} : {self.atom(args)}"
                                         + (" : " + self.lits(1, 2, args) if self.r.random() < 0.7 else "")
                                         for _ in range(self.r.randint(1, 3))) + " } >= 1"
        else:
            head = "not " + self.atom(args)
        return f"{head} :- {body}." if body else f"{head}."

    def cond(self, boolp):
        return self.lits(1, 4, None, boolp)

    def userule(self):
        """a statement whose body / conditions may contain implied literals, duplicates and booleans"""
        boolp = self.r.choice([0.0, 0.0, 0.15, 0.3])
        elems = []
        for _ in range(self.r.randint(1, 5)):
            k = self.r.random()
            if k < 0.62:
                elems.append(self.lit(None, boolp))
            elif k < 0.74:
                elems.append(f"{self.lit(None, boolp / 2)} : {self.cond(boolp)}")
            elif k < 0.86:
                es = "; ".join(f"{self.r.choice(['X', '1', 'X,Y'])} : {self.cond(boolp)}" for _ in range(self.r.randint(1, 3)))
                elems.append(f"{self.r.choice(['', 'not ', 'not not '])}{self.r.choice(['#sum', '#count', '#min'])} {{ {es} }} "
                             f"{self.r.choice(['>', '=', '<='])} {self.r.choice(['1', 'X', 'Z'])}")
            else:
                es = "; ".join(f"{self.lit()} : {self.cond(boolp)}" for _ in range(self.r.randint(1, 2)))
                elems.append(f"{self.r.choice(['', 'not '])}{self.r.choice(['', '1 '])}{{ {es} }}{self.r.choice(['', ' 2'])}")
        if self.r.random() < 0.3:
            elems = elems + [self.r.choice(elems)]           # duplicates
        self.r.shuffle(elems)
        body = "; ".join(elems)
        k = self.r.random()
        if k < 0.65:
            return f"{self.r.choice(['', 'a', 'a(X)', self.atom()])} :- {body}."
        if k < 0.85:
            return f":~ {body}. [{self.r.choice(['1', 'X'])}@1]"
        c = self.cond(boolp)
        return f"#minimize {{ {self.r.choice(['1', 'X'])}@1,{self.r.choice(['X', 'Y'])} : {c} }}."

    def program(self):
        for _ in range(50):
            stms = [self.defrule() for _ in range(self.r.randint(1, 5))] + [self.userule() for _ in range(self.r.randint(1, 3))]
            if self.r.random() < 0.3:
                self.r.shuffle(stms)
            txt = "\n".join(stms)
            if try_parse(txt) is not None:
                return txt
        return "a."


def with_synthetic(inputs, rng, n):
    g = CGen(rng)
    return list(inputs) + [{"origin": f"cleanup-gen:{i}", "text": g.program()} for i in range(n)]


# ------------------------------------------------------------------------------------------------
class CleanupMappings:
    name = "cleanup_mappings"
    imports = IMPORTS
    source = "ngo.cleanup.CleanupTranslator._compute_local_superseed / transitive_closure / _find_superseeded"

    def cases(self, inputs, rng):
        from ngo.cleanup import CleanupTranslator
        from ngo.utils.ast import Predicate
        logging.disable(logging.CRITICAL)
        conv = lambda s: (mappings(s), mstr(s))  # noqa: E731
        inputs = with_synthetic(inputs, rng, 150)
        previous = None
        for text, t in programs(inputs, self.name):
            prg = parse(text)
            pool = prog_preds(prg)
            # ---- _compute_local_superseed(pred, rule) for every statement and every predicate of it
            found = set()
            seen_nonrule = False
            for s in prg:
                from ngo.utils.ast import predicates
                ps = []
                for sp in predicates(s):
                    if sp.pred not in ps:
                        ps.append(sp.pred)
                if s.ast_type != ASTType.Rule:
                    if seen_nonrule:
                        continue
                    seen_nonrule = True            # assert rule.ast_type == Rule: one witness per program
                    ps = ps[:1] or [Predicate("a", 0)]
                elif pool and rng.random() < 0.3:
                    ps.append(rng.choice(pool))    # a predicate that need not occur in the head
                st = ser.stmt(s)
                for p in ps:
                    ct = CleanupTranslator([])

                    def local(ct=ct, p=p, s=s):
                        r = ct._compute_local_superseed(p, s)  # pylint: disable=protected-access
                        found.update(r)
                        return r
                    obs, js = observe(local, conv)
                    yield Case(f"chk_mappings (_compute_local_superseed {ser.pred(p)} {st}) {obs}",
                               {"fn": "_compute_local_superseed", "pred": str(p), "stmt": str(s), "observed": js},
                               nontrivial=bool(js) and not isinstance(js, str))
            # ---- transitive_closure on the union of the local sets and on random sets
            sets = [found]
            if pool:
                sets.append(random_mappings(rng, pool, rng.randint(1, 6)))
                sets.append(found | random_mappings(rng, pool, rng.randint(1, 4)))
                if rng.random() < 0.3:
                    sets.append(random_mappings(rng, pool, rng.randint(1, 5), wellformed=False))
            for a in sets:
                obs, js = observe(lambda: CleanupTranslator.transitive_closure(set(a)), conv)  # pylint: disable=cell-var-from-loop
                yield Case(f"chk_mappings (transitive_closure {mappings(a)}) {obs}",
                           {"fn": "transitive_closure", "input": mstr(a), "observed": js},
                           nontrivial=isinstance(js, str) or len(js) > len(a))
            # ---- _find_superseeded(prg) with random input predicates
            for ins in ([], random_inputs(rng, prg), random_inputs(rng, prg)):
                ct = CleanupTranslator(list(ins))
                fresh = parse(text)

                def run(ct=ct, fresh=fresh):
                    ct._find_superseeded(fresh)  # pylint: disable=protected-access
                    return ct.superseeds
                obs, js = observe(run, conv)
                yield Case(f"chk_mappings (_find_superseeded {preds(ins)} [] {t}) {obs}",
                           {"fn": "_find_superseeded", "inputs": [str(p) for p in ins], "program": text, "observed": js},
                           nontrivial=bool(js))
            # ---- the state survives a second call on another program
            if previous is not None and rng.random() < 0.25:
                ptext, pt = previous
                ins = random_inputs(rng, prg)
                ct = CleanupTranslator(list(ins))

                def run2(ct=ct, ptext=ptext, text=text):
                    ct._find_superseeded(parse(ptext))  # pylint: disable=protected-access
                    ct._find_superseeded(parse(text))  # pylint: disable=protected-access
                    return ct.superseeds
                obs, js = observe(run2, conv)
                yield Case(f"chk_mappings (rbind (_find_superseeded {preds(ins)} [] {pt}) "
                           f"(fun s => _find_superseeded {preds(ins)} s {t})) {obs}",
                           {"fn": "_find_superseeded twice", "inputs": [str(p) for p in ins],
                            "program": ptext + "\n%%%%\n" + text, "observed": js}, nontrivial=bool(js))
            previous = (text, t)


# ------------------------------------------------------------------------------------------------
def _lists_of(stm):
    """the literal lists of a statement on which _remove_superseed_from_list is run"""
    if stm.ast_type not in (ASTType.Rule, ASTType.Minimize):
        return
    yield list(stm.body)
    for b in stm.body:
        if b.ast_type == ASTType.ConditionalLiteral:
            yield list(b.condition)
        elif b.ast_type == ASTType.Literal and b.atom.ast_type in (ASTType.BodyAggregate, ASTType.Aggregate):
            for e in b.atom.elements:
                yield list(e.condition)


def _pairs(rng, stm, cap=24):
    out = []
    for lst in _lists_of(stm):
        ps = [(x, y) for i, x in enumerate(lst) for j, y in enumerate(lst) if i != j]
        if lst and rng.random() < 0.2:
            x = rng.choice(lst)
            ps.append((x, x))
        out.extend(ps)
    if len(out) > cap:
        out = rng.sample(out, cap)
    return out


def _rbool(fn):
    try:
        r = fn()
    except Exception as e:  # pylint: disable=broad-except
        return ser.result_raise(e), "raise " + type(e).__name__
    assert isinstance(r, bool)
    return f"(Ok {ser.b(r)})", r


class CleanupSuperseeded:
    name = "cleanup_superseeded"
    imports = IMPORTS
    source = "ngo.cleanup.CleanupTranslator._superseeded after _find_superseeded (and with injected mapping sets)"

    def cases(self, inputs, rng):
        from ngo.cleanup import CleanupTranslator
        logging.disable(logging.CRITICAL)
        inputs = with_synthetic(inputs, rng, 150)
        for text, t in programs(inputs, self.name):
            prg = parse(text)
            ins = random_inputs(rng, prg)
            ct = CleanupTranslator(list(ins))
            ct._find_superseeded(prg)  # pylint: disable=protected-access
            pool = prog_preds(prg)
            injected = None
            if pool and rng.random() < 0.5:
                injected = CleanupTranslator([])
                injected.superseeds = random_mappings(rng, pool, rng.randint(2, 10), wellformed=rng.random() < 0.5)
                order = list(injected.superseeds)      # the iteration order the real loop will see
            for s in prg:
                pairs = _pairs(rng, s)
                if not pairs:
                    continue
                ptxt = ser.lst([f"({ser.bodyelem(x)}, {ser.bodyelem(y)})" for x, y in pairs])
                obs = [_rbool(lambda x=x, y=y: ct._superseeded(x, y)) for x, y in pairs]  # pylint: disable=protected-access
                yield Case(f"chk_superseeded_pairs {preds(ins)} {t} {ptxt} {ser.lst([o[0] for o in obs])}",
                           {"fn": "_superseeded", "inputs": [str(p) for p in ins], "program": text, "stmt": str(s),
                            "pairs": [f"{x} >> {y}" for x, y in pairs], "observed": [o[1] for o in obs]},
                           nontrivial=any(o[1] is True for o in obs))
                if injected is not None:
                    obs = [_rbool(lambda x=x, y=y: injected._superseeded(x, y)) for x, y in pairs]  # pylint: disable=protected-access
                    yield Case(f"chk_rbools (map (fun p => superseeded_elem bodyelem_as_lit {mappings(order)} (fst p) (snd p)) "
                               f"{ptxt}) {ser.lst([o[0] for o in obs])}",
                               {"fn": "_superseeded (injected superseeds)", "superseeds": mstr(order), "stmt": str(s),
                                "pairs": [f"{x} >> {y}" for x, y in pairs], "observed": [o[1] for o in obs]},
                               nontrivial=any(o[1] is not False for o in obs))


# ------------------------------------------------------------------------------------------------
def _rstmt(fn):
    try:
        r = fn()
    except Exception as e:  # pylint: disable=broad-except
        return ser.result_raise(e), "raise " + type(e).__name__
    return f"(Ok {ser.stmt(r)})", str(r)


class CleanupApply:
    name = "cleanup_apply"
    imports = IMPORTS
    source = ("ngo.cleanup.CleanupTranslator._apply_superseeding (result and mutated input) / remove_boolean / true / false / "
              "remove_true_literals / contains_false / cleanup_boolean_conditionals / cleanup_boolean_aggregates")

    def _apply(self, ct, prg):
        rets, afters = [], []
        for s in prg:
            rets.append(_rstmt(lambda s=s: ct._apply_superseeding(s)))  # pylint: disable=protected-access
            afters.append(_rstmt(lambda s=s: s))
        return rets, afters

    def cases(self, inputs, rng):
        from ngo.cleanup import CleanupTranslator as CT
        logging.disable(logging.CRITICAL)
        inputs = with_synthetic(inputs, rng, 200)
        seen = set()
        for text, t in programs(inputs, self.name):
            # ---- _apply_superseeding on every statement, after _find_superseeded of the program
            for ins in ([], random_inputs(rng, parse(text))):
                prg = parse(text)
                before = [str(s) for s in prg]
                ct = CT(list(ins))
                ct._find_superseeded(prg)  # pylint: disable=protected-access
                rets, afters = self._apply(ct, prg)
                yield Case(f"chk_apply_all {preds(ins)} {t} {ser.lst([r[0] for r in rets])} {ser.lst([a[0] for a in afters])}",
                           {"fn": "_apply_superseeding", "inputs": [str(p) for p in ins], "program": text,
                            "returned": [r[1] for r in rets], "input_after": [a[1] for a in afters]},
                           nontrivial=any(r[1] != b for r, b in zip(rets, before)))
            # ---- the same with an arbitrary (well-formed) relation instead of the derived one
            prg = parse(text)
            pool = prog_preds(prg)
            if pool and rng.random() < 0.6:
                before = [str(s) for s in prg]
                ct = CT([])
                ct.superseeds = random_mappings(rng, pool, rng.randint(2, 12))
                ms = mappings(list(ct.superseeds))
                rets, afters = self._apply(ct, prg)
                yield Case(f"(chk_rstmts (map (_apply_superseeding {ms}) {t}) {ser.lst([r[0] for r in rets])} && "
                           f"chk_rstmts (map (_apply_superseeding_input_after {ms}) {t}) {ser.lst([a[0] for a in afters])})",
                           {"fn": "_apply_superseeding (injected superseeds)", "superseeds": mstr(ct.superseeds),
                            "program": text, "returned": [r[1] for r in rets], "input_after": [a[1] for a in afters]},
                           nontrivial=any(r[1] != b for r, b in zip(rets, before)))
            # ---- remove_boolean and its helpers, per distinct statement
            for s in parse(text):
                k = str(s)
                if k in seen:
                    continue
                seen.add(k)
                st = ser.stmt(s)
                r = CT([]).remove_boolean(s)
                obs = "None" if r is None else f"(Some {ser.stmt(r)})"
                yield Case(f"chk_ostmt (remove_boolean {st}) {obs}",
                           {"fn": "remove_boolean", "stmt": k, "observed": None if r is None else str(r)},
                           nontrivial=r is None or str(r) != k)
                if s.ast_type not in (ASTType.Rule, ASTType.Minimize):
                    continue
                body = list(s.body)
                bt = ser.body(body)
                for fn in ("cleanup_boolean_aggregates", "cleanup_boolean_conditionals", "remove_true_literals"):
                    r = getattr(CT, fn)(body)
                    yield Case(f"chk_body ({fn} {bt}) {ser.body(r)}",
                               {"fn": fn, "stmt": k, "observed": [str(x) for x in r]},
                               nontrivial=[str(x) for x in r] != [str(x) for x in body])
                r = CT.contains_false(body)
                yield Case(f"Bool.eqb (contains_false {bt}) {ser.b(r)}", {"fn": "contains_false", "stmt": k, "observed": r},
                           nontrivial=r)
                tr = [CT.true(x) for x in body]
                fa = [CT.false(x) for x in body]
                yield Case(f"(chk_bools (map ct_true {bt}) {ser.lst([ser.b(x) for x in tr])} && "
                           f"chk_bools (map ct_false {bt}) {ser.lst([ser.b(x) for x in fa])})",
                           {"fn": "true/false", "stmt": k, "observed": [tr, fa]}, nontrivial=any(tr) or any(fa))
                conds = [c for lst in list(_lists_of(s))[1:] for c in lst]
                if conds:
                    ct_ = ser.lst([ser.lit(c) for c in conds])
                    tr = [CT.true(x) for x in conds]
                    fa = [CT.false(x) for x in conds]
                    rt = CT.remove_true_literals(conds)
                    cf = CT.contains_false(conds)
                    yield Case(f"(chk_bools (map true_lit {ct_}) {ser.lst([ser.b(x) for x in tr])} && "
                               f"chk_bools (map false_lit {ct_}) {ser.lst([ser.b(x) for x in fa])} && "
                               f"list_eqb lit_eqb (remove_true_literals_cond {ct_}) {ser.lst([ser.lit(c) for c in rt])} && "
                               f"Bool.eqb (contains_false_cond {ct_}) {ser.b(cf)})",
                               {"fn": "true/false/remove_true_literals/contains_false on conditions", "stmt": k,
                                "observed": [tr, fa, [str(x) for x in rt], cf]}, nontrivial=any(tr) or any(fa))


# ------------------------------------------------------------------------------------------------
class CleanupExecuteCore:
    name = "cleanup_execute_core"
    imports = IMPORTS
    source = "ngo.cleanup.CleanupTranslator.execute with ngo.cleanup.inline_arithmetic patched to `lambda prg: list(prg)`"
    model = "execute_core"
    chk = "chk_rprog"
    fn = "execute (inline_arithmetic = identity)"

    @staticmethod
    def run(ins, prg):
        import ngo.cleanup as mod
        saved = mod.inline_arithmetic
        mod.inline_arithmetic = lambda prg: list(prg)
        try:
            return mod.CleanupTranslator(list(ins)).execute(prg)
        finally:
            mod.inline_arithmetic = saved

    def cases(self, inputs, rng):
        from ngo.normalize import preprocess
        logging.disable(logging.CRITICAL)
        inputs = with_synthetic(inputs, rng, 200)
        seen = set()
        for inp in inputs:
            text = inp["text"]
            if text in seen or try_parse(text) is None:
                continue
            seen.add(text)
            variants = [("raw", lambda: parse(text))]  # pylint: disable=cell-var-from-loop
            variants.append(("preprocessed", lambda: preprocess(parse(text))))  # pylint: disable=cell-var-from-loop
            for kind, make in variants:
                for ins_round in range(2):
                    try:
                        prg = make()
                        t = ser.prog(prg)          # before the call: execute mutates aggregate nodes in place
                    except ser.Unsupported:
                        SKIPPED[self.name] += 1
                        break
                    except Exception:  # pylint: disable=broad-except
                        break                      # preprocess itself failed on this input
                    ins = [] if ins_round == 0 else random_inputs(rng, prg)
                    if ins_round == 1 and not ins:
                        continue
                    before = [str(s) for s in prg]
                    try:
                        obs, js = observe(lambda: self.run(ins, prg),  # pylint: disable=cell-var-from-loop
                                          lambda r: (ser.prog(r), [str(s) for s in r]))
                    except ser.Unsupported:
                        SKIPPED[self.name] += 1
                        continue
                    desc = {"fn": self.fn, "kind": kind, "inputs": [str(p) for p in ins], "program": "\n".join(before),
                            "source": text, "observed": js}
                    if FRAGMENT_MODE and self.name == "cleanup_execute":
                        yield Case(f"in_fragment ({self.model} {preds(ins)} {t})", desc, nontrivial=js != before)
                    else:
                        yield Case(f"{self.chk} ({self.model} {preds(ins)} {t}) {obs}", desc, nontrivial=js != before)


class CleanupExecute(CleanupExecuteCore):
    name = "cleanup_execute"
    imports = IMPORTS + ["Model.CleanupExecute"]
    source = "ngo.cleanup.CleanupTranslator(inputs).execute(prg) (unpatched: inline_arithmetic, then the cleanup)"
    model = "execute"
    chk = "chk_rprog_frag"
    fn = "execute"

    @staticmethod
    def run(ins, prg):
        from ngo.cleanup import CleanupTranslator
        return CleanupTranslator(list(ins)).execute(prg)


FAMILIES = [CleanupMappings(), CleanupSuperseeded(), CleanupApply(), CleanupExecuteCore(), CleanupExecute()]
