"""Purity census (C17): a syntactic inventory of the places in /repo/src/ngo whose behaviour can depend on
Python set iteration order (PYTHONHASHSEED) or on state that outlives one optimize() call.

Uses Python's `ast` only.  The result is emitted as Coq data (Gen/Purity.v); Link/PurityCensus.v states that it
equals the audited list committed there, so a change that adds, removes or alters such a site breaks a proof
obligation and triggers the search (fresh processes under many hash seeds, aliasing / history checks).

Kinds
  iter      `for x in E`, comprehension generator over E, list(E) / tuple(E) / iter(E) / enumerate(E) / next(..E..),
            E.pop(), *E, chain(..E..) -- where E is *unordered*: set valued, or a sequence built by iterating
            something unordered without sorting
  state     module level or class level mutable value, `global`, functools cache decorators, mutable default
"""
import ast
import os

SET_METHODS = {"union", "intersection", "difference", "symmetric_difference", "copy"}
SET_FUNCS = {"set", "frozenset"}
ORDER_CONSUMERS = {"list", "tuple", "iter", "enumerate", "next", "reversed", "zip", "chain", "map", "filter", "deque",
                   "join", "from_iterable", "product", "combinations", "permutations"}
ORDER_FREE = {"sorted", "set", "frozenset", "len", "any", "all", "sum", "min", "max", "bool", "Counter"}


def ann_is_set(a):
    if a is None:
        return False
    t = ast.unparse(a).replace(" ", "")
    for pre in ("set[", "Set[", "frozenset[", "FrozenSet[", "Optional[set[", "Optional[Set[", "AbstractSet["):
        if t.startswith(pre):
            return True
    return t in ("set", "Set", "frozenset")


def ann_is_dict_of_set(a):
    if a is None:
        return False
    t = ast.unparse(a).replace(" ", "")
    if not (t.startswith("dict[") or t.startswith("Dict[") or t.startswith("defaultdict[") or t.startswith("DefaultDict[")):
        return False
    inner = t[t.index("[") + 1:-1]
    depth = 0
    for i, c in enumerate(inner):
        if c == "[":
            depth += 1
        elif c == "]":
            depth -= 1
        elif c == "," and depth == 0:
            v = inner[i + 1:]
            return v.startswith(("set[", "Set[", "frozenset[")) or v in ("set", "Set")
    return False


class Env:
    def __init__(self, ret_sets, class_attrs, class_dictsets):
        self.ret_sets = ret_sets            # function / method names returning a set
        self.sets = set()                   # local names that are unordered
        self.dictsets = set()               # local names: dict whose values are sets
        self.attrs = class_attrs            # self.<attr> unordered
        self.attr_dictsets = class_dictsets

    def key(self, e):
        if isinstance(e, ast.Name):
            return e.id
        if isinstance(e, ast.Attribute) and isinstance(e.value, ast.Name) and e.value.id in ("self", "cls"):
            return "self." + e.attr
        return None

    def unordered(self, e):
        """is expression e unordered (iteration order depends on hashing)?"""
        if isinstance(e, (ast.Set, ast.SetComp)):
            return True
        k = self.key(e)
        if k is not None:
            return k in self.sets or k in self.attrs
        if isinstance(e, ast.Subscript):
            k = self.key(e.value)
            return k is not None and (k in self.dictsets or k in self.attr_dictsets)
        if isinstance(e, ast.BinOp) and isinstance(e.op, (ast.BitOr, ast.BitAnd, ast.Sub, ast.BitXor)):
            return self.unordered(e.left) or self.unordered(e.right)
        if isinstance(e, ast.IfExp):
            return self.unordered(e.body) or self.unordered(e.orelse)
        if isinstance(e, (ast.ListComp, ast.GeneratorExp)):
            return any(self.unordered(g.iter) for g in e.generators)
        if isinstance(e, ast.Starred):
            return self.unordered(e.value)
        if isinstance(e, ast.Call):
            f = e.func
            name = f.id if isinstance(f, ast.Name) else f.attr if isinstance(f, ast.Attribute) else None
            if name in SET_FUNCS:
                return True
            if name == "sorted":
                return False
            if isinstance(f, ast.Attribute):
                if name in SET_METHODS and self.unordered(f.value):
                    return True
                if name in ("get", "pop", "setdefault"):
                    k = self.key(f.value)
                    if k is not None and (k in self.dictsets or k in self.attr_dictsets):
                        return True
            if name in self.ret_sets:
                return True
            if name in ("list", "tuple", "iter", "reversed", "enumerate", "chain", "from_iterable", "map", "filter",
                        "zip", "deque"):
                return any(self.unordered(a) for a in e.args)
        return False


def collect_signatures(trees):
    ret_sets = set()
    for tree in trees.values():
        for n in ast.walk(tree):
            if isinstance(n, (ast.FunctionDef, ast.AsyncFunctionDef)) and ann_is_set(n.returns):
                ret_sets.add(n.name)
    return ret_sets


def class_fields(cls):
    attrs, dictsets = set(), set()
    for n in ast.walk(cls):
        tgt = val = ann = None
        if isinstance(n, ast.AnnAssign):
            tgt, val, ann = n.target, n.value, n.annotation
        elif isinstance(n, ast.Assign) and len(n.targets) == 1:
            tgt, val = n.targets[0], n.value
        if tgt is None or not (isinstance(tgt, ast.Attribute) and isinstance(tgt.value, ast.Name) and tgt.value.id == "self"):
            continue
        name = "self." + tgt.attr
        if ann_is_set(ann) or isinstance(val, (ast.Set, ast.SetComp)) or (
                isinstance(val, ast.Call) and isinstance(val.func, ast.Name) and val.func.id in SET_FUNCS):
            attrs.add(name)
        if ann_is_dict_of_set(ann) or (isinstance(val, ast.Call) and isinstance(val.func, ast.Name)
                                       and val.func.id == "defaultdict" and val.args
                                       and isinstance(val.args[0], ast.Name) and val.args[0].id in SET_FUNCS):
            dictsets.add(name)
    return attrs, dictsets


def scan_function(fn, env, emit):
    """two passes over the body: first learn local unordered names (to a fixpoint), then report sites"""
    for a in list(fn.args.args) + list(fn.args.kwonlyargs) + ([fn.args.vararg] if fn.args.vararg else []):
        if ann_is_set(a.annotation):
            env.sets.add(a.arg)
        if ann_is_dict_of_set(a.annotation):
            env.dictsets.add(a.arg)
    for _ in range(4):
        before = (len(env.sets), len(env.dictsets))
        for n in ast.walk(fn):
            tgt = val = ann = None
            if isinstance(n, ast.AnnAssign):
                tgt, val, ann = n.target, n.value, n.annotation
            elif isinstance(n, ast.Assign) and len(n.targets) == 1:
                tgt, val = n.targets[0], n.value
            elif isinstance(n, ast.AugAssign):
                tgt, val = n.target, n.value
            elif isinstance(n, (ast.For, ast.comprehension)):
                # a loop variable ranging over the values of a dict of sets is a set
                it = n.iter
                if isinstance(it, ast.Call) and isinstance(it.func, ast.Attribute) and it.func.attr in ("values", "items"):
                    k = env.key(it.func.value)
                    if k is not None and (k in env.dictsets or k in env.attr_dictsets):
                        t = n.target
                        if it.func.attr == "values" and isinstance(t, ast.Name):
                            env.sets.add(t.id)
                        if it.func.attr == "items" and isinstance(t, ast.Tuple) and len(t.elts) == 2 and isinstance(t.elts[1], ast.Name):
                            env.sets.add(t.elts[1].id)
                continue
            if tgt is None:
                continue
            k = env.key(tgt)
            if k is None:
                continue
            if ann_is_set(ann) or (val is not None and env.unordered(val)):
                env.sets.add(k)
            if ann_is_dict_of_set(ann) or (isinstance(val, ast.Call) and isinstance(val.func, ast.Name)
                                           and val.func.id == "defaultdict" and val.args
                                           and isinstance(val.args[0], ast.Name) and val.args[0].id in SET_FUNCS):
                env.dictsets.add(k)
        if (len(env.sets), len(env.dictsets)) == before:
            break

    # order-free contexts: the direct argument of sorted()/set()/any()/... or a set comprehension
    free = set()
    for n in ast.walk(fn):
        if isinstance(n, ast.Call):
            f = n.func
            name = f.id if isinstance(f, ast.Name) else f.attr if isinstance(f, ast.Attribute) else None
            if name in ORDER_FREE or (isinstance(f, ast.Attribute) and name in (
                    "update", "union", "intersection", "difference", "intersection_update", "difference_update",
                    "issubset", "issuperset", "isdisjoint", "symmetric_difference")):
                for a in n.args:
                    free.add(id(a))
        if isinstance(n, ast.SetComp):
            free.add(id(n))
    for n in ast.walk(fn):
        if isinstance(n, ast.For) and env.unordered(n.iter):
            emit("for", n.iter)
        elif isinstance(n, (ast.ListComp, ast.GeneratorExp, ast.DictComp, ast.SetComp)):
            if id(n) in free:
                continue
            for g in n.generators:
                if env.unordered(g.iter):
                    emit("comp" if not isinstance(n, ast.SetComp) else "setcomp", g.iter)
        elif isinstance(n, ast.Call):
            f = n.func
            name = f.id if isinstance(f, ast.Name) else f.attr if isinstance(f, ast.Attribute) else None
            if name in ORDER_CONSUMERS and id(n) not in free:
                for a in n.args:
                    if env.unordered(a) and not isinstance(a, (ast.ListComp, ast.GeneratorExp)):
                        emit(name, a)
            if isinstance(f, ast.Attribute) and name == "pop" and not n.args and env.unordered(f.value):
                emit("pop", f.value)
            for a in n.args:
                if isinstance(a, ast.Starred) and env.unordered(a.value):
                    emit("star", a.value)


MUTABLE_CALLS = {"list", "dict", "set", "defaultdict", "OrderedDict", "Counter", "deque"}


def is_mutable_value(v):
    if isinstance(v, (ast.List, ast.Dict, ast.Set, ast.ListComp, ast.DictComp, ast.SetComp)):
        return True
    return isinstance(v, ast.Call) and isinstance(v.func, ast.Name) and v.func.id in MUTABLE_CALLS


def scan_state(path, tree, out):
    def top(body, where):
        for n in body:
            if isinstance(n, ast.Assign):
                for t in n.targets:
                    if isinstance(t, ast.Name) and is_mutable_value(n.value):
                        out.append((path, where, "mutable " + t.id))
            elif isinstance(n, ast.AnnAssign) and isinstance(n.target, ast.Name) and n.value is not None \
                    and is_mutable_value(n.value):
                out.append((path, where, "mutable " + n.target.id))
    top(tree.body, "<module>")
    for n in ast.walk(tree):
        if isinstance(n, ast.ClassDef):
            top(n.body, n.name)
        elif isinstance(n, ast.Global):
            out.append((path, "<global>", "global " + ",".join(n.names)))
        elif isinstance(n, (ast.FunctionDef, ast.AsyncFunctionDef)):
            for d in n.decorator_list:
                t = ast.unparse(d)
                if "cache" in t:
                    out.append((path, n.name, "decorator " + t))
            for d in list(n.args.defaults) + [x for x in n.args.kw_defaults if x is not None]:
                if is_mutable_value(d):
                    out.append((path, n.name, "mutable default " + ast.unparse(d)))


def census(src):
    trees = {}
    for root, _, files in sorted(os.walk(src)):
        for f in sorted(files):
            if f.endswith(".py"):
                p = os.path.join(root, f)
                with open(p, encoding="utf-8") as fh:
                    trees[os.path.relpath(p, src)] = ast.parse(fh.read())
    ret_sets = collect_signatures(trees)
    sites, state = [], []
    for path, tree in sorted(trees.items()):
        scan_state(path, tree, state)

        def visit(body, cls, cattrs, cdicts, prefix):
            for n in body:
                if isinstance(n, ast.ClassDef):
                    a, d = class_fields(n)
                    visit(n.body, n.name, a, d, prefix + n.name + ".")
                elif isinstance(n, (ast.FunctionDef, ast.AsyncFunctionDef)):
                    env = Env(ret_sets, cattrs, cdicts)
                    name = prefix + n.name

                    def emit(kind, e, name=name):
                        sites.append((path, name, kind + " " + ast.unparse(e)[:160]))
                    scan_function(n, env, emit)
        visit(tree.body, None, set(), set(), "")
    return sorted(set(sites)), sorted(set(state))


if __name__ == "__main__":
    import sys
    s, st = census(sys.argv[1] if len(sys.argv) > 1 else "/repo/src/ngo")
    for x in s:
        print("SITE ", x)
    for x in st:
        print("STATE", x)
    print(len(s), len(st))
