"""correspondence families for coq/Model/Symmetry.v (model of ngo/symmetry.py + utils.ast.replace_simple_assignments)

symmetry_replace_simple   ngo.utils.ast.replace_simple_assignments on every Rule / Minimize (raw and preprocessed)
symmetry_inequalities     SymmetryTranslator._inequalities on every body and every aggregate condition
symmetry_equal_symbols    SymmetryTranslator._all_equal_symbols on every body and every aggregate condition
symmetry_groups           SymmetryTranslator.largest_symmetric_group with the SymmetryBundle class replaced by a
                          recorder: the lists of Symmetry objects (literals, strict_neq, nstrict_neq) handed to the
                          bundle constructor, in yield order; called exactly as _process_stm / _process_aggregates do
symmetry_bundle           the real SymmetryBundle built from recorded symmetry lists on a fresh translator, in both
                          modes (in_aggregate False / True): remove_lits(), aux_rules(), add_lits(), empty() and the
                          UniqueNames state afterwards
symmetry_process          SymmetryTranslator._process on every Rule / Minimize of a program with ONE translator
                          (state threaded as in execute; the history stops at the first exception)
symmetry_execute          SymmetryTranslator(prg, ins).execute(prg)

All programs are freshly parsed and ngo.normalize.preprocess'ed; the families after symmetry_replace_simple
work on the statements after replace_simple_assignments (as execute does), symmetry_process / symmetry_execute
get random input predicate lists.  Exceptions of the real code are observed results (Raise "<class>").
Inputs: the common inputs plus a seeded generator of symmetric bodies (gen_symmetric) local to this file.

Set SYM_FRAGMENT=1 to turn the cases of symmetry_groups / symmetry_process / symmetry_execute into "does the
model answer inside its fragment?": the reported mismatches are then exactly the OutOfFragment cases.
CHANGED[name] = [cases where the pass changed something, all cases].
"""
import logging
import os

from clingo.ast import ASTType

from . import ser
from .corr import Case
from .inputs import parse, try_parse

IMPORTS = ["Model.Traverse", "Model.Corr", "Model.Globals", "Model.Binding", "Model.Dependency", "Model.Symmetry"]
FRAGMENT_MODE = bool(os.environ.get("SYM_FRAGMENT"))
MAX_PRED_LITS = 9      # 2^n subsets of the predicate literals of one body / condition
MAX_TEXT = 60000
N_SYMMETRIC = 400      # programs from gen_symmetric per run
CHANGED = {}
FOREIGN = [("__aux_1", 1), ("__aux_2", 2), ("__dom_p", 2), ("__dom_q", 2), ("p", 2), ("q", 2), ("in", 1)]


def quiet():
    logging.disable(logging.CRITICAL)


def count(name, changed):
    c = CHANGED.setdefault(name, [0, 0])
    c[1] += 1
    c[0] += bool(changed)


# ------------------------------------------------------------------------------------------------
# generator of symmetric bodies
# ------------------------------------------------------------------------------------------------
def gen_symmetric(rng):
    """one program with bodies / conditions that join several atoms of one predicate under != / <"""
    names = ["p", "q", "r", "s", "m"]
    lines = []
    # optional definitions so that some predicates are choices / derived (domain predicates)
    defs = rng.sample(names, rng.randint(0, 3))
    arities = {n: rng.randint(1, 3) for n in names}
    for n in defs:
        ar = arities[n]
        vs = ["A", "B", "C"][:ar]
        cond = ", ".join(f"d{i}({v})" for i, v in enumerate(vs))
        kind = rng.random()
        if kind < 0.45:
            lines.append(f"{{ {n}({','.join(vs)}) : {cond} }}.")
        elif kind < 0.7:
            lines.append(f"{n}({','.join(vs)}) :- {cond}, not blocked({vs[0]}).")
            if rng.random() < 0.5:
                lines.append(f"{{ blocked(A) }} :- d0(A).")
        elif kind < 0.85:
            lines.append(f"{n}({','.join(vs)}) :- {cond}.")
        else:
            lines.append(f"{n}({','.join(vs)}) :- {n}({','.join(reversed(vs))}), {cond}.")

    def group(pool_suffix):
        """literals of one predicate + inequalities; returns (lits, vars that differ, shared vars)"""
        n = rng.choice(names)
        ar = arities[n]
        k = rng.choice([2, 2, 2, 3])
        diff_pos = [i for i in range(ar) if rng.random() < 0.5] or [rng.randrange(ar)]
        if len(diff_pos) == ar and ar > 1 and rng.random() < 0.4:
            diff_pos.pop()
        force_simple = ar >= 2 and rng.random() < 0.25     # two positions under != : init_simple
        if force_simple:
            diff_pos = sorted(rng.sample(range(ar), 2))
        lits, diffvars, shared = [], {}, []
        for j in range(k):
            args = []
            for i in range(ar):
                if i in diff_pos:
                    v = f"V{pool_suffix}{i}{j}"
                    diffvars.setdefault(i, []).append(v)
                else:
                    v = rng.choice([f"S{pool_suffix}{i}", f"S{pool_suffix}{i}", "G", "_", "1"])
                    if v[0] in "SG":
                        shared.append(v)
                args.append(v)
            sign = "not " if rng.random() < 0.08 else ""
            lits.append(f"{sign}{n}({','.join(args)})")
        comps = []
        for i, vs in diffvars.items():
            kind = rng.choice(["!=", "!=", "!=", "!=", "<", ">", "not=", "mixed", "partial", "not>"])
            if force_simple:
                kind = rng.choice(["!=", "!=", "not="])
            for a in range(len(vs)):
                for b in range(a + 1, len(vs)):
                    x, y = vs[a], vs[b]
                    if rng.random() < 0.3:
                        x, y = y, x
                    op = kind
                    if kind == "mixed":
                        op = rng.choice(["!=", "<", ">", "not="])
                    if kind == "partial" and rng.random() < 0.4:
                        continue
                    if op in ("partial",):
                        op = "!="
                    if op == "not=":
                        comps.append(f"not {x} = {y}")
                    elif op == "not>":
                        comps.append(f"not {x} > {y}")
                    else:
                        comps.append(f"{x} {op} {y}")
        allvars = [v for vs in diffvars.values() for v in vs]
        return lits, comps, allvars, shared

    for _ in range(rng.randint(1, 3)):
        body, used, shared = [], [], []
        for g in range(rng.choice([1, 1, 2])):
            lits, comps, vs, sh = group(str(g))
            body += lits + comps
            used += vs
            shared += sh
        # link two groups through a shared unequal variable now and then
        if rng.random() < 0.2 and used:
            body.append(f"t({rng.choice(used)})")
        if rng.random() < 0.3 and shared:
            body.append(f"u({rng.choice(shared)})")
        if rng.random() < 0.2 and len(used) >= 2:
            a, b = rng.sample(used, 2)
            body.append(f"{a} = {b}" if rng.random() < 0.5 else f"E = {a}")
        hv = rng.choice(["", "", "", "G", rng.choice(shared) if shared else "", rng.choice(used) if used else ""])
        shape = rng.random()
        if shape < 0.4 or shape >= 0.75 and shape < 0.9:
            if rng.random() < 0.15 and used:        # conditional literals only in bodies
                body.append(f"w(C) : x(C,{rng.choice(used + shared + ['C'])})")
        rng.shuffle(body)
        if shape < 0.4:
            head = f"h({hv})" if hv else rng.choice(["h", ""])
            lines.append(f"{head} :- {'; '.join(body)}.")
        elif shape < 0.75:
            tup = rng.choice([hv or "1", "1", rng.choice(shared) if shared else "0", rng.choice(used) if used else "2"])
            fn = rng.choice(["#count", "#sum", "#sum+", "#min"])
            extra = rng.choice(["", "", f"; z({hv})" if hv else "; z(1)"])
            second = ""
            if rng.random() < 0.3:
                l2, c2, _, _ = group("9")
                second = f"; 7 : {', '.join(l2 + c2)}"
            head = f"h({hv}) " if hv and extra else ""
            lines.append(f"{head}:- {fn}{{ {tup} : {', '.join(body)}{second} }} >= 2{extra}.")
        elif shape < 0.9:
            lines.append(f":~ {'; '.join(body)}. [1@1{',' + hv if hv else ''}]")
        else:
            lines.append(f"#minimize {{ 1@2{',' + hv if hv else ''} : {', '.join(body)} }}.")
    return "\n".join(lines)


def all_texts(inputs, rng):
    seen = set()
    for inp in inputs:
        t = inp["text"]
        if t not in seen:
            seen.add(t)
            yield t
    for _ in range(N_SYMMETRIC):
        t = gen_symmetric(rng)
        if t not in seen and try_parse(t) is not None:
            seen.add(t)
            yield t


# ------------------------------------------------------------------------------------------------
# helpers
# ------------------------------------------------------------------------------------------------
def is_pred(lit):
    return (lit.ast_type == ASTType.Literal and lit.atom.ast_type == ASTType.SymbolicAtom
            and lit.atom.symbol.ast_type == ASTType.Function)


def conditions_of(stm):
    """(element terms, condition) of every element of every top-level body aggregate"""
    for blit in stm.body:
        if blit.ast_type == ASTType.Literal and blit.atom.ast_type == ASTType.BodyAggregate:
            for elem in blit.atom.elements:
                yield elem


def too_big(stm):
    if stm.ast_type not in (ASTType.Rule, ASTType.Minimize):
        return False
    if sum(1 for x in stm.body if is_pred(x)) > MAX_PRED_LITS:
        return True
    return any(sum(1 for x in e.condition if is_pred(x)) > MAX_PRED_LITS for e in conditions_of(stm))


def prepared(inputs, rng, simplify=True):
    """(text, preprocessed program [after replace_simple_assignments]) for every distinct input"""
    from ngo.normalize import preprocess
    from ngo.utils.ast import replace_simple_assignments
    quiet()
    for text in all_texts(inputs, rng):
        prg = try_parse(text)
        if prg is None:
            continue
        try:
            pp = list(preprocess(prg))
            if simplify:
                pp = [replace_simple_assignments(s) for s in pp]
        except Exception:  # pylint: disable=broad-except
            continue
        if any(too_big(s) for s in pp):
            continue
        yield text, pp


def preds_s(ps):
    return ser.lst([ser.pred(p) for p in ps])


def lits_s(ls):
    return ser.lst([ser.lit(x) for x in ls])


def rand_inputs(rng, pp):
    from ngo.utils.ast import Predicate, predicates
    names = sorted({sp.pred for s in pp for sp in predicates(s)})
    ins = []
    for _ in range(rng.choice([0, 1, 1, 2, 3])):
        if names and rng.random() < 0.75:
            ins.append(rng.choice(names))
        else:
            ins.append(Predicate(*rng.choice(FOREIGN)))
    return ins


def result_text(fn, conv):
    """run fn; (Coq text of a `result`, json-able, raw value or None)"""
    try:
        r = fn()
    except ser.Unsupported:
        raise
    except Exception as e:  # pylint: disable=broad-except
        return ser.result_raise(e), "raise " + type(e).__name__, None
    text, js = conv(r)
    return ser.result_ok(text), js, r


def conv_stmts(r):
    return ser.prog(r), [str(s) for s in r]


def posmap_s(d):
    return ser.lst([f"({int(k)}, {lits_s(v)})" for k, v in d.items()])


def symmetry_s(sym):
    return f"(mk_sym {lits_s(sym[0])} {posmap_s(sym[1])} {posmap_s(sym[2])})"


def groups_s(groups):
    return ser.lst([ser.lst([symmetry_s(s) for s in g]) for g in groups])


def groups_js(groups):
    return [[{"literals": [str(x) for x in s[0]], "strict": {k: [str(x) for x in v] for k, v in s[1].items()},
              "nstrict": {k: [str(x) for x in v] for k, v in s[2].items()}} for s in g] for g in groups]


def stm_global_vars(stm):
    from ngo.utils.ast import collect_ast, global_vars_inside_head
    if stm.ast_type == ASTType.Rule:
        return global_vars_inside_head(stm.head)
    gv = set()
    for t in [stm.weight, stm.priority, *stm.terms]:
        gv.update(collect_ast(t, "Variable"))
    return gv


def record_groups(body, global_vars, rest, in_aggregate):
    """largest_symmetric_group with SymmetryBundle replaced by a recorder"""
    from ngo.symmetry import SymmetryTranslator
    rec = []

    class Recorder:  # pylint: disable=too-few-public-methods
        def __init__(self, _dp, _un, in_agg, symmetries):
            assert in_agg == in_aggregate
            rec.append([(tuple(s.literals), {k: list(v) for k, v in s.strict_neq.items()},
                         {k: list(v) for k, v in s.nstrict_neq.items()}) for s in symmetries])

    saved = SymmetryTranslator.SymmetryBundle
    SymmetryTranslator.SymmetryBundle = Recorder
    try:
        st = SymmetryTranslator.__new__(SymmetryTranslator)
        st.domain_predicates = None
        st.unique_names = None
        list(st.largest_symmetric_group(body, global_vars, rest, in_aggregate))
    finally:
        SymmetryTranslator.SymmetryBundle = saved
    return rec


def group_calls(stm):
    """the calls of largest_symmetric_group that _process makes for stm (on the unmodified statement):
    (coq model expression, thunk, description)"""
    t = ser.stmt(stm)
    for elem in conditions_of(stm):
        cond = list(elem.condition)
        yield (f"groups_of_condition {t} {lits_s(cond)}",
               lambda cond=cond, elem=elem: record_groups(cond, stm_global_vars(stm), list(elem.terms) + list(stm.body), True),
               {"where": "condition", "condition": [str(c) for c in cond]})
    yield (f"groups_of_stm {t}",
           lambda: record_groups(list(stm.body), stm_global_vars(stm), [], False),
           {"where": "body"})


# ------------------------------------------------------------------------------------------------
class SymReplaceSimple:
    name = "symmetry_replace_simple"
    imports = IMPORTS
    source = "ngo.utils.ast.replace_simple_assignments on every Rule / Minimize (raw and preprocessed)"

    def cases(self, inputs, rng):
        from ngo.normalize import preprocess
        from ngo.utils.ast import replace_simple_assignments
        quiet()
        seen = set()
        for text in all_texts(inputs, rng):
            prg = try_parse(text)
            if prg is None:
                continue
            variants = [prg]
            try:
                variants.append(list(preprocess(parse(text))))
            except Exception:  # pylint: disable=broad-except
                pass
            for v in variants:
                for stm in v:
                    if stm.ast_type not in (ASTType.Rule, ASTType.Minimize) or str(stm) in seen:
                        continue
                    seen.add(str(stm))
                    try:
                        t = ser.stmt(stm)
                        obs, js, r = result_text(lambda: replace_simple_assignments(stm),  # pylint: disable=cell-var-from-loop
                                                 lambda r: (ser.stmt(r), str(r)))
                    except ser.Unsupported:
                        continue
                    changed = r is not None and str(r) != str(stm)
                    count(self.name, changed)
                    yield Case(f"chk_stmt (replace_simple_assignments {t}) {obs}",
                               {"fn": "replace_simple_assignments", "stmt": str(stm), "observed": js}, nontrivial=changed)


def analysis_targets(inputs, rng):
    """(stmt, list of literals) for bodies and aggregate conditions, raw and preprocessed"""
    from ngo.normalize import preprocess
    quiet()
    seen = set()
    for text in all_texts(inputs, rng):
        prg = try_parse(text)
        if prg is None:
            continue
        variants = [prg]
        try:
            variants.append(list(preprocess(parse(text))))
        except Exception:  # pylint: disable=broad-except
            pass
        for v in variants:
            for stm in v:
                if stm.ast_type not in (ASTType.Rule, ASTType.Minimize) or too_big(stm):
                    continue
                for body in [list(stm.body)] + [list(e.condition) for e in conditions_of(stm)]:
                    key = "; ".join(str(x) for x in body)
                    if key in seen or not body:
                        continue
                    seen.add(key)
                    yield body


class SymInequalities:
    name = "symmetry_inequalities"
    imports = IMPORTS
    source = "ngo.symmetry.SymmetryTranslator._inequalities on bodies and aggregate conditions"

    def cases(self, inputs, rng):
        from ngo.symmetry import SymmetryTranslator

        def conv(d):
            txt = ser.lst([f"({ser.CMP[op]}, {ser.lst([f'({ser.lit(l)}, {ser.term(a)}, {ser.term(b)})' for l, a, b in v])})"
                           for op, v in d.items()])
            return txt, {str(op): [[str(l), str(a), str(b)] for l, a, b in v] for op, v in d.items()}

        for body in analysis_targets(inputs, rng):
            try:
                t = ser.body(body)
                obs, js, r = result_text(lambda: SymmetryTranslator._inequalities(body), conv)  # pylint: disable=cell-var-from-loop,protected-access
            except ser.Unsupported:
                continue
            count(self.name, bool(r))
            yield Case(f"chk_ineqs (inequalities {t}) {obs}",
                       {"fn": "_inequalities", "body": [str(x) for x in body], "observed": js}, nontrivial=bool(r) or r is None)


class SymEqualSymbols:
    name = "symmetry_equal_symbols"
    imports = IMPORTS
    source = "ngo.symmetry.SymmetryTranslator._all_equal_symbols on bodies and aggregate conditions"

    def cases(self, inputs, rng):
        from ngo.symmetry import SymmetryTranslator
        for body in analysis_targets(inputs, rng):
            try:
                t = ser.body(body)
                r = list(SymmetryTranslator._all_equal_symbols(body))  # pylint: disable=protected-access
                obs = ser.lst([lits_s(x) for x in r])
            except ser.Unsupported:
                continue
            count(self.name, bool(r))
            yield Case(f"chk_symbols (all_equal_symbols {t}) {obs}",
                       {"fn": "_all_equal_symbols", "body": [str(x) for x in body],
                        "observed": [[str(l) for l in x] for x in r]}, nontrivial=bool(r))


class SymGroups:
    name = "symmetry_groups"
    imports = IMPORTS
    source = ("ngo.symmetry.SymmetryTranslator.largest_symmetric_group (bundle class replaced by a recorder) as "
              "called by _process_stm and _process_aggregates")

    def cases(self, inputs, rng):
        seen = set()
        for text, pp in prepared(inputs, rng):
            for stm in pp:
                if stm.ast_type not in (ASTType.Rule, ASTType.Minimize) or str(stm) in seen:
                    continue
                seen.add(str(stm))
                try:
                    calls = list(group_calls(stm))
                except ser.Unsupported:
                    continue
                for expr, thunk, desc in calls:
                    try:
                        obs, js, r = result_text(thunk, lambda g: (groups_s(g), groups_js(g)))
                    except ser.Unsupported:
                        continue
                    count(self.name, bool(r))
                    desc = dict(desc, fn="largest_symmetric_group", stmt=str(stm), observed=js)
                    if FRAGMENT_MODE:
                        yield Case(f"groups_in_fragment ({expr})", desc, nontrivial=bool(r))
                    else:
                        yield Case(f"chk_groups ({expr}) {obs}", desc, nontrivial=bool(r) or r is None)


class SymBundle:
    name = "symmetry_bundle"
    imports = IMPORTS
    source = ("ngo.symmetry.SymmetryTranslator.SymmetryBundle built from recorded symmetry lists on a fresh "
              "translator, in_aggregate False and True")

    def cases(self, inputs, rng):
        from ngo.symmetry import SymmetryTranslator
        for text, pp in prepared(inputs, rng):
            try:
                tp = ser.prog(pp)
            except ser.Unsupported:
                continue
            if len(tp) > MAX_TEXT:
                continue
            groups = []
            for stm in pp:
                if stm.ast_type not in (ASTType.Rule, ASTType.Minimize):
                    continue
                try:
                    for _, thunk, _ in group_calls(stm):
                        try:
                            groups += thunk()
                        except Exception:  # pylint: disable=broad-except
                            pass
                except ser.Unsupported:
                    pass
            if not groups:
                continue
            ins = rand_inputs(rng, pp) if rng.random() < 0.5 else []
            for g in groups:
                for in_agg in (False, True):
                    def build():
                        st = SymmetryTranslator(pp, list(ins))  # pylint: disable=cell-var-from-loop
                        syms = [SymmetryTranslator.Symmetry(literals=s[0], strict_neq=dict(s[1]), nstrict_neq=dict(s[2]))
                                for s in g]  # pylint: disable=cell-var-from-loop
                        b = SymmetryTranslator.SymmetryBundle(st.domain_predicates, st.unique_names, in_agg, syms)  # pylint: disable=cell-var-from-loop
                        return b, st

                    def conv(x):
                        b, st = x
                        rem, aux, add = b.remove_lits(), b.aux_rules(), b.add_lits()
                        txt = (f"({lits_s(rem)}, {ser.prog(aux)}, {lits_s(add)}, {ser.b(b.empty())}, "
                               f"{st.unique_names.auxcounter}, {preds_s(sorted(st.unique_names.predicates))})")
                        return txt, {"remove": [str(x) for x in rem], "aux": [str(x) for x in aux],
                                     "add": [str(x) for x in add], "empty": b.empty()}
                    try:
                        obs, js, r = result_text(build, conv)
                    except ser.Unsupported:
                        continue
                    changed = r is not None and not r[0].empty()
                    count(self.name, changed)
                    yield Case(f"chk_bundle (run_bundle {tp} {preds_s(ins)} {ser.b(in_agg)} "
                               f"{ser.lst([symmetry_s(s) for s in g])}) {obs}",
                               {"fn": "SymmetryBundle", "program": "\n".join(str(s) for s in pp), "in_aggregate": in_agg,
                                "inputs": [str(p) for p in ins], "symmetries": groups_js([g])[0], "observed": js},
                               nontrivial=changed or r is None)


class SymProcess:
    name = "symmetry_process"
    imports = IMPORTS
    source = ("ngo.symmetry.SymmetryTranslator._process on every Rule / Minimize of a program, one translator per "
              "program (random input predicates), final UniqueNames state compared")

    def cases(self, inputs, rng):
        from ngo.symmetry import SymmetryTranslator
        for text, pp in prepared(inputs, rng):
            try:
                tp = ser.prog(pp)
            except ser.Unsupported:
                continue
            if len(tp) > MAX_TEXT:
                continue
            for rnd in range(2):
                ins = [] if rnd == 0 else rand_inputs(rng, pp)
                if rnd == 1 and not ins:
                    continue
                obs, js, changed = [], [], False
                try:
                    st = SymmetryTranslator(pp, list(ins))
                    init = "None"
                except Exception as e:  # pylint: disable=broad-except
                    st = None
                    init = f"(Some {ser.q(type(e).__name__)})"
                counter, known = 0, []
                if st is not None:
                    try:
                        for stm in pp:
                            if stm.ast_type not in (ASTType.Rule, ASTType.Minimize):
                                continue
                            o, j, r = result_text(lambda: st._process(stm), conv_stmts)  # pylint: disable=cell-var-from-loop,protected-access
                            obs.append(o)
                            js.append(j)
                            if r is None:
                                break
                            if [str(x) for x in r] != [str(stm)]:
                                changed = True
                    except ser.Unsupported:
                        continue
                    counter = st.unique_names.auxcounter
                    known = sorted(st.unique_names.predicates)
                count(self.name, changed)
                desc = {"fn": "_process", "program": "\n".join(str(s) for s in pp), "source": text,
                        "inputs": [str(p) for p in ins], "init": init, "observed": js}
                if FRAGMENT_MODE:
                    yield Case(f"process_in_fragment {tp} {preds_s(ins)}", desc, nontrivial=changed)
                else:
                    yield Case(f"chk_process {tp} {preds_s(ins)} {init} {ser.lst(obs)} {counter} {preds_s(known)}",
                               desc, nontrivial=changed or st is None)


class SymExecute:
    name = "symmetry_execute"
    imports = IMPORTS
    source = "ngo.symmetry.SymmetryTranslator(prg, ins).execute(prg) on preprocessed programs, random input predicates"

    def cases(self, inputs, rng):
        from ngo.symmetry import SymmetryTranslator
        from ngo.utils.ast import replace_simple_assignments
        for text, pp in prepared(inputs, rng, simplify=False):
            try:
                tp = ser.prog(pp)
            except ser.Unsupported:
                continue
            if len(tp) > MAX_TEXT:
                continue
            before = [str(s) for s in pp]
            try:
                base = [str(replace_simple_assignments(s)) for s in pp]      # what execute does first
            except Exception:  # pylint: disable=broad-except
                base = before
            for rnd in range(2):
                ins = [] if rnd == 0 else rand_inputs(rng, pp)
                if rnd == 1 and not ins:
                    continue
                try:
                    obs, js, r = result_text(lambda: SymmetryTranslator(pp, list(ins)).execute(pp), conv_stmts)  # pylint: disable=cell-var-from-loop
                except ser.Unsupported:
                    continue
                changed = r is not None and js != base
                count(self.name, changed)
                desc = {"fn": "execute", "program": "\n".join(before), "source": text,
                        "inputs": [str(p) for p in ins], "observed": js}
                if FRAGMENT_MODE:
                    yield Case(f"execute_in_fragment {tp} {preds_s(ins)} {tp}", desc, nontrivial=changed)
                else:
                    yield Case(f"chk_prog (execute {tp} {preds_s(ins)} {tp}) {obs}", desc,
                               nontrivial=changed or r is None)


FAMILIES = [SymReplaceSimple(), SymInequalities(), SymEqualSymbols(), SymGroups(), SymBundle(), SymProcess(),
            SymExecute()]
