"""correspondence families for ngo.dependency (model: coq/Model/Dependency.v)

Every case builds `UniqueNames(prg, inputs)` and `DomainPredicates(unique_names, prg)` on a freshly
parsed and *preprocessed* program (ngo.normalize.preprocess) with a random list of input predicates,
then runs a history of method calls on that one object.  The observed responses (returned predicate,
list of yielded rules, exception class, snapshot of the object state) are embedded in the Coq
expression `chk_dep prg inputs <constructor outcome> <requests> <responses>`.

Sets (`_not_static`, `_too_complex`, `created_domain`, `unique_names.predicates`) are compared as sets,
`domains` / `domain_rules` as insertion-ordered association lists.

Set DEP_FRAGMENT=1 to turn every case into "does the model answer inside its fragment?"; the reported
mismatches are then exactly the OutOfFragment cases.
"""
import logging
import os

from clingo.ast import ASTType, Function, Sign, SymbolicAtom

from . import ser
from .corr import Case
from .inputs import try_parse

IMPORTS = ["Model.Traverse", "Model.Corr", "Model.Globals", "Model.Dependency"]
FRAGMENT_MODE = bool(os.environ.get("DEP_FRAGMENT"))
MAX_TEXT = 40000
FOREIGN = [("__dom_p", 1), ("__dom_a", 1), ("__dom_q", 1), ("p", 1), ("a", 1), ("in", 1), ("zzz", 2), ("q", 2)]


def quiet():
    logging.disable(logging.CRITICAL)


def prepared(inputs):
    """(text, preprocessed program, coq text of it) for every distinct input"""
    from ngo.normalize import preprocess
    seen = set()
    for inp in inputs:
        text = inp["text"]
        if text in seen:
            continue
        seen.add(text)
        prg = try_parse(text)
        if prg is None:
            continue
        try:
            pp = list(preprocess(prg))
        except Exception:  # pylint: disable=broad-except
            continue
        try:
            t = ser.prog(pp)
        except ser.Unsupported:
            continue
        if len(t) > MAX_TEXT:
            continue
        yield text, pp, t


def all_preds(pp, ins):
    from ngo.utils.ast import predicates
    return sorted({sp.pred for stm in pp for sp in predicates(stm)} | set(ins))


def rand_inputs(rng, pp):
    from ngo.utils.ast import Predicate
    preds = all_preds(pp, [])
    ins = []
    for _ in range(rng.choice([0, 0, 1, 1, 2, 3])):
        if preds and rng.random() < 0.7:
            ins.append(rng.choice(preds))
        else:
            ins.append(Predicate(*rng.choice(FOREIGN)))
    return ins


def build(pp, ins):
    """(DomainPredicates or None, coq text of the constructor outcome)"""
    from ngo.dependency import DomainPredicates
    from ngo.utils.globals import UniqueNames
    un = UniqueNames(pp, ins)
    try:
        return DomainPredicates(un, pp), "None"
    except Exception as e:  # pylint: disable=broad-except
        return None, f"(Some {ser.q(type(e).__name__)})"


# ---------------------------------------------------------------- serialisation of requests/responses
def anon_s(ap):
    return f"({ser.pred(ap.pred)}, {ser.lst([str(int(i)) for i in ap.annotated_positions])})"


def entry_s(pair):
    head, conds = pair
    return f"({ser.atom(head)}, {ser.body(conds)})"


def preds_s(ps):
    return ser.lst([ser.pred(p) for p in ps])


def snapshot(dp):
    doms = ser.lst([f"({ser.pred(k)}, {ser.pred(v)})" for k, v in dp.domains.items()])
    drules = ser.lst([f"({ser.pred(k)}, {ser.lst([entry_s(e) for e in v])})" for k, v in dp.domain_rules.items()])
    return (f"(PState {preds_s(sorted(dp._not_static))} {preds_s(sorted(dp._too_complex))} {doms} {drules} "  # pylint: disable=protected-access
            f"{preds_s(sorted(dp.created_domain))} {preds_s(sorted(dp.unique_names.predicates))})")


def obs_pred(fn):
    try:
        return f"(PPred (Ok {ser.pred(fn())}))", True
    except Exception as e:  # pylint: disable=broad-except
        return f"(PPred {ser.result_raise(e)})", False


def obs_rules(fn):
    """list(generator) -> (coq text, number of rules or None)"""
    try:
        r = list(fn())
        return f"(PRules (Ok {ser.prog(r)}))", len(r), [str(x) for x in r]
    except ser.Unsupported:
        raise
    except Exception as e:  # pylint: disable=broad-except
        return f"(PRules {ser.result_raise(e)})", None, "raise " + type(e).__name__


class History:
    """one object, a list of requests (Coq text) and observed responses (Coq text)"""

    def __init__(self, dp):
        self.dp = dp
        self.reqs = []
        self.obs = []
        self.log = []
        self.hits = 0      # number of "interesting" responses

    def add(self, req, obs, note=None):
        self.reqs.append("(" + req + ")")
        self.obs.append(obs)
        self.log.append([req, note])

    def state(self):
        self.add("QState", snapshot(self.dp))

    def is_static(self, p):
        self.add(f"QIsStatic {ser.pred(p)}", f"(PBool {ser.b(self.dp.is_static(p))})")

    def has_domain(self, p):
        self.add(f"QHasDomain {ser.pred(p)}", f"(PBool {ser.b(self.dp.has_domain(p))})")

    def domain_predicate(self, p):
        o, ok = obs_pred(lambda: self.dp.domain_predicate(p))
        self.add(f"QDomainPredicate {ser.pred(p)}", o, o)

    def naming(self, kind, ap, position, maximum=None):
        dp = self.dp
        if kind == "min":
            o, ok = obs_pred(lambda: dp.min_anon_predicate(ap, position))
            req = f"QMin {anon_s(ap)} {position}"
        elif kind == "max":
            o, ok = obs_pred(lambda: dp.max_anon_predicate(ap, position))
            req = f"QMax {anon_s(ap)} {position}"
        elif kind == "next":
            o, ok = obs_pred(lambda: dp.next_anon_predicate(ap, position))
            req = f"QNext {anon_s(ap)} {position}"
        else:
            o, ok = obs_pred(lambda: dp.chain_pred(ap, position, maximum))
            req = f"QChainPred {anon_s(ap)} {position} {ser.b(maximum)}"
        self.hits += ok
        self.add(req, o, o)

    def dom_named(self, name, arity):
        o, ok = obs_pred(lambda: self.dp.dom_named_predicate(name, arity))
        self.hits += ok
        self.add(f"QDomNamed {ser.q(name)} {arity}", o, o)

    def create_domain(self, p):
        o, n, js = obs_rules(lambda: self.dp.create_domain(p))
        self.hits += bool(n)
        self.add(f"QCreateDomain {ser.pred(p)}", o, js)

    def create_chain(self, ap, position, maximum):
        o, n, js = obs_rules(lambda: self.dp.create_chain_pred_for_annotated_pred(ap, position, maximum))
        self.hits += bool(n)
        self.add(f"QCreateChain {anon_s(ap)} {position} {ser.b(maximum)}", o, js)

    def create_next(self, ap, position):
        o, n, js = obs_rules(lambda: self.dp.create_next_pred_for_annotated_pred(ap, position))
        self.hits += bool(n)
        self.add(f"QCreateNext {anon_s(ap)} {position}", o, js)

    def add_domain_rule(self, p, conditions):
        """returns False when the call raised (the history must stop then)"""
        req = f"QAddDomainRule {ser.pred(p)} {ser.lst([entry_s(e) for e in conditions])}"
        try:
            self.dp.add_domain_rule(p, conditions)
        except Exception as e:  # pylint: disable=broad-except
            self.add(req, f"(PUnit {ser.result_raise(e)})", "raise " + type(e).__name__)
            return False
        self.add(req, "(PUnit (Ok tt))")
        return True


def make_case(fam, text, t, ins, init, hist, nontrivial, extra=None):
    reqs = ser.lst(hist.reqs) if hist else "[]"
    obs = ser.lst(hist.obs) if hist else "[]"
    expr = f"chk_dep {t} {preds_s(ins)} {init} {reqs} {obs}"
    desc = {"fn": fam, "program": text, "input_predicates": [str(p) for p in ins], "constructor": init,
            "history": hist.log if hist else []}
    if extra:
        desc.update(extra)
    if FRAGMENT_MODE:
        return Case(f"dep_fragment {t} {preds_s(ins)}", desc, nontrivial=nontrivial, key=expr)
    return Case(expr, desc, nontrivial=nontrivial)


def rand_anon(rng, p, valid=True):
    """a random AnnotatedPredicate over p and a position"""
    from ngo.utils.ast import AnnotatedPredicate
    ar = p.arity
    if ar == 0:
        return AnnotatedPredicate(p, ()), 0
    r = rng.random()
    if r < 0.25:
        positions = tuple(range(ar))
    else:
        k = rng.randint(1, ar)
        positions = tuple(sorted(rng.sample(range(ar), k)))
        if rng.random() < 0.1:
            positions = tuple(reversed(positions))
    if valid or rng.random() < 0.8:
        position = rng.choice(positions)
    else:
        position = rng.randint(0, ar + 1)
    return AnnotatedPredicate(p, positions), position


def pick_pred(rng, dp, preds, want_domain=0.85):
    """a predicate, preferably a non static one with a domain"""
    from ngo.utils.ast import Predicate
    if not preds:
        return Predicate(*rng.choice(FOREIGN))
    dom = [p for p in preds if p in dp.domains]
    have = [p for p in preds if dp.has_domain(p)]
    r = rng.random()
    if dom and r < 0.6:
        return rng.choice(dom)
    if have and r < want_domain:
        return rng.choice(have)
    if r < 0.97:
        return rng.choice(preds)
    return Predicate(*rng.choice(FOREIGN))


# ------------------------------------------------------------------------------------------------
class RuleDependencyFam:
    name = "dep_rule_dependency"
    imports = IMPORTS
    source = "ngo.dependency.RuleDependency (__init__, get_bodies, get_rules_that_derive, get_headderivable_predicates, get_statements_that_use)"

    def cases(self, inputs, rng):
        from ngo.dependency import RuleDependency
        from ngo.utils.ast import Predicate
        quiet()
        for text, pp, t in prepared(inputs):
            preds = all_preds(pp, [])
            for _ in range(2):
                rd = RuleDependency(pp)
                reqs = ["RGetHeads"]
                obs = [f"(RPreds {preds_s(rd.get_headderivable_predicates())})"]
                hit = False
                try:
                    for _ in range(rng.randint(2, 8)):
                        p = rng.choice(preds) if preds and rng.random() < 0.85 else Predicate(*rng.choice(FOREIGN))
                        r = rng.random()
                        if r < 0.3:
                            v = rd.get_bodies(p)
                            reqs.append(f"(RGetBodies {ser.pred(p)})")
                            obs.append(f"(RBodies {ser.lst([ser.body(b) for b in v])})")
                        elif r < 0.55:
                            v = rd.get_rules_that_derive(p)
                            reqs.append(f"(RGetRules {ser.pred(p)})")
                            obs.append(f"(RStmts {ser.prog(v)})")
                        elif r < 0.8:
                            v = rd.get_statements_that_use(p)
                            reqs.append(f"(RGetUse {ser.pred(p)})")
                            obs.append(f"(RStmts {ser.prog(v)})")
                        else:
                            v = rd.get_headderivable_predicates()
                            reqs.append("RGetHeads")
                            obs.append(f"(RPreds {preds_s(v)})")
                        hit = hit or bool(v)
                except ser.Unsupported:
                    continue
                expr = f"chk_rule_dependency {t} {ser.lst(reqs)} {ser.lst(obs)}"
                if len(expr) > 4 * MAX_TEXT:
                    continue
                yield Case(expr, {"fn": "RuleDependency", "program": text, "requests": reqs}, nontrivial=hit)


class StaticFam:
    name = "dep_static"
    imports = IMPORTS
    source = "ngo.dependency._create_graph_from_prg, DomainPredicates.__compute_nonstatic_predicates, is_static, has_domain"

    SIGNSETS = [({Sign.NoSign, Sign.Negation, Sign.DoubleNegation}, "all_signs"), ({Sign.NoSign}, "[NoSign]"),
                ({Sign.Negation, Sign.DoubleNegation}, "[Neg; NegNeg]")]

    def cases(self, inputs, rng):
        from ngo.dependency import _create_graph_from_prg
        from ngo.utils.ast import Predicate
        quiet()
        for text, pp, t in prepared(inputs):
            if not FRAGMENT_MODE:
                for ss, ssn in self.SIGNSETS:
                    g = _create_graph_from_prg(pp, ss)
                    edges = ser.lst([f"({ser.pred(a)}, {ser.pred(b)})" for a, b in sorted(g.edges)])
                    yield Case(f"chk_graph {t} {ssn} {edges} {preds_s(sorted(g.nodes))}",
                               {"fn": "_create_graph_from_prg", "program": text, "signs": ssn,
                                "edges": [f"{a}->{b}" for a, b in sorted(g.edges)]}, nontrivial=bool(g.edges))
            ins = rand_inputs(rng, pp)
            dp, init = build(pp, ins)
            hist = None
            nontrivial = dp is None
            if dp is not None:
                hist = History(dp)
                hist.state()
                for p in all_preds(pp, ins) + [Predicate(*rng.choice(FOREIGN))]:
                    hist.is_static(p)
                    hist.has_domain(p)
                nontrivial = bool(dp._not_static)  # pylint: disable=protected-access
            yield make_case("DomainPredicates.is_static/has_domain", text, t, ins, init, hist, nontrivial)


class DomainsFam:
    name = "dep_domains"
    imports = IMPORTS
    source = "ngo.dependency.DomainPredicates.__compute_domains, add_domain_rules, add_domain_rule, domain_predicate"

    NEWNAMES = ["__max_0_3", "__min_0_1", "newp", "__dom_p"]

    def cases(self, inputs, rng):
        from ngo.utils.ast import LOC, Predicate
        quiet()
        for text, pp, t in prepared(inputs):
            ins = rand_inputs(rng, pp)
            dp, init = build(pp, ins)
            hist = None
            nontrivial = dp is None
            if dp is not None:
                hist = History(dp)
                hist.state()
                preds = all_preds(pp, ins)
                for p in preds + [Predicate(*rng.choice(FOREIGN))]:
                    hist.domain_predicate(p)
                nontrivial = bool(dp.domains)
            yield make_case("DomainPredicates.domains/domain_rules", text, t, ins, init, hist, nontrivial)
            if dp is None:
                continue
            # add_domain_rule in the shape used by minmax_aggregates._chain_translation
            rules = [s for s in pp if s.ast_type == ASTType.Rule and s.body]
            if not rules:
                continue
            for _ in range(2):
                dp, init = build(pp, ins)
                hist = History(dp)
                ok = True
                try:
                    for _ in range(rng.randint(1, 3)):
                        rule = rng.choice(rules)
                        args = []
                        h = rule.head
                        if h.ast_type == ASTType.Literal and h.atom.ast_type == ASTType.SymbolicAtom \
                                and h.atom.symbol.ast_type == ASTType.Function and rng.random() < 0.7:
                            args = list(h.atom.symbol.arguments)
                        else:
                            for b in rule.body:
                                if b.ast_type == ASTType.Literal and b.atom.ast_type == ASTType.SymbolicAtom \
                                        and b.atom.symbol.ast_type == ASTType.Function:
                                    args = list(b.atom.symbol.arguments)
                                    break
                        if rng.random() < 0.25 and preds:
                            name = rng.choice(preds).name
                        else:
                            name = rng.choice(self.NEWNAMES)
                        p = Predicate(name, len(args))
                        head = SymbolicAtom(Function(LOC, name, args, False))
                        body = list(rule.body)
                        if rng.random() < 0.3 and len(body) > 1:
                            body = body[: rng.randint(1, len(body) - 1)]
                        ok = hist.add_domain_rule(p, [(head, body)])
                        if not ok:
                            break
                        hist.state()
                        hist.has_domain(p)
                        hist.domain_predicate(p)
                        if rng.random() < 0.6:
                            hist.create_domain(p)
                except ser.Unsupported:
                    continue
                yield make_case("DomainPredicates.add_domain_rule", text, t, ins, init, hist,
                                nontrivial=any("PState" in o for o in hist.obs))


class CreateDomainFam:
    name = "dep_create_domain"
    imports = IMPORTS
    source = "ngo.dependency.DomainPredicates.create_domain (histories; created_domain is shared)"

    def cases(self, inputs, rng):
        quiet()
        for text, pp, t in prepared(inputs):
            for rep in range(2):
                ins = rand_inputs(rng, pp)
                dp, init = build(pp, ins)
                if dp is None:
                    break
                preds = all_preds(pp, ins)
                if rep == 1 and not dp.domains:
                    break
                hist = History(dp)
                try:
                    for _ in range(rng.randint(1, 6)):
                        hist.create_domain(pick_pred(rng, dp, preds))
                    hist.state()
                except ser.Unsupported:
                    continue
                yield make_case("DomainPredicates.create_domain", text, t, ins, init, hist, nontrivial=hist.hits > 0)


class NamesFam:
    name = "dep_names"
    imports = IMPORTS
    source = ("ngo.dependency.DomainPredicates._predicate cache via min_anon_predicate, max_anon_predicate, "
              "next_anon_predicate, dom_named_predicate, chain_pred")

    def cases(self, inputs, rng):
        quiet()
        for text, pp, t in prepared(inputs):
            ins = rand_inputs(rng, pp)
            dp, init = build(pp, ins)
            if dp is None:
                continue
            preds = all_preds(pp, ins)
            hist = History(dp)
            calls = []
            for _ in range(rng.randint(3, 10)):
                if calls and rng.random() < 0.35:
                    c = rng.choice(calls)          # repeat an earlier call: cache hit
                else:
                    kind = rng.choice(["min", "max", "next", "chain", "dom"])
                    if kind == "dom":
                        if preds and rng.random() < 0.8:
                            q = rng.choice(preds)
                            c = ("dom", q.name, q.arity if rng.random() < 0.8 else rng.randint(0, 3))
                        else:
                            c = ("dom", rng.choice(["p", "__max_0_3", "dom_p"]), rng.randint(0, 2))
                    else:
                        ap, pos = rand_anon(rng, pick_pred(rng, dp, preds), valid=False)
                        c = (kind, ap, pos, rng.random() < 0.5)
                    calls.append(c)
                if c[0] == "dom":
                    hist.dom_named(c[1], c[2])
                else:
                    hist.naming(c[0], c[1], c[2], c[3])
            hist.state()
            yield make_case("DomainPredicates naming", text, t, ins, init, hist, nontrivial=hist.hits > 0)


class ChainFam:
    name = "dep_chain"
    imports = IMPORTS
    source = ("ngo.dependency.DomainPredicates.create_chain_pred_for_annotated_pred, "
              "create_next_pred_for_annotated_pred, _create_projected_lit (histories mixed with create_domain and naming)")

    def cases(self, inputs, rng):
        quiet()
        for text, pp, t in prepared(inputs):
            ins = rand_inputs(rng, pp)
            dp, init = build(pp, ins)
            if dp is None:
                continue
            preds = all_preds(pp, ins)
            if not preds:
                continue
            hist = History(dp)
            try:
                for _ in range(rng.randint(2, 6)):
                    p = pick_pred(rng, dp, preds, want_domain=0.9)
                    ap, pos = rand_anon(rng, p, valid=rng.random() < 0.85)
                    r = rng.random()
                    if r < 0.15:
                        hist.create_domain(p)
                    elif r < 0.5:
                        hist.create_next(ap, pos)
                    elif r < 0.85:
                        hist.create_chain(ap, pos, rng.random() < 0.5)
                    else:
                        hist.naming(rng.choice(["min", "max", "next", "chain"]), ap, pos, rng.random() < 0.5)
                    if rng.random() < 0.3:
                        # the usual sequence of sum_aggregates / minmax_aggregates on one annotated predicate
                        hist.create_domain(p)
                        hist.create_next(ap, pos)
                        hist.create_chain(ap, pos, True)
                        hist.naming("chain", ap, pos, True)
                        hist.naming("next", ap, pos, True)
                hist.state()
            except ser.Unsupported:
                continue
            yield make_case("DomainPredicates chains", text, t, ins, init, hist, nontrivial=hist.hits > 0)


FAMILIES = [RuleDependencyFam(), StaticFam(), DomainsFam(), CreateDomainFam(), NamesFam(), ChainFam()]
