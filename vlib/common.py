"""shared plumbing of the /verif checks: paths, build, theorem registry, evidence"""
import fcntl
import glob
import hashlib
import json
import os
import re
import subprocess
import sys
import time

VERIF = os.path.dirname(os.path.dirname(os.path.abspath(__file__)))
COQ = os.path.join(VERIF, "coq")
CASES = os.path.join(COQ, "_cases")
EVID = os.path.join(VERIF, "evidence")
REPLAY = os.path.join(EVID, "replay")
REPO = os.environ.get("NGO_REPO", "/repo")
PY = "/venv/bin/python"
NCPU = min(16, os.cpu_count() or 4)

ALLOWED_AXIOMS = {
    # standard-library axioms only (DESIGN section 8)
    "Classical_Prop.classic", "classic",
    "FunctionalExtensionality.functional_extensionality_dep", "functional_extensionality_dep",
    "Eqdep.Eq_rect_eq.eq_rect_eq", "eq_rect_eq",
    "ProofIrrelevance.proof_irrelevance", "proof_irrelevance",
    "JMeq.JMeq_eq", "JMeq_eq",
    "PropExtensionality.propositional_extensionality",
}
FORBIDDEN = re.compile(
    r"\b(Admitted|admit|Axiom|Axioms|Parameter|Parameters|Conjecture|Conjectures|Admit Obligations|"
    r"Unset Guard Checking|Unset Positivity Checking|Unset Universe Checking|bypass_check|type-in-type|"
    r"impredicative-set)\b")


def env():
    e = dict(os.environ)
    e["PYTHONPATH"] = os.path.join(REPO, "src")
    e.setdefault("PYTHONHASHSEED", "0")
    e["NGO_VERIF"] = "1"
    return e


def seed():
    try:
        return int(os.environ.get("VERIF_SEED", "0"))
    except ValueError:
        return 0


def sh(cmd, timeout=1200, cwd=None, env_=None, inp=None):
    try:
        r = subprocess.run(cmd, cwd=cwd, env=env_ or env(), capture_output=True, text=True, timeout=timeout,
                           input=inp)
        return r.returncode, r.stdout, r.stderr
    except subprocess.TimeoutExpired as e:
        return 124, (e.stdout or b"").decode() if isinstance(e.stdout, bytes) else (e.stdout or ""), "timeout"


def v_files():
    out = []
    for d in ("Syntax", "Gen", "Sem", "Meta", "Model", "Link", "Props"):
        out.extend(sorted(glob.glob(os.path.join(COQ, d, "*.v"))))
    return [os.path.relpath(p, COQ) for p in out]


class Build:
    """result of translate + make"""

    def __init__(self):
        self.ok = False
        self.log = ""
        self.failed_files = []
        self.translation_failed = []
        self.wall = 0.0


def build(verbose=False):
    """regenerate coq/Gen from /repo, then a full .vo build (never -vos); serialised by flock"""
    os.makedirs(COQ, exist_ok=True)
    res = Build()
    t0 = time.time()
    with open(os.path.join(COQ, ".lock"), "w") as lock:
        fcntl.flock(lock, fcntl.LOCK_EX)
        rc, out, err = sh([sys.executable, os.path.join(VERIF, "vlib", "translate.py")],
                          env_=dict(env(), NGO_SRC=os.path.join(REPO, "src", "ngo")))
        res.log += out + err
        res.translation_failed = re.findall(r"TRANSLATION-FAILED (\w+)", out)
        if rc != 0:
            res.translation_failed.append("translator-crashed")
        files = v_files()
        proj = "-Q . NGO\n" + "\n".join(files) + "\n"
        pp = os.path.join(COQ, "_CoqProject")
        old = open(pp).read() if os.path.exists(pp) else ""
        if old != proj or not os.path.exists(os.path.join(COQ, "Makefile")):
            with open(pp, "w") as f:
                f.write(proj)
            sh(["coq_makefile", "-f", "_CoqProject", "-o", "Makefile"], cwd=COQ)
        rc, out, err = sh(["timeout", "3000", "make", "-k", f"-j{NCPU}"], cwd=COQ, timeout=3100)
        res.log += out + err
        res.failed_files = sorted(set(re.findall(r'File "\./([\w/]+\.v)", line \d+, characters [\d-]+:\n(?:Error|.*\nError)', out + err)))
        # make -k: any .v without .vo failed or depends on a failed file
        missing = [f for f in files if not os.path.exists(os.path.join(COQ, f[:-2] + ".vo"))]
        res.missing = missing
        res.ok = rc == 0 and not missing
        fcntl.flock(lock, fcntl.LOCK_UN)
    res.wall = time.time() - t0
    if verbose:
        print(res.log[-3000:])
    return res


def scan_forbidden():
    """textual scan of the whole development (comments stripped)"""
    hits = []
    for f in v_files():
        txt = open(os.path.join(COQ, f), encoding="utf-8").read()
        txt = strip_comments(txt)
        for m in FORBIDDEN.finditer(txt):
            hits.append(f"{f}: {m.group(0)}")
    return hits


def strip_comments(txt):
    out = []
    depth = 0
    i = 0
    instr = False
    while i < len(txt):
        if depth == 0 and txt[i] == '"':
            instr = not instr
            out.append(txt[i])
            i += 1
            continue
        if not instr and txt.startswith("(*", i):
            depth += 1
            i += 2
            continue
        if not instr and depth and txt.startswith("*)", i):
            depth -= 1
            i += 2
            continue
        if depth == 0:
            out.append(txt[i])
        i += 1
    return "".join(out)


def props_theorems(prop):
    """(name, statement text) of every Theorem in Props/<prop>.v, in order"""
    p = os.path.join(COQ, "Props", prop + ".v")
    if not os.path.exists(p):
        return []
    txt = strip_comments(open(p, encoding="utf-8").read())
    return re.findall(r"(?:Theorem|Example|Lemma|Corollary)\s+(\w+)", txt)


def check_props(prop):
    """compile Props/<prop>.v capturing Print Assumptions; returns dict name -> (discharged, note)"""
    names = props_theorems(prop)
    res = {n: (False, "not compiled") for n in names}
    if not names:
        return res
    vo = os.path.join(COQ, "Props", prop + ".vo")
    if not os.path.exists(vo):
        return res
    rc, out, err = sh(["timeout", "600", "coqc", "-Q", ".", "NGO", f"Props/{prop}.v"], cwd=COQ, timeout=700)
    if rc != 0:
        return {n: (False, "coqc failed: " + (err or out)[-300:]) for n in names}
    # split output into one block per Print Assumptions, in order
    blocks = re.split(r"(?m)^(?=Closed under the global context|Axioms:)", out)
    blocks = [b for b in blocks if b.startswith("Closed under") or b.startswith("Axioms:")]
    if len(blocks) != len(names):
        return {n: (False, f"expected {len(names)} Print Assumptions blocks, got {len(blocks)}") for n in names}
    for n, blk in zip(names, blocks):
        if blk.startswith("Closed under"):
            res[n] = (True, "closed")
            continue
        axioms = re.findall(r"(?m)^([\w.]+)\s*:", blk[len("Axioms:"):])
        bad = [a for a in axioms if a not in ALLOWED_AXIOMS]
        res[n] = (not bad, "axioms: " + ", ".join(axioms))
    return res


def write_evidence(prop, tier, level, coverage, wall, violations, assumptions=None):
    os.makedirs(EVID, exist_ok=True)
    ev = {
        "property_id": prop,
        "tier": tier,
        "seed": seed(),
        "level": level,
        "coverage": coverage,
        "assumptions": assumptions or [],
        "wall_s": round(wall, 2),
        "violations": violations,
    }
    with open(os.path.join(EVID, prop + ".json"), "w", encoding="utf-8") as f:
        json.dump(ev, f, indent=1, sort_keys=True)
        f.write("\n")


def write_replay(prop, payload):
    os.makedirs(REPLAY, exist_ok=True)
    blob = json.dumps(payload, sort_keys=True, indent=1)
    h = hashlib.sha1(blob.encode()).hexdigest()[:12]
    p = os.path.join(REPLAY, f"{prop}-{h}.json")
    with open(p, "w", encoding="utf-8") as f:
        f.write(blob + "\n")
    return p


def load_known_findings():
    p = os.path.join(VERIF, "known_findings.json")
    if not os.path.exists(p):
        return {"findings": [], "fixed": []}
    return json.load(open(p, encoding="utf-8"))
