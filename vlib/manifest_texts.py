"""the words of MANIFEST.json, per property"""
NOT_YET = {}
TEXTS = {
    "C18": {
        "text": "Coq theorems (Props/C18.v) state, for every program of the AST mirror, that the modelled collectors return exactly "
                "the predicates occurring in rules/objectives (predicates_complete), that every predicate never occurring as a "
                "positive head atom is returned by auto_detect_input, that a predicate derived by a statement whose body does not "
                "mention it is never returned, and that auto_detect_output is exactly the shown ones; the model (Model/Traverse.v) "
                "is tied to utils/ast.py and utils/globals.py by correspondence on thousands of statements/programs per run. "
                "The pool defect is a known finding and is excluded by the theorems' pool_free premise.",
        "note": "Trusted: Coq kernel + vm_compute, ser.py, correspondence generators (coverage reported in evidence); clingo's parser "
                "is not modelled; theory atoms and classically negated atoms are outside the mirror.",
        "technique": "Coq proof over hand-written model + vm_compute correspondence with the Python collectors",
    },
    "C19": {
        "text": "The option tables, VerifyEnable.__call__, the keyword wiring in __main__ and optimize's signature are *translated from the "
                "source on every run* (Gen/Cli.v); Props/C19.v proves for every token list of any length that a trait is enabled iff the "
                "documented expansion says so, that 'none' combined is rejected, default = all but duplication, the nine keywords receive "
                "membership of their own names. argparse/stdin/stdout are outside Coq: the translated action is compared with the real "
                "parser on all token lists up to length 3 (exhaustive) plus random longer ones, and python -m ngo is run against "
                "optimize() on trait subsets, predicate options and log levels.",
        "note": "Trusted: Coq kernel, vlib/translate.py (fail-closed Python-ast translator), the assumption that `while x in v: v.remove(x)` "
                "removes all occurrences and that sorted() on str is byte-lexicographic; argparse and I/O are observed, not proved.",
        "technique": "Coq proof over source-translated definitions + exhaustive small-scope correspondence with argparse + CLI/API differential runs",
    },
}
