"""the words of MANIFEST.json, per property"""
NOT_YET = {}

COMMON_NOTE = ("Trusted: Coq 8.16.1 kernel + vm_compute; vlib/translate.py (source -> Gen/*.v), vlib/ser.py, the correspondence "
               "generators (coverage in evidence); the HT semantics Sem/*.v as a rendering of clingo's (Abstract Gringo); "
               "axiom Classical_Prop.classic where Print Assumptions lists it. clingo/Python oracles only replay known findings, "
               "run a fixed corpus as support and search for a concrete failing input after an obligation broke.")


def T(text, technique, note=COMMON_NOTE):
    return {"text": text, "note": note, "technique": technique}


TEXTS = {
    "C01": T("PARTIAL. Proved (Props/C01.v): equiv_out / equiv_all / cons_ext compose over any number of loop iterations of any "
             "pass list (pipeline_preserves); the pipeline order, guards and constructor arguments of api.optimize are translated "
             "from the source on every run and proved to be the documented ones. Per-pass soundness comes from C05, C08-C16, each on "
             "its stated fragment. The whole pipeline is modelled (Model/Api.v composes seven traits; sum_chains and the sympy core "
             "of math are not composed) and tied to ngo.api.optimize by the api_optimize family and every default-trait pass's "
             "execute family. Defects of the unchanged tree are KNOWN-FINDINGs (51 replayed witnesses).",
             "Coq proof (compositional shell over Sem/Sat.v) + source-translated pipeline + vm_compute correspondence of every pass"),
    "C02": T("PARTIAL. Proved: cost algebra over tuple sets (Sem/Cost.v); telescoping; sum_chain_cost / sum_chain_cost_max (the "
             "chain statements sum_chains emits for an objective have the same cost in every total interpretation under "
             "at-most-one); inline_agg_min_then_drop_cost (unfolding inside objectives keeps costs); project_position_equiv_cost; "
             "potentially_unifying modelled, tied, proved sound on well-formed terms and refuted outside; refutation of the projected "
             "group variable (KNOWN-FINDING). The objective-rewriting functions of sum_chains, minmax and inline are modelled and tied "
             "by correspondence families.",
             "Coq proof (cost algebra, telescoping, chain/unfold cost preservation) + vm_compute correspondence"),
    "C03": T("PARTIAL. Proved (Link/TerminationSpec.v): every fuel bound of every model suffices for every input (cleanup's closure, "
             "binding fixpoints, preprocess - two exline rounds suffice -, unused's outer loop, projection, dependency's domain loops, "
             "naming loops, unification); models return exceptions as values and are compared with the real code including the "
             "exception class. The models do not exhibit sympy, networkx, clingo calls or the outer loop of api.optimize on inputs "
             "outside the modelled fragment: optimize is run under a watchdog on the fixed corpus for 12 trait selections; a confirmed "
             "timeout (150 s) is a failure; a correspondence family that does not return within its deadline is a broken obligation.",
             "Coq proof (fuel bounds for all models) + correspondence incl. exception classes + watchdog runs"),
    "C04": T("PARTIAL. Model/Safe.v models clingo's safety check and is tied to clingo itself by the family safe_stmt; proved "
             "(Link/SafeSpec.v): invariance under body permutation, adding/deleting a literal, replacing a sub-body by an aux atom, "
             "the aux rule, injective renaming; ngo's own binding analysis is sound w.r.t. clingo on a stated fragment and refuted "
             "outside (8 witnesses). Lexical validity of every generated name is proved. Print/parse fidelity involves clingo's "
             "printer/parser and is observed: every statement optimize returns on the fixed corpus is added to a ProgramBuilder, "
             "grounded, printed and re-parsed. Not shown: that each pass's output satisfies the premises of the preservation lemmas.",
             "Coq proof over a model of clingo's safety (tied to clingo by correspondence) + observed ProgramBuilder/ground/print-parse"),
    "C05": T("Proved (Props/C05.v): on its fragment the modelled preprocess yields an equiv_all program (preprocess_equiv_proof); "
             "exline / inline_arithmetic rule-level HT-equivalences (all signs), chain splitting, guard dropping over the translated "
             "guard tables, #count = #sum+ of ones; refuted: negated chains, self-referential equalities (KNOWN-FINDINGs). The whole "
             "of normalize.py and the `--enable none` pipeline are modelled and tied by 8 correspondence families. Not shown: "
             "old-style aggregate conversion at the semantic level.",
             "Coq proof (HT equivalences) + source-translated tables + vm_compute correspondence of normalize.py"),
    "C06": T("PARTIAL. Proved: definition folding is a bijection between stable models (Meta/Fold.v) and its instances at the level "
             "of Sem/Sat.v: projection_split_sound / project_rule_sound (projection), duplication_step_sound (duplication), "
             "neq_to_lt / all_neq_to_chain (symmetry), simple_translation_program_sound (minmax simple translation), "
             "project_position_sound (a bijection). For the chain encodings only the meaning of the chain predicates and the "
             "soundness half are proved (C12, C13). The link from each pass's model to the schema's premises is closed for projection "
             "(project_rule_sound) and on concrete outputs elsewhere.",
             "Coq proof (folding bijection and its Sat.v instances) + vm_compute correspondence of the passes"),
    "C07": T("Proved (Props/C07.v): for every history of naming requests the names are fresh and pairwise distinct; "
             "PassthroughSpec: every modelled pass and Api.optimize return #show p/n, #const, #external ... unchanged and in order; "
             "for `#show t : body` this is refuted for unused (KNOWN-FINDING) and proved when the body predicates are declared "
             "outputs; the names a pass invents are the log of its new_predicate calls, disjoint from the source vocabulary. The "
             "oracle checks pass-through, input heads and rename-invariance of the result's shape on the fixed corpus.",
             "Coq proof (invariant over request histories, pass-through of all modelled passes) + vm_compute correspondence"),
    "C08": T("PARTIAL. Proved: the cleanup meta-theorem (Meta/Cleanup.v) and execute_core_sound: on a decidable fragment the program "
             "returned by the modelled cleanup has the same stable models for every instance over the inputs (through "
             "ground_stable_iff). cleanup.py is fully modelled (incl. its defects) and tied by 5 families. Outside the fragment "
             "(conditional literals, aggregates, `_`) only correspondence + KNOWN-FINDINGs.",
             "Coq proof (cleanup meta-theorem linked to the model) + vm_compute correspondence of cleanup.py"),
    "C09": T("PARTIAL. Proved: remove_unused_sound (dropping unused definitions), project_position_sound (dropping unread argument "
             "positions is a bijection on answer sets; equiv_out / equiv_cost corollaries; many-to-one for choice-defined predicates "
             "is exactly what ngo excludes), project_negated_sound, copy_rule_shortcut_sound; refutations on the model's own output: "
             "copy chains, negated head literal, read position. unused.py is fully modelled and tied by 7 families.",
             "Coq proof (drop / projection bijection / copy rules over Sem/Sat.v) + vm_compute correspondence of unused.py"),
    "C10": T("PARTIAL. Proved (Link/DuplicationSem.v): folding an occurrence against an existing definition preserves answer sets "
             "(fold_existing_sound), definition + k folds is a conservative extension (duplication_step_sound), the side condition "
             "vars New <= ts is necessary; the model's output on a concrete program is proved a conservative extension. "
             "literal_duplication.py is fully modelled and tied by 10 families. Fragment: simple literals; conditional literals and "
             "aggregate elements only by correspondence.",
             "Coq proof (fold against existing definition) + vm_compute correspondence of literal_duplication.py"),
    "C11": T("PARTIAL. Proved (Link/SymmetrySem.v, axiom-free): X != Y -> X < Y is an HT-equivalence for bodies invariant under a "
             "renaming swapping X and Y; all pairwise != -> a < chain for k copies; program-level equiv_all; refutations (mixed "
             "sign: KNOWN-FINDING; cyclic <); three rules for which the model's output is proved equivalent. symmetry.py is fully "
             "modelled and tied by 7 families. Not shown: the #count rewrite of complex mode and the in-aggregate mode.",
             "Coq proof (symmetry breaking over Sem/Sat.v) + vm_compute correspondence of symmetry.py"),
    "C12": T("PARTIAL. Proved: the dispatch table of _process_rule (translated from source); MinMaxSem: the simple translation is "
             "HT-equivalent iff the tuple sets have an extremum and the bound is not the empty-set value; the negated case is sound "
             "for total interpretations only and loses answer sets (KNOWN-FINDING, refuted on the model's own output); the meaning of "
             "min/next/chain predicates in every stable model. minmax_aggregates.py is fully modelled and tied by 9 families. Not "
             "shown: completeness half for the chain translation.",
             "Coq proof (simple translation over Sem/Sat.v, chain meaning) + source-translated dispatch + vm_compute correspondence"),
    "C13": T("PARTIAL. Proved (Link/SumChainsSem.v): telescoping, chain_meaning in every stable model, sum_chain_value / _agg / "
             "_elems (under at-most-one the aggregate value is unchanged), refutations (no at-most-one, #sum+ with a negative minimum, "
             "non-integer domain values), soundness half for the model's output on the standard example. sum_aggregates.py is fully "
             "modelled (set iteration order as explicit argument) and tied by 9 families. Not shown: completeness half; three unsound "
             "at-most-one inferences are KNOWN-FINDINGs.",
             "Coq proof (chain meaning, sum preservation) + vm_compute correspondence of sum_aggregates.py"),
    "C14": T("PARTIAL. sympy's Groebner/solve core is not modelled. The glue is (Model/Math.v): sympy2ast branch by branch and the "
             "acceptance / operator table of the term -> sympy direction, tied by 2 families; proved: exact acceptance condition, "
             "rationals / Mod / floor never translated, value soundness against exact rational evaluation, the term -> sympy direction "
             "sound only for non-negative dividends / positive divisors / non-negative exponents and refuted otherwise "
             "(KNOWN-FINDINGs); comparison tables exact. The rewrite decision itself is covered only by the oracle on "
             "corpus/oracle_math.lp (39 programs on which math really rewrites).",
             "Coq proof over a model of the sympy glue + vm_compute correspondence + clingo differential runs on a math corpus"),
    "C15": T("PARTIAL. Proved (Link/InlineSem.v): unfolding a single-rule definition into its only positive occurrence (body literal, "
             "aggregate element of any function, objective) and deleting the definition is a conservative extension with equal "
             "costs; one direction without stratification, the converse under a splitting hypothesis and refuted without "
             "(KNOWN-FINDING); refutations for every side condition; potentially_unifying sound on well-formed terms. inline.py is "
             "fully modelled and tied by 18 families. Not shown: bodies that themselves contain an aggregate (the shape ngo unfolds) "
             "beyond the element-level lemma.",
             "Coq proof (unfolding over Sem/Sat.v) + vm_compute correspondence of inline.py"),
    "C16": T("Proved: projection_split_sound (a split satisfying the interface condition is a conservative extension) and "
             "project_rule_sound (a split performed by the modelled project_rule is one); aux rules are safe iff the kept variables "
             "are bound (SafeSpec). projection.py is fully modelled and tied by 5 families. Fragment: simple programs without `_`.",
             "Coq proof (rule split = conservative extension, linked to the model) + vm_compute correspondence of projection.py"),
    "C17": T("PARTIAL. In-place mutation, hashing and cross-process behaviour are facts of the Python runtime that Gallina values "
             "cannot exhibit; they are observed (argument compared before/after, repeated and history-shifted runs, fresh "
             "interpreters under several hash seeds). Proved: the census of every iteration over a hash-ordered collection and of all "
             "process-level state in src/ngo (regenerated from the source on every run) equals the audited list; membership of "
             "auto_detect_input is order-free; naming is history-deterministic. 8 of 18 audited sites can carry hash order into the "
             "result (one is a KNOWN-FINDING).",
             "source-translated purity census proved equal to an audited list + observed purity runs"),
    "C18": T("Coq theorems (Props/C18.v) state, for every program of the AST mirror, that the modelled collectors return exactly the "
             "predicates occurring in rules/objectives, that every predicate never occurring as a positive head atom is returned by "
             "auto_detect_input, that a predicate derived by a statement whose body does not mention it is never returned, and that "
             "auto_detect_output is exactly the shown ones; the model is tied to utils/ast.py and utils/globals.py by correspondence. "
             "Atoms written with a pool are a KNOWN-FINDING.",
             "Coq proof over hand-written model + vm_compute correspondence with the Python collectors"),
    "C19": T("The option tables, VerifyEnable.__call__, PredicateList's constants, the keyword wiring in __main__ and optimize's "
             "signature are translated from the source on every run (Gen/Cli.v, fail-closed); Props/C19.v proves for every token list "
             "that a trait is enabled iff the documented expansion says so, and that name/arity lists are parsed entry by entry in "
             "order (nothing merged). argparse/stdin/stdout are outside Coq: the translated action and the list parser are compared "
             "with the real parser, and python -m ngo is run against optimize() on trait subsets, predicate options (incl. one name "
             "with two arities) and log levels.",
             "Coq proof over source-translated definitions + exhaustive small-scope correspondence with argparse + CLI/API differential runs"),
    "C20": T("PARTIAL. Proved: next is exactly the successor relation and min the least value in every stable model of the emitted "
             "rules (shape checked on the model's output); DomainSem: p(t) implies __dom_p(t) in every stable model whenever every "
             "defining rule has a covered domain rule, domain predicates have the same extension in all answer sets, a validator "
             "proved sound and run on the model's output; refutations replayed on the real code (negation, input facts, condition of "
             "a conditional literal: KNOWN-FINDINGs). dependency.py is fully modelled and tied by 6 families.",
             "Coq proof (order encoding meaning, domain over-approximation) + vm_compute correspondence of dependency.py"),
}
