"""the words of MANIFEST.json, per property"""
NOT_YET = {}

COMMON_NOTE = ("Trusted: Coq 8.16.1 kernel + vm_compute; vlib/translate.py (source -> Gen/*.v), vlib/ser.py, the correspondence "
               "generators (coverage in evidence); the HT semantics Sem/*.v as a rendering of clingo's (Abstract Gringo); "
               "axiom Classical_Prop.classic where Print Assumptions lists it. clingo/Python oracles only replay known findings, "
               "run a fixed corpus as support and search for a concrete failing input after an obligation broke.")


def T(text, technique, note=COMMON_NOTE):
    return {"text": text, "note": note, "technique": technique}


TEXTS = {
    "C01": T("PARTIAL. Proved (Props/C01.v): the relations equiv_out / equiv_all / cons_ext compose over any number of loop iterations "
             "of any pass list (pipeline_preserves), equiv_all and cons_ext imply equality on the outputs, statement-level "
             "HT-equivalence lifts to programs; the pipeline order, guards and constructor arguments of api.optimize are *translated "
             "from the source on every run* and proved to be the documented ones. Per-pass soundness is supplied by C05, C08-C16 "
             "only on their fragments (see those checks); the always-on pipeline (preprocess/exline/postprocess) and cleanup are "
             "hand-modelled in Coq and tied to the code by correspondence. Known defects of the unchanged tree are listed as "
             "KNOWN-FINDINGs.",
             "Coq proof (compositional shell over Sem/Sat.v) + source-translated pipeline + vm_compute correspondence"),
    "C02": T("PARTIAL. Proved: the value of a sum over a tuple *set* is independent of the enumeration, sums over tuple sets that "
             "cannot coincide add, coinciding tuples count once, equal tuple sets give equal cost (Sem/Cost.v), the telescoping "
             "identity min D + sum of chain steps = max used by the chain passes; the tuple-distinctness test potentially_unifying is "
             "modelled, tied by correspondence and proved sound on well-formed terms (refuted outside, KNOWN-FINDING). Not shown: "
             "transfer of stable models for the chain passes.",
             "Coq proof (cost algebra, telescoping) + correspondence of potentially_unifying"),
    "C03": T("PARTIAL. Proved: every modelled loop terminates within its fuel (UniqueNames/UniqueVariables loops by pigeonhole, "
             "unification), generated tables are total; models return exceptions as values and are compared with the real code "
             "including the exception class (binding, normalize, cleanup, dependency). NOT provable here and said so: termination of "
             "the outer `while True` of api.optimize and Python-level resource exhaustion; these are observed: optimize is run under a "
             "watchdog on the fixed corpus for 12 trait selections. Known crashes are KNOWN-FINDINGs identified by exception class + "
             "innermost ngo frame.",
             "Coq proof (fuel bounds) + correspondence incl. exception classes + watchdog runs"),
    "C04": T("PARTIAL. Proved: every predicate / variable name the modelled naming functions can produce is a lexically valid gringo "
             "identifier (prefix constants generated from utils/globals.py; numbered variants), Variable(\"none\") is not. Safety, "
             "print/parse fidelity and AST-vs-text agreement involve clingo's C++ parser/printer/grounder and are observed only: every "
             "statement optimize returns on the fixed corpus is added to a ProgramBuilder, grounded, printed and re-parsed.",
             "Coq proof (lexical validity over generated constants) + observed ProgramBuilder/ground/print-parse runs"),
    "C05": T("Proved (Props/C05.v) at literal/atom level under the HT semantics and lifted to programs: splitting positive and doubly "
             "negated comparison chains, dropping #inf/#sup guards and moving the right guard to the left (over the *generated* guard "
             "tables), #count = #sum+ of ones; refuted: splitting a negated chain (KNOWN-FINDING). The whole of normalize.py incl. "
             "unpool, exline and inline_arithmetic and the `--enable none` pipeline are modelled (Model/Normalize.v) and tied by 8 "
             "correspondence families. Not shown: exline/inline equalities and old-aggregate conversion at the semantic level.",
             "Coq proof (HT equivalences) + source-translated tables + vm_compute correspondence of normalize.py"),
    "C06": T("PARTIAL. Proved: definition folding (fresh atoms defined by non-recursive rules) is a bijection between the stable models "
             "of source and result, for arbitrary body formulas (Meta/Fold.v), and a conservative extension preserves the outputs. "
             "The link from each pass's output to the folding schema is not closed; chain passes add recursive definitions for which "
             "only the T-level characterisations (C12/C20) are proved.",
             "Coq proof (G3a folding bijection)"),
    "C07": T("Proved (Props/C07.v) for *every* history of naming requests: new_predicate / new_auxpredicate / make_unique return names "
             "that are fresh w.r.t. the known set and pairwise distinct, never run out of fuel, and UniqueNames' initial set covers all "
             "predicates of rules/objectives and the inputs; refuted: declared output / #show predicates are not in the known set. "
             "Models tied by correspondence on random colliding request histories. Pass-through of non-rule statements and input heads "
             "are observed on the fixed corpus.",
             "Coq proof (invariant over request histories) + vm_compute correspondence"),
    "C08": T("PARTIAL. Proved (Meta/Cleanup.v): supportedness; removing body literals implied - through the intersection over all "
             "defining rules, closed transitively - by a retained positive atom never loses an answer set (arbitrary bodies) and never "
             "adds one (bodies monotone in H); #true/#false elimination. cleanup.py is fully modelled (Model/Cleanup.v, incl. its "
             "defects) and tied by 5 correspondence families. The link 'the modelled mappings satisfy the schema's premises' "
             "(mapping_meaning) is not closed; five defects are KNOWN-FINDINGs.",
             "Coq proof (G2 cleanup meta-theorem) + vm_compute correspondence of cleanup.py"),
    "C09": T("PARTIAL. Proved (Meta/Drop.v): rules defining atoms that nothing observes can be dropped (restriction maps stable models "
             "onto stable models, every stable model of the kept part extends). unused.py is hand-modelled and tied by correspondence "
             "when Model/Unused.v is present. Position projection and copy-rule unfolding are not linked; defects are KNOWN-FINDINGs.",
             "Coq proof (G4 drop) + correspondence"),
    "C10": T("PARTIAL. Proved: the folding bijection (G3a) that a factored-out literal set instantiates. literal_duplication.py itself is "
             "not modelled; the clingo differential run over the fixed corpus is support only.",
             "Coq proof (G3a folding bijection)"),
    "C11": T("PARTIAL. Proved (Meta/Count.v) for any strict total order: a symmetric join under != fires iff the ordered join under < "
             "fires; k pairwise distinct members iff a strictly increasing k-tuple iff count >= k. symmetry.py itself is not modelled; "
             "the link (crosscheck implies invariance) is not closed; defects are KNOWN-FINDINGs.",
             "Coq proof (G5 counting vs joining)"),
    "C12": T("PARTIAL. Proved (Meta/Chain.v) for finite sorted domains of any size: the generated next predicate is exactly the "
             "successor relation, the chain predicate is the down-closure of the element values, its top is the maximum, telescoping; "
             "negate_comparison (generated) is exact. minmax_aggregates.py is not modelled; transfer of minimality is not shown.",
             "Coq proof (G6 chain meaning) + source-translated tables"),
    "C13": T("PARTIAL. Proved: guaranteed_leq/geq (translated from source) are sound bounds, supportedness (at most one value per group "
             "follows from a single bounded defining rule), telescoping sums, disjoint tuple sets add. sum_aggregates.py itself is not "
             "modelled; three unsound at-most-one inferences are KNOWN-FINDINGs.",
             "Coq proof over source-translated definitions + G6/G8"),
    "C14": T("PARTIAL, the weakest claim: sympy's Groebner/solve core is not modelled. Proved: compare/negate/rhs2lhs tables (generated) "
             "are exact over the integers, the slack encoding of comparisons is exact, merging #sum aggregates with distinct __agg tags "
             "adds (and is wrong without tags), #sum+ ignores negative weights, X = Y*3 is not solvable over the integers (the defect).",
             "Coq proof (integer algebra) + source-translated tables"),
    "C15": T("PARTIAL. Proved: potentially_unifying (modelled, tied by correspondence) is sound on well-formed terms - if two tuples can "
             "evaluate to the same values the test answers True - and refuted outside (unique vs unique(), unary minus on negative "
             "symbols: KNOWN-FINDING with a clingo replay); sums over tuple sets that cannot coincide add. inline.py itself is not modelled.",
             "Coq proof (soundness of the distinctness test) + correspondence"),
    "C16": T("PARTIAL. Proved: the folding bijection (G3a) a rule split instantiates; projection.py (good_split, project_rule, execute) is "
             "fully modelled (Model/Projection.v) and tied by 5 correspondence families. The link good_split => folding premises is "
             "not closed.",
             "Coq proof (G3a) + vm_compute correspondence of projection.py"),
    "C17": T("PARTIAL. In-place mutation, hashing and cross-process behaviour are facts of the Python runtime that Gallina values cannot "
             "exhibit; they are observed (argument compared before/after, repeated and history-shifted runs, PYTHONHASHSEED variation). "
             "Proved: the modelled functions that iterate over Python sets return order-independent results (auto_detect_input "
             "membership), and the naming state is history-deterministic (C07 theorems).",
             "observed purity runs + Coq proof of order-independence of modelled set iterations"),
    "C18": T("Coq theorems (Props/C18.v) state, for every program of the AST mirror, that the modelled collectors return exactly the "
             "predicates occurring in rules/objectives, that every predicate never occurring as a positive head atom is returned by "
             "auto_detect_input, that a predicate derived by a statement whose body does not mention it is never returned, and that "
             "auto_detect_output is exactly the shown ones; the model is tied to utils/ast.py and utils/globals.py by correspondence. "
             "Atoms written with a pool are a KNOWN-FINDING.",
             "Coq proof over hand-written model + vm_compute correspondence with the Python collectors"),
    "C19": T("The option tables, VerifyEnable.__call__, the keyword wiring in __main__ and optimize's signature are translated from the "
             "source on every run (Gen/Cli.v); Props/C19.v proves for every token list of any length that a trait is enabled iff the "
             "documented expansion says so, 'none' combined is rejected, default = all but duplication, the nine keywords receive "
             "membership of their own names. argparse/stdin/stdout are outside Coq: the translated action is compared with the real "
             "parser on all token lists up to length 3 (exhaustive) plus random longer ones, and python -m ngo is run against "
             "optimize() on trait subsets, predicate options and log levels.",
             "Coq proof over source-translated definitions + exhaustive small-scope correspondence with argparse + CLI/API differential runs"),
    "C20": T("PARTIAL. Proved (Meta/Chain.v) in terms of the extensions of the auxiliary predicates in any interpretation that satisfies "
             "and supports the generated rules (true of every stable model by the supportedness theorem): next is exactly the successor "
             "relation of the domain, chain is the down-closure. dependency.py (static analysis, domain rules, naming cache, generators) "
             "is modelled and tied by correspondence. dom over-approximation is false under negation / input predicates (KNOWN-FINDINGs).",
             "Coq proof (G6) + vm_compute correspondence of dependency.py"),
}
