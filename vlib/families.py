"""correspondence families: each runs a real ngo function and emits Coq boolean expressions
comparing the model with the observed result"""
import itertools
import random

from clingo.ast import ASTType, Sign

from . import ser
from .corr import Case
from .inputs import parse, try_parse


def _stmts(inputs):
    """distinct statements of all input programs"""
    seen = set()
    for inp in inputs:
        prg = try_parse(inp["text"])
        if prg is None:
            continue
        for s in prg:
            k = str(s)
            if k in seen:
                continue
            seen.add(k)
            yield inp, s


class Predicates:
    name = "predicates"
    imports = ["Model.Traverse", "Model.Corr"]
    source = "ngo.utils.ast.predicates / headderivable_predicates / body_predicates / minimize_predicates"

    def cases(self, inputs, rng):
        from ngo.utils.ast import SIGNS, body_predicates, headderivable_predicates, minimize_predicates, predicates
        signsets = [(SIGNS, "all_signs"), ({Sign.NoSign}, "[NoSign]"), ({Sign.Negation, Sign.DoubleNegation}, "[Neg; NegNeg]")]
        for inp, s in _stmts(inputs):
            try:
                t = ser.stmt(s)
            except ser.Unsupported:
                continue
            for ss, ssn in signsets:
                obs = list(predicates(s, ss))
                yield Case(f"chk_spreds (predicates {ssn} {t}) {ser.lst([ser.spred(p) for p in obs])}",
                           {"fn": "predicates", "signs": ssn, "stmt": str(s), "observed": [str(p.pred) for p in obs]},
                           nontrivial=bool(obs))
                obs = list(body_predicates(s, ss))
                yield Case(f"chk_spreds (body_predicates {ssn} {t}) {ser.lst([ser.spred(p) for p in obs])}",
                           {"fn": "body_predicates", "signs": ssn, "stmt": str(s)}, nontrivial=bool(obs))
                obs = list(minimize_predicates(s, ss))
                yield Case(f"chk_spreds (minimize_predicates {ssn} {t}) {ser.lst([ser.spred(p) for p in obs])}",
                           {"fn": "minimize_predicates", "signs": ssn, "stmt": str(s)}, nontrivial=bool(obs))
            obs = list(headderivable_predicates(s))
            yield Case(f"chk_spreds (headderivable {t}) {ser.lst([ser.spred(p) for p in obs])}",
                       {"fn": "headderivable_predicates", "stmt": str(s), "observed": [str(p.pred) for p in obs]},
                       nontrivial=bool(obs))


class AutoDetect:
    name = "auto_detect"
    imports = ["Model.Traverse", "Model.Corr"]
    source = "ngo.utils.globals.auto_detect_input / auto_detect_output"

    def cases(self, inputs, rng):
        import logging
        from ngo.utils.globals import auto_detect_input, auto_detect_output
        logging.disable(logging.CRITICAL)
        progs = []
        for inp in inputs:
            prg = try_parse(inp["text"])
            if prg is not None:
                progs.append((inp["text"], prg))
        # mixtures of statements from different programs reach more in_body/in_head index patterns
        allst = [s for _, p in progs for s in p if s.ast_type != ASTType.Program]
        for i in range(min(300, len(allst))):
            k = rng.randint(1, 6)
            mix = [rng.choice(allst) for _ in range(k)]
            progs.append(("\n".join(map(str, mix)), mix))
        for text, prg in progs:
            try:
                t = ser.prog(prg)
            except ser.Unsupported:
                continue
            obs = auto_detect_input(prg)
            yield Case(f"chk_auto_input {t} {ser.lst([ser.pred(p) for p in obs])}",
                       {"fn": "auto_detect_input", "program": text, "observed": [str(p) for p in obs]},
                       nontrivial=bool(obs))
            obs = auto_detect_output(prg)
            yield Case(f"chk_preds (auto_detect_output {t}) {ser.lst([ser.pred(p) for p in obs])}",
                       {"fn": "auto_detect_output", "program": text, "observed": [str(p) for p in obs]},
                       nontrivial=bool(obs))


class VerifyEnable:
    name = "verify_enable"
    imports = ["Gen.Cli", "Model.Corr"]
    source = "ngo.utils.parser.VerifyEnable via get_parser().parse_args(['--enable', ...])"

    def cases(self, inputs, rng):
        import contextlib
        import io
        from ngo.utils.parser import ALL_OPTIONS, get_parser
        choices = ["all", "none", "default"] + list(ALL_OPTIONS)
        lists = []
        for n in (1, 2, 3):
            lists.extend(itertools.product(choices, repeat=n))
        for _ in range(400):
            n = rng.randint(4, 12)
            lists.append(tuple(rng.choice(choices) for _ in range(n)))
        for toks in lists:
            parser = get_parser()
            try:
                with contextlib.redirect_stderr(io.StringIO()):
                    args = parser.parse_args(["--enable", *toks])
                obs = "(Some " + ser.strlist(list(args.enable)) + ")"
                en = list(args.enable)
            except (SystemExit, Exception):  # pylint: disable=broad-except
                obs = "None"
                en = None
            yield Case(f"chk_ostrings (verify_enable {ser.strlist(toks)}) {obs}",
                       {"fn": "VerifyEnable", "tokens": list(toks), "observed": en},
                       nontrivial=len(set(toks)) > 1 or toks[0] in ("all", "default", "none"))


FAMILIES = {f.name: f for f in (Predicates(), AutoDetect(), VerifyEnable())}


def _load_plugins():
    """families defined in vlib/fam_*.py (each module exports FAMILIES: list of family objects)"""
    import glob
    import importlib
    import os
    here = os.path.dirname(os.path.abspath(__file__))
    for f in sorted(glob.glob(os.path.join(here, "fam_*.py"))):
        mod = importlib.import_module("vlib." + os.path.basename(f)[:-3])
        for fam in getattr(mod, "FAMILIES", []):
            FAMILIES[fam.name] = fam


_load_plugins()
