"""correspondence families for coq/Model/Projection.v (model of ngo/projection.py + utils.ast.largest_subset)

projection_subsets        largest_subset on lists of 0..5 distinct numbers
projection_good_split     ProjectionTranslator.good_split(new, rest, stm) for partitions of rule bodies
                          (all partitions for bodies of <= 5 elements, random ones otherwise, some shuffled)
projection_rule           project_rule on every rule of a program with ONE translator (state threaded as in
                          execute); the final auxcounter and predicate set are compared as well
projection_execute_core   ProjectionTranslator(prg, ins).execute(prg) with ngo.projection.inline_arithmetic
                          patched to `lambda prg: list(prg)`, on raw and on preprocessed programs
projection_execute        the unpatched execute (only if Model/Normalize.v exports inline_arithmetic)

Exceptions of the real code are observed results (Raise "<class>").  Rules with a theory atom in the body
are outside the model's fragment (the mirror keeps theory atoms opaque, so their Variable nodes are
invisible); such cases are still emitted (the chk_ functions accept OutOfFragment) and counted in SKIPPED.
Statement lists are compared *with* the begin line of rules (the new rule carries LOC, line 1).
ACCEPTED counts the good_split / project_rule calls that accepted a split.
"""
import itertools
import logging
import os

from clingo.ast import AST, ASTType

from . import ser
from .common import COQ
from .corr import Case
from .inputs import parse, try_parse

IMPORTS = ["Model.Traverse", "Model.Corr", "Model.Binding", "Model.Globals", "Model.Projection"]
SKIPPED = {"projection_good_split": 0, "projection_rule": 0, "projection_execute_core": 0, "projection_execute": 0}
ACCEPTED = {"projection_good_split": [0, 0], "projection_rule": [0, 0], "projection_execute_core": [0, 0],
            "projection_execute": [0, 0]}          # [accepted, total]
MAX_BODY = 11        # 2^n subsets per rule: larger bodies are skipped by the rule family ...
MAX_BODY_EXECUTE = 9  # ... and by the execute families (every program is run up to four times)
MAX_STATEMENTS = 400  # execute families: unpooling can blow a test program up to ~900 rules

SYNTH_INPUT_NAMES = ["__aux_1", "__aux_2", "__aux_3", "__aux_4", "__aux_5", "p", "q", "in"]


# ------------------------------------------------------------------------------------------------
# helpers (local to this file)
# ------------------------------------------------------------------------------------------------
def walk(node):
    yield node
    for k in node.child_keys:
        v = getattr(node, k)
        if v is None:
            continue
        if isinstance(v, AST):
            yield from walk(v)
        else:
            try:
                it = list(v)
            except TypeError:
                continue
            for x in it:
                if isinstance(x, AST):
                    yield from walk(x)


def body_has_theory(stm):
    return any(n.ast_type == ASTType.TheoryAtom for x in stm.body for n in walk(x))


def preds(ps):
    return ser.lst([ser.pred(p) for p in ps])


def bools(bs):
    return ser.lst([ser.b(x) for x in bs])


def nats(xs):
    return ser.lst([str(int(x)) for x in xs])


def result_text(fn, conv):
    """run fn; (Coq text of a `result`, json-able, raw value or None)"""
    try:
        r = fn()
    except Exception as e:  # pylint: disable=broad-except
        return ser.result_raise(e), "raise " + type(e).__name__, None
    text, js = conv(r)
    return ser.result_ok(text), js, r


def conv_split(r):
    if r is None:
        return "None", None
    assert all(v.ast_type == ASTType.Variable for v in r)
    names = [v.name for v in r]
    return f"(Some {ser.strlist(names)})", names


def conv_stmts(r):
    return ser.prog(r), [str(s) for s in r]


def random_inputs(rng, prg):
    from ngo.utils.ast import Predicate, predicates
    names = sorted({(sp.pred.name, sp.pred.arity) for s in prg for sp in predicates(s)})
    ins = []
    for _ in range(rng.choice([0, 1, 1, 2, 3])):
        if names and rng.random() < 0.5:
            ins.append(Predicate(*rng.choice(names)))
        else:
            ins.append(Predicate(rng.choice(SYNTH_INPUT_NAMES), rng.randint(0, 3)))
    return ins


def max_body(prg):
    return max([len(s.body) for s in prg if s.ast_type == ASTType.Rule] or [0])


def programs(inputs):
    seen = set()
    for inp in inputs:
        text = inp["text"]
        if text in seen or try_parse(text) is None:
            continue
        seen.add(text)
        yield text


def model_has_inline_arithmetic():
    vo = os.path.join(COQ, "Model", "Normalize.vo")
    src = os.path.join(COQ, "Model", "Normalize.v")
    mine = os.path.join(COQ, "Model", "ProjectionExecute.vo")
    if not (os.path.exists(vo) and os.path.exists(src) and os.path.exists(mine)):
        return False
    txt = open(src, encoding="utf-8").read()
    return "Definition inline_arithmetic " in txt or "Fixpoint inline_arithmetic " in txt


# ------------------------------------------------------------------------------------------------
class ProjectionSubsets:
    name = "projection_subsets"
    imports = IMPORTS
    source = "ngo.utils.ast.largest_subset (lists of 0..5 distinct numbers, and a few with repeated items)"

    def cases(self, inputs, rng):
        from ngo.utils.ast import largest_subset
        lists = [list(range(n)) for n in range(6)]
        for n in range(1, 6):
            for _ in range(4):
                lists.append(rng.sample(range(20), n))
        lists += [[1, 1], [2, 1, 2], [0, 0, 0], [3, 1, 3, 1]]      # positions, not values, are combined
        for l in lists:
            r = largest_subset(l)
            obs = ser.lst([nats(t) for t in r])
            yield Case(f"chk_subsets (largest_subset {nats(l)}) {obs}",
                       {"fn": "largest_subset", "input": l, "observed": [list(t) for t in r]}, nontrivial=len(l) > 1)


class ProjectionGoodSplit:
    name = "projection_good_split"
    imports = IMPORTS
    source = "ngo.projection.ProjectionTranslator.good_split on partitions of the bodies of all input rules"

    def cases(self, inputs, rng):
        from ngo.projection import ProjectionTranslator
        logging.disable(logging.CRITICAL)
        pt = ProjectionTranslator([], [])
        seen = set()
        for text in programs(inputs):
            for stm in parse(text):
                if stm.ast_type != ASTType.Rule or str(stm) in seen:
                    continue
                seen.add(str(stm))
                try:
                    t = ser.stmt(stm)
                except ser.Unsupported:
                    continue
                body = list(stm.body)
                n = len(body)
                theory = body_has_theory(stm)
                masks = []
                if n <= 5:
                    masks = [list(m) for m in itertools.product([True, False], repeat=n)]
                else:
                    masks = [[True] * n, [False] * n]
                    for _ in range(24):
                        p = rng.choice([0.3, 0.5, 0.7])
                        masks.append([rng.random() < p for _ in range(n)])
                for mask in masks:
                    new = [x for x, m in zip(body, mask) if m]
                    rest = [x for x, m in zip(body, mask) if not m]
                    obs, js, r = result_text(lambda: pt.good_split(new, rest, stm), conv_split)  # pylint: disable=cell-var-from-loop
                    ACCEPTED[self.name][1] += 1
                    if theory:
                        SKIPPED[self.name] += 1
                    if r is not None:
                        ACCEPTED[self.name][0] += 1
                    yield Case(f"chk_split (good_split_mask {t} {bools(mask)}) {obs}",
                               {"fn": "good_split", "stmt": str(stm), "new": [str(x) for x in new],
                                "rest": [str(x) for x in rest], "observed": js},
                               nontrivial=r is not None)
                # the lists need not be in body order (nor a partition): shuffled / overlapping variants
                if n >= 2:
                    for _ in range(3):
                        mask = [rng.random() < 0.6 for _ in range(n)]
                        new = [x for x, m in zip(body, mask) if m]
                        rest = [x for x, m in zip(body, mask) if not m]
                        rng.shuffle(new)
                        rng.shuffle(rest)
                        r_ = rng.random()
                        if r_ < 0.3 and new:
                            rest.append(rng.choice(new))
                        elif r_ < 0.6 and len(rest) > 1:
                            rest.pop(rng.randrange(len(rest)))     # `rest` need not cover the complement
                        obs, js, r = result_text(lambda: pt.good_split(new, rest, stm), conv_split)  # pylint: disable=cell-var-from-loop
                        ACCEPTED[self.name][1] += 1
                        if theory:
                            SKIPPED[self.name] += 1
                        if r is not None:
                            ACCEPTED[self.name][0] += 1
                        yield Case(f"chk_split (good_split {ser.body(new)} {ser.body(rest)} {t}) {obs}",
                                   {"fn": "good_split", "variant": "shuffled", "stmt": str(stm),
                                    "new": [str(x) for x in new], "rest": [str(x) for x in rest], "observed": js},
                                   nontrivial=r is not None)


class ProjectionRule:
    name = "projection_rule"
    imports = IMPORTS
    source = ("ngo.projection.ProjectionTranslator.project_rule on every rule of a program, one translator per "
              "program (random input predicates), final UniqueNames state compared")

    def cases(self, inputs, rng):
        from ngo.projection import ProjectionTranslator
        logging.disable(logging.CRITICAL)
        for text in programs(inputs):
            prg = parse(text)
            if max_body(prg) > MAX_BODY:
                continue
            try:
                t = ser.prog(prg)
            except ser.Unsupported:
                continue
            for rnd in range(2):
                ins = [] if rnd == 0 else random_inputs(rng, prg)
                if rnd == 1 and not ins:
                    continue
                pt = ProjectionTranslator(prg, ins)
                obs = []
                js = []
                changed = False
                for stm in prg:
                    if stm.ast_type != ASTType.Rule:
                        continue
                    o, j, r = result_text(lambda: pt.project_rule(stm), conv_stmts)  # pylint: disable=cell-var-from-loop
                    obs.append(o)
                    js.append(j)
                    ACCEPTED[self.name][1] += 1
                    if body_has_theory(stm):
                        SKIPPED[self.name] += 1
                    if r is not None and len(r) == 2:
                        changed = True
                        ACCEPTED[self.name][0] += 1
                known = sorted(pt.unique_names.predicates)
                yield Case(f"chk_rules (project_rules (init_names {t} {preds(ins)}) {t}) {ser.lst(obs)} "
                           f"{pt.unique_names.auxcounter} {preds(known)}",
                           {"fn": "project_rule", "program": text, "inputs": [str(p) for p in ins], "observed": js,
                            "auxcounter": pt.unique_names.auxcounter}, nontrivial=changed)


def run_core(ins, ctor_prg, prg):
    import ngo.projection as mod
    saved = mod.inline_arithmetic
    mod.inline_arithmetic = lambda prg: list(prg)
    try:
        return mod.ProjectionTranslator(ctor_prg, list(ins)).execute(prg)
    finally:
        mod.inline_arithmetic = saved


class ProjectionExecuteCore:
    name = "projection_execute_core"
    imports = IMPORTS
    source = ("ngo.projection.ProjectionTranslator(prg, ins).execute(prg) with ngo.projection.inline_arithmetic "
              "patched to `lambda prg: list(prg)` (raw and preprocessed programs, random input predicates)")
    model = "execute_core"
    patched = True

    def run(self, ins, prg):
        if self.patched:
            return run_core(ins, prg, prg)
        from ngo.projection import ProjectionTranslator
        return ProjectionTranslator(prg, list(ins)).execute(prg)

    def cases(self, inputs, rng):
        from ngo.normalize import preprocess
        logging.disable(logging.CRITICAL)
        for text in programs(inputs):
            variants = [("raw", lambda: parse(text)),  # pylint: disable=cell-var-from-loop
                        ("preprocessed", lambda: preprocess(parse(text)))]  # pylint: disable=cell-var-from-loop
            for kind, make in variants:
                for rnd in range(2):
                    try:
                        prg = make()
                        t = ser.prog(prg)
                    except ser.Unsupported:
                        break
                    except Exception:  # pylint: disable=broad-except
                        break                      # preprocess itself failed on this input
                    if max_body(prg) > MAX_BODY_EXECUTE or len(prg) > MAX_STATEMENTS:
                        break
                    ins = [] if rnd == 0 else random_inputs(rng, prg)
                    if rnd == 1 and not ins:
                        continue
                    before = [str(s) for s in prg]
                    obs, js, r = result_text(lambda: self.run(ins, prg), conv_stmts)  # pylint: disable=cell-var-from-loop
                    ACCEPTED[self.name][1] += 1
                    if any(s.ast_type == ASTType.Rule and body_has_theory(s) for s in prg):
                        SKIPPED[self.name] += 1
                    if r is not None and len(r) != len(prg):
                        ACCEPTED[self.name][0] += 1
                    yield Case(f"chk_stmts ({self.model} {t} {preds(ins)} {t}) {obs}",
                               {"fn": self.source.split(" ")[0], "kind": kind, "inputs": [str(p) for p in ins],
                                "program": "\n".join(before), "source": text, "observed": js},
                               nontrivial=r is not None and js != before)


class ProjectionExecute(ProjectionExecuteCore):
    name = "projection_execute"
    source = "ngo.projection.ProjectionTranslator(prg, ins).execute(prg) (unpatched: inline_arithmetic included)"
    model = "execute"
    patched = False
    imports = IMPORTS + ["Model.ProjectionExecute"]


FAMILIES = [ProjectionSubsets(), ProjectionGoodSplit(), ProjectionRule(), ProjectionExecuteCore()]
if model_has_inline_arithmetic():
    FAMILIES.append(ProjectionExecute())
