"""writes MANIFEST.json from vlib/props.py (run: /venv/bin/python -m vlib.mkmanifest)"""
import json
import os

from .common import VERIF
from .props import PROPS
from .manifest_texts import TEXTS, NOT_YET

ALL = [f"C{i:02d}" for i in range(1, 21)]


def main():
    checks = []
    for p in ALL:
        if p not in PROPS:
            continue
        t = TEXTS[p]
        checks.append({
            "property_id": p,
            "quick_cmd": f"./check {p} --tier quick",
            "thorough_cmd": f"./check {p} --tier thorough",
            "evidence_file": f"/verif/evidence/{p}.json",
            "replay_cmd_template": f"./check {p} --replay {{path}}",
            "engine": "coq-proof+correspondence",
            "level_claimed": {"category": "proof", "text": t["text"], "design_ref": t.get("design_ref", "DESIGN.md section 7")},
            "level_note": t["note"],
            "technique": t["technique"],
        })
    man = {
        "version": 1,
        "setup_cmd": "./setup.sh",
        "hooks": {
            "guard": "NGO_VERIF",
            "enable": "checks export NGO_VERIF=1 and PYTHONPATH=/repo/src; no hook commits exist in /repo (tracing is done by wrapping module-level names from the harness)",
            "baseline_off_cmd": "cd /repo && /venv/bin/python -m pytest -ra -q -p no:cacheprovider --timeout=900 --continue-on-collection-errors",
            "source_commits": [],
            "add_only": True,
        },
        "engines": [{
            "name": "coq-proof+correspondence",
            "path": "/verif/check",
            "serves_properties": [c["property_id"] for c in checks],
            "kind_free_text": "Coq 8.16.1 theorems over (i) Gen/*.v regenerated from /repo's source on every run by vlib/translate.py and (ii) hand-written executable models tied to the code by a correspondence check (generated cases evaluated with vm_compute); clingo/Python oracles only search for concrete failing inputs and replay known findings",
        }],
        "checks": checks,
        "not_applicable": [{"property_id": p, "reason": NOT_YET.get(p, "check not built yet in this round; see DESIGN.md section 7")}
                           for p in ALL if p not in PROPS],
        "notes": "All checks rebuild coq/Gen from /repo's working tree and run a full make before judging; see DESIGN.md.",
    }
    with open(os.path.join(VERIF, "MANIFEST.json"), "w", encoding="utf-8") as f:
        json.dump(man, f, indent=1)
        f.write("\n")


if __name__ == "__main__":
    main()
