"""configuration of the clingo differential oracle per semantic property, and a parallel runner"""
import hashlib
import multiprocessing
import os
import random

from .inputs import try_parse

ALL_TRAITS = ["cleanup", "unused", "duplication", "symmetry", "minmax_chains", "sum_chains", "math", "inline",
              "projection"]
DEFAULT_TRAITS = [t for t in ALL_TRAITS if t != "duplication"]

SEM = {
    "C01": {"traits": [DEFAULT_TRAITS, ALL_TRAITS], "mode": "out", "decl": ["full", "half"]},
    "C02": {"traits": [DEFAULT_TRAITS, ALL_TRAITS], "mode": "cost", "decl": ["full", "half"], "only_minimize": True},
    "C05": {"traits": [[]], "mode": "all", "decl": ["full"], "any_facts": True},
    "C06": {"traits": [[t for t in ALL_TRAITS if t not in ("unused", "inline")]], "mode": "voc", "decl": ["full"]},
    "C08": {"traits": [["cleanup"]], "mode": "all", "decl": ["full"]},
    "C09": {"traits": [["unused"]], "mode": "out+in", "decl": ["full", "half"]},
    "C10": {"traits": [["duplication"]], "mode": "voc", "decl": ["full"]},
    "C11": {"traits": [["symmetry"]], "mode": "voc", "decl": ["full"]},
    "C12": {"traits": [["minmax_chains"]], "mode": "voc", "decl": ["full"]},
    "C13": {"traits": [["sum_chains"]], "mode": "voc", "decl": ["full"]},
    "C14": {"traits": [["math"]], "mode": "voc", "decl": ["full"]},
    "C15": {"traits": [["inline"]], "mode": "cost", "decl": ["full", "half"]},
    "C16": {"traits": [["projection"]], "mode": "voc", "decl": ["full"]},
}


def _h(text):
    return int(hashlib.sha1(text.encode()).hexdigest()[:8], 16)


def decls(text, kind):
    """input/output declarations for a corpus program. 'full': inputs auto, outputs = #show (if any) else every
    predicate occurring in a head; 'half': a deterministic half of the head predicates"""
    from clingo.ast import ASTType
    from .oracles import positive_head_atoms
    prg = try_parse(text)
    has_show = any(s.ast_type in (ASTType.ShowSignature, ASTType.ShowTerm) for s in prg)
    heads = set()
    for s in prg:
        heads |= positive_head_atoms(s)
    heads = sorted(heads)
    if kind == "full":
        if has_show:
            return "auto", "auto"
        return "auto", [f"{n}/{a}" for n, a in heads]
    rng = random.Random(_h(text))
    half = [p for p in heads if rng.random() < 0.5]
    return "auto", [f"{n}/{a}" for n, a in half]


def has_minimize(text):
    from clingo.ast import ASTType
    prg = try_parse(text)
    return prg is not None and any(s.ast_type == ASTType.Minimize for s in prg)


def payloads(prop, inputs):
    cfg = SEM[prop]
    out = []
    for inp in inputs:
        text = inp["text"]
        if try_parse(text) is None:
            continue
        if cfg.get("only_minimize") and not has_minimize(text):
            continue
        for traits in cfg["traits"]:
            for d in cfg["decl"]:
                i, o = decls(text, d)
                out.append({"text": text, "traits": list(traits), "input": i, "output": o, "mode": cfg["mode"],
                            "any_facts": bool(cfg.get("any_facts")), "origin": inp.get("origin", "")})
    # dedupe
    seen = set()
    res = []
    for p in out:
        k = (p["text"], tuple(p["traits"]), str(p["input"]), str(p["output"]))
        if k not in seen:
            seen.add(k)
            res.append(p)
    return res


def _work(payload):
    from . import asp_oracle
    import signal

    def handler(signum, frame):
        raise TimeoutError()
    signal.signal(signal.SIGALRM, handler)
    signal.alarm(60)
    try:
        rng = random.Random(_h(payload["text"]))
        f = asp_oracle.semantic_check(payload, rng=rng, n_instances=payload.get("n_instances", 6))
        return payload, f, None
    except TimeoutError:
        return payload, None, "timeout"
    except Exception as e:  # pylint: disable=broad-except
        return payload, None, "error: " + repr(e)[:200]
    finally:
        signal.alarm(0)


def run_parallel(pls, procs=None):
    procs = procs or min(16, os.cpu_count() or 4)
    if not pls:
        return []
    ctx = multiprocessing.get_context("fork")
    with ctx.Pool(procs, maxtasksperchild=200) as pool:
        return list(pool.imap_unordered(_work, pls, chunksize=4))
