"""configuration of the clingo differential oracle per semantic property, and a parallel runner"""
import hashlib
import multiprocessing
import os
import random

from .inputs import try_parse

ALL_TRAITS = ["cleanup", "unused", "duplication", "symmetry", "minmax_chains", "sum_chains", "math", "inline",
              "projection"]
DEFAULT_TRAITS = [t for t in ALL_TRAITS if t != "duplication"]

SEM = {
    "C01": {"traits": [DEFAULT_TRAITS, ALL_TRAITS], "mode": "out", "decl": ["full", "half"]},
    "C02": {"traits": [DEFAULT_TRAITS, ALL_TRAITS], "mode": "cost", "decl": ["full", "half"], "only_minimize": True},
    "C05": {"traits": [[]], "mode": "all", "decl": ["full"], "any_facts": True},
    "C06": {"traits": [[t for t in ALL_TRAITS if t not in ("unused", "inline")]], "mode": "voc", "decl": ["full"]},
    "C08": {"traits": [["cleanup"]], "mode": "all", "decl": ["full"]},
    "C09": {"traits": [["unused"]], "mode": "out+in", "decl": ["full", "half"]},
    "C10": {"traits": [["duplication"]], "mode": "voc", "decl": ["full"]},
    "C11": {"traits": [["symmetry"]], "mode": "voc", "decl": ["full"]},
    "C12": {"traits": [["minmax_chains"]], "mode": "voc", "decl": ["full"]},
    "C13": {"traits": [["sum_chains"]], "mode": "voc", "decl": ["full"]},
    "C14": {"traits": [["math"]], "mode": "voc", "decl": ["full"]},
    "C15": {"traits": [["inline"]], "mode": "cost", "decl": ["full", "half"]},
    "C16": {"traits": [["projection"]], "mode": "voc", "decl": ["full"]},
}


def _h(text):
    return int(hashlib.sha1(text.encode()).hexdigest()[:8], 16)


def decls(text, kind):
    """input/output declarations for a corpus program. 'full': inputs auto, outputs = #show (if any) else every
    predicate occurring in a head; 'half': a deterministic half of the head predicates"""
    from clingo.ast import ASTType
    from .oracles import positive_head_atoms
    prg = try_parse(text)
    has_show = any(s.ast_type in (ASTType.ShowSignature, ASTType.ShowTerm) for s in prg)
    heads = set()
    for s in prg:
        heads |= positive_head_atoms(s)
    heads = sorted(heads)
    if kind == "full":
        if has_show:
            return "auto", "auto"
        return "auto", [f"{n}/{a}" for n, a in heads]
    rng = random.Random(_h(text))
    half = [p for p in heads if rng.random() < 0.5]
    return "auto", [f"{n}/{a}" for n, a in half]


def has_minimize(text):
    from clingo.ast import ASTType
    prg = try_parse(text)
    return prg is not None and any(s.ast_type == ASTType.Minimize for s in prg)


SINGLES = [[t] for t in ALL_TRAITS]
STRUCT = {
    # non-semantic properties that still need optimize() runs: (check kind, trait configurations)
    "C03": ("c03", [DEFAULT_TRAITS, ALL_TRAITS, []] + SINGLES),
    "C04": ("c04", [DEFAULT_TRAITS, ALL_TRAITS, []] + SINGLES),
    "C07": ("c07", [DEFAULT_TRAITS, ALL_TRAITS]),
    "C17": ("c17", [DEFAULT_TRAITS]),
    "C20": ("c20", [["symmetry"], ["minmax_chains"], ["sum_chains"], DEFAULT_TRAITS]),
}


def payloads(prop, inputs):
    if prop in STRUCT:
        kind, confs = STRUCT[prop]
        out = []
        seen = set()
        for inp in inputs:
            text = inp["text"]
            if try_parse(text) is None:
                continue
            i, o = decls(text, "full")
            for traits in confs:
                k = (text, tuple(traits))
                if k in seen:
                    continue
                seen.add(k)
                out.append({"check": kind, "text": text, "traits": list(traits), "input": i, "output": o,
                            "origin": inp.get("origin", "")})
        return out
    cfg = SEM[prop]
    out = []
    for inp in inputs:
        text = inp["text"]
        if try_parse(text) is None:
            continue
        if cfg.get("only_minimize") and not has_minimize(text):
            continue
        for traits in cfg["traits"]:
            for d in cfg["decl"]:
                i, o = decls(text, d)
                out.append({"text": text, "traits": list(traits), "input": i, "output": o, "mode": cfg["mode"],
                            "any_facts": bool(cfg.get("any_facts")), "origin": inp.get("origin", "")})
    # dedupe
    seen = set()
    res = []
    for p in out:
        k = (p["text"], tuple(p["traits"]), str(p["input"]), str(p["output"]))
        if k not in seen:
            seen.add(k)
            res.append(p)
    return res


ORACLE_CORPUS = ("corpus:cli", "corpus:normalize_edge", "corpus:traverse", "corpus:oracle", "repo-tests:")


def oracle_inputs(inputs):
    """the *fixed* corpus the support oracle runs on (other corpus files only feed the correspondence families)"""
    return [i for i in inputs if i.get("origin", "").startswith(ORACLE_CORPUS)]


def _work(payload):
    from . import asp_oracle, oracles
    try:
        kind = payload.get("check", "sem")
        if kind == "api_case":
            from . import fam_api
            return fam_api.observe(payload), None
        if kind == "c03":
            return oracles.c03_check(payload), None
        if kind == "c04":
            return oracles.c04_check(payload), None
        if kind == "c07":
            return oracles.c07_check(payload), None
        if kind == "c17":
            if payload.get("xproc"):
                return oracles.c17_xproc_check(payload), None
            return oracles.c17_check(payload), None
        if kind == "c20":
            return oracles.c20_check(payload), None
        rng = random.Random(_h(payload["text"]))
        f = asp_oracle.semantic_check(payload, rng=rng, n_instances=payload.get("n_instances", 6))
        return f, None
    except Exception as e:  # pylint: disable=broad-except
        return None, "error: " + repr(e)[:200]


def _worker(inq, outq):
    import logging
    logging.disable(logging.CRITICAL)
    import queue as _q
    parent = os.getppid()
    while True:
        try:
            item = inq.get(timeout=5)
        except _q.Empty:
            if os.getppid() != parent:      # orphaned (the family worker that owns us was terminated)
                return
            continue
        if item is None:
            return
        idx, payload = item
        outq.put(("done", idx, _work(payload)))


TASK_TIMEOUT = 40.0


def run_parallel(pls, procs=None, task_timeout=TASK_TIMEOUT):
    """run semantic_check on every payload in worker processes; a worker that exceeds task_timeout on one
    payload (clingo grounding or sympy can run away inside C code where signals do not reach) is killed and
    replaced, the payload is reported as 'timeout'"""
    import queue
    import time
    procs = procs or min(16, os.cpu_count() or 4)
    if not pls:
        return []
    ctx = multiprocessing.get_context("fork")
    results = {}
    pending = list(enumerate(pls))
    pending.reverse()
    workers = []

    def spawn():
        inq, outq = ctx.Queue(), ctx.Queue()
        pr = ctx.Process(target=_worker, args=(inq, outq), daemon=True)
        pr.start()
        return {"proc": pr, "inq": inq, "outq": outq, "idx": None, "t0": None}

    def feed(w):
        if pending:
            idx, pl = pending.pop()
            w["idx"], w["t0"] = idx, time.time()
            w["inq"].put((idx, pl))
        else:
            w["idx"] = None

    for _ in range(min(procs, len(pls))):
        w = spawn()
        workers.append(w)
        feed(w)
    while len(results) < len(pls):
        progressed = False
        for k, w in enumerate(workers):
            if w["idx"] is None:
                continue
            try:
                kind, idx, val = w["outq"].get_nowait()
                results[idx] = val
                progressed = True
                feed(w)
                continue
            except queue.Empty:
                pass
            if time.time() - w["t0"] > task_timeout:
                w["proc"].kill()
                w["proc"].join(1)
                results[w["idx"]] = (None, "timeout")
                workers[k] = spawn()
                feed(workers[k])
                progressed = True
            elif not w["proc"].is_alive():
                results[w["idx"]] = (None, "worker died")
                workers[k] = spawn()
                feed(workers[k])
                progressed = True
        if not progressed:
            time.sleep(0.005)
    for w in workers:
        try:
            w["inq"].put(None)
        except Exception:  # pylint: disable=broad-except
            pass
    for w in workers:
        w["proc"].join(0.5)
        if w["proc"].is_alive():
            w["proc"].kill()
    return [(pls[i], results[i][0], results[i][1]) for i in range(len(pls))]
