"""correspondence of the whole ngo.api.optimize with Model/Api.v for the trait subsets whose passes are modelled"""
import itertools
import logging

from . import ser
from .corr import Case, CaseTimeout, case_limit

SKIPPED = {}
from .inputs import shared_minmax_elements, try_parse

MODELLED = ["cleanup", "unused", "projection", "duplication", "symmetry", "minmax_chains", "inline"]
ALL = ["cleanup", "unused", "duplication", "symmetry", "minmax_chains", "sum_chains", "math", "inline", "projection"]


def observe(pl):
    """runs in a killable helper process (vlib/semprops.run_parallel): one call of the real optimize"""
    from ngo.api import optimize
    from ngo.utils.ast import Predicate
    logging.disable(logging.CRITICAL)

    def preds(l):
        return [Predicate(n, a) for n, a in l]
    fresh = try_parse(pl["text"])
    flags = {k: (k in pl["enabled"]) for k in ALL}
    try:
        res = optimize(fresh, preds(pl["ip"]), preds(pl["op"]), **flags)
        return {"obs": "(Ok " + ser.prog(res) + ")", "out": [str(s) for s in res]}
    except ser.Unsupported:
        return None
    except Exception as e:  # pylint: disable=broad-except
        return {"obs": ser.result_raise(e), "out": type(e).__name__}


class ApiOptimize:
    name = "api_optimize"
    imports = ["Model.Api", "Model.Corr"]
    source = "ngo.api.optimize(prg, input_predicates, output_predicates, **flags) for subsets of the modelled traits"

    def cases(self, inputs, rng):
        from ngo.utils.ast import Predicate
        from ngo.utils.globals import auto_detect_input, auto_detect_output
        from . import semprops
        logging.disable(logging.CRITICAL)
        subsets = [list(c) for r in range(0, len(MODELLED) + 1) for c in itertools.combinations(MODELLED, r)]
        progs = []
        for inp in inputs:
            prg = try_parse(inp["text"])
            if prg is None or len(prg) > 40:
                continue
            progs.append((inp["text"], prg))
        rng.shuffle(progs)
        pls = []
        for text, prg in progs[:450]:
            try:
                t = ser.prog(prg)
            except ser.Unsupported:
                continue
            try:
                from ngo.normalize import preprocess
                if shared_minmax_elements(list(preprocess(try_parse(text)))):
                    SKIPPED["shared_elements"] = SKIPPED.get("shared_elements", 0) + 1
                    continue
            except Exception:  # pylint: disable=broad-except
                pass
            ip = auto_detect_input(prg)
            op = auto_detect_output(prg)
            if rng.random() < 0.5:
                from .oracles import positive_head_atoms
                heads = sorted({h for s in prg for h in positive_head_atoms(s)})
                op = [Predicate(n, a) for n, a in heads if rng.random() < 0.5]
            for en in rng.sample(subsets, 3):
                pls.append({"check": "api_case", "text": text, "t": t, "enabled": en,
                            "ip": [(p.name, p.arity) for p in ip], "op": [(p.name, p.arity) for p in op],
                            "ins": ser.lst([ser.pred(p) for p in ip]), "outs": ser.lst([ser.pred(p) for p in op])})
        # junk inputs can send the real pipeline into endless rounds or into runaway C code (unpool): every call runs
        # in a helper process that is killed after 25 s; such a case is skipped, not compared
        for pl, val, err in semprops.run_parallel(pls, procs=4, task_timeout=25):
            if err is not None or val is None:
                SKIPPED[err or "unsupported"] = SKIPPED.get(err or "unsupported", 0) + 1
                continue
            yield Case(f"chk_prog (Api.optimize {ser.strlist(pl['enabled'])} {pl['ins']} {pl['outs']} {pl['t']}) {val['obs']}",
                       {"fn": "ngo.api.optimize", "program": pl["text"], "enabled": pl["enabled"],
                        "inputs": [f"{n}/{a}" for n, a in pl["ip"]], "outputs": [f"{n}/{a}" for n, a in pl["op"]],
                        "observed": val["out"]},
                       nontrivial=bool(pl["enabled"]))


FAMILIES = [ApiOptimize()]
