"""correspondence of the whole ngo.api.optimize with Model/Api.v for the trait subsets whose passes are modelled"""
import itertools
import logging

from . import ser
from .corr import Case, CaseTimeout, case_limit

SKIPPED = {}
from .inputs import try_parse

MODELLED = ["cleanup", "unused", "projection", "duplication", "symmetry", "minmax_chains", "inline"]
ALL = ["cleanup", "unused", "duplication", "symmetry", "minmax_chains", "sum_chains", "math", "inline", "projection"]


class ApiOptimize:
    name = "api_optimize"
    imports = ["Model.Api", "Model.Corr"]
    source = "ngo.api.optimize for subsets of the seven traits whose passes are composed in Model/Api.v (sum_chains and math off)"

    def cases(self, inputs, rng):
        from ngo.api import optimize
        from ngo.utils.ast import Predicate
        from ngo.utils.globals import auto_detect_input, auto_detect_output
        logging.disable(logging.CRITICAL)
        subsets = [list(c) for r in range(0, len(MODELLED) + 1) for c in itertools.combinations(MODELLED, r)]
        progs = []
        for inp in inputs:
            prg = try_parse(inp["text"])
            if prg is None or len(prg) > 40:
                continue
            progs.append((inp["text"], prg))
        rng.shuffle(progs)
        for text, prg in progs[:450]:
            try:
                t = ser.prog(prg)
            except ser.Unsupported:
                continue
            allp = sorted({(p.name, p.arity) for s in prg for p in []} | set())
            ip = auto_detect_input(prg)
            op = auto_detect_output(prg)
            if rng.random() < 0.5:
                from .oracles import positive_head_atoms
                heads = sorted({h for s in prg for h in positive_head_atoms(s)})
                op = [Predicate(n, a) for n, a in heads if rng.random() < 0.5]
            for en in rng.sample(subsets, 3):
                fresh = try_parse(text)
                flags = {k: (k in en) for k in ALL}
                try:
                    with case_limit(20):
                        res = optimize(fresh, list(ip), list(op), **flags)
                    obs = "(Ok " + ser.prog(res) + ")"
                    out = [str(s) for s in res]
                except CaseTimeout:
                    SKIPPED["timeout"] = SKIPPED.get("timeout", 0) + 1   # junk input, pipeline does not settle
                    continue
                except ser.Unsupported:
                    continue
                except Exception as e:  # pylint: disable=broad-except
                    obs = ser.result_raise(e)
                    out = type(e).__name__
                ins = ser.lst([ser.pred(p) for p in ip])
                outs = ser.lst([ser.pred(p) for p in op])
                yield Case(f"chk_prog (Api.optimize {ser.strlist(en)} {ins} {outs} {t}) {obs}",
                           {"fn": "ngo.api.optimize", "program": text, "enabled": en, "inputs": [str(p) for p in ip],
                            "outputs": [str(p) for p in op], "observed": out},
                           nontrivial=bool(en))


FAMILIES = [ApiOptimize()]
