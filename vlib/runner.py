"""one property check: build, theorems, correspondence, known findings, (search), evidence"""
import json
import os
import random
import sys
import time

from . import common, corr
from .common import seed


def log(msg):
    print(msg, flush=True)


def run_property(prop, tier, replay=None):
    from . import props  # late: needs ngo importable
    t0 = time.time()
    cfg = props.PROPS[prop]
    rng = random.Random(seed() * 1000003 + int(prop[1:]))
    if replay:
        return run_replay(prop, cfg, replay)

    # 1. build (translate Gen from /repo, full make)
    bld = common.build()
    log(f"[{prop}] build ok={bld.ok} wall={bld.wall:.1f}s translation_failed={bld.translation_failed} "
        f"missing={getattr(bld, 'missing', [])[:5]}")
    forb = common.scan_forbidden()

    # 2. theorems
    thm = common.check_props(prop)
    obligations = []
    for name, (ok, note) in thm.items():
        ok = ok and not forb
        obligations.append({"kind": "theorem", "name": name, "discharged": bool(ok), "note": note})
        log(f"[{prop}] theorem {name}: {'discharged' if ok else 'NOT DISCHARGED'} ({note})")
    if forb:
        log(f"[{prop}] forbidden constructs in development: {forb[:5]}")

    # 3. correspondence (one worker process per family: case generation runs the real code and is CPU bound)
    inputs = props.inputs_for(prop, tier, rng)
    fam_names = list(cfg.get("families", []))
    if tier != "thorough" and cfg.get("quick_families"):
        fam_names = list(cfg["quick_families"])     # every-change tier: the families that subsume the others
    fam_seeds = {f: rng.randrange(1 << 30) for f in fam_names}
    fam_results = []
    if fam_names:
        limit = FAMILY_TIMEOUT[tier]
        with NestablePool(min(len(fam_names), 8)) as pool:
            pending = [(f, pool.apply_async(_run_one_family, (f, inputs, fam_seeds[f], limit))) for f in fam_names]
            t_fam = time.time()
            for f, job in pending:
                try:
                    fam_results.append(job.get(timeout=max(60, limit + 300 - (time.time() - t_fam))))
                except Exception as e:  # pylint: disable=broad-except
                    # the worker did not come back (the real code hangs in C code or ignores the deadline)
                    r = corr.FamilyResult(f)
                    r.errors.append(f"family did not finish within {limit + 300}s: {type(e).__name__} "
                                    "(the real function does not return on some input)")
                    fam_results.append(r)
            pool.terminate()
    for res in fam_results:
        fname = res.name
        obligations.append({"kind": "correspondence", "name": fname, "discharged": res.ok,
                            "note": f"{res.cases} cases, {res.distinct_nontrivial} non-trivial, "
                                    f"{len(res.mismatches)} mismatches, {len(res.errors)} errors, {res.wall:.1f}s"})
        log(f"[{prop}] correspondence {fname}: cases={res.cases} nontrivial={res.distinct_nontrivial} "
            f"mismatches={len(res.mismatches)} errors={len(res.errors)} wall={res.wall:.1f}s")
        for e in res.errors[:2]:
            log(f"[{prop}]   error: {e[-800:]}")
        for m in res.mismatches[:3]:
            log(f"[{prop}]   mismatch: {json.dumps(m.desc)[:600]}")

    # 4. known findings: replay each listed witness on the real code
    known = [f for f in common.load_known_findings().get("findings", []) if prop in f.get("properties", [])]
    known_lines = []
    violations = []
    for f in known:
        still, what = props.replay_finding(prop, f)
        if still:
            line = f"KNOWN-FINDING: property={prop} {f['id']} {f['what']}"
            known_lines.append(line)
            log(line)
        else:
            log(f"[{prop}] listed finding {f['id']} no longer reproduces ({what})")

    # 5. fixed corpus through the property oracle (support; concrete failures only)
    oracle_stats = {}
    if cfg.get("oracle"):
        ofails, oracle_stats = props.run_oracle(prop, tier, rng, inputs, known)
        for fail in ofails:
            violations.append(("oracle", fail))

    # 6. verdict
    broken = [o for o in obligations if not o["discharged"]]
    if broken:
        log(f"[{prop}] {len(broken)} obligation(s) broken: searching for a concrete failing input")
        found = props.search(prop, tier, rng, inputs, fam_results, known)
        if found:
            for fail in found:
                violations.append(("search", fail))
        else:
            violations.append(("obligation", {"broken": broken, "found": None}))

    exit_code = 0
    printed = set()
    for kind, fail in violations:
        if kind == "obligation":
            path = common.write_replay(prop, {"property": prop, "kind": "broken-obligation",
                                              "obligations": fail["broken"],
                                              "note": "theorem or correspondence no longer checks; no concrete failing "
                                                      "input found within the search budget"})
            log(f"VIOLATION property={prop} replay={path} no-failing-input-found")
        else:
            path = common.write_replay(prop, dict(fail, property=prop, found_by=kind,
                                                  broken=[o["name"] for o in broken]))
            if path in printed:
                continue
            printed.add(path)
            log(f"VIOLATION property={prop} replay={path}")
        exit_code = 1

    # 6b. thorough tier: independent re-check of the compiled Props file and everything it depends on
    coqchk = None
    if tier == "thorough" and os.path.exists(os.path.join(common.COQ, "Props", prop + ".vo")):
        rc, out, err = common.sh(["timeout", "2400", "coqchk", "-o", "-silent", "-Q", ".", "NGO", f"NGO.Props.{prop}"],
                                 cwd=common.COQ, timeout=2500)
        txt = out + err
        import re as _re
        m = _re.search(r"\* Axioms:(.*?)\n\s*\n\* Constants", txt, _re.S)
        axioms = [a.strip() for a in (m.group(1).strip().splitlines() if m else []) if a.strip() and a.strip() != "<none>"]
        bad = [a for a in axioms if not any(a.startswith(x) or x in a for x in ("Coq.Logic.Classical_Prop.classic",))]
        coqchk = {"rc": rc, "axioms": axioms, "unexpected_axioms": bad}
        log(f"[{prop}] coqchk rc={rc} axioms={axioms}")
        ok = rc == 0 and not bad
        obligations.append({"kind": "coqchk", "name": f"coqchk NGO.Props.{prop}", "discharged": ok,
                            "note": "independent checker; axioms: " + (", ".join(axioms) or "none")})
        if not ok:
            violations.append(("obligation", {"broken": [obligations[-1]], "found": None}))
            exit_code = 1
            path = common.write_replay(prop, {"property": prop, "kind": "broken-obligation", "obligations": [obligations[-1]],
                                              "note": "coqchk failed or reported an unexpected axiom"})
            log(f"VIOLATION property={prop} replay={path} no-failing-input-found")

    # 7. evidence
    n_obl = len(obligations)
    n_dis = sum(1 for o in obligations if o["discharged"])
    samples = []
    for r in fam_results:
        samples.extend(r.samples[:2])
    samples.extend([{"theorem": o["name"], "assumptions": o["note"]} for o in obligations if o["kind"] == "theorem"][:6])
    coverage = {
        "obligations": n_obl,
        "discharged": n_dis,
        "checker_cmd": "python3 vlib/translate.py && coq_makefile -f _CoqProject -o Makefile && make (coqc 8.16.1, full .vo) ; "
                       f"coqc Props/{prop}.v (Print Assumptions) ; generated shards coq/_cases/*.v (Eval vm_compute)",
        "trusted_base": cfg.get("trusted_base", []) + [
            "Coq 8.16.1 kernel and its vm_compute machine (no native_compute)",
            "vlib/translate.py (source -> Gen/*.v), vlib/ser.py (clingo.ast -> Coq terms), vlib/corr.py",
            "allowed axioms only: see per-theorem Print Assumptions in obligation_list",
        ],
        "obligation_list": obligations,
        "evaluations": sum(r.cases for r in fam_results) + oracle_stats.get("evaluations", 0),
        "distinct_nontrivial": sum(r.distinct_nontrivial for r in fam_results),
        "rule": cfg.get("rule", "correspondence cases = corpus + repo test programs + seeded generated programs; "
                                 "a case is non-trivial when the real function returned a non-empty / changed result"),
        "samples": samples or [{"note": "no correspondence families for this property"}],
        "correspondence": {r.name: {"cases": r.cases, "nontrivial": r.distinct_nontrivial,
                                    "mismatches": len(r.mismatches), "errors": len(r.errors),
                                    "wall_s": round(r.wall, 1)} for r in fam_results},
        "inputs": {"programs": len(inputs)},
        "known_findings_replayed": known_lines,
        "oracle": oracle_stats,
        "translation_failed": bld.translation_failed,
        "modelled_not_verified": cfg.get("modelled", ""),
        "coqchk": coqchk,
    }
    common.write_evidence(prop, tier, "proof", coverage, time.time() - t0, 0 if exit_code == 0 else len(violations),
                          assumptions=cfg.get("assumptions", []))
    log(f"[{prop}] obligations {n_dis}/{n_obl} discharged; exit {exit_code}; wall {time.time() - t0:.1f}s")
    return exit_code


FAMILY_TIMEOUT = {"quick": 1200, "thorough": 5400}


import multiprocessing  # noqa: E402
import multiprocessing.pool  # noqa: E402


class _NoDaemonProcess(multiprocessing.get_context("fork").Process):
    """family workers may start killable helper processes of their own (vlib/semprops.run_parallel)"""
    @property
    def daemon(self):
        return False

    @daemon.setter
    def daemon(self, value):
        pass


class _NoDaemonContext(type(multiprocessing.get_context("fork"))):
    Process = _NoDaemonProcess


class NestablePool(multiprocessing.pool.Pool):
    def __init__(self, *args, **kwargs):
        kwargs["context"] = _NoDaemonContext()
        super().__init__(*args, **kwargs)


class FamilyDeadline(BaseException):
    """raised inside a family worker by the interval timer (BaseException: not swallowed by `except Exception`)"""


def _run_one_family(fname, inputs, fseed, limit=None):
    from . import props
    import signal
    import time as _t
    t0 = _t.time()
    if limit:
        def _deadline(signum, frame):
            raise FamilyDeadline()
        signal.signal(signal.SIGALRM, _deadline)
        signal.setitimer(signal.ITIMER_REAL, limit, 20)
    fam = props.FAMILIES[fname]
    need = [m.replace(".", "/") + ".vo" for m in fam.imports]
    if any(not os.path.exists(os.path.join(common.COQ, n)) for n in need):
        res = corr.FamilyResult(fname)
        res.errors.append("model did not compile: " + ", ".join(need))
        return res
    try:
        cases = list(fam.cases(inputs, random.Random(fseed)))
        res = corr.run_family(fam, cases)
    except FamilyDeadline:
        import traceback
        res = corr.FamilyResult(fname)
        res.errors.append(f"family did not finish within {limit}s; the real function was still running here:\n"
                          + traceback.format_exc()[-1800:])
    except Exception:  # pylint: disable=broad-except
        import traceback
        res = corr.FamilyResult(fname)
        res.errors.append("harness error: " + traceback.format_exc()[-1500:])
    finally:
        if limit:
            signal.setitimer(signal.ITIMER_REAL, 0)
    res.wall = _t.time() - t0
    # keep the result small for pickling
    res.mismatches = res.mismatches[:20]
    return res


def run_replay(prop, cfg, path):
    from . import props
    payload = json.load(open(path, encoding="utf-8"))
    still, what = props.replay_payload(prop, payload)
    if still:
        log(f"VIOLATION property={prop} replay={path}")
        log(f"[{prop}] replay reproduces: {what}")
        return 1
    log(f"[{prop}] replay does not reproduce: {what}")
    return 0


def main(argv):
    import argparse
    ap = argparse.ArgumentParser()
    ap.add_argument("prop")
    ap.add_argument("--tier", default=os.environ.get("VERIF_TIER", "quick"), choices=["quick", "thorough"])
    ap.add_argument("--replay")
    a = ap.parse_args(argv)
    return run_property(a.prop, a.tier, a.replay)


if __name__ == "__main__":
    sys.exit(main(sys.argv[1:]))
