"""per-property configuration: which theorems/families/oracles decide it"""
import itertools
import os
import json
import random
import time

from . import inputs as inp_mod
from . import oracles
from .families import FAMILIES  # noqa: F401  (re-exported)

QUICK_GEN = 150
THOROUGH_GEN = 800
QUICK_TWIST = 300   # neighbourhood mutants of corpus + repo test programs (models validated on 600 + 1000)
THOROUGH_TWIST = 1500

PROPS = {
    "C18": {
        "families": ["predicates", "auto_detect"],
        "oracle": "c18",
        "modelled": "utils/ast.py:272-400 collectors and globals.auto_detect_input/output are hand-modelled "
                    "(Model/Traverse.v) and tied by correspondence; clingo's parser is not modelled",
        "assumptions": ["atoms written as a pool or classically negated are outside the theorems' pool_free premise "
                        "(known finding C18-pool)"],
    },
    "C01": {"families": ["api_optimize", "norm_none", "norm_preprocess", "cleanup_execute", "unused_execute", "projection_execute", "symmetry_execute", "minmax_execute", "sumchains_execute", "inline_execute", "inline_is_single", "dep_rule_dependency", "unused_rule_dependency", "math_sympy2ast", "math_ast2sympy_accepts"], "oracle": "sem"},
    "C02": {"families": ["unify_pairs", "unify_sequences", "sumchains_get_var", "sumchains_replace_optimize", "sumchains_execute", "minmax_replace_minimize", "minmax_replace_sum", "minmax_execute", "inline_minimize", "inline_execute"], "oracle": "sem"},
    "C03": {"families": ["binding_body", "binding_head", "norm_inline", "norm_preprocess", "norm_expand_comparisons", "norm_replace_old_aggregates", "cleanup_mappings", "dep_create_domain", "api_optimize"], "oracle": "struct"},
    "C04": {"families": ["safe_stmt", "unique_variables", "unique_names", "binding_body", "binding_head", "duplication_occurrences", "duplication_collect", "duplication_execute", "projection_good_split", "projection_rule", "projection_execute", "cleanup_execute", "unused_execute", "symmetry_execute", "minmax_execute", "sumchains_execute", "inline_minimize", "inline_execute", "norm_preprocess", "math_sympy2ast", "math_negate_agg", "api_optimize"], "oracle": "struct"},
    "C05": {"families": ["norm_replace_old_aggregates", "norm_remove_bounds", "norm_expand_comparisons", "norm_unpool", "norm_preprocess", "norm_exline", "norm_inline", "norm_none"], "oracle": "sem"},
    "C06": {"families": ["projection_good_split", "projection_rule", "projection_execute", "cleanup_execute", "symmetry_execute", "minmax_execute", "sumchains_execute", "api_optimize"], "oracle": "sem"},
    "C07": {"families": ["unique_variables", "unique_names", "dep_names", "dep_domains", "dep_create_domain", "dep_chain", "unused_execute", "projection_execute", "duplication_execute", "symmetry_execute", "minmax_execute", "sumchains_execute", "api_optimize"], "oracle": "struct"},
    "C17": {"families": [], "oracle": "struct", "quick_cap": 150},
    "C20": {"families": ["dep_static", "dep_domains", "dep_create_domain", "dep_names", "dep_chain"], "oracle": "struct"},
    "C08": {"families": ["cleanup_mappings", "cleanup_superseeded", "cleanup_apply", "cleanup_execute_core", "cleanup_execute"], "oracle": "sem"},
    "C09": {"families": ["unused_anonymize", "unused_usage", "unused_project", "unused_remove", "unused_single_copies", "unused_execute_core", "unused_execute"], "oracle": "sem"},
    "C10": {"families": ["duplication_replace_assignments", "duplication_anonymize", "duplication_occurrences", "duplication_filter", "duplication_collect", "duplication_rebuild", "duplication_process", "duplication_execute"], "oracle": "sem", "quick_light": True,
            "quick_families": ["duplication_replace_assignments", "duplication_anonymize", "duplication_rebuild", "duplication_process", "duplication_execute"]},
    "C11": {"families": ["symmetry_replace_simple", "symmetry_inequalities", "symmetry_equal_symbols", "symmetry_groups", "symmetry_bundle", "symmetry_process", "symmetry_execute"], "oracle": "sem"},
    "C12": {"families": ["minmax_analysis", "minmax_simple_translation", "minmax_chain_translation", "minmax_process_rule", "minmax_split_element", "minmax_replace_minimize", "minmax_replace_sum", "minmax_execute"], "oracle": "sem"},
    "C13": {"families": ["sumchains_agg_analytics", "sumchains_at_most_rule", "sumchains_init", "sumchains_get_trigger", "sumchains_element_passes", "sumchains_replace_elements", "sumchains_get_var", "sumchains_replace_optimize", "sumchains_execute"], "oracle": "sem"},
    "C14": {"families": ["math_sympy2ast", "math_ast2sympy_accepts", "math_negate_agg", "norm_exline", "norm_inline"], "oracle": "sem"},
    "C15": {"families": ["unify_pairs", "unify_sequences", "inline_is_single", "inline_transform_args", "inline_body_aggregate", "inline_new_body_elements", "inline_minimize", "inline_rule_for_agg", "inline_rule_for_body", "inline_execute"], "oracle": "sem"},
    "C16": {"families": ["projection_subsets", "projection_good_split", "projection_rule", "projection_execute_core", "projection_execute"], "oracle": "sem"},
    "C19": {
        "families": ["verify_enable", "predicate_list"],
        "oracle": "c19",
        "modelled": "VerifyEnable.__call__, option tables, keyword wiring, pipeline order are translated from source "
                    "on every run (Gen/Cli.v); argparse itself, stdin/stdout are observed by running python -m ngo",
    },
}


def inputs_for(prop, tier, rng):
    n = THOROUGH_GEN if tier == "thorough" else QUICK_GEN
    base = inp_mod.curated() + inp_mod.harvest()
    n_twist = THOROUGH_TWIST if tier == "thorough" else QUICK_TWIST
    if tier != "thorough" and PROPS[prop].get("quick_light"):
        # the duplication families enumerate literal subsets (expensive per program): the every-change tier takes the
        # whole curated corpus, every third repo test program and fewer generated / neighbourhood programs
        base = inp_mod.curated() + inp_mod.harvest()[::3]
        n, n_twist = 40, 60
    twist = inp_mod.neighbourhood(base, rng.randrange(1 << 30), n_twist)
    return base + inp_mod.generated(rng.randrange(1 << 30), n) + twist


# ---------------------------------------------------------------------------------------------
# oracle plumbing
# ---------------------------------------------------------------------------------------------
def oracle_check(prop, payload):
    """None = holds on this case, else failure dict"""
    kind = PROPS[prop].get("oracle")
    if kind == "c18":
        return oracles.c18_oracle(payload["text"])
    if kind == "c19":
        return oracles.c19_check(payload)
    if kind in ("sem", "struct") or payload.get("check"):
        from . import semprops
        if kind == "struct":
            payload = dict(payload, check=semprops.STRUCT[prop][0])
        elif kind == "sem":
            payload = {k: v for k, v in payload.items() if k != "check"}
        f, err = semprops._work(payload)
        return f
    return None


def matches_finding(prop, payload, failure, finding):
    m = finding.get("matcher")
    if m == "exact":
        return payload.get("text", "").strip() == finding["witness"].get("text", "").strip() and \
            all(payload.get(k) == v for k, v in finding["witness"].items() if k != "text")
    if m == "exc_site":
        return failure.get("kind") == "exception" and failure.get("exc") == finding.get("exc") and \
            failure.get("site") == finding.get("exc_site")
    if m == "text":
        return _norm(payload.get("text", "")) == _norm(finding["witness"].get("text", ""))
    if m == "c18_unpool" and prop == "C18":
        # the failure is attributed to the pool finding iff it disappears once every statement is unpooled
        return oracles.c18_oracle(oracles.unpooled_text(payload["text"])) is None
    return False


def _norm(t):
    import re
    return re.sub(r"\s+", "", t)


def witnesses(prop):
    import os
    from .common import VERIF
    p = os.path.join(VERIF, "corpus", "witness.json")
    if not os.path.exists(p):
        return []
    return [w for w in json.load(open(p, encoding="utf-8")) if prop in w.get("props", [])]


def replay_finding(prop, finding):
    payload = dict(finding["witness"])
    try:
        failure = oracle_check(prop, payload)
    except Exception as e:  # pylint: disable=broad-except
        failure = {"kind": "exception", "exc": repr(e)}
    if failure is None:
        return False, "holds now"
    return True, json.dumps(failure)[:300]


def replay_payload(prop, payload):
    if payload.get("kind") == "broken-obligation":
        return True, "broken obligation (no concrete input recorded): re-run the check"
    case = payload.get("case", payload)
    if prop == "C03":       # the failure may be "does not return": replay under the watchdog
        failure = _confirm_timeout(dict(case, check="c03"))
    else:
        failure = oracle_check(prop, case)
    if failure is None:
        return False, "holds"
    return True, json.dumps(failure)[:500]


def c19_cases(tier, rng, inputs):
    from .oracles import TRAITS
    progs = [i["text"] for i in inputs if i["origin"].startswith("corpus:cli")] or \
            ["a :- b. b :- a. {c}. #show c/0.", "p(X) :- q(X), X = 1..3. #show p/1."]
    cases = []
    # every subset of the nine traits, as a names list, on one program (exhaustive over subsets)
    base = progs[0]
    subsets = list(itertools.chain.from_iterable(itertools.combinations(TRAITS, r) for r in range(1, 10)))
    if tier != "thorough":
        subsets = [s for s in subsets if len(s) in (1, 8, 9)] + rng.sample(subsets, 12)
    for s in subsets:
        toks = list(s)
        rng.shuffle(toks)
        cases.append({"text": base, "tokens": toks})
    for toks in (["all"], ["none"], ["default"], None, ["default", "duplication"], ["none", "cleanup"], ["all", "none"],
                 ["default", "default", "math"], ["all", "default"]):
        for p in progs[:3]:
            cases.append({"text": p, "tokens": toks})
    for i, o in (("auto", "auto"), ("", ""), ("b/0", "c/0"), ("b/0,q/1", ""), (None, "p/1"), ("zz/3", "auto")):
        for p in progs[:2]:
            cases.append({"text": p, "tokens": ["default"], "input": i, "output": o})
    # one name declared with several arities (the lists are name/arity lists, not name -> arity maps)
    multi = [i["text"] for i in inputs if i["origin"].startswith("corpus:cli") and "% multi-arity" in i["text"]]
    for p in multi:
        for i, o in (("auto", "p/1,p/2"), ("auto", "p/2, p/1"), ("e/2,e/1", "auto"), ("e/1,e/2", "hit/1"),
                     ("e/2,e/1", "p/2,p/1,hit/1")):
            cases.append({"text": p, "tokens": ["default"], "input": i, "output": o})
    for lvl in ("error", "WARNING", "info", "DEBUG"):
        cases.append({"text": progs[0], "tokens": ["default"], "log": lvl})
    return cases


def oracle_cases(prop, tier, rng, inputs, fixed_only=True):
    kind = PROPS[prop].get("oracle")
    if kind == "c18":
        for i in inputs:
            yield {"text": i["text"], "origin": i["origin"]}
    elif kind == "c19":
        yield from c19_cases(tier, rng, inputs)
    elif kind == "struct":
        from . import semprops
        for w in witnesses(prop):
            yield dict({k: w[k] for k in ("text", "traits", "input", "output", "mode", "instances") if k in w},
                       check=semprops.STRUCT[prop][0])
        fixed = semprops.oracle_inputs(inputs) if fixed_only else inputs
        pls = semprops.payloads(prop, fixed)
        cap = PROPS[prop].get("quick_cap")
        if tier != "thorough" and cap and len(pls) > cap:
            step = (len(pls) + cap - 1) // cap
            pls = pls[::step]
        yield from pls
        if prop == "C17":
            n = 120 if tier == "thorough" else 16
            step = max(1, len(pls) // n)
            for pl in pls[::step][:n]:
                yield dict(pl, xproc=True, runs=3)
    elif kind == "sem":
        from . import semprops
        for w in witnesses(prop):
            yield {k: w[k] for k in ("text", "traits", "input", "output", "mode", "instances") if k in w}
        fixed = semprops.oracle_inputs(inputs) if fixed_only else inputs
        yield from semprops.payloads(prop, fixed)


def _confirm_timeout(payload, seconds=150):
    """a C03 payload hit the 40 s watchdog: run it once more alone with a generous limit"""
    from . import semprops
    (pl, failure, err), = semprops.run_parallel([payload], procs=1, task_timeout=seconds)
    if err == "timeout":
        return {"kind": "does-not-return", "seconds": seconds,
                "note": f"ngo.optimize did not return within {seconds} s (killed by the watchdog)"}
    return failure


def run_oracle(prop, tier, rng, inputs, known):
    t0 = time.time()
    fails = []
    stats = {"evaluations": 0, "attributed_to_known_findings": 0, "failures": 0}
    if PROPS[prop].get("oracle") in ("sem", "struct"):
        from . import common, semprops
        allknown = common.load_known_findings().get("findings", [])
        pls = list(oracle_cases(prop, tier, rng, inputs))
        for payload, failure, err in semprops.run_parallel(pls):
            stats["evaluations"] += 1
            if err:
                stats["oracle_errors"] = stats.get("oracle_errors", 0) + 1
                if prop == "C03" and err == "timeout" and len(fails) < 3 and stats.get("confirmations", 0) < 6:
                    stats["confirmations"] = stats.get("confirmations", 0) + 1
                    failure = _confirm_timeout(payload)     # "optimize always returns": re-run alone, 150 s
            if failure is None:
                continue
            if any(matches_finding(prop, payload, failure, f) for f in allknown):
                stats["attributed_to_known_findings"] += 1
                continue
            stats["failures"] += 1
            if len(fails) < 3:
                fails.append({"case": payload, "failure": failure})
        stats["wall_s"] = round(time.time() - t0, 1)
        stats["note"] = "support only: clingo differential run over the fixed corpus (witnesses + repo test programs)"
        return fails, stats
    for payload in oracle_cases(prop, tier, rng, inputs):
        stats["evaluations"] += 1
        try:
            failure = oracle_check(prop, payload)
        except Exception as e:  # pylint: disable=broad-except
            failure = None
            stats.setdefault("oracle_errors", 0)
            stats["oracle_errors"] += 1
        if failure is None:
            continue
        if any(matches_finding(prop, payload, failure, f) for f in known):
            stats["attributed_to_known_findings"] += 1
            continue
        stats["failures"] += 1
        fails.append({"case": payload, "failure": failure})
        if len(fails) >= 3:
            break
    stats["wall_s"] = round(time.time() - t0, 1)
    return fails, stats


CENSUS_CORPUS = {"minmax_aggregates.py": ["minmax"], "sum_aggregates.py": ["sumchains"], "cleanup.py": ["cleanup"],
                 "literal_duplication.py": ["duplication"], "unused.py": ["unused"], "symmetry.py": ["symmetry"],
                 "projection.py": ["projection"], "inline.py": ["inline"], "dependency.py": ["dependency", "minmax", "sumchains"],
                 "normalize.py": ["normalize"], "math_simplification.py": ["math", "repo-tests:"]}


def _census_hot_words():
    """files whose purity census differs from the audited list in Link/PurityCensus.v -> corpus name fragments"""
    import re
    from . import census, common
    try:
        sites, state = census.census(os.path.join(common.REPO, "src", "ngo"))
        txt = open(os.path.join(common.COQ, "Link", "PurityCensus.v"), encoding="utf-8").read()
        aud = set((a, b, c.replace('""', '"')) for a, b, c in re.findall(r'\(\("((?:[^"]|"")*)", "((?:[^"]|"")*)", "((?:[^"]|"")*)"\)', txt))
        cur = set(sites) | set(state)
        files = {x[0] for x in cur ^ aud}
    except Exception:  # pylint: disable=broad-except
        return []
    words = []
    for f in sorted(files):
        words.extend(CENSUS_CORPUS.get(f, []))
    return words


def search(prop, tier, rng, inputs, fam_results, known):
    """after an obligation broke: look for a concrete failing input of the *property*"""
    budget = 900 if tier == "thorough" else 60
    t0 = time.time()
    cands = []
    for r in fam_results:
        for m in r.mismatches:
            d = m.desc
            txt = d.get("program") or d.get("stmt")
            if txt:
                cands.append({"text": txt, "origin": "mismatch:" + r.name})
            if "tokens" in d:
                cands.append({"text": "a :- b. {b}. #show a/0.", "tokens": d["tokens"], "origin": "mismatch:" + r.name})
    kind = PROPS[prop].get("oracle")
    if kind is None:
        return []
    allknown = None
    from . import common as _c
    allknown = _c.load_known_findings().get("findings", [])
    if kind in ("sem", "struct"):
        from . import semprops
        gen = (pl for g in inp_mod.generated_iter(rng.randrange(1 << 30))
               for pl in semprops.payloads(prop, [g]))
        extra = []
        for c in cands[:40]:
            for m in inp_mod.sign_mutants(c["text"], rng, 25):
                extra.append({"text": m, "origin": c["origin"] + "+sign-mutant"})
        cands = [dict(pl, n_instances=40) for c in cands + extra for pl in semprops.payloads(prop, [c])]
        stream = itertools.chain(cands, oracle_cases(prop, tier, rng, inputs, fixed_only=False), gen)
        if prop == "C17":
            # a purity obligation broke: first look for hash-seed dependence in fresh interpreters (8 seeds each)
            pool = [pl for i in inputs if i["origin"].startswith(("corpus:", "repo-tests:"))
                    for pl in semprops.payloads(prop, [i])]
            rng.shuffle(pool)
            hot = _census_hot_words()
            if hot:     # programs from the corpus of the pass whose census entry changed come first
                pool.sort(key=lambda pl: 0 if any(h in pl.get("origin", "") for h in hot) else 1)
            budget = max(budget, 240)
            stream = itertools.chain(cands, (dict(pl, xproc=True, runs=8) for pl in pool[:1500]), stream)
        while time.time() - t0 < budget:
            batch = list(itertools.islice(stream, 128))
            if not batch:
                break
            for payload, failure, err in semprops.run_parallel(batch):
                if prop == "C03" and err == "timeout":
                    failure = _confirm_timeout(payload)
                if failure is None:
                    continue
                if any(matches_finding(prop, payload, failure, f) for f in allknown):
                    continue
                return [{"case": payload, "failure": failure}]
        return []
    gen = ({"text": g["text"], "origin": g["origin"]} for g in inp_mod.generated_iter(rng.randrange(1 << 30)))
    stream = itertools.chain(cands, oracle_cases(prop, tier, rng, inputs, fixed_only=False), gen)
    found = []
    for payload in stream:
        if time.time() - t0 > budget:
            break
        if kind == "c19" and "tokens" not in payload and "input" not in payload:
            continue
        try:
            failure = oracle_check(prop, payload)
        except Exception:  # pylint: disable=broad-except
            continue
        if failure is None:
            continue
        if any(matches_finding(prop, payload, failure, f) for f in allknown):
            continue
        found.append({"case": payload, "failure": failure})
        break
    return found
