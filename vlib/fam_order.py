"""correspondence families for Syntax/Order.v: the order of clingo.Symbol and of clingo.ast.AST nodes
(what Python's `<` / sorted() do on them), measured on clingo 5.8.2.

families
  symbol_order : sym_compare a b        vs  (a > b) - (a < b) on clingo.Symbol (also checks == against Eq)
  ast_order    : term_/lit_/bodyelem_/head_compare  vs  (a > b) - (a < b) on AST nodes
  ast_sorted   : sort_terms / sort_lits / sort_bodyelems / sort_strings_as_vars  vs  sorted(list)
"""
import clingo
from clingo import Function, Infimum, Number, String, Supremum
from clingo import ast as A
from clingo.ast import ASTType, Location, Position

from . import ser
from .corr import Case
from .inputs import try_parse

LOC = Location(Position("<o>", 1, 1), Position("<o>", 1, 1))
LOC2 = Location(Position("<zzz>", 7, 3), Position("<zzz>", 9, 1))   # locations must not matter

NAMES = ["", "a", "b", "B", "_x", "a1", "aa", "ab", "f", "g", "é", "z", "A", "_", "a_", "__x"]
STRS = ["", "a", "B", "_x", "a1", "aa", "ab", "é", "ü", "a b", 'q"t', "z", "\x7f", "A", "1", "-"]
NUMS = [0, 1, 2, 3, -1, -2, 10, 9, -10, 100, 2 ** 31 - 1, -2 ** 31]
VNAMES = ["X", "Y", "Z", "X1", "XX", "_", "_X", "AUX", "A", "B", "__NEXT", "Xa", "X_"]
FNAMES = ["", "f", "g", "a", "b", "p", "q", "aa", "_f", "F"]

TERM_TYPES = {ASTType.Variable, ASTType.SymbolicTerm, ASTType.UnaryOperation, ASTType.BinaryOperation,
              ASTType.Interval, ASTType.Function, ASTType.Pool}

COQ_CMP = {-1: "Lt", 0: "Eq", 1: "Gt"}


def pycmp(a, b):
    """three-way comparison exactly as Python sees it (also cross-checks ==, <=, >=)"""
    lt, gt, eq = a < b, a > b, a == b
    assert lt + gt + eq == 1, ("clingo order not trichotomous", str(a), str(b))
    assert (a <= b) == (lt or eq) and (a >= b) == (gt or eq)
    return gt - lt


# ------------------------------------------------------------------------------------------------
# symbols
# ------------------------------------------------------------------------------------------------
def rand_sym(r, depth=0):
    x = r.random()
    if depth >= 3:
        x *= 0.6
    if x < 0.06:
        return Infimum
    if x < 0.12:
        return Supremum
    if x < 0.32:
        return Number(r.choice(NUMS))
    if x < 0.44:
        return String(r.choice(STRS))
    if x < 0.6:
        return Function(r.choice(NAMES), [], r.random() < 0.6)
    n = r.choice([0, 1, 1, 2, 2, 3])
    return Function(r.choice(NAMES), [rand_sym(r, depth + 1) for _ in range(n)], r.random() < 0.65)


def copy_sym(s):
    t = s.type
    if t == clingo.SymbolType.Number:
        return Number(s.number)
    if t == clingo.SymbolType.String:
        return String(s.string)
    if t == clingo.SymbolType.Function:
        return Function(s.name, [copy_sym(a) for a in s.arguments], s.positive)
    return s


def mutate_sym(r, s):
    """change one thing somewhere inside s (the result shares a long prefix with s)"""
    if s.type != clingo.SymbolType.Function:
        return rand_sym(r, 2)
    args = list(s.arguments)
    x = r.random()
    if args and x < 0.6:
        i = r.randrange(len(args))
        args[i] = mutate_sym(r, args[i])
        return Function(s.name, args, s.positive)
    if x < 0.7:
        return Function(s.name, args, not s.positive)
    if x < 0.8:
        return Function(r.choice(NAMES), args, s.positive)
    if x < 0.9 and args:
        return Function(s.name, args[:-1], s.positive)
    return Function(s.name, args + [rand_sym(r, 2)], s.positive)


def sym_pairs(r, n):
    for _ in range(n):
        a = rand_sym(r)
        x = r.random()
        if x < 0.1:
            yield a, copy_sym(a), "equal"
        elif x < 0.45:
            yield a, mutate_sym(r, a), "mutated"
        elif x < 0.55:
            b = mutate_sym(r, a)
            yield b, a, "mutated-rev"
        else:
            yield a, rand_sym(r), "random"


SYM_FIXED = [
    Infimum, Supremum, Number(-3), Number(0), Number(5), String(""), String("a"), String("B"), String("ab"),
    String("é"), Function("a"), Function("B"), Function("_x"), Function("a1"), Function("aa"), Function(""),
    Function("a", [], False), Function("b", [], False), Function("", [], False), Function("", [Number(1)]),
    Function("", [Number(1)], False), Function("", [Number(1), Number(2)]), Function("f", [Number(1)]),
    Function("f", [Number(1)], False), Function("g", [Number(0)]), Function("g", [Number(0)], False),
    Function("f", [Number(1), Number(2)]), Function("f", [Number(1), Number(2)], False),
    Function("a", [Number(9), Number(9)]), Function("a", [Number(9), Number(9)], False),
    Function("f", [Function("a", [], False)]), Function("f", [String("a")]), Function("f", [Function("a")]),
    Function("f", [Supremum]), Function("f", [Infimum]), Function("f", [Function("g", [Number(1)], False)]),
]


class SymbolOrder:
    name = "symbol_order"
    imports = ["Syntax.Order"]
    source = "clingo.Symbol.__lt__ / __gt__ / __eq__ (clingo 5.8.2)"

    def cases(self, inputs, rng):
        pairs = [(a, b, "fixed") for a in SYM_FIXED for b in SYM_FIXED]
        # symbols occurring in the input programs
        seen = {}
        for inp in inputs:
            prg = try_parse(inp["text"])
            for s in prg or []:
                for t in collect(s, {ASTType.SymbolicTerm}):
                    seen.setdefault(str(t.symbol), t.symbol)
        progsyms = list(seen.values())
        for _ in range(min(600, len(progsyms) ** 2)):
            pairs.append((rng.choice(progsyms), rng.choice(progsyms), "program"))
        pairs.extend(sym_pairs(rng, 6000))
        for a, b, how in pairs:
            obs = pycmp(a, b)
            yield Case(f"chk_cmp (sym_compare {ser.sym(a)} {ser.sym(b)}) {COQ_CMP[obs]}",
                       {"fn": "Symbol.__lt__", "a": str(a), "b": str(b), "observed": obs, "how": how},
                       nontrivial=obs != 0 or how == "equal")


# ------------------------------------------------------------------------------------------------
# AST nodes
# ------------------------------------------------------------------------------------------------
def children(n):
    """(key, index or None, child AST) for all AST children in key order"""
    for k in n.keys():
        if k == "location":
            continue
        v = getattr(n, k)
        if isinstance(v, A.AST):
            yield k, None, v
        elif isinstance(v, A.ASTSequence):
            for i, c in enumerate(v):
                yield k, i, c


def collect(n, types, acc=None):
    acc = [] if acc is None else acc
    if n.ast_type in types:
        acc.append(n)
    for _, _, c in children(n):
        collect(c, types, acc)
    return acc


def replace_child(n, k, i, new):
    if i is None:
        return n.update(**{k: new})
    seq = list(getattr(n, k))
    seq[i] = new
    return n.update(**{k: seq})


def rand_term(r, depth=0):
    """terms built with the Python constructors (the way ngo builds them)"""
    x = r.random()
    if depth >= 2:
        x *= 0.55
    loc = LOC if r.random() < 0.5 else LOC2
    if x < 0.3:
        return A.Variable(loc, r.choice(VNAMES))
    if x < 0.55:
        return A.SymbolicTerm(loc, rand_sym(r, 2))
    if x < 0.62:
        return A.UnaryOperation(loc, r.choice(list(A.UnaryOperator)), rand_term(r, depth + 1))
    if x < 0.74:
        return A.BinaryOperation(loc, r.choice(list(A.BinaryOperator)), rand_term(r, depth + 1), rand_term(r, depth + 1))
    if x < 0.8:
        return A.Interval(loc, rand_term(r, depth + 1), rand_term(r, depth + 1))
    if x < 0.95:
        n = r.choice([0, 1, 1, 2, 2, 3])
        return A.Function(loc, r.choice(FNAMES), [rand_term(r, depth + 1) for _ in range(n)], int(r.random() < 0.15))
    return A.Pool(loc, [rand_term(r, depth + 1) for _ in range(r.choice([1, 2, 2, 3]))])


def rand_guard(r):
    return A.Guard(r.choice(list(A.ComparisonOperator)), rand_term(r, 1))


def rand_oguard(r):
    return rand_guard(r) if r.random() < 0.5 else None


def rand_atomterm(r):
    n = r.choice([0, 1, 1, 2, 2, 3])
    name = r.choice(["a", "b", "p", "q", "aa", "_p"])
    if r.random() < 0.1:
        return A.UnaryOperation(LOC, A.UnaryOperator.Minus, A.Function(LOC, name, [rand_term(r, 1) for _ in range(n)], 0))
    if n == 0 and r.random() < 0.3:
        return A.SymbolicTerm(LOC, Function(name, [], r.random() < 0.8))
    return A.Function(LOC, name, [rand_term(r, 1) for _ in range(n)], 0)


def rand_lit(r, depth=0):
    x = r.random()
    if depth >= 1:
        x *= 0.8
    sign = r.choice(list(A.Sign))
    loc = LOC if r.random() < 0.5 else LOC2
    if x < 0.45:
        return A.Literal(loc, sign, A.SymbolicAtom(rand_atomterm(r)))
    if x < 0.7:
        return A.Literal(loc, sign, A.Comparison(rand_term(r, 1), [rand_guard(r) for _ in range(r.choice([1, 1, 1, 2, 3]))]))
    if x < 0.8:
        return A.Literal(loc, sign, A.BooleanConstant(int(r.random() < 0.5)))
    if x < 0.92:
        elems = [A.BodyAggregateElement([rand_term(r, 1) for _ in range(r.choice([0, 1, 1, 2]))],
                                        [rand_lit(r, depth + 1) for _ in range(r.choice([0, 1, 1, 2]))])
                 for _ in range(r.choice([0, 1, 1, 2]))]
        return A.Literal(loc, sign, A.BodyAggregate(loc, rand_oguard(r), r.choice(list(A.AggregateFunction)), elems,
                                                    rand_oguard(r)))
    elems = [rand_condlit(r, depth + 1) for _ in range(r.choice([0, 1, 1, 2]))]
    return A.Literal(loc, sign, A.Aggregate(loc, rand_oguard(r), elems, rand_oguard(r)))


def rand_condlit(r, depth=0):
    return A.ConditionalLiteral(LOC, rand_lit(r, max(depth, 1)), [rand_lit(r, max(depth, 1)) for _ in range(r.choice([0, 1, 1, 2]))])


def rand_bodyelem(r):
    return rand_condlit(r) if r.random() < 0.3 else rand_lit(r)


def rand_head(r):
    x = r.random()
    if x < 0.3:
        return rand_lit(r, 1)
    if x < 0.5:
        return A.Disjunction(LOC, [rand_condlit(r, 1) for _ in range(r.choice([1, 2, 2, 3]))])
    if x < 0.7:
        return A.Aggregate(LOC, rand_oguard(r), [rand_condlit(r, 1) for _ in range(r.choice([0, 1, 2]))], rand_oguard(r))
    elems = [A.HeadAggregateElement([rand_term(r, 1) for _ in range(r.choice([0, 1, 2]))], rand_condlit(r, 1))
             for _ in range(r.choice([0, 1, 2]))]
    return A.HeadAggregate(LOC, rand_oguard(r), r.choice(list(A.AggregateFunction)), elems, rand_oguard(r))


SEQ_GEN = {
    (ASTType.Function, "arguments"): lambda r: rand_term(r, 1),
    (ASTType.Pool, "arguments"): lambda r: rand_term(r, 1),
    (ASTType.Comparison, "guards"): rand_guard,
    (ASTType.ConditionalLiteral, "condition"): lambda r: rand_lit(r, 1),
    (ASTType.BodyAggregateElement, "terms"): lambda r: rand_term(r, 1),
    (ASTType.BodyAggregateElement, "condition"): lambda r: rand_lit(r, 1),
    (ASTType.HeadAggregateElement, "terms"): lambda r: rand_term(r, 1),
    (ASTType.Aggregate, "elements"): lambda r: rand_condlit(r, 1),
    (ASTType.Disjunction, "elements"): lambda r: rand_condlit(r, 1),
    (ASTType.BodyAggregate, "elements"): lambda r: A.BodyAggregateElement([rand_term(r, 1)], [rand_lit(r, 1)]),
    (ASTType.HeadAggregate, "elements"): lambda r: A.HeadAggregateElement([rand_term(r, 1)], rand_condlit(r, 1)),
}
ENUMS = {"sign": A.Sign, "operator_type": None, "comparison": A.ComparisonOperator, "function": A.AggregateFunction}


def local_mutations(r, n):
    """all ways of changing the node n itself (not a descendant)"""
    out = []
    t = n.ast_type
    if t == ASTType.Variable:
        out.append(lambda: n.update(name=r.choice(VNAMES)))
        out.append(lambda: n.update(name=n.name + r.choice(["", "0", "_", "a"])))
    elif t == ASTType.SymbolicTerm:
        out.append(lambda: n.update(symbol=mutate_sym(r, n.symbol)))
    elif t in TERM_TYPES:
        out.append(lambda: rand_term(r, 1))
    if t == ASTType.Function:
        out.append(lambda: n.update(name=r.choice(FNAMES)))
        out.append(lambda: n.update(external=1 - n.external))
    if t == ASTType.UnaryOperation:
        out.append(lambda: n.update(operator_type=r.choice(list(A.UnaryOperator))))
    if t == ASTType.BinaryOperation:
        out.append(lambda: n.update(operator_type=r.choice(list(A.BinaryOperator))))
        out.append(lambda: n.update(left=n.right, right=n.left))
    if t == ASTType.Interval:
        out.append(lambda: n.update(left=n.right, right=n.left))
    if t == ASTType.Literal:
        out.append(lambda: n.update(sign=r.choice(list(A.Sign))))
        out.append(lambda: n.update(atom=rand_lit(r, 1).atom))
    if t == ASTType.Guard:
        out.append(lambda: n.update(comparison=r.choice(list(A.ComparisonOperator))))
    if t == ASTType.BooleanConstant:
        out.append(lambda: n.update(value=1 - n.value))
    if t in (ASTType.BodyAggregate, ASTType.HeadAggregate):
        out.append(lambda: n.update(function=r.choice(list(A.AggregateFunction))))
    if t in (ASTType.BodyAggregate, ASTType.HeadAggregate, ASTType.Aggregate):
        out.append(lambda: n.update(left_guard=rand_oguard(r)))
        out.append(lambda: n.update(right_guard=rand_oguard(r)))
        out.append(lambda: n.update(left_guard=n.right_guard, right_guard=n.left_guard))
    for (tt, k), gen in SEQ_GEN.items():
        if tt == t:
            seq = list(getattr(n, k))
            if seq and not (t == ASTType.Comparison and len(seq) == 1):
                out.append(lambda k=k, seq=seq: n.update(**{k: seq[:-1]}))
                out.append(lambda k=k, seq=seq: n.update(**{k: seq[1:]}))
            out.append(lambda k=k, seq=seq, gen=gen: n.update(**{k: seq + [gen(r)]}))
            if len(seq) >= 2:
                out.append(lambda k=k, seq=seq: n.update(**{k: seq[::-1]}))
    return out


def mutate(r, n, p_here=0.3):
    """copy of n with one change at a random depth: the two nodes share a long common prefix"""
    ch = list(children(n))
    here = local_mutations(r, n)
    if ch and (not here or r.random() > p_here):
        k, i, c = r.choice(ch)
        return replace_child(n, k, i, mutate(r, c, p_here))
    if not here:
        return n
    return r.choice(here)()


INT_ATTR = {
    "sign": lambda r, n: r.choice(list(A.Sign)),
    "comparison": lambda r, n: r.choice(list(A.ComparisonOperator)),
    "function": lambda r, n: r.choice(list(A.AggregateFunction)),
    "external": lambda r, n: 1 - n.external,
    "value": lambda r, n: 1 - n.value,
    "operator_type": lambda r, n: r.choice(list(A.UnaryOperator if n.ast_type == ASTType.UnaryOperation
                                                else A.BinaryOperator)),
}


def change_attr(r, n, k):
    """new value for attribute k of n (different from the old one most of the time)"""
    v = getattr(n, k)
    if k in INT_ATTR:
        return INT_ATTR[k](r, n)
    if k == "name":
        return r.choice(VNAMES if n.ast_type == ASTType.Variable else FNAMES)
    if k == "symbol" and n.ast_type == ASTType.SymbolicTerm:
        return mutate_sym(r, v)
    if k in ("left_guard", "right_guard"):
        return rand_oguard(r) if v is None or r.random() < 0.5 else mutate(r, v)
    if isinstance(v, A.AST):
        return mutate(r, v, 0.6)
    if isinstance(v, A.ASTSequence):
        seq = list(v)
        gen = SEQ_GEN.get((n.ast_type, k))
        if seq and (gen is None or r.random() < 0.6):
            i = r.randrange(len(seq))
            seq[i] = mutate(r, seq[i], 0.6)
        elif gen is not None:
            seq.append(gen(r))
        return seq
    return v


def paths(n, pre=()):
    """(path, node) for n and all descendants; a path is a tuple of (key, index)"""
    yield pre, n
    for k, i, c in children(n):
        yield from paths(c, pre + ((k, i),))


def replace_at(n, path, f):
    if not path:
        return f(n)
    (k, i), rest = path[0], path[1:]
    v = getattr(n, k)
    return replace_child(n, k, i, replace_at(v if i is None else v[i], rest, f))


def mutate_two(r, n):
    """change two attributes of one node (tells the attribute order apart); the node kind is chosen
    uniformly among the kinds with at least two attributes that occur in n"""
    cands = {}
    for path, x in paths(n):
        if len([k for k in x.keys() if k != "location"]) >= 2:
            cands.setdefault(x.ast_type, []).append(path)
    if not cands:
        return mutate(r, n)
    path = r.choice(cands[r.choice(sorted(cands, key=lambda t: t.value))])

    def f(x):
        k1, k2 = r.sample([k for k in x.keys() if k != "location"], 2)
        return x.update(**{k1: change_attr(r, x, k1), k2: change_attr(r, x, k2)})
    return replace_at(n, path, f)


def reloc(n):
    """structurally equal copy with other locations (== and < ignore locations)"""
    kw = {}
    for k in n.keys():
        v = getattr(n, k)
        if k == "location":
            kw[k] = LOC2
        elif isinstance(v, A.AST):
            kw[k] = reloc(v)
        elif isinstance(v, A.ASTSequence):
            kw[k] = [reloc(c) for c in v]
    return n.update(**kw)


KINDS = {
    "term": (ser.term, "term_compare", rand_term),
    "lit": (ser.lit, "lit_compare", rand_lit),
    "bodyelem": (ser.bodyelem, "bodyelem_compare", rand_bodyelem),
    "head": (ser.head, "head_compare", rand_head),
}


def theory_texts(n):
    return sorted(str(t) for t in collect(n, {ASTType.TheoryAtom}))


def in_fragment(a, b):
    """theory atoms are opaque text in the mirror: their relative order is not modelled"""
    ta, tb = theory_texts(a), theory_texts(b)
    return not (ta and tb and ta != tb)


def pools(inputs):
    """distinct terms / literals / body elements / heads of the input programs, with the program text"""
    out = {k: {} for k in KINDS}
    for inp in inputs:
        prg = try_parse(inp["text"])
        for s in prg or []:
            if s.ast_type == ASTType.Program:
                continue
            for t in collect(s, TERM_TYPES):
                out["term"].setdefault(str(t), t)
            for t in collect(s, {ASTType.Literal}):
                out["lit"].setdefault(str(t), t)
            if s.ast_type in (ASTType.Rule, ASTType.Minimize, ASTType.ShowTerm):
                for x in s.body:
                    out["bodyelem"].setdefault(str(x), x)
            if s.ast_type == ASTType.Rule:
                out["head"].setdefault(str(s.head), s.head)
    res = {}
    for k, d in out.items():
        good = []
        for x in d.values():
            try:
                KINDS[k][0](x)
                good.append(x)
            except ser.Unsupported:
                pass
        res[k] = good
    return res


def ast_pairs(rng, nodes, gen, count):
    """pairs (a, b, how): a from the programs or random; b equal / mutated copy of a / independent"""
    for _ in range(count):
        x = rng.random()
        a = rng.choice(nodes) if (nodes and rng.random() < 0.6) else gen(rng)
        if x < 0.08:
            b, how = reloc(a), "equal"
        elif x < 0.35:
            b, how = mutate(rng, a), "mutated"
        elif x < 0.6:
            b, how = mutate_two(rng, a), "mutated-two-attrs"
        elif x < 0.68:
            b, how = mutate(rng, mutate(rng, a)), "mutated2"
        elif x < 0.84 and nodes:
            b, how = rng.choice(nodes), "program"
        else:
            b, how = gen(rng), "random"
        if rng.random() < 0.5:
            a, b = b, a
        yield a, b, how


class AstOrder:
    name = "ast_order"
    imports = ["Syntax.Order"]
    source = "clingo.ast.AST.__lt__ / __gt__ / __eq__ (clingo 5.8.2)"
    counts = {"term": 2500, "lit": 2500, "bodyelem": 1500, "head": 700}

    def cases(self, inputs, rng):
        pool = pools(inputs)
        for kind, (serf, cmpf, gen) in KINDS.items():
            for a, b, how in ast_pairs(rng, pool[kind], gen, self.counts[kind]):
                try:
                    ta, tb = serf(a), serf(b)
                except (ser.Unsupported, KeyError):
                    continue
                if not in_fragment(a, b):
                    continue
                obs = pycmp(a, b)
                yield Case(f"chk_cmp ({cmpf} {ta} {tb}) {COQ_CMP[obs]}",
                           {"fn": "AST.__lt__", "kind": kind, "a": str(a), "b": str(b), "observed": obs, "how": how},
                           nontrivial=obs != 0 or how == "equal")


class AstSorted:
    name = "ast_sorted"
    imports = ["Syntax.Order"]
    source = "sorted() on lists of clingo.ast.AST nodes (clingo 5.8.2)"
    SORTS = {"term": ("sort_terms", "term_eqb"), "lit": ("sort_lits", "lit_eqb"),
             "bodyelem": ("sort_bodyelems", "bodyelem_eqb")}

    def cases(self, inputs, rng):
        # lists drawn from single programs (the way ngo sorts sets of literals / variables of one rule)
        perprog = []
        for inp in inputs:
            p = pools([inp])
            if any(p.values()):
                perprog.append((inp["text"], p))
        for kind, (sortf, eqf) in self.SORTS.items():
            serf, _, gen = KINDS[kind]
            n = 0
            while n < 1200:
                n += 1
                text, p = rng.choice(perprog)
                nodes = p[kind]
                k = rng.randint(2, 6)
                xs = []
                for _ in range(k):
                    y = rng.random()
                    if nodes and y < 0.6:
                        xs.append(rng.choice(nodes))
                    elif xs and y < 0.85:
                        xs.append(mutate(rng, rng.choice(xs)))
                    elif xs and y < 0.9:
                        xs.append(reloc(rng.choice(xs)))
                    else:
                        xs.append(gen(rng))
                try:
                    txt = [serf(x) for x in xs]
                except (ser.Unsupported, KeyError):
                    continue
                if not all(in_fragment(a, b) for a in xs for b in xs):
                    continue
                obs = sorted(xs)
                yield Case(f"list_eqb {eqf} ({sortf} {ser.lst(txt)}) {ser.lst([serf(x) for x in obs])}",
                           {"fn": "sorted", "kind": kind, "program": text, "input": [str(x) for x in xs],
                            "observed": [str(x) for x in obs]},
                           nontrivial=[str(x) for x in obs] != [str(x) for x in xs])
        # variables: sorted(set of Variable nodes) == sort of the names
        for _ in range(800):
            k = rng.randint(2, 7)
            names = [rng.choice(VNAMES + ["X0", "X10", "X2", "Xé", "x", "a"]) for _ in range(k)]
            obs = sorted(A.Variable(LOC if rng.random() < 0.5 else LOC2, x) for x in names)
            yield Case(f"list_eqb String.eqb (sort_strings_as_vars {ser.strlist(names)}) "
                       f"{ser.strlist([v.name for v in obs])}",
                       {"fn": "sorted(Variables)", "input": names, "observed": [v.name for v in obs]},
                       nontrivial=[v.name for v in obs] != names)


FAMILIES = [SymbolOrder(), AstOrder(), AstSorted()]
