"""correspondence families for coq/Model/Normalize.v (model of ngo/normalize.py and of clingo's AST.unpool)

Observed results are whole programs (lists of statements); an exception raised by the real function
is an observed result (Raise "<class>").  The comparison is `chk_prog` (Model/Corr.v): statement
equality ignores locations like clingo's ==; a model answer OutOfFragment is not compared.

Set the environment variable NORM_FRAGMENT=1 to turn every case into the question "does the model
answer inside its fragment?" -- the reported mismatches are then exactly the OutOfFragment cases
(used to measure the OutOfFragment share per family).
"""
import logging
import os

from clingo.ast import ASTType

from . import ser
from .corr import Case
from .inputs import try_parse

IMPORTS = ["Model.Corr", "Model.Normalize"]
FRAGMENT_MODE = bool(os.environ.get("NORM_FRAGMENT"))
MAX_STMTS = 150          # results larger than this (pool explosions) are skipped
MAX_TEXT = 60000


class _Mutator:
    """builds ASTs the parser cannot produce (the Python functions are total on the AST type, not on
    the grammar): comparisons without guards, aggregates as literals inside old-style aggregates"""

    def __init__(self, rng):
        from clingo.ast import Transformer
        self.rng = rng
        self.hit = False
        outer = self

        class T(Transformer):
            def visit_Comparison(self, node):  # pylint: disable=invalid-name
                if outer.rng.random() < 0.5:
                    outer.hit = True
                    return node.update(guards=[])
                return node

            def visit_Aggregate(self, node):  # pylint: disable=invalid-name
                from clingo.ast import AggregateFunction, BodyAggregate
                if node.elements and outer.rng.random() < 0.7:
                    outer.hit = True
                    elems = list(node.elements)
                    i = outer.rng.randrange(len(elems))
                    inner = outer.rng.choice([BodyAggregate(node.location, None, AggregateFunction.Sum, [], None),
                                              node.update(elements=[])])
                    elems[i] = elems[i].update(literal=elems[i].literal.update(atom=inner))
                    return node.update(elements=elems)
                return node

        self.t = T()

    def __call__(self, prg):
        self.hit = False
        out = [self.t.visit(s) for s in prg]
        return out if self.hit else None


def programs(inputs, rng=None, max_mutants=80):
    """(text, parsed program) of every input, without duplicates; with rng also some mutants"""
    seen = set()
    mut = _Mutator(rng) if rng is not None else None
    nmut = 0
    for inp in inputs:
        if inp["text"] in seen:
            continue
        seen.add(inp["text"])
        prg = try_parse(inp["text"])
        if prg is None:
            continue
        yield inp["text"], prg
        if mut is not None and nmut < max_mutants and ("{" in inp["text"] or "=" in inp["text"] or "<" in inp["text"]) \
                and rng.random() < 0.3:
            try:
                m = mut(prg)
            except Exception:  # pylint: disable=broad-except
                m = None
            if m is not None:
                nmut += 1
                yield inp["text"] + "   %% MUTANT: " + " ".join(map(str, m)), m


def statements(inputs, rng=None):
    seen = set()
    for _, prg in programs(inputs, rng):
        for s in prg:
            k = str(s)
            if k in seen:
                continue
            seen.add(k)
            yield s


def observe(fn):
    """run fn() -> list of statements; returns (coq text of the result, json-able, changed?) or None"""
    try:
        r = list(fn())
    except ser.Unsupported:
        return None
    except Exception as e:  # pylint: disable=broad-except
        return ser.result_raise(e), "raise " + type(e).__name__, None
    if len(r) > MAX_STMTS:
        return None
    try:
        text = ser.result_ok(ser.prog(r))
    except ser.Unsupported:
        return None
    if len(text) > MAX_TEXT:
        return None
    return text, [str(s) for s in r], r


def case(model, obs, desc, nontrivial):
    if FRAGMENT_MODE:
        return Case(f"in_fragment ({model})", desc, nontrivial=nontrivial)
    return Case(f"chk_prog ({model}) {obs}", desc, nontrivial=nontrivial)


def prog_case(fn_name, model_fn, pyfn, prg, text, variant=""):
    """one case: model_fn applied to the serialised prg vs pyfn(prg)"""
    try:
        t = ser.prog(prg)
    except ser.Unsupported:
        return None
    if len(t) > MAX_TEXT:
        return None
    o = observe(lambda: pyfn(prg))
    if o is None:
        return None
    obs, js, res = o
    changed = res is None or [str(s) for s in res] != [str(s) for s in prg]
    return case(f"{model_fn} {t}", obs,
                {"fn": fn_name, "variant": variant, "program": text, "input": [str(s) for s in prg], "observed": js},
                nontrivial=changed)


def quiet():
    logging.disable(logging.CRITICAL)


def safe(fn, prg):
    """fn(prg) as a list or None when it raises"""
    try:
        return list(fn(prg))
    except Exception:  # pylint: disable=broad-except
        return None


# ------------------------------------------------------------------------------------------------
class ReplaceOldAggregates:
    name = "norm_replace_old_aggregates"
    imports = IMPORTS
    source = "ngo.normalize.replace_old_aggregates (_convert_old_agg, _exline_interval, _replace_anon, _convert_count_to_sum)"

    def cases(self, inputs, rng):
        from ngo.normalize import replace_old_aggregates
        quiet()
        for text, prg in programs(inputs, rng):
            c = prog_case("replace_old_aggregates", "replace_old_aggregates", replace_old_aggregates, prg, text)
            if c is not None:
                yield c


class RemoveBounds:
    name = "norm_remove_bounds"
    imports = IMPORTS
    source = "ngo.normalize.remove_unecessary_bounds"

    def cases(self, inputs, rng):
        from ngo.normalize import remove_unecessary_bounds, replace_old_aggregates
        quiet()
        for text, prg in programs(inputs, rng):
            c = prog_case("remove_unecessary_bounds", "remove_unecessary_bounds", remove_unecessary_bounds, prg, text, "raw")
            if c is not None:
                yield c
            p2 = safe(replace_old_aggregates, prg)
            if p2 is not None and [str(s) for s in p2] != [str(s) for s in prg]:
                c = prog_case("remove_unecessary_bounds", "remove_unecessary_bounds", remove_unecessary_bounds, p2, text,
                              "after replace_old_aggregates")
                if c is not None:
                    yield c


class ExpandComparisons:
    name = "norm_expand_comparisons"
    imports = IMPORTS
    source = "ngo.normalize.expand_comparisons / normalize_operators"

    def cases(self, inputs, rng):
        from ngo.normalize import expand_comparisons
        quiet()
        for text, prg in programs(inputs, rng):
            c = prog_case("expand_comparisons", "(fun p => Ok (map expand_comparisons p))",
                          lambda p: [expand_comparisons(s) for s in p], prg, text)
            if c is not None:
                yield c


class Unpool:
    name = "norm_unpool"
    imports = IMPORTS
    source = "clingo.ast.AST.unpool() (C++), as used by ngo.normalize.normalize"

    def cases(self, inputs, rng):
        quiet()
        for s in statements(inputs, rng):
            try:
                t = ser.stmt(s)
            except ser.Unsupported:
                continue
            o = observe(s.unpool)
            if o is None:
                continue
            obs, js, res = o
            yield case(f"unpool_stmt {t}", obs, {"fn": "AST.unpool", "stmt": str(s), "observed": js},
                       nontrivial=res is None or len(res) != 1 or str(res[0]) != str(s))


class Preprocess:
    name = "norm_preprocess"
    imports = IMPORTS
    source = "ngo.normalize.preprocess = normalize"

    def cases(self, inputs, rng):
        from ngo.normalize import preprocess
        quiet()
        for text, prg in programs(inputs, rng):
            c = prog_case("preprocess", "preprocess", preprocess, prg, text)
            if c is not None:
                yield c


class Exline:
    name = "norm_exline"
    imports = IMPORTS
    source = "ngo.normalize.exline_arithmetic (exline_term, exline_literal, exline_minimize_terms, exline_arithmetic_rule)"

    def cases(self, inputs, rng):
        from ngo.normalize import exline_arithmetic, preprocess
        quiet()
        for text, prg in programs(inputs, rng):
            c = prog_case("exline_arithmetic", "exline_arithmetic", exline_arithmetic, prg, text, "raw")
            if c is not None:
                yield c
            pre = safe(preprocess, prg)
            if pre is None or len(pre) > MAX_STMTS:
                continue
            c = prog_case("exline_arithmetic", "exline_arithmetic", exline_arithmetic, pre, text, "preprocessed")
            if c is not None:
                yield c
            once = safe(exline_arithmetic, pre)
            if once is not None and [str(s) for s in once] != [str(s) for s in pre]:
                c = prog_case("exline_arithmetic", "exline_arithmetic", exline_arithmetic, once, text, "second pass")
                if c is not None:
                    yield c


class Inline:
    name = "norm_inline"
    imports = IMPORTS
    source = ("ngo.normalize.inline_arithmetic = postprocess (_equality, inline_replace_stm(s), inline_rule, "
              "inline_aggregate(s), inline_conditional(s))")

    def cases(self, inputs, rng):
        from ngo.normalize import (exline_arithmetic, inline_aggregates, inline_arithmetic, inline_conditionals,
                                   inline_rule, postprocess, preprocess)
        quiet()
        for text, prg in programs(inputs, rng):
            c = prog_case("inline_arithmetic", "inline_arithmetic", inline_arithmetic, prg, text, "raw")
            if c is not None:
                yield c
            # the three passes on their own (raw statements)
            c = prog_case("inline_rule", "(rmap inline_rule)", lambda p: [inline_rule(s) for s in p], prg, text, "raw")
            if c is not None:
                yield c
            c = prog_case("inline_aggregates", "(rmap inline_aggregates)", lambda p: [inline_aggregates(s) for s in p],
                          prg, text, "raw")
            if c is not None:
                yield c
            c = prog_case("inline_conditionals", "(rmap inline_conditionals)",
                          lambda p: [inline_conditionals(s) for s in p], prg, text, "raw")
            if c is not None:
                yield c
            pre = safe(preprocess, prg)
            if pre is None or len(pre) > MAX_STMTS:
                continue
            c = prog_case("postprocess", "postprocess", postprocess, pre, text, "preprocessed")
            if c is not None:
                yield c
            ex = safe(exline_arithmetic, pre)
            if ex is not None and [str(s) for s in ex] != [str(s) for s in pre]:
                c = prog_case("postprocess", "postprocess", postprocess, ex, text, "preprocessed+exlined")
                if c is not None:
                    yield c


class OptimizeNone:
    name = "norm_none"
    imports = IMPORTS
    source = "ngo.api.optimize(prg, [], [], <all traits off>) = preprocess; exline_arithmetic until fixpoint; postprocess"

    def cases(self, inputs, rng):
        from ngo.api import optimize
        quiet()

        def run(p):
            return optimize(p, [], [], cleanup=False, unused=False, duplication=False, symmetry=False,
                            minmax_chains=False, sum_chains=False, math=False, inline=False, projection=False)

        for text, prg in programs(inputs, rng):
            c = prog_case("optimize(none)", "optimize_none", run, prg, text)
            if c is not None:
                yield c


FAMILIES = [ReplaceOldAggregates(), RemoveBounds(), ExpandComparisons(), Unpool(), Preprocess(), Exline(), Inline(),
            OptimizeNone()]
