"""correspondence families for coq/Model/SumChains.v (model of ngo/sum_aggregates.py and of
ngo.utils.ast.AggAnalytics.__init__)

sumchains_agg_analytics     AggAnalytics(node): equal_variable_bound, bounds, guaranteed_leq/geq(n) on every head /
                            body aggregate (and on a few nodes of a wrong kind: AssertionError)
sumchains_at_most_rule      SumAggregator._calc_at_most_on_rule on every rule (raw and preprocessed)
sumchains_init              SumAggregator(prg, ins): _atmost_preds, _atleast_preds, objectives (or the exception)
sumchains_get_trigger       _get_trigger(var, body) with the program's own _atmost_preds and with synthetic lists
sumchains_element_passes    the static method _element_passes on every element of every body aggregate
sumchains_replace_elements  _replace_elements on one sum aggregate of a FRESH object: new elements, rules appended
                            to prg, and the (mutated) elements of the input aggregate afterwards
sumchains_get_var           _get_var on a copy of every minimize statement (fresh object)
sumchains_replace_optimize  _replace_optimize on a copy of every minimize statement (fresh object)
sumchains_execute           SumAggregator(prg, ins).execute(prg): the result AND the input program afterwards

Every stateful case works on a freshly parsed and `ngo.normalize.preprocess`ed program (the pass mutates its
input).  Two facts that are not part of the syntax tree are handed to the model explicitly:
 * `order`: the order in which `_calc_at_most` visits the Python set `global_preds` (hash order); observed by
   wrapping RuleDependency.get_rules_that_derive.  The chk_ functions verify that it is a permutation of the
   model's own set.
 * `cells`: object identity of the BodyAggregateElement nodes (address of the underlying clingo_ast_t); equal
   numbers = one Python object reachable from two places (happens after AST.unpool()).
Exceptions of the real code are observed results (Raise "<class>").

Besides the shared inputs the families use seeded random programs in the shapes the pass looks for
(`shaped_programs`), so that the pass really rewrites something in a substantial share of the cases; the
share is counted in CHANGED.  Set SUMCHAINS_FRAGMENT=1 to turn every case of the stateful families into "does
the model answer inside its fragment?" (the reported mismatches are then exactly the OutOfFragment cases).
"""
import logging
import os

from clingo.ast import AST, ASTType, AggregateFunction, Variable

from . import ser
from .corr import Case
from .inputs import parse, try_parse

IMPORTS = ["Model.Traverse", "Model.Corr", "Model.Globals", "Model.Binding", "Model.Unify", "Model.Dependency",
           "Model.SumChains"]
FRAGMENT_MODE = bool(os.environ.get("SUMCHAINS_FRAGMENT"))
MAX_TEXT = 40000
FOREIGN = [("shift", 2), ("p", 1), ("a", 1), ("in", 1), ("zzz", 2), ("__dom_shift", 2)]
CHANGED = {}          # family -> [changed, total]
SHARED = {}           # family -> number of cases with shared element objects
NUMBERS = [-1, 0, 1, 2, 3, 5]


def quiet():
    logging.disable(logging.CRITICAL)


def count(fam, changed):
    c = CHANGED.setdefault(fam, [0, 0])
    c[1] += 1
    c[0] += bool(changed)


# ------------------------------------------------------------------------------------------------
# inputs
# ------------------------------------------------------------------------------------------------
def shaped_programs(rng, n):
    """seeded random programs in the shapes sum_aggregates.py looks for; every choice takes a canonical option
    (one the pass accepts) or, with a per-program noise probability, an option from a list of near misses"""
    out = []
    for _ in range(n):
        noise = rng.choice([0.0, 0.05, 0.05, 0.1, 0.2, 0.5])

        def pick(good, odd):
            return rng.choice(odd) if rng.random() < noise else rng.choice(good)

        ar = pick([2, 2, 3], [1, 2, 3])
        name = rng.choice(["shift", "shift", "assign", "s"])
        wpos = pick([ar - 1, 1], [0]) if ar > 1 else 0
        args = []
        for i in range(ar):
            if i == wpos:
                args.append("L")
            elif i == 0 or (wpos == 0 and i == 1):
                args.append("D")
            else:
                args.append(pick(["E", "D", "T"], ["foo", "f(D)", "D+1", "1"]))
        head = f"{name}({','.join(args)})"
        hvars = [a for a in args if a[0].isupper() and len(a) == 1]
        dom = pick([f"p{name}({','.join(hvars)})", f"p{name}({','.join(hvars)})", "w(L)"],
                   ["pshift(_,L)", "w(L), not bad(L)", "w(L), L > 2", "L = 1..3", f"p{name}({','.join(hvars)},Q)"])
        gl = [a for a in hvars if a != "L"]
        body = pick([", ".join(f"d{v.lower()}({v})" for v in gl)],
                    ["day(D), not off(D)", "", "day(D), X = 1..2",
                     f"day(D), {name}({','.join('_' if a == 'L' else ('D-1' if a == 'D' else a) for a in args)})"])
        r = rng.random()
        if r < 0.5:
            guard = pick(["1"], ["2", "", "0"])
            lg = pick(["", "", "1 ", "0 "], ["2 "])
            rule = f"{lg}{{ {head} : {dom} }} {guard}"
        elif r < 0.6:
            rule = f"{{ {head} : {dom} }} = 1"
        elif r < 0.9:
            w = pick(["1", "1", "2"], ["0", "L", "-1", "X"])
            fn = pick(["#sum", "#count"], ["#sum+", "#max"])
            tup = pick([f"{w},L", f"{w},D,L"], [f"{w}"])
            extra = pick([""], [f"; 0,z : zero({','.join(args)})", f"; 1,b,L : {head} : other(L)",
                                f"; 1,c,L : not {head} : {dom}"])
            guard = pick(["<= 1", "< 2", "= 1"], ["<= 2", "!= 1", "<= X"])
            lg = pick(["", "", "1 <= ", "0 < "], ["2 <= "])
            rule = f"{lg}{fn} {{ {tup} : {head} : {dom}{extra} }} {guard}"
        else:
            rule = rng.choice([f"{head} : {dom}", f"1 {{ {head} : {dom}; other(D) }} 1", f"{{ {head}; {head} : {dom} }} 1"])
        first = f"{rule} :- {body}." if body else f"{rule}."
        lines = [first]
        if rng.random() < noise / 2:
            lines.append(f"{head} :- extra({','.join(hvars)}).")
        if rng.random() < 0.3:
            lines.append(rng.choice([f"p{name}({','.join('1..3' for _ in hvars)}).", "w(1..3).", "dd(1..2).",
                                     "{ dd(1..2) }.", f"w(L) :- p{name}({','.join('L' if v == 'L' else '_' for v in hvars)}).",
                                     "de(1..2). dt(1)."]))
        use_args = []
        for i, a in enumerate(args):
            if i == wpos:
                use_args.append(pick(["L", "L", "W"], ["_", "L+1", "3"]))
            elif a in gl:
                use_args.append(pick([a, a, "_"], ["1", "Q", "D"]))
            else:
                use_args.append(pick(["_", "Q"], [a]))
        use = f"{name}({','.join(use_args)})"
        wvar = "W" if "W" in use_args else "L"
        kvars = [a for a in use_args if a[0].isupper() and len(a) == 1 and a != wvar] or ["k"]
        for _ in range(rng.choice([1, 1, 2, 3])):
            r = rng.random()
            sign = pick([""], ["not "])
            key = ",".join(kvars)
            tup = pick([f"{wvar},{key}", f"{wvar},{key}", f"{wvar},{key},x"],
                       [f"{wvar}", f"{wvar},{key},{wvar}", f"{wvar}*2,{key}", f"2,{wvar}", f"-{wvar},{key}"])
            cond = pick([f"{sign}{use}", f"{sign}{use}", f"{sign}{use}, dd(D)", f"dd(D), {sign}{use}", f"#true, {sign}{use}"],
                        [f"{sign}{use}, {wvar} > 1", f"{use}, {use}", f"other(D,{wvar}), {use}"])
            if r < 0.4:
                fn = pick(["#sum", "#sum", "#sum+"], ["#count", "#max"])
                more = pick(["", "", "; V,Z,y : bla(Z,V)", "; 3,z,z"],
                            ["; 1,a : #true", f"; {tup} : {cond}", "; 3", "; Y,foo,bar", f"; {wvar},{key} : {name}2({key},{wvar})"])
                lits = rng.choice(["", "", ", some(Y)", ", dd(D)", ", X > 2"]) if rng.random() > noise / 3 else ", p(1;2)"
                neg = pick([""], ["not "])
                cmp_ = rng.choice(["X =", "X =", "X =", "3 <=", "X <="])
                lines.append(f"a(X) :- dom(X), {neg}{cmp_} {fn} {{ {tup} : {cond}{more} }}{lits}.")
            elif r < 0.65:
                kw = rng.choice(["#minimize", "#minimize", "#maximize"])
                prio = pick(["", "", "@2"], ["@D"])
                t = tup.split(",")
                lines.append(f"{kw} {{ {t[0]}{prio}{''.join(',' + x for x in t[1:])} : {cond} }}.")
            elif r < 0.85:
                prio = pick(["", "@1"], ["@P"])
                cond2 = cond.replace(", ", "; ")
                t = tup.split(",")
                lines.append(f":~ {cond2}. [{t[0]}{prio}{''.join(',' + x for x in t[1:])}]")
            elif r < 0.95:
                lines.append(f":~ X = #sum {{ {tup} : {cond} }}, p(X,Y). [Y@1]")
            else:
                lines.append(f":~ {use} : w({wvar}). [{wvar},{key}]")
        if rng.random() < 0.1 + noise / 2:
            lines.append(rng.choice(["#minimize {1,a : #true}.", "#minimize {L,D : other(D,L)}.", "#show a/1.",
                                     "#minimize {X,Y : q(X,Y)}.", ":~ q(X). [X@2]"]))
        if rng.random() < 0.3:
            rng.shuffle(lines)
        out.append("\n".join(lines))
    return out


def texts(inputs, rng, shaped=120):
    seen = set()
    for inp in inputs:
        t = inp["text"]
        if t in seen:
            continue
        seen.add(t)
        yield t
    for t in shaped_programs(rng, shaped):
        if t in seen or try_parse(t) is None:
            continue
        seen.add(t)
        yield t


def fresh(text):
    """freshly parsed and preprocessed program, or None"""
    from ngo.normalize import preprocess
    prg = try_parse(text)
    if prg is None:
        return None
    try:
        return list(preprocess(prg))
    except Exception:  # pylint: disable=broad-except
        return None


def prepared(inputs, rng, shaped=120):
    """(text, coq text of the preprocessed program) for every distinct usable input"""
    for text in texts(inputs, rng, shaped):
        pp = fresh(text)
        if pp is None:
            continue
        try:
            t = ser.prog(pp)
        except ser.Unsupported:
            continue
        if len(t) > MAX_TEXT:
            continue
        yield text, t


def all_preds(pp):
    from ngo.utils.ast import predicates
    return sorted({sp.pred for stm in pp for sp in predicates(stm)})


def rand_inputs(rng, pp):
    from ngo.utils.ast import Predicate
    preds = all_preds(pp)
    ins = []
    for _ in range(rng.choice([1, 1, 2, 3])):
        if preds and rng.random() < 0.85:
            ins.append(rng.choice(preds))
        else:
            ins.append(Predicate(*rng.choice(FOREIGN)))
    return ins


# ------------------------------------------------------------------------------------------------
# observation helpers
# ------------------------------------------------------------------------------------------------
LOG = []


def build(pp, ins):
    """(SumAggregator or None, exception or None, visiting order of global_preds)"""
    import ngo.sum_aggregates as mod
    from ngo.utils.ast import predicates
    orig = mod.RuleDependency

    class LoggingRuleDependency(orig):  # pylint: disable=too-few-public-methods
        """records the order of the calls made by _calc_at_most"""

        def get_rules_that_derive(self, head):
            LOG.append(head)
            return super().get_rules_that_derive(head)

    LOG.clear()
    mod.RuleDependency = LoggingRuleDependency
    obj, exc = None, None
    try:
        obj = mod.SumAggregator(pp, list(ins))
    except Exception as e:  # pylint: disable=broad-except
        exc = e
    finally:
        mod.RuleDependency = orig
    gp = {sp.pred for stm in pp for sp in predicates(stm)} - set(ins)
    order = list(LOG)
    order += sorted(gp - set(order))
    return obj, exc, order


def walk(node):
    yield node
    for k in node.child_keys:
        v = getattr(node, k)
        if v is None:
            continue
        if isinstance(v, AST):
            yield from walk(v)
        else:
            try:
                it = list(v)
            except TypeError:
                continue
            for x in it:
                if isinstance(x, AST):
                    yield from walk(x)


def addr(node):
    from clingo._internal import _ffi
    return int(_ffi.cast("uintptr_t", node._rep))  # pylint: disable=protected-access


def cells_of(pp):
    """(coq text of `list cellrows`, True iff two elements are one object)"""
    ids = {}
    shared = False
    rows_all = []
    for stm in pp:
        rows = []
        if stm.ast_type in (ASTType.Rule, ASTType.Minimize):
            for b in stm.body:
                row = []
                if b.ast_type == ASTType.Literal and b.atom.ast_type == ASTType.BodyAggregate:
                    for e in b.atom.elements:
                        a = addr(e)
                        if a in ids:
                            shared = True
                        else:
                            ids[a] = len(ids)
                        row.append(f"Some {ids[a]}")
                rows.append(ser.lst(row))
        rows_all.append(ser.lst(rows))
    return ser.lst(rows_all), shared


def preds_s(ps):
    return ser.lst([ser.pred(p) for p in ps])


def anon_s(ap):
    return f"({ser.pred(ap.pred)}, {ser.lst([str(int(i)) for i in ap.annotated_positions])})"


def anons_s(aps):
    return ser.lst([anon_s(a) for a in aps])


def belem_s(e):
    return f"({ser.lst([ser.term(t) for t in e.terms])}, {ser.lst([ser.lit(c) for c in e.condition])})"


def belems_s(es):
    return ser.lst([belem_s(e) for e in es])


def guard_s(g):
    return f"({ser.CMP[g.comparison]}, {ser.term(g.term)})"


def observe(fn, conv):
    """run fn; (Coq text of a `result`, json-able, raw value or None, exception or None)"""
    try:
        r = fn()
    except ser.Unsupported:
        raise
    except Exception as e:  # pylint: disable=broad-except
        return ser.result_raise(e), "raise " + type(e).__name__, None, e
    text, js = conv(r)
    return ser.result_ok(text), js, r, None


def conv_stmts(r):
    return ser.prog(r), [str(s) for s in r]


def body_of(stm):
    return list(stm.body) if stm.ast_type in (ASTType.Rule, ASTType.Minimize) else []


def statements(inputs, rng, shaped=60):
    """distinct statements of the raw and of the preprocessed versions of all inputs"""
    seen = set()
    for text in texts(inputs, rng, shaped):
        for prg in (try_parse(text), fresh(text)):
            if prg is None:
                continue
            for s in prg:
                k = str(s)
                if k in seen:
                    continue
                seen.add(k)
                yield text, s


# ------------------------------------------------------------------------------------------------
class AggAnalyticsFam:
    name = "sumchains_agg_analytics"
    imports = IMPORTS
    source = "ngo.utils.ast.AggAnalytics (__init__, guaranteed_leq, guaranteed_geq) on head and body aggregates"

    @staticmethod
    def obs(node):
        from ngo.utils.ast import AggAnalytics

        def conv(a):
            leq = [a.guaranteed_leq(n) for n in NUMBERS]
            geq = [a.guaranteed_geq(n) for n in NUMBERS]
            text = (f"({ser.strlist(a.equal_variable_bound)}, {ser.lst([guard_s(g) for g in a.bounds])}, "
                    f"{ser.lst([ser.b(x) for x in leq])}, {ser.lst([ser.b(x) for x in geq])})")
            return text, {"equal": list(a.equal_variable_bound), "bounds": [str(g) for g in a.bounds], "leq": leq,
                          "geq": geq}
        return observe(lambda: AggAnalytics(node), conv)

    def cases(self, inputs, rng):
        quiet()
        nums = ser.lst([ser.z(n) for n in NUMBERS])
        wrong = 0
        for text, s in statements(inputs, rng):
            if s.ast_type != ASTType.Rule:
                continue
            try:
                h = ser.head(s.head)
                is_agg = s.head.ast_type in (ASTType.HeadAggregate, ASTType.Aggregate)
                if is_agg or wrong < 40:
                    wrong += not is_agg
                    o, js, r, _ = self.obs(s.head)
                    yield Case(f"chk_analytics (analytics_head {h}) {nums} {o}",
                               {"fn": "AggAnalytics", "node": str(s.head), "observed": js},
                               nontrivial=r is not None and bool(r.bounds or r.equal_variable_bound))
                for b in s.body:
                    if b.ast_type != ASTType.Literal:
                        continue
                    is_agg = b.atom.ast_type in (ASTType.BodyAggregate, ASTType.Aggregate)
                    if not is_agg and wrong >= 80:
                        continue
                    wrong += not is_agg
                    o, js, r, _ = self.obs(b.atom)
                    yield Case(f"chk_analytics (analytics_atom {ser.atom(b.atom)}) {nums} {o}",
                               {"fn": "AggAnalytics", "node": str(b.atom), "observed": js},
                               nontrivial=r is not None and bool(r.bounds or r.equal_variable_bound))
            except ser.Unsupported:
                continue


class AtMostRuleFam:
    name = "sumchains_at_most_rule"
    imports = IMPORTS
    source = "ngo.sum_aggregates.SumAggregator._calc_at_most_on_rule on every rule (raw and preprocessed)"

    def cases(self, inputs, rng):
        from ngo.sum_aggregates import SumAggregator
        quiet()
        obj = SumAggregator([], [])
        other = 0
        for text, s in statements(inputs, rng, shaped=150):
            if s.ast_type != ASTType.Rule:
                if s.ast_type not in (ASTType.Minimize, ASTType.ShowTerm) or other > 20:
                    continue
                other += 1
            try:
                t = ser.stmt(s)
                o, js, r, _ = observe(lambda: obj._calc_at_most_on_rule(s),  # pylint: disable=protected-access,cell-var-from-loop
                                      lambda r: (f"({anons_s(r[0])}, {anons_s(r[1])})",
                                                 [[str(a) for a in r[0]], [str(a) for a in r[1]]]))
            except ser.Unsupported:
                continue
            yield Case(f"chk_at_most_rule (calc_at_most_on_rule {t}) {o}",
                       {"fn": "_calc_at_most_on_rule", "stmt": str(s), "observed": js},
                       nontrivial=r is None or bool(r[0]))


class InitFam:
    name = "sumchains_init"
    imports = IMPORTS
    source = ("ngo.sum_aggregates.SumAggregator.__init__ on preprocessed programs with random input predicates: "
              "_atmost_preds, _atleast_preds, objectives")

    def cases(self, inputs, rng):
        quiet()
        for text, t in prepared(inputs, rng, shaped=150):
            for rnd in range(2):
                pp = fresh(text)
                ins = [] if rnd == 0 else rand_inputs(rng, pp)
                obj, exc, order = build(pp, ins)
                if obj is None:
                    o, js = ser.result_raise(exc), "raise " + type(exc).__name__
                else:
                    try:
                        objs = ser.lst([f"({ser.lst([ser.term(k) for k in key])}, {ser.prog(v)})"
                                        for key, v in obj.objectives.items()])
                    except ser.Unsupported:
                        continue
                    o = f"(Ok ({anons_s(obj._atmost_preds)}, {anons_s(obj._atleast_preds)}, {objs}))"  # pylint: disable=protected-access
                    js = {"atmost": [str(a) for a in obj._atmost_preds], "atleast": [str(a) for a in obj._atleast_preds]}  # pylint: disable=protected-access
                desc = {"fn": "SumAggregator.__init__", "program": text, "inputs": [str(p) for p in ins],
                        "order": [str(p) for p in order], "observed": js}
                nontrivial = obj is None or bool(obj._atmost_preds)  # pylint: disable=protected-access
                expr = f"chk_init {t} {preds_s(ins)} {preds_s(order)} {o}"
                if FRAGMENT_MODE:
                    yield Case(f"in_fragment (sa_init {t} {preds_s(ins)} {preds_s(order)})", desc, nontrivial, key=expr)
                    continue
                yield Case(expr, desc, nontrivial=nontrivial)
                if obj is not None:
                    # independent of the hash order: as multisets, for the model's own visiting order
                    yield Case(f"chk_at_most_unordered {t} {preds_s(ins)} {anons_s(obj._atmost_preds)} "  # pylint: disable=protected-access
                               f"{anons_s(obj._atleast_preds)}", dict(desc, fn="at_most_one_predicates (unordered)"),  # pylint: disable=protected-access
                               nontrivial=nontrivial)


def rand_anons(rng, body):
    """synthetic _atmost_preds over the predicates of a body"""
    from ngo.utils.ast import AnnotatedPredicate, Predicate, is_predicate
    cands = [Predicate(l.atom.symbol.name, len(l.atom.symbol.arguments)) for l in body if is_predicate(l)]
    out = []
    for _ in range(rng.choice([1, 1, 2, 3])):
        if not cands:
            break
        p = rng.choice(cands)
        if rng.random() < 0.1:
            p = Predicate(p.name, p.arity + 1)
        k = rng.randint(1, min(p.arity, 3)) if p.arity and rng.random() < 0.93 else 0
        pos = sorted(rng.sample(range(p.arity), k)) if p.arity else []
        if rng.random() < 0.1:
            pos = list(reversed(pos))
        out.append(AnnotatedPredicate(p, tuple(pos)))
    return out


class GetTriggerFam:
    name = "sumchains_get_trigger"
    imports = IMPORTS
    source = ("ngo.sum_aggregates.SumAggregator._get_trigger(var, body) on minimize bodies, rule bodies and "
              "aggregate conditions, with the program's own and with synthetic _atmost_preds")

    def cases(self, inputs, rng):
        from ngo.utils.ast import collect_ast
        quiet()
        for text, _ in prepared(inputs, rng, shaped=150):
            pp = fresh(text)
            obj, _, _ = build(pp, [])
            if obj is None:
                continue
            own = list(obj._atmost_preds)  # pylint: disable=protected-access
            bodies = []
            for stm in pp:
                body = body_of(stm)
                if not body:
                    continue
                if stm.ast_type == ASTType.Minimize:
                    w = stm.weight
                    if w.ast_type == ASTType.UnaryOperation:
                        w = w.argument
                    bodies.append((w, body, str(stm)))
                else:
                    vs = collect_ast(stm, "Variable")
                    if vs:
                        bodies.append((rng.choice(vs), body, str(stm)))
                for b in body:
                    if b.ast_type == ASTType.Literal and b.atom.ast_type == ASTType.BodyAggregate:
                        for e in b.atom.elements:
                            if len(e.terms) > 0:
                                bodies.append((e.terms[0], list(e.condition), str(b)))
            for var, body, where in bodies:
                lists = [own] if own else []
                lists.append(rand_anons(rng, body))
                if rng.random() < 0.3:
                    lists.append(own + rand_anons(rng, body))
                for atm in lists:
                    obj._atmost_preds = atm  # pylint: disable=protected-access
                    try:
                        o, js, r, _ = observe(
                            lambda: obj._get_trigger(var, body),  # pylint: disable=protected-access,cell-var-from-loop
                            lambda r: ("None", None) if r is None else
                            (f"(Some ({ser.lit(r[0])}, {r[1]}, {anon_s(r[2])}))", [str(r[0]), r[1], str(r[2])]))
                        expr = f"chk_trigger (get_trigger {anons_s(atm)} {ser.term(var)} {ser.body(body)}) {o}"
                    except ser.Unsupported:
                        continue
                    yield Case(expr, {"fn": "_get_trigger", "program": text, "where": where, "var": str(var),
                                      "atmost": [str(a) for a in atm], "observed": js},
                               nontrivial=js is not None)
                obj._atmost_preds = own  # pylint: disable=protected-access


class ElementPassesFam:
    name = "sumchains_element_passes"
    imports = IMPORTS
    source = "ngo.sum_aggregates.SumAggregator._element_passes(elem, elements) on every body aggregate element"

    def cases(self, inputs, rng):
        from ngo.sum_aggregates import SumAggregator
        quiet()
        for text, s in statements(inputs, rng, shaped=150):
            for b in body_of(s):
                if b.ast_type != ASTType.Literal or b.atom.ast_type != ASTType.BodyAggregate:
                    continue
                elements = list(b.atom.elements)
                variants = [elements]
                if elements and rng.random() < 0.3:
                    variants.append(elements + [rng.choice(elements)])
                for els in variants:
                    for e in elements:
                        try:
                            o, js, r, _ = observe(lambda: SumAggregator._element_passes(e, els),  # pylint: disable=protected-access,cell-var-from-loop
                                                  lambda r: (ser.b(r), bool(r)))
                            expr = f"chk_passes (element_passes {belem_s(e)} {belems_s(els)}) {o}"
                        except ser.Unsupported:
                            continue
                        yield Case(expr, {"fn": "_element_passes", "stmt": str(s), "element": str(e),
                                          "elements": [str(x) for x in els], "observed": js}, nontrivial=bool(r))


def sum_locations(pp):
    """(statement index, body index) of every #sum / #sum+ body aggregate"""
    out = []
    for i, stm in enumerate(pp):
        for j, b in enumerate(body_of(stm)):
            if (b.ast_type == ASTType.Literal and b.atom.ast_type == ASTType.BodyAggregate
                    and b.atom.function in (AggregateFunction.Sum, AggregateFunction.SumPlus)):
                out.append((i, j))
    return out


class ReplaceElementsFam:
    name = "sumchains_replace_elements"
    imports = IMPORTS
    source = ("ngo.sum_aggregates.SumAggregator._replace_elements(atom.elements, prg) on one #sum aggregate of a fresh "
              "object: new elements, appended rules, the input aggregate's elements afterwards")

    def cases(self, inputs, rng):
        quiet()
        for text, t in prepared(inputs, rng, shaped=200):
            pp0 = fresh(text)
            locs = sum_locations(pp0)
            if len(locs) > 3:
                locs = rng.sample(locs, 3)
            for (i, j) in locs:
                for rnd in range(2):
                    pp = fresh(text)
                    ins = [] if rnd == 0 else rand_inputs(rng, pp)
                    cells, shared = cells_of(pp)
                    obj, _, order = build(pp, ins)
                    if obj is None:
                        continue
                    atom = pp[i].body[j].atom
                    before = [str(e) for e in atom.elements]
                    out = []
                    try:
                        o, js, r, _ = observe(
                            lambda: (obj._replace_elements(atom.elements, out), out, list(atom.elements)),  # pylint: disable=protected-access,cell-var-from-loop
                            lambda r: (f"({belems_s(r[0])}, {ser.prog(r[1])}, {belems_s(r[2])})",
                                       {"new": [str(e) for e in r[0]], "rules": [str(s) for s in r[1]],
                                        "after": [str(e) for e in r[2]]}))
                    except ser.Unsupported:
                        continue
                    changed = r is not None and [str(e) for e in r[0]] != before
                    count(self.name, changed)
                    SHARED[self.name] = SHARED.get(self.name, 0) + shared
                    call = f"replace_elements_at {t} {preds_s(ins)} {preds_s(order)} {cells} {i} {j}"
                    desc = {"fn": "_replace_elements", "program": text, "inputs": [str(p) for p in ins],
                            "location": [i, j], "aggregate": str(pp0[i].body[j]), "observed": js}
                    if FRAGMENT_MODE:
                        yield Case(f"in_fragment ({call})", desc, changed, key=call + o)
                    else:
                        yield Case(f"chk_replace_elements ({call}) {o}", desc, nontrivial=changed or r is None)


class GetVarFam:
    name = "sumchains_get_var"
    imports = IMPORTS
    source = "ngo.sum_aggregates.SumAggregator._get_var on a copy of every minimize statement"

    def cases(self, inputs, rng):
        quiet()
        for text, t in prepared(inputs, rng, shaped=200):
            pp = fresh(text)
            mins = [i for i, s in enumerate(pp) if s.ast_type == ASTType.Minimize]
            if not mins:
                continue
            for rnd in range(2):
                ins = [] if rnd == 0 else rand_inputs(rng, pp)
                obj, _, order = build(pp, ins)
                if obj is None:
                    continue
                for i in mins:
                    m = pp[i].update(body=list(pp[i].body))
                    o, js, r, _ = observe(lambda: obj._get_var(m),  # pylint: disable=protected-access,cell-var-from-loop
                                          lambda r: ("None", None) if r is None else (f"(Some {ser.term(r)})", str(r)))
                    yield Case(f"chk_get_var (get_var_at {t} {preds_s(ins)} {preds_s(order)} {i}) {o}",
                               {"fn": "_get_var", "program": text, "inputs": [str(p) for p in ins], "stmt": str(pp[i]),
                                "observed": js}, nontrivial=js is not None)


class ReplaceOptimizeFam:
    name = "sumchains_replace_optimize"
    imports = IMPORTS
    source = ("ngo.sum_aggregates.SumAggregator._replace_optimize on a copy (stm.update(body=list(stm.body))) of "
              "every minimize statement, fresh object per call")

    def cases(self, inputs, rng):
        quiet()
        for text, t in prepared(inputs, rng, shaped=200):
            pp0 = fresh(text)
            mins = [i for i, s in enumerate(pp0) if s.ast_type == ASTType.Minimize]
            if len(mins) > 4:
                mins = rng.sample(mins, 4)
            for i in mins:
                for rnd in range(2):
                    pp = fresh(text)
                    ins = [] if rnd == 0 else rand_inputs(rng, pp)
                    obj, _, order = build(pp, ins)
                    if obj is None:
                        continue
                    before = str(pp[i])
                    m = pp[i].update(body=list(pp[i].body))
                    try:
                        o, js, r, _ = observe(lambda: obj._replace_optimize(m), conv_stmts)  # pylint: disable=protected-access,cell-var-from-loop
                    except ser.Unsupported:
                        continue
                    changed = r is not None and js != [before]
                    count(self.name, changed)
                    call = f"replace_optimize_at {t} {preds_s(ins)} {preds_s(order)} {i}"
                    desc = {"fn": "_replace_optimize", "program": text, "inputs": [str(p) for p in ins],
                            "stmt": before, "observed": js}
                    if FRAGMENT_MODE:
                        yield Case(f"in_fragment ({call})", desc, changed, key=call + o)
                    else:
                        yield Case(f"chk_prog ({call}) {o}", desc, nontrivial=changed or r is None)


class ExecuteFam:
    name = "sumchains_execute"
    imports = IMPORTS
    source = ("ngo.sum_aggregates.SumAggregator(prg, ins).execute(prg) on freshly parsed and preprocessed programs "
              "with random input predicates; the result and the (mutated) input program are compared")

    def cases(self, inputs, rng):
        quiet()
        for text, t in prepared(inputs, rng, shaped=600):
            for rnd in range(2):
                pp = fresh(text)
                ins = [] if rnd == 0 else rand_inputs(rng, pp)
                cells, shared = cells_of(pp)
                before = [str(s) for s in pp]
                obj, exc, order = build(pp, ins)
                try:
                    if obj is None:
                        o, js, r = ser.result_raise(exc), "raise " + type(exc).__name__, None
                        after = o
                    else:
                        o, js, r, _ = observe(lambda: obj.execute(pp), conv_stmts)  # pylint: disable=cell-var-from-loop
                        after = ser.result_ok(ser.prog(pp)) if r is not None else o
                except ser.Unsupported:
                    continue
                changed = r is not None and js != before
                count(self.name, changed)
                SHARED[self.name] = SHARED.get(self.name, 0) + shared
                args = f"{t} {preds_s(ins)} {preds_s(order)} {cells}"
                desc = {"fn": "SumAggregator.execute", "program": "\n".join(before), "source": text,
                        "inputs": [str(p) for p in ins], "order": [str(p) for p in order], "shared_elements": shared,
                        "observed": js, "input_after": [str(s) for s in pp]}
                if FRAGMENT_MODE:
                    yield Case(f"execute_in_fragment {args}", desc, changed, key=args + o)
                else:
                    yield Case(f"chk_execute {args} {o} {after}", desc, nontrivial=changed or r is None)
                    if changed and not shared:
                        # without shared objects the cells are irrelevant: the plain entry point `execute`
                        yield Case(f"chk_prog (execute {t} {preds_s(ins)} {preds_s(order)}) {o}",
                                   dict(desc, fn="SumAggregator.execute (default cells)"), nontrivial=True)


FAMILIES = [AggAnalyticsFam(), AtMostRuleFam(), InitFam(), GetTriggerFam(), ElementPassesFam(), ReplaceElementsFam(),
            GetVarFam(), ReplaceOptimizeFam(), ExecuteFam()]
