"""correspondence family for coq/Model/Safe.v: clingo's own safety check (gringo 5.8.2) against the model.

For every rule / #minimize element / weak constraint / #show-term statement of the inputs, and for a few
thousand seeded random single statements (grammar below, biased to the edge cases of the safety
definition), the one-statement program is handed to clingo (ProgramBuilder with the AST, program part
`other`, then `ground([])`: the safety check runs for every part, nothing is instantiated).  clingo
rejects an unsafe statement with a RuntimeError and logs `error: unsafe variables in: ... note: 'X' is
unsafe`; the names are collected from the log (`#AnonN` -> `_`, other internal names `#Range0`,
`#Arith0`, `#Script0` dropped).  A RuntimeError without such a message is another kind of error: the
statement is skipped (counted in STATS["other_error"]).

Case: `chk_safe (safe_result stmt) accepted [names]` -- acceptance AND the set of names must agree,
`OutOfFragment` answers of the model are not compared (see census() for their share).
"""
import os
import re

import clingo
from clingo.ast import ASTType, Location, Position, Program, ProgramBuilder

from . import ser
from .corr import Case
from .inputs import try_parse

IMPORTS = ["Model.Safe"]
LOC = Location(Position("<v>", 1, 1), Position("<v>", 1, 1))
STATS = {"other_error": 0, "unsupported": 0}
KINDS = (ASTType.Rule, ASTType.Minimize, ASTType.ShowTerm, ASTType.ShowSignature)
UNSAFE_RE = re.compile(r"note: '(.*)' is unsafe$", re.M)


def observe(stm):
    """(accepted, sorted names) or None when clingo fails for another reason"""
    msgs = []
    ctl = clingo.Control([], logger=lambda c, m: msgs.append(m), message_limit=100000)
    try:
        with ProgramBuilder(ctl) as bld:
            bld.add(Program(LOC, "other", []))
            bld.add(stm)
        ctl.ground([])
    except RuntimeError:
        names = set()
        found = False
        for m in msgs:
            if "unsafe variables" in m:
                found = True
                for n in UNSAFE_RE.findall(m):
                    if n.startswith("#Anon"):
                        names.add("_")
                    elif not n.startswith("#"):
                        names.add(n)
        if not found:
            return None
        return False, sorted(names)
    return True, []


# ------------------------------------------------------------------------------------------------
# random single statements
# ------------------------------------------------------------------------------------------------
class Gen:
    """grammar of single statements biased to the corner cases of clingo's safety definition"""

    VARS = ["X", "Y", "Z", "W", "V"]

    def __init__(self, rng):
        self.r = rng

    def pick(self, pairs):
        tot = sum(w for _, w in pairs)
        x = self.r.random() * tot
        for v, w in pairs:
            x -= w
            if x <= 0:
                return v
        return pairs[-1][0]

    def var(self):
        if self.r.random() < 0.06:
            return "_"
        return self.r.choice(self.VARS[:self.r.choice([2, 3, 3, 4, 5])])

    def num(self):
        return str(self.pick([(0, 3), (1, 4), (2, 3), (3, 2), (5, 2), (7, 1), (9, 1), (100, 0.3)]))

    def term(self, d=2):
        k = self.pick([("var", 42), ("num", 14), ("lin", 10 if d else 0), ("bin", 8 if d else 0), ("un", 5 if d else 0),
                       ("fun", 7 if d else 0), ("tup", 3 if d else 0), ("int", 6 if d else 0), ("const", 1.2),
                       ("ext", 0.8 if d else 0), ("str", 0.3), ("inf", 0.3), ("cfold", 3 if d else 0)])
        if k == "var":
            return self.var()
        if k == "num":
            return self.num()
        if k == "lin":
            v = self.term(d - 1) if self.r.random() < 0.3 else self.var()
            return self.r.choice([f"{self.num()}*{v}", f"{v}*{self.num()}", f"{v}+{self.num()}", f"{self.num()}+{v}",
                                  f"{v}-{self.num()}", f"{self.num()}-{v}", f"{self.num()}*{v}+{self.num()}",
                                  f"({v}+{self.num()})*{self.num()}", f"-{v}", f"-({v}+{self.num()})",
                                  f"{v}*({self.num()}-{self.num()})"])
        if k == "bin":
            op = self.pick([("+", 6), ("-", 4), ("*", 5), ("/", 3), ("\\", 2), ("**", 2), ("&", 1), ("?", 1), ("^", 1)])
            return f"({self.term(d - 1)}{op}{self.term(d - 1)})"
        if k == "un":
            return self.r.choice(["-{}", "-({})", "|{}|", "~{}", "- -{}"]).format(self.term(d - 1))
        if k == "fun":
            n = self.r.choice([1, 1, 2])
            return f"{self.r.choice(['f', 'g'])}({','.join(self.term(d - 1) for _ in range(n))})"
        if k == "tup":
            return f"({self.term(d - 1)},{self.term(d - 1)})"
        if k == "int":
            lo, hi = self.term(d - 1), self.term(d - 1)
            if lo.isdigit() and hi.isdigit() and int(lo) > int(hi):
                lo, hi = hi, lo
            return f"({lo}..{hi})"
        if k == "const":
            return self.r.choice(["a", "b"])
        if k == "ext":
            return f"@f({self.term(d - 1)})"
        if k == "str":
            return '"s"'
        if k == "inf":
            return self.r.choice(["#inf", "#sup"])
        op = self.pick([("+", 2), ("-", 3), ("*", 3), ("/", 3), ("\\", 2), ("**", 2), ("&", 1), ("?", 1), ("^", 1)])
        return f"({self.num()}{op}{self.num()})"

    def atom(self, d=2):
        n = self.pick([(0, 1), (1, 6), (2, 4), (3, 1)])
        p = self.r.choice(["p", "q", "r", "s"])
        neg = "-" if self.r.random() < 0.03 else ""
        if n == 0:
            return neg + p
        return f"{neg}{p}({','.join(self.term(d) for _ in range(n))})"

    def sign(self, pos):
        return self.pick([("", pos), ("not ", (1 - pos) * 0.7), ("not not ", (1 - pos) * 0.3)])

    def cmp(self):
        op = lambda: self.pick([("=", 30), ("!=", 10), ("<", 20), ("<=", 15), (">", 13), (">=", 12)])
        n = self.pick([(1, 80), (2, 17), (3, 3)])
        d = self.r.choice([1, 1, 2])
        prev = self.term(d)
        s = prev
        for _ in range(n):
            t = self.term(d)
            for _ in range(3):
                if t != prev and not (t.isdigit() and prev.isdigit()):
                    break
                t = self.term(d)       # X < X, 3 = 5: contradictory bounds are outside the model's fragment
            s += f" {op()} {t}"
            prev = t
        return s

    def plain_lit(self):
        k = self.pick([("atom", 60), ("cmp", 36), ("bool", 4)])
        if k == "atom":
            return self.sign(0.7) + self.atom(self.r.choice([1, 2, 2]))
        if k == "cmp":
            return self.sign(0.8) + self.cmp()
        return self.sign(0.8) + self.r.choice(["#true", "#false"])

    def cond(self, lo=0, hi=2):
        return [self.plain_lit() for _ in range(self.r.randint(lo, hi))]

    def guard(self, assign):
        op = "=" if self.r.random() < assign else self.pick([("<", 3), ("<=", 2), (">", 2), (">=", 2), ("!=", 1)])
        return op, self.term(1)

    def body_agg(self):
        fun = self.pick([("#sum", 4), ("#count", 3), ("#min", 1), ("#max", 1), ("#sum+", 1), ("old", 3)])
        els = []
        for _ in range(self.pick([(0, 0.5), (1, 6), (2, 3)])):
            if fun == "old":
                c = self.cond(0, 2)
                els.append(self.sign(0.8) + self.atom(1) + (" : " + ", ".join(c) if c else ""))
            else:
                ts = ",".join(self.term(1) for _ in range(self.pick([(0, 0.3), (1, 6), (2, 3)])))
                c = self.cond(0, 2)
                els.append(ts + (" : " + ", ".join(c) if c or not ts else ""))
        inner = ("{ " if fun == "old" else fun + " { ") + "; ".join(els) + " }"
        gl = self.pick([("none", 2), ("l", 4), ("r", 3), ("both", 1)])
        s = inner
        if gl in ("l", "both"):
            op, t = self.guard(0.5)
            s = f"{t} {op} {s}"
        if gl in ("r", "both"):
            op, t = self.guard(0.4)
            s = f"{s} {op} {t}"
        return self.sign(0.85) + s

    def body_elem(self):
        k = self.pick([("plain", 78), ("agg", 12), ("cond", 10)])
        if k == "plain":
            return self.plain_lit()
        if k == "agg":
            return self.body_agg()
        c = self.cond(0, 2)
        return self.plain_lit() + " : " + (", ".join(c) if c else "#true" if self.r.random() < 0.3 else "")

    def body(self, lo=0, hi=4):
        return [self.body_elem() for _ in range(self.r.randint(lo, hi))]

    def head_atom(self):
        return self.atom(self.r.choice([1, 1, 2]))

    def condlit(self):
        c = self.cond(0, 2)
        return self.sign(0.93) + self.head_atom() + (" : " + ", ".join(c) if c else "")

    def head(self):
        k = self.pick([("atom", 50), ("none", 8), ("choice", 18), ("disj", 10), ("hagg", 8)])
        if k == "atom":
            return self.head_atom()
        if k == "none":
            return ""
        if k == "choice":
            s = "{ " + "; ".join(self.condlit() for _ in range(self.pick([(1, 6), (2, 3), (0, 0.3)]))) + " }"
            g = self.pick([("none", 6), ("l", 1.5), ("r", 1.5), ("both", 0.5)])
            if g in ("l", "both"):
                op, t = self.guard(0.3)
                s = f"{t} {op} {s}"
            if g in ("r", "both"):
                op, t = self.guard(0.3)
                s = f"{s} {op} {t}"
            return s
        if k == "disj":
            els = [self.condlit() for _ in range(self.r.choice([1, 2, 2, 3]))]
            if len(els) == 1 and ":" not in els[0]:
                els.append(self.condlit())
            return " ; ".join(e.replace("not not ", "").replace("not ", "") for e in els)
        fun = self.r.choice(["#sum", "#count", "#min", "#max"])
        els = []
        for _ in range(self.pick([(1, 5), (2, 3)])):
            ts = ",".join(self.term(1) for _ in range(self.pick([(1, 6), (2, 3)])))
            els.append(ts + " : " + self.condlit())
        s = fun + " { " + "; ".join(els) + " }"
        g = self.pick([("none", 2), ("l", 2), ("r", 3)])
        if g == "l":
            op, t = self.guard(0.2)
            s = f"{t} {op} {s}"
        if g == "r":
            op, t = self.guard(0.2)
            s = f"{s} {op} {t}"
        return s

    def repair(self, text, body):
        """bind (most of) the variables of the statement with an extra positive literal (in place)"""
        vs = sorted(set(re.findall(r"\b[A-Z][A-Za-z0-9]*\b", text)))
        if not vs:
            return
        mode = self.pick([("all", 6), ("most", 2), ("eq", 1), ("range", 1)])
        if mode == "most" and len(vs) > 1:
            vs.remove(self.r.choice(vs))
        def lohi():
            lo = self.r.randint(0, 5)
            return lo, lo + self.r.randint(1, 5)
        if mode == "eq":
            body.extend(f"{v} = {self.num()}" if self.r.random() < 0.6 else "{0} < {2} <= {1}".format(*lohi(), v) for v in vs)
        elif mode == "range":
            body.extend("{2} = {0}..{1}".format(*lohi(), v) for v in vs)
        else:
            body.append("d(" + ",".join(vs) + ")")

    def statement(self):
        k = self.pick([("rule", 82), ("weak", 7), ("min", 4), ("show", 7)])
        fix = self.r.random() < 0.55
        if k == "rule":
            h = self.head()
            b = self.body(0 if h else 1, 4)
            if fix:
                self.repair(h + " ".join(b), b)
            if not b:
                return h + "."
            return f"{h} :- " + self.r.choice([", ", "; "]).join(b) + "."
        if k == "weak":
            b = self.body(0, 3)
            ts = [self.term(1) for _ in range(self.r.randint(0, 2))]
            w = self.term(1)
            pr = "@" + self.term(1) if self.r.random() < 0.4 else ""
            if fix:
                self.repair(" ".join(b + ts + [w, pr]), b)
            return ":~ " + ", ".join(b) + ". [" + w + pr + "".join("," + t for t in ts) + "]"
        if k == "min":
            els = []
            for _ in range(self.r.choice([1, 1, 2])):
                ts = [self.term(1) for _ in range(self.r.randint(1, 3))]
                b = [self.plain_lit() for _ in range(self.r.randint(0, 3))]
                els.append(",".join(ts) + (" : " + ", ".join(b) if b else ""))
            return self.r.choice(["#minimize", "#maximize"]) + " { " + "; ".join(els) + " }."
        b = self.body(0, 3)
        t = self.term(2)
        if fix:
            self.repair(" ".join(b + [t]), b)
        return "#show " + t + (" : " + ", ".join(b) if b else "") + "."


# hand written statements: every line was used to find a rule of the model
FIXED = r"""
a(X) :- p(X). a(X) :- not p(X). a(X) :- not not p(X). a(X) :- p(2*X+1). a(X) :- p(-X). a(X) :- p(f(X+1)).
a(X) :- p(X+Y). a(X) :- p(X+Y), q(Y). a(X) :- p(X*2). a(X) :- p(X/2). a(X) :- p(X\2). a(X) :- p(X**2).
a(X) :- p(|X|). a(X) :- p(0*X). a :- p(0*X). a :- p(X,0*X). a(X) :- p(X-X). a(X) :- p(X+X). a(X) :- p(1-X).
a(X) :- p(~X). a(X) :- p(X&1). a(X) :- p(1..X). a(X,Y) :- p(X..Y). a(X) :- X = 1..3. a(X) :- 1..3 = X.
a(X) :- X != 1. a(X) :- not X != 1. a(X) :- not X = 1. a(X) :- not not X = 1. a(X) :- X = Y, Y = 1.
a(X) :- X = Y. a(X) :- 2*X = Y, p(Y). a(X) :- X+Y = 3, p(Y). a(X) :- f(X,Z) = Y, p(Y).
a(X) :- (X,Z) = (Y,W), p(Y). a(X) :- (X,Z) = (Y,W), p(Y,W). a :- (X,Z) = (Y,W), p(Y), q(Z).
a(X) :- 1 < X < 3. a(X) :- 1 = X < 3. a(X) :- X = Y = 3. a(X,Y) :- X = 3 = Y. a(X) :- #true. a(X).
{a(X)}. a(X) : p(X). a(X) :- p((X,Y)). a(X) :- p(-f(X)). a(X) :- -p(X). a(X) :- not -p(X). a(_) :- p.
a :- p(_). a :- not p(_). a :- _ = 1. a :- _ < 1. a(X) :- p(- -X). a(X) :- p(-(X+1)). a(X) :- p((X+1)*2+3).
a(X) :- p((2*X+1)*0). a(X) :- p(X*(1-1)). a(X) :- p(2*X-2*X). a(X) :- p(X**1). a(X) :- p(|-1|*X).
a(X) :- p((1..1)*X). a(X) :- p((4\4)*X). a(X) :- p((~0)*X). a(X) :- p(-|X|). a(X) :- p(@f(X)).
a(X,Y) :- p(Y), Y = 2*X. a(X,Y,Z,W) :- f(X,Y+Z) = W, p(W). a(X) :- f(X) = 1..3. a(X,Y,Z) :- X = Y..Z, p(Y).
a(X) :- X+1 = 3. a(X,Y) :- f(X) = g(Y), p(X). a(X) :- X = X. a(X) :- X = |Y|, p(Y). a(X) :- |X| = Y, p(Y).
a(X,Y) :- not X != 1 != Y. a(X,Y) :- not not X = 1 = Y. a(X,Y) :- X < Y = 1. a(X,Y) :- 1 = X != Y = 1.
a(X) :- p(X/0). a(X) :- p(1/(0*X)). a(X) :- p(a+X). a(X) :- p(-"s"). a(X) :- p(|a|). a(X) :- p(1..a).
a(X) :- X = #sum{ Y : p(Y) }. a(X) :- #sum{ Y : p(Y) } = X. a(X) :- X = { p(Y) }. a(X) :- X = { not p(Y) }.
a(X) :- not X = #sum{ Y : p(Y) }. a(X) :- X <= #sum{ Y : p(Y) }. a(X,Z) :- X = #sum{ Y : p(Y) } = Z.
a(X,Z) :- X = #sum{ Y : p(Y,Z) }. a(X,Z) :- X = #sum{ Y : p(Y,Z) }, q(Z). a(X) :- X = #sum{ Y : p(Y,X) }.
a(X) :- 2*X = #sum{ Y : p(Y) }. a(X) :- X+Y = #sum{ Z : p(Z) }, q(Y). a(X,Y) :- (X,Y) = #sum{ Z : p(Z) }.
a(X,W) :- W = #sum{ Y : p(Y,X) }, X = #sum{ Y : p(Y) }. a(X,W) :- W = #sum{ Y : p(Y,X) }, X = #sum{ Y : p(Y,W) }.
a :- #sum{ Y : p } > 0. a :- #sum{ Y : p }. a :- not #sum{ Y : p }. a :- { not p(Y) }. a :- { p(Y+Z) : q(Z) } > 0.
a :- #sum{ Y : Y = Z } > 0, not q(Z). a :- #sum{ Y,Z : p(Y), Z = Y+1 } > 0. a :- #sum{ Y : p(Y) }, not q(Y).
a(X) :- b(X) : c(X). a :- b(X) : c(X). a :- b(X) : c. a :- b(X) : not c(X). a :- not b(X) : c. a :- b(X+Y) : c(X).
a :- X = Y : c(Y). a :- X = Y+Z : c(Y). a :- X = 1 : c. a :- X < 1 : c. a :- b(Y) : c; not q(Y). a :- b(_) : not c(_).
a :- b(X) : not c(_+1). a :- not p(_+1). a :- not p(f(_)). a :- not p(-_). a :- not -p(_). a :- not p(_,_).
a :- p(_+_). a :- p(_+1). a :- not _ != 1. a :- not not p(_). {a(_) : p(_)}. a :- #sum{ _ : p(_) } > 0.
a :- #sum{ 1 : not p(_) } > 0. a :- _ = #sum{ 1 : p(_) }. :~ p(_). [_] #show _ : p(_). a :- p(_), _ < 1.
a :- _ = _. {not a(X)}. {not a(X) : p(X)}. not a(X) :- p(X). a(X) ; b(Y) :- c(X). a(X) : c(X) ; b(X).
a(X) : c(X), not d(Y) :- e(Y). a(X+Y) : c(X). a(X) : X = Y, c(Y). {a(X) : c(X)} :- not e(X).
{a(X) : c(X); b} :- not e(X). {a(X) : c(X)} >= 0 :- not e(X). {a(X) : c(X)} = X. Y = {a(X) : c(X)} :- d(Y).
{a(X,Y) : c(X)} :- d(Y). 1 { a(X) : c(X) ; b(Y) : X = Y } 2. #sum{ W,X : a(X) : c(X,W) } <= 3.
#sum{ W,X : a(X) : c(X) } <= 3. #sum{ W : a(X) : c(X) } :- not e(X). #sum{ W : a(X) : c(X,W) } :- not e(W).
#count{ W : a(X) : c(X,W) ; 1 : b} :- not e(W). #sum{ W+Y : a(X) : c(X,W) } <= 3. #min{ W : not a(W) } <= 3.
:~ p(X). [X] :~ p(X). [1@Y] :~ p(X). [1@1,f(Y)] :~ . [X] :~ b(X) : c. [X] #minimize{ X,Y : p(X) ; 1@Z : q(Z) }.
#show X : p(X). #show X. #show f(X,Y) : p(X). #show 1..X : p(X). #show X+Y : p(X). #show p/1.
a(Z) ; b :- X = #sum{ 1 : p(Z) }. q(X) :- X = #sum{ 1 : p(Z) }, b(Z) : c. Z {b; q(X)} :- X = #sum{ 1 : p(Z) }.
a :- 1 < _ = 3. a :- 1 < _ < 3. a(X) :- X = _ < 3. a :- 3 = _ = _. a :- 0 < _, _ < 5. a :- 0 < _+_ < 5.
a(X) :- 1 < X, X < 3. a(X) :- 3 > X > 1. a(X) :- 1 < X <= Y, p(Y). a(X) :- 1 < X != 3. a(X) :- 1 < 2*X < 7.
a(X) :- 1 < X+Y < 7. a(X) :- 1 < f(X) < 7. a(X,Y) :- 1 < X < Y < 5. a(X) :- not not 1 < X < 3.
a(X,Y) :- 0 < X, 0 < Y, X+Y < 7. a(X,Y) :- 0 < X, 0 < Y, 2*(X+Y) < 7. a(X,Y) :- 0 < X, 0 < Y, X+Y = 7.
a(X,Y) :- Y = 5, 1 < X < Y. a(X) :- not X < 1, not X > 3. a(X,Y) :- X = 1..3, X < Y < X+3.
a(X,Y) :- 0 < X, X < Y, Y < X. a(X) :- 1 < X*X < 5. a(X) :- 1 < X < 2**3. a(X) :- 1 < X < a. a(X) :- #inf < X < 5.
a(X) :- 1 < 0*X < 5. a(X) :- 1 < X-X < 5. a(X) :- 1 < X+X < 5. a(X) :- 3 < X < 1. a :- #sum{ Y : 1 < Y < 5 } > 0.
a :- 1 < X < 5, #sum{ Y : X < Y < 2*X } > 0. a :- p(X), #sum{ Y : X < Y < 2*X } > 0. a :- b(Y) : 1 < Y < 3.
a(Y) : 1 < Y < 3. {a(Y) : 1 < Y < 3; b}. a :- 1 < Y < 3 : c. a :- X = #sum{ 1 : p } < 3, 1 < Y < X.
a :- 1 < Y < X, X = 5..6. a :- 1 < Y < X, X = (5,6). a :- 1 < Y < X, 2*X = 6. a :- 1 < Y, Y < X, not X != 5.
a(Y) :- X = 5, X = Y..7, 0 < Y. a(Y) :- p(X), X = 0..Y, Y < 9. a(Y) :- 0 < Y < (5..6)+1. a(Y,X) :- 0 < Y < X, X = (5..Z)+1, p(Z).
a :- X = 1 : X < Y < 3. a :- X = 1, b : 0 < Y < X. a(Y) :- 1 < X+0*Y < 5. a(X) :- 0 < X < 2*X. a(X) :- 0 < X, 2*X < X+5.
a(X,Y) :- 0 < X < Y, 0 < Y < X+5. a(X,Y) :- 0 < X < Y, not Y > 5. a(Y) :- 0 < Y, Y < (a..5). a(Y) :- p(Y..7), 0 < Y.
a(Y) :- p(f(1..Y)), Y < 5. a(Y) :- not p(1..Y), Y < 5. a(Y) :- #sum{ 1 : p(1..Y) } > 3, Y < 5. a(Y) :- b(1..Y) : c; Y < 5.
a(1..Y) :- Y < 5. a(Y) : p(1..Y) :- Y < 5. {a(1..Y) : p(Z), Y < 5; b}. {a(1..Y) : p(Z) ; b} :- Y < 5. :~ Y < 5. [1..Y]
a :- b(1..Y) : Y < 5. a :- b(1..Y) : Y < 5, c(Y). a :- #sum{ 1..Y : Y < 5 } > 0. a :- { not p(1..Y) : Y < 5 } > 0.
#sum{ 1..Y : a : Y < 5; 1 : b } > 0. a(1..Y) : Y < 5 ; b. a :- b(1..Y, Y..5) : c. a :- b(1..Y, Y..5). a(1..Y, Y..5) ; b.
a(Y) :- 0 = (1..Y). a(Y) :- 3 = (1..Y). a(W,Z) :- 3 < X < 1, Z < W. a(X',Y_1') :- not p(X',Y_1').
a(X) :- p((X/2)+1). a(X) :- X+X = 2. a(X) :- X+X = Y, p(Y).
"""


def fixed_statements():
    out = []
    prg = try_parse(FIXED)
    for s in prg or []:
        if s.ast_type in KINDS:
            out.append(s)
    return out


def random_statements(rng, n):
    g = Gen(rng)
    out = []
    tries = 0
    while len(out) < n and tries < 20 * n:
        tries += 1
        prg = try_parse(g.statement())
        if prg is None:
            continue
        for s in prg:
            if s.ast_type in KINDS:
                out.append(s)
    return out


def all_statements(inputs, rng, n_random=None):
    if n_random is None:
        n_random = int(os.environ.get("SAFE_RANDOM", "3000"))
    seen = set()
    for origin, sts in (("fixed", fixed_statements()),):
        for s in sts:
            if str(s) not in seen:
                seen.add(str(s))
                yield origin, s
    for inp in inputs:
        prg = try_parse(inp["text"])
        if prg is None:
            continue
        for s in prg:
            if s.ast_type in KINDS and str(s) not in seen:
                seen.add(str(s))
                yield inp.get("origin", "input"), s
    for s in random_statements(rng, n_random):
        if str(s) not in seen:
            seen.add(str(s))
            yield "random", s


class SafeStmt:
    name = "safe_stmt"
    imports = IMPORTS
    source = "clingo 5.8.2 safety check (Control.ground on a one-statement program) vs Model.Safe.safe_result"

    def cases(self, inputs, rng):
        for origin, s in all_statements(inputs, rng):
            try:
                t = ser.stmt(s)
            except ser.Unsupported:
                STATS["unsupported"] += 1
                continue
            obs = observe(s)
            if obs is None:
                STATS["other_error"] += 1
                continue
            acc, names = obs
            yield Case(f"chk_safe (safe_result {t}) {ser.b(acc)} {ser.strlist(names)}",
                       {"fn": "safe_stmt", "origin": origin, "stmt": str(s), "accepted": acc, "unsafe": names},
                       nontrivial=not acc)


FAMILIES = [SafeStmt()]


def census(seed=0, gen=300):
    """shares safe / unsafe / dropped (statically undefined, trivially safe) / out of fragment (syntax: pools,
    theory atoms, negated chains, 32-bit overflow, other statement kinds; bounds: contradictory integer bounds)"""
    import os
    import random
    import subprocess
    from . import inputs as inp_mod
    from .common import COQ
    rng = random.Random(seed)
    inp = inp_mod.curated() + inp_mod.harvest() + inp_mod.generated(seed, gen)
    rows = []
    for origin, s in all_statements(inp, rng):
        try:
            t = ser.stmt(s)
        except ser.Unsupported:
            continue
        obs = observe(s)
        if obs is None:
            continue
        kind = origin if origin in ("fixed", "random") else ("generated" if origin.startswith("gen") else "corpus+repo")
        rows.append((kind, obs[0], t, str(s)))
    path = os.path.join(COQ, "_cases", f"safe_census_{os.getpid()}.v")
    os.makedirs(os.path.dirname(path), exist_ok=True)
    with open(path, "w", encoding="utf-8") as f:
        f.write("From Coq Require Import List String ZArith Bool.\nFrom NGO Require Import Syntax.Ast Model.Safe.\n"
                "Import ListNotations.\nOpen Scope string_scope. Open Scope list_scope.\n")
        f.write("Definition xs : list nat := [\n" + ";\n".join(f"fragment_class {t}" for _, _, t, _ in rows) + "].\n")
        f.write("Eval vm_compute in xs.\n")
    out = subprocess.run(["coqc", "-Q", ".", "NGO", path], cwd=COQ, capture_output=True, text=True, check=True).stdout
    flags = re.findall(r"\b([0123])\b", out.split("=", 1)[1].rsplit(":", 1)[0])
    for ext in (".v", ".vo", ".vok", ".vos", ".glob"):
        try:
            os.remove(path[:-2] + ext)
        except OSError:
            pass
    assert len(flags) == len(rows), (len(flags), len(rows))
    tab = {}
    for (origin, acc, _, _), fl in zip(rows, flags):
        k = {"0": "oof_syntax", "1": "oof_bounds", "2": "dropped_undefined"}.get(fl, "safe" if acc else "unsafe")
        tab.setdefault(origin, {"safe": 0, "unsafe": 0, "dropped_undefined": 0, "oof_syntax": 0, "oof_bounds": 0,
                                "clingo_unsafe": 0, "n": 0})
        tab[origin][k] += 1
        tab[origin]["n"] += 1
        tab[origin]["clingo_unsafe"] += 0 if acc else 1
    return tab, [(r[3], fl) for r, fl in zip(rows, flags)]


if __name__ == "__main__":
    import json
    import sys
    sd = int(sys.argv[1]) if len(sys.argv) > 1 else 0
    tb, _ = census(sd)
    print(json.dumps(tb, indent=1))
