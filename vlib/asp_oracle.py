"""clingo-based differential oracle for the semantic properties.
Search / replay tool only: it can exhibit a concrete failing (program, traits, instance); it is
never the reason a property is reported as holding."""
import logging
import random
import re

import clingo
from clingo.ast import ASTType, ProgramBuilder

from .inputs import parse, try_parse
from .oracles import occurring, walk

TRAITS = ["cleanup", "unused", "duplication", "symmetry", "minmax_chains", "sum_chains", "math", "inline",
          "projection"]
MAX_MODELS = 300
SOLVE_TIMEOUT = 6.0


class Skip(Exception):
    """instance / program outside the property's quantifier (undefined operations, too many models, ...)"""


def _collect_messages():
    msgs = []

    def logger(code, msg):
        msgs.append((code, msg))
    return msgs, logger


def solve(program, facts, via="text", max_models=MAX_MODELS, timeout=SOLVE_TIMEOUT, strict=True):
    """all answer sets of program+facts: list of (frozenset(str(atom)), {priority: cost}).
    program: text, or list of AST when via == 'ast'. Raises Skip."""
    msgs, logger = _collect_messages()
    ctl = clingo.Control(["--opt-mode=enum", f"-n{max_models + 1}", "-Wno-atom-undefined"], logger=logger,
                         message_limit=50)
    try:
        if via == "ast":
            with ProgramBuilder(ctl) as bld:
                for s in program:
                    bld.add(s)
            if facts:
                ctl.add("base", [], facts)
        else:
            ctl.add("base", [], program + "\n" + facts)
        ctl.ground([("base", [])])
    except RuntimeError as e:
        raise GroundError(str(e), msgs) from e
    # strict: the SOURCE program with the instance must ground without such messages (the properties' quantifier);
    # the optimized program is compared as clingo evaluates it, messages or not
    for code, m in msgs:
        if strict and ("operation undefined" in m or "tuple ignored" in m or "undefined" in m and "info" in m):
            raise Skip("undefined operation / ignored tuple")
    res = []

    def on_model(m):
        atoms = frozenset(str(a) for a in m.symbols(atoms=True))
        cost = {}
        prios = getattr(m, "priority", None)
        if prios is not None:
            for p, c in zip(prios, m.cost):
                if c != 0:
                    cost[p] = c
        else:
            for i, c in enumerate(m.cost):
                cost[-i] = c
        res.append((atoms, tuple(sorted(cost.items()))))

    with ctl.solve(on_model=on_model, async_=True) as h:
        done = h.wait(timeout)
        if not done:
            h.cancel()
            h.wait()
            raise Skip("solve timeout")
        h.get()
    if len(res) > max_models:
        raise Skip("too many models")
    for code, m in msgs:
        if strict and ("operation undefined" in m or "tuple ignored" in m):
            raise Skip("undefined operation / ignored tuple")
    return res


class GroundError(Exception):
    def __init__(self, msg, msgs):
        super().__init__(msg)
        self.msgs = msgs


def pred_of_atom(a):
    m = re.match(r"^(-?[a-z_][A-Za-z0-9_']*)(\((.*)\))?$", a, re.S)
    name = m.group(1)
    if m.group(2) is None:
        return name, 0
    # count top-level commas
    depth = 0
    n = 1
    instr = False
    prev = ""
    for ch in m.group(3):
        if instr:
            if ch == '"' and prev != "\\":
                instr = False
        elif ch == '"':
            instr = True
        elif ch in "([{":
            depth += 1
        elif ch in ")]}":
            depth -= 1
        elif ch == "," and depth == 0:
            n += 1
        prev = ch
    return name, n


def project(models, preds):
    """preds: set of (name, arity) or None for all"""
    out = []
    for atoms, cost in models:
        if preds is None:
            out.append((atoms, cost))
        else:
            out.append((frozenset(a for a in atoms if pred_of_atom(a) in preds), cost))
    return out


def program_preds(prg):
    res = set()
    for s in prg:
        res |= occurring(s)
        if s.ast_type == ASTType.ShowSignature:
            res.add((s.name, s.arity))
    return res


def resolve_decl(prg, decl, auto_fn):
    from ngo.utils.ast import Predicate
    if decl is None or decl == "auto":
        return auto_fn(prg)
    res = []
    for d in decl:
        n, a = d.split("/")
        res.append(Predicate(n, int(a)))
    return res


def optimize_text(text, traits, inp="auto", outp="auto"):
    """returns (result statements, input preds, output preds); exceptions propagate"""
    from ngo.api import optimize
    from ngo.utils.globals import auto_detect_input, auto_detect_output
    logging.disable(logging.CRITICAL)
    prg = parse(text)
    ip = resolve_decl(prg, inp, auto_detect_input)
    op = resolve_decl(prg, outp, auto_detect_output)
    flags = {t: (t in traits) for t in TRAITS}
    res = optimize(prg, ip, op, **flags)
    return prg, res, ip, op


VALUES = ["0", "1", "2", "3", "-1", "a", "b", "5"]


def gen_instances(rng, preds, n, small=True):
    """fact sets over preds [(name, arity)]; always includes the empty instance first"""
    preds = sorted(set(preds))
    out = [""]
    if not preds:
        return out
    for i in range(n):
        k = rng.choice([1, 1, 2, 3, 4, 6, 8]) if small else rng.randint(1, 12)
        if i >= 6:
            k = rng.choice([4, 6, 8, 10, 14])      # extra instances (search mode): denser, so that joins happen
        vals = VALUES[: rng.choice([2, 3, 4, len(VALUES)])]
        facts = []
        for _ in range(k):
            name, ar = rng.choice(preds)
            if ar == 0:
                facts.append(f"{name}.")
            else:
                facts.append(f"{name}({','.join(rng.choice(vals) for _ in range(ar))}).")
        out.append(" ".join(sorted(set(facts))))
    # dedupe, keep order
    seen = set()
    res = []
    for f in out:
        if f not in seen:
            seen.add(f)
            res.append(f)
    return res


def canon(models, with_cost):
    if with_cost:
        return sorted((tuple(sorted(a)), c) for a, c in set(models))
    return sorted(tuple(sorted(a)) for a in set(a for a, _ in models))


def compare(src_text, res_text, facts, mode, inp_preds, out_preds, src_preds, res_via="text", res_ast=None):
    """returns None if equal under mode, else a failure dict. Raises Skip."""
    m1 = solve(src_text, facts)
    try:
        m2 = solve(res_ast if res_via == "ast" else res_text, facts, via=res_via, strict=False)
    except GroundError as e:
        return {"kind": "result-does-not-ground", "error": str(e)[:300], "messages": [m for _, m in e.msgs][:3]}
    if mode == "out":
        proj = set(out_preds)
        a, b = canon(project(m1, proj), False), canon(project(m2, proj), False)
    elif mode == "out+in":
        proj = set(out_preds) | set(inp_preds)
        a, b = canon(project(m1, proj), True), canon(project(m2, proj), True)
    elif mode == "cost":
        proj = set(out_preds)
        a, b = canon(project(m1, proj), True), canon(project(m2, proj), True)
    elif mode == "all":
        a, b = canon(project(m1, None), True), canon(project(m2, None), True)
    elif mode == "voc":
        proj = set(src_preds)
        a, b = canon(project(m1, proj), True), canon(project(m2, proj), True)
        if a == b and len(m1) != len(m2):
            return {"kind": "answer-set-count-differs", "source": len(m1), "result": len(m2)}
    else:
        raise ValueError(mode)
    if a != b:
        def fmt(x):
            return repr(x)[:400]
        return {"kind": f"answer-sets-differ({mode})", "only_source": [fmt(x) for x in a if x not in b][:3],
                "only_result": [fmt(x) for x in b if x not in a][:3], "n_source": len(a), "n_result": len(b)}
    return None


def semantic_check(payload, rng=None, n_instances=6):
    """payload: text, traits, input ('auto'|list), output ('auto'|list), mode, instances (optional list of fact
    texts), any_facts (C05: facts over any predicate). Returns None or failure dict."""
    rng = rng or random.Random(0)
    text = payload["text"]
    traits = payload.get("traits", [])
    mode = payload.get("mode", "out")
    try:
        prg, res, ip, op = optimize_text(text, traits, payload.get("input", "auto"), payload.get("output", "auto"))
    except Exception:  # pylint: disable=broad-except
        return None  # no result: C03's business
    res_text = "\n".join(str(s) for s in res)
    src_preds = program_preds(prg)
    inp_preds = [(p.name, p.arity) for p in ip]
    out_preds = [(p.name, p.arity) for p in op]
    # the source must be a program of the quantifier: it grounds without error on the empty instance
    try:
        solve(text, "")
    except GroundError:
        return None
    except Skip:
        pass
    if payload.get("instances") is not None:
        instances = payload["instances"]
    else:
        fact_preds = sorted(src_preds) if payload.get("any_facts") else inp_preds
        instances = gen_instances(rng, fact_preds, n_instances)
    checked = 0
    for facts in instances:
        try:
            f = compare(text, res_text, facts, mode, inp_preds, out_preds, src_preds)
        except Skip:
            continue
        except GroundError:
            continue  # source + facts does not ground: outside the quantifier
        checked += 1
        if f is not None:
            f.update({"instance": facts, "result": res_text[:1500], "input_preds": [f"{n}/{a}" for n, a in inp_preds],
                      "output_preds": [f"{n}/{a}" for n, a in out_preds]})
            return f
    return None
