"""correspondence families for coq/Model/Inline.v (model of ngo/inline.py and of utils.ast.AggAnalytics.__init__)

Every program is freshly parsed and run through ngo.normalize.preprocess; the translator is built as in
ngo/api.py (`InlineTranslator(prg, ins, outs)`) with random input / output predicate lists drawn from
the program's predicates.  Besides the shared inputs the families use a seeded generator of programs in
the shapes the pass looks for (`shaped_programs`).

inline_analyze_minimize   analyze_minimize -> self.minimize_tuples
inline_info               InlineTranslator._info on every rule / minimize statement
inline_agg_analytics      AggAnalytics(node) for every body / head aggregate (equal_variable_bound, bounds)
inline_transform_args     transform_args with one UniqueVariables object (new asts and final _allvars)
inline_is_single          is_single on every statement (or the exception of the constructor)
inline_get_body_lit       get_body_lit(stm, orig)
inline_graph              the graph g of replace_single_rule_for_body (first half of that function, copied here)
                          and is_connected_to_agregates for each of its nodes
inline_literal            inline_literal(stm, blit, UniqueVariables(orig))
inline_new_body_elements  compute_new_body_elements
inline_body_aggregate     inline_body_aggregate(stm, atom, UniqueVariables(orig))
inline_replace_inside_agg replace_inside_agg(stm, orig)
inline_rule_for_agg       replace_single_rule_for_agg(prg)   (one step)
inline_rule_for_body      replace_single_rule_for_body(prg)  (one step)
inline_minimize           inline_minimize(stm) after analyze_minimize(prg)
inline_in_agg / inline_in_rulebody / inline_in_minimize    the three loops
inline_execute            InlineTranslator(prg, ins, outs).execute(prg)

Exceptions of the real code are observed results (Raise "<class>").  Set INLINE_FRAGMENT=1 to turn every
case into "does the model answer inside its fragment?" (the mismatches are then the OutOfFragment cases).
CHANGED[family] = [cases in which the real code changed its input, all cases].
"""
import logging
import os

from clingo.ast import AST, ASTType, Sign

from . import ser
from .corr import Case
from .inputs import try_parse

IMPORTS = ["Model.Traverse", "Model.Corr", "Model.Globals", "Model.Binding", "Model.Dependency", "Model.Inline"]
FRAGMENT_MODE = bool(os.environ.get("INLINE_FRAGMENT"))
MAX_TEXT = 30000
CHANGED = {}
FOREIGN = [("inline", 2), ("foo", 1), ("p", 1), ("a", 1), ("zzz", 2)]


def quiet():
    logging.disable(logging.CRITICAL)


def bump(name, changed):
    c = CHANGED.setdefault(name, [0, 0])
    c[1] += 1
    if changed:
        c[0] += 1


def mk(chk, model, obs, desc, nontrivial):
    if FRAGMENT_MODE:
        return Case(f"in_fragment ({model})", desc, nontrivial=nontrivial)
    return Case(f"{chk} ({model}) {obs}", desc, nontrivial=nontrivial)


# ------------------------------------------------------------------------------------------------
# a generator of programs in the shapes inline.py looks for
# ------------------------------------------------------------------------------------------------
class Knobs:
    """choices with a small budget of deviations from the shapes the pass accepts"""

    def __init__(self, rng):
        self.rng = rng
        self.budget = rng.choice([0, 0, 0, 1, 1, 2])

    def pick(self, good, bad=()):
        if bad and self.budget > 0 and self.rng.random() < 0.15:
            self.budget -= 1
            return self.rng.choice(list(bad))
        return self.rng.choice(list(good))


COMPATIBLE = {"#min": ["#min"], "#max": ["#max"], "#count": ["#count", "#sum", "#sum+"], "#sum": ["#sum", "#sum+"],
              "#sum+": ["#sum", "#sum+"]}
ALLFUN = ["#sum", "#sum+", "#count", "#min", "#max"]
OTHERS = {1: "A : test(A,B)", 2: "A,t : test(A,B)", 3: "A,t,t : test(A,B), t1(A), t2(B)",
          4: "Y,TN,x,y : test(Y,TN)"}


def shaped_program(rng):
    """one choice rule, one or two 'single' rules carrying an aggregate value and one user of each;
    mostly in the shapes inline.py accepts, with zero to two deviations"""
    k = Knobs(rng)
    r = rng.random
    lines = [k.pick(["{ a((1..3)) }.", "{ a(X) : d(X) }. d(1..3).", "{ a(1..3) }. { c(1..2) }."], ["a(1..3)."])]
    for idx in range(rng.choice([1, 1, 1, 2])):
        h = ["inl", "val"][idx]
        mode = rng.choice(["agg", "agg", "agg", "body", "body", "negbody", "min", "wc"])
        fun = rng.choice(["#sum", "#sum", "#sum", "#count", "#min", "#max", "#sum+"])
        if mode in ("min", "body") and r() < 0.8:
            fun = rng.choice(["#sum", "#count", "#sum+"])
        yv = rng.choice(["Y", "Y", "F", "V", "Y0"])
        els = []
        for e in range(rng.choice([1, 1, 2])):
            tup = k.pick([yv, f"{yv},{'ph'[e]}", f"{yv},A", f"{yv},Z"], [f"A,{yv}", "1,A", f"{yv}+1"])
            cond = rng.choice([f"person(A,{yv})", f"person(A,{yv}), not bad({yv})", f"human(A,{yv},Z)",
                               f"person(A,{yv}), {yv} > 1"])
            if r() < 0.08:
                cond = f"person(C,{yv})"
            els.append(f"{tup} : {cond}")
        agg = f"{fun} {{ {'; '.join(els)} }}"
        guard = k.pick(["B = AGG", "B = AGG", "AGG = B"],
                       ["B = AGG > 13", "B < AGG", "1 = AGG = B", "B = AGG = B2"]).replace("AGG", agg)
        if mode == "negbody":
            extra = k.pick([""], ["a(A)"])
            hargs = k.pick(["B"], ["B,B", "1,B"])
        else:
            extra = k.pick(["a(A)", "a(A)", "a(A), cnt(A,TN)", "a(A), not b(A)", "a(A), A < 3", "a(A), c(C)",
                            "a(A), X = A"], ["", "a(A) : b", "a(A,B)"])
            hargs = k.pick(["A,B", "A,B", "B,A", "A,B,C" if "c(C)" in extra else "A,B"], ["A,A", "1,B", "A,B,_"])
        sign = k.pick([""], ["not "])
        lines.append(f"{sign}{h}({hargs}) :- {', '.join(x for x in [extra, guard] if x)}.")
        names = {"A": "V", "B": "F", "C": "W", "1": "1", "_": "U"}
        pargs = [names[x] for x in hargs.split(",")]
        pargs = [k.pick([x], ["_", "1", x + "+1", "V"]) for x in pargs]
        use = f"{h}({','.join(pargs)})"
        if mode == "agg":
            ofun = k.pick(COMPATIBLE[fun], [f for f in ALLFUN if f not in COMPATIBLE[fun]])
            w = k.pick(["F"], ["F+2", "V", "1"])
            tup = rng.choice([f"{w},V", f"{w},V", f"{w},V", f"{w}", f"{w},V,i", f"{w},V,Y"])
            n = tup.count(",") + 1
            cond = k.pick([use, use, f"{use}, good(V)", f"good(V), {use}"], [f"not {use}", f"{use}, {use}"])
            others = k.pick([OTHERS[i] for i in OTHERS if i != n] + [""], [OTHERS[n], "F,c,d,e,f : other(F)"[: 99]])
            elems = [f"{tup} : {cond}"] + ([others] if others else [])
            if r() < 0.3:
                elems.reverse()
            oguard = rng.choice(["X = AGG", "X = AGG", "AGG = X", "X < AGG", "3 = AGG"])
            obody = [oguard.replace("AGG", f"{ofun} {{ {'; '.join(elems)} }}")]
            if r() < 0.3:
                obody.append(k.pick(["bar", "d(Y)", "X > 2"], [f"not {use}"]))
            if r() < 0.1:
                obody.append("Z = #sum { Q : q(Q) }")
            lines.append(f"foo{idx}(X) :- {', '.join(obody)}.")
        elif mode in ("body", "negbody"):
            s = k.pick(["not "], ["", "not not "]) if mode == "negbody" else k.pick([""], ["not not ", "not "])
            arith = k.pick(["F = #sum { Z,O : zombie(Z,O) }", "0 = #sum { Z,O : zombie(Z,O) } = F",
                            "N != F + D, D = #sum { Z : zombie(Z) }", "N = F + 1, N < #count { Z : zombie(Z) }",
                            "F != #sum { Z : zombie(Z,V) }", "G = F, G = #max { Z : zombie(Z) }"],
                           ["F > 3", "E = #sum { Z : zombie(Z) }, E < 2"])
            pre = rng.choice(["count(V,N)", "count(V,N)", "count(V,N), Y = 1"])
            obody = [x for x in [pre, s + use, arith] if x]
            if r() < 0.2:
                rng.shuffle(obody)
            if r() < 0.2:
                lines.append(f":~ {', '.join(obody)}. [{rng.choice(['F', 'F', 'N', '1'])}@1,V]")
            else:
                lines.append(f"{rng.choice(['', '', 'ok(V)'])} :- {', '.join(obody)}.")
        elif mode == "min":
            cond = k.pick([use, use, f"{use}, bar"], [f"not {use}"])
            others = rng.choice(["A,B,test : test(A,B)", "A,B,test : test(A,B)", "A,B : test(A,B)", "",
                                 "A@1,B : test(A,B)"])
            w = k.pick(["F", "F", "F@2"], ["F+1"])
            tup = rng.choice([f"{w},V", f"{w},V", f"{w}", f"{w},V,x"])
            elems = [f"{tup} : {cond}"] + ([others] if others else [])
            lines.append(f"{rng.choice(['#minimize', '#minimize', '#maximize'])} {{ {'; '.join(elems)} }}.")
        else:
            lines.pop()          # the weak constraint carries its aggregate itself
            wfun = k.pick(["#sum", "#sum", "#count", "#sum+"], ["#min"])
            el = k.pick(["Y : person(A,Y)", "Y,Z : person(A,Y,Z)", "Y : person(A,Y); Y,c : human(A,Y)",
                         "Y : person(C,Y)", "Y,A : person(A,Y), not bad(Y)"], [": person(A,Y)"])
            g = k.pick(["B = AGG", "B = AGG", "AGG = B"], ["B = AGG > 1", "B < AGG"]).replace(
                "AGG", f"{wfun} {{ {el} }}")
            pre = k.pick(["a(A)", "a(A)", "a(A,C)", "a(A), c(C)"], ["a(A,B)"])
            wt = k.pick(["B"], ["A", "B+1"])
            tail = rng.choice(["A", "A", "", "A,x", "A,C"])
            lines.append(f":~ {pre}; {g}. [{wt}@{rng.choice([0, 0, 1])}{',' + tail if tail else ''}]")
            if r() < 0.5:
                lines.append(rng.choice([":~ b(A). [A@0,A]", ":~ b(A,D). [A@0,D,x]", ":~ b(X). [X@0,Y,Z]",
                                         ":~ c(A); E = #sum { Y : human(A,Y) }. [E@0,A,z]"]))
    if k.budget > 0 and r() < 0.3:
        lines.append(rng.choice(["#show inl/2.", "#show v(A) : inl(A,B).", "#show foo0/1.", "x :- inl(A,B).",
                                 "inl(A,B) :- z(A,B).", "#external inl(A,B) : a(A), d(B)."]))
    if r() < 0.3:
        rng.shuffle(lines)
    return "\n".join(lines)


def shaped_programs(rng, n):
    out = []
    for i in range(n):
        for _ in range(20):
            t = shaped_program(rng)
            if try_parse(t) is not None:
                out.append({"origin": f"inline-shaped:{i}", "text": t})
                break
    return out


# ------------------------------------------------------------------------------------------------
# helpers
# ------------------------------------------------------------------------------------------------
def walk(node):
    yield node
    for k in node.child_keys:
        v = getattr(node, k)
        if v is None:
            continue
        if isinstance(v, AST):
            yield from walk(v)
        else:
            try:
                it = list(v)
            except TypeError:
                continue
            for x in it:
                if isinstance(x, AST):
                    yield from walk(x)


def has_theory(stm):
    return any(n.ast_type == ASTType.TheoryAtom for n in walk(stm))


_PREP_CACHE = {}


def prepared(inputs, rng, n_shaped=600):
    """(text, preprocessed program, coq text) for every distinct input, shaped programs first"""
    from ngo.normalize import preprocess
    quiet()
    seen = set()
    allin = shaped_programs(rng, n_shaped) + list(inputs)
    for inp in allin:
        text = inp["text"]
        if text in seen:
            continue
        seen.add(text)
        if text in _PREP_CACHE:
            if _PREP_CACHE[text] is not None:
                yield (text,) + _PREP_CACHE[text]
            continue
        _PREP_CACHE[text] = None
        prg = try_parse(text)
        if prg is None:
            continue
        try:
            pp = list(preprocess(prg))
            t = ser.prog(pp)
        except Exception:  # pylint: disable=broad-except
            continue
        if len(t) > MAX_TEXT:
            continue
        _PREP_CACHE[text] = (pp, t)
        yield text, pp, t


def all_preds(pp):
    from ngo.utils.ast import predicates
    return sorted({sp.pred for stm in pp for sp in predicates(stm)})


def rand_preds(rng, pp, weights):
    from ngo.utils.ast import Predicate
    preds = all_preds(pp)
    out = []
    for _ in range(rng.choice(weights)):
        if preds and rng.random() < 0.8:
            out.append(rng.choice(preds))
        else:
            out.append(Predicate(*rng.choice(FOREIGN)))
    return out


def rand_io(rng, pp, rnd):
    if rnd == 0:
        return [], []
    return rand_preds(rng, pp, [0, 1, 1, 2]), rand_preds(rng, pp, [0, 0, 1, 2])


_SINGLE_CACHE = {}


def io_rounds(rng, pp):
    """([], []) first; programs that have a single rule get a second round with random lists"""
    yield [], []
    key = id(pp)
    if key not in _SINGLE_CACHE:
        x, _ = build(pp, [], [])
        try:
            _SINGLE_CACHE[key] = x is not None and bool(singles_of(x, pp))
        except Exception:  # pylint: disable=broad-except
            _SINGLE_CACHE[key] = False
    if _SINGLE_CACHE[key] or rng.random() < 0.1:
        ins, outs = rand_io(rng, pp, 1)
        if ins or outs:
            yield ins, outs


def preds_s(ps):
    return ser.lst([ser.pred(p) for p in ps])


def build(pp, ins, outs):
    """(translator or None, exception or None)"""
    from ngo.inline import InlineTranslator
    try:
        return InlineTranslator(pp, list(ins), list(outs)), None
    except Exception as e:  # pylint: disable=broad-except
        return None, e


def names(uv):
    return ser.strlist([v.name for v in uv._allvars])  # pylint: disable=protected-access


def observe(fn, conv):
    """(coq text of a result, json-able, raw value or None)"""
    try:
        r = fn()
    except Exception as e:  # pylint: disable=broad-except
        return ser.result_raise(e), "raise " + type(e).__name__, None
    try:
        text, js = conv(r)
    except ser.Unsupported:
        return None, None, None
    return ser.result_ok(text), js, r


def conv_stmts(r):
    return ser.prog(r), [str(s) for s in r]


def belem(e):
    return f"({ser.lst([ser.term(t) for t in e.terms])}, {ser.lst([ser.lit(c) for c in e.condition])})"


def belems(es):
    return ser.lst([belem(e) for e in es])


def terms(ts):
    return ser.lst([ser.term(t) for t in ts])


def rawguard(g):
    return f"({ser.CMP[g.comparison]}, {ser.term(g.term)})"


def fun_head(stm):
    return (stm.ast_type == ASTType.Rule and stm.head.ast_type == ASTType.Literal
            and stm.head.atom.ast_type == ASTType.SymbolicAtom and stm.head.atom.symbol.ast_type == ASTType.Function)


def uses_at_top(orig, name, arity):
    from ngo.utils.ast import is_predicate
    return any(is_predicate(b) and b.atom.symbol.name == name and len(b.atom.symbol.arguments) == arity
               for b in orig.body)


def state_expr(t, ins, outs, body):
    return f"with_state {t} {preds_s(ins)} {preds_s(outs)} (fun st => {body})"


def io_desc(text, ins, outs, **kw):
    d = {"program": text, "inputs": [str(p) for p in ins], "outputs": [str(p) for p in outs]}
    d.update(kw)
    return d


def singles_of(x, pp):
    """[(stm, index, orig)] as both replace_single_rule_* functions compute them"""
    from ngo.dependency import RuleDependency
    from ngo.utils.ast import Predicate
    rdp = RuleDependency(pp)
    out = []
    for stm in pp:
        index = x.is_single(stm, rdp)
        if index is None:
            continue
        hatom = stm.head.atom
        hpred = Predicate(hatom.symbol.name, len(hatom.symbol.arguments))
        out.append((stm, index, rdp.get_statements_that_use(hpred)[0]))
    return out


# ------------------------------------------------------------------------------------------------
class AnalyzeMinimize:
    name = "inline_analyze_minimize"
    imports = IMPORTS
    source = "ngo.inline.InlineTranslator.analyze_minimize (self.minimize_tuples)"

    def cases(self, inputs, rng):
        x, _ = build([], [], [])
        for text, pp, t in prepared(inputs, rng):
            x.analyze_minimize(pp)
            obs = ser.lst([terms(tp) for tp in x.minimize_tuples])
            yield mk("chk_terms_list", f"analyze_minimize {t}", obs,
                     {"fn": "analyze_minimize", "program": text}, bool(x.minimize_tuples))


class Info:
    name = "inline_info"
    imports = IMPORTS
    source = "ngo.inline.InlineTranslator._info on the rules and minimize statements (raw and preprocessed)"

    def cases(self, inputs, rng):
        from ngo.inline import InlineTranslator
        seen = set()
        for text, pp, _ in prepared(inputs, rng):
            for prg in (pp, try_parse(text) or []):
                for stm in prg:
                    if stm.ast_type not in (ASTType.Rule, ASTType.Minimize) or str(stm) in seen:
                        continue
                    seen.add(str(stm))
                    try:
                        b = ser.body(stm.body)
                    except ser.Unsupported:
                        continue
                    na, nc, nl = InlineTranslator._info(stm)  # pylint: disable=protected-access
                    yield mk("chk_info", f"info {b}", f"({na}, {ser.b(nc)}, {nl})",
                             {"fn": "_info", "stmt": str(stm), "observed": [na, bool(nc), nl]}, na > 0 or bool(nc))


class Analytics:
    name = "inline_agg_analytics"
    imports = IMPORTS
    source = "ngo.utils.ast.AggAnalytics.__init__ on every BodyAggregate / HeadAggregate / Aggregate node"

    def cases(self, inputs, rng):
        from ngo.utils.ast import AggAnalytics
        seen = set()
        for text, pp, _ in prepared(inputs, rng):
            for prg in (pp, try_parse(text) or []):
                for stm in prg:
                    for n in walk(stm):
                        if n.ast_type not in (ASTType.BodyAggregate, ASTType.HeadAggregate, ASTType.Aggregate):
                            continue
                        k = (str(n.left_guard), str(n.right_guard))
                        if k in seen:
                            continue
                        seen.add(k)
                        a = AggAnalytics(n)
                        try:
                            model = f"agg_analytics {ser.guard(n.left_guard)} {ser.guard(n.right_guard)}"
                            obs = f"({ser.strlist(a.equal_variable_bound)}, {ser.lst([rawguard(g) for g in a.bounds])})"
                        except ser.Unsupported:
                            continue
                        yield mk("chk_analytics", model, obs,
                                 {"fn": "AggAnalytics", "node": str(n), "equal": a.equal_variable_bound,
                                  "bounds": [str(g) for g in a.bounds]}, bool(a.equal_variable_bound or a.bounds))


class TransformArgs:
    name = "inline_transform_args"
    imports = IMPORTS
    source = ("ngo.inline.InlineTranslator.transform_args(orig, passed, terms + body + literals, UniqueVariables(rule)): "
              "arguments taken from atoms / bodies of the program, two calls on the same UniqueVariables object")

    def cases(self, inputs, rng):
        from ngo.inline import InlineTranslator
        from ngo.utils.globals import UniqueVariables
        for text, pp, _ in prepared(inputs, rng):
            rules = [s for s in pp if s.ast_type in (ASTType.Rule, ASTType.Minimize) and not has_theory(s)]
            if not rules:
                continue
            atoms = [n.symbol for s in rules for n in walk(s)
                     if n.ast_type == ASTType.SymbolicAtom and n.symbol.ast_type == ASTType.Function]
            aggs = [n for s in rules for n in walk(s) if n.ast_type == ASTType.BodyAggregate]
            for _ in range(min(4, len(rules))):
                base = rng.choice(rules)
                src = rng.choice(rules)
                uv = UniqueVariables(base)
                for _call in range(2):
                    orig = list(rng.choice(atoms).arguments) if atoms else []
                    passed = list(rng.choice(atoms).arguments) if atoms else []
                    if rng.random() < 0.3:
                        rng.shuffle(passed)
                    ts, ls = [], []
                    if aggs and rng.random() < 0.7:
                        agg = rng.choice(aggs)
                        if agg.elements:
                            el = rng.choice(list(agg.elements))
                            ts, ls = list(el.terms), list(el.condition)
                    bs = list(src.body)
                    try:
                        av0 = names(uv)
                        model = (f"transform_args {terms(orig)} {terms(passed)} {terms(ts)} {ser.body(bs)} "
                                 f"{ser.lst([ser.lit(x) for x in ls])} {av0}")
                    except ser.Unsupported:
                        break
                    r = InlineTranslator.transform_args(orig, passed, ts + bs + ls, uv)
                    rt, rb, rl = r[:len(ts)], r[len(ts):len(ts) + len(bs)], r[len(ts) + len(bs):]
                    obs = (f"(Ok (({terms(rt)}, {ser.body(rb)}, {ser.lst([ser.lit(x) for x in rl])}), {names(uv)}))")
                    changed = [str(x) for x in r] != [str(x) for x in ts + bs + ls]
                    yield mk("chk_transform", model, obs,
                             {"fn": "transform_args", "program": text, "orig": [str(x) for x in orig],
                              "passed": [str(x) for x in passed], "asts": [str(x) for x in ts + bs + ls],
                              "observed": [str(x) for x in r]}, changed)


class IsSingle:
    name = "inline_is_single"
    imports = IMPORTS
    source = "ngo.inline.InlineTranslator.is_single on every statement (random input / output predicates)"

    def cases(self, inputs, rng):
        from ngo.dependency import RuleDependency
        for text, pp, t in prepared(inputs, rng):
            for ins, outs in io_rounds(rng, pp):
                x, exc = build(pp, ins, outs)
                if x is None:
                    obs, js = ser.result_raise(exc), "raise " + type(exc).__name__
                else:
                    rdp = RuleDependency(pp)
                    r = [x.is_single(stm, rdp) for stm in pp]
                    obs = ser.result_ok(ser.lst(["None" if i is None else f"(Some {i})" for i in r]))
                    js = r
                yield mk("chk_singles", f"singles {t} {preds_s(ins)} {preds_s(outs)}", obs,
                         io_desc(text, ins, outs, fn="is_single", observed=js),
                         x is not None and any(i is not None for i in r))


class GetBodyLit:
    name = "inline_get_body_lit"
    imports = IMPORTS
    source = ("ngo.inline.InlineTranslator.get_body_lit(stm, orig) for every rule stm with a predicate head and "
              "every other rule / minimize statement that uses the head predicate in its body")

    def cases(self, inputs, rng):
        x, _ = build([], [], [])
        for text, pp, _ in prepared(inputs, rng):
            for stm in pp:
                if not fun_head(stm) or has_theory(stm):
                    continue
                sym = stm.head.atom.symbol
                for orig in pp:
                    if orig.ast_type not in (ASTType.Rule, ASTType.Minimize) or orig is stm or has_theory(orig):
                        continue
                    if not uses_at_top(orig, sym.name, len(sym.arguments)):
                        continue
                    obs, js, r = observe(lambda: x.get_body_lit(stm, orig),  # pylint: disable=cell-var-from-loop
                                         lambda v: ("None" if v is None else f"(Some {ser.lit(v)})", str(v)))
                    if obs is None:
                        continue
                    yield mk("chk_olit", f"get_body_lit {ser.stmt(stm)} {ser.stmt(orig)}", obs,
                             {"fn": "get_body_lit", "stmt": str(stm), "orig": str(orig), "observed": js},
                             r is not None)


def python_graph(x, pp):
    """first half of replace_single_rule_for_body: insertion ordered {(orig, blit): (stm, index)} and the nx graph"""
    import networkx as nx
    g = nx.Graph()
    for stm, index, orig in singles_of(x, pp):
        blit = x.get_body_lit(stm, orig)
        if blit is None:
            continue
        g.add_node((orig, blit), stm=stm, index=index)
    return g


class Graph:
    name = "inline_graph"
    imports = IMPORTS
    source = ("graph g of ngo.inline.InlineTranslator.replace_single_rule_for_body (is_single + get_body_lit) and "
              "is_connected_to_agregates for each node")

    def cases(self, inputs, rng):
        import networkx as nx
        for text, pp, t in prepared(inputs, rng):
            for ins, outs in io_rounds(rng, pp):
                x, exc = build(pp, ins, outs)
                any_true = False
                if x is None:
                    obs = ser.result_raise(exc)
                else:
                    try:
                        g = python_graph(x, pp)
                        na_stm = nx.get_node_attributes(g, "stm")
                        na_index = nx.get_node_attributes(g, "index")
                        items = []
                        for n in g.nodes:
                            orig, blit = n
                            try:
                                c = x.is_connected_to_agregates(blit.atom.symbol.arguments[na_index[n]], orig, g)
                                any_true = any_true or c
                                cs = f"(Ok {ser.b(c)})"
                            except Exception as e:  # pylint: disable=broad-except
                                cs = ser.result_raise(e)
                            items.append(f"((({ser.stmt(orig)}, {ser.lit(blit)}), ({ser.stmt(na_stm[n])}, {na_index[n]})), {cs})")
                        obs = ser.result_ok(ser.lst(items))
                    except ser.Unsupported:
                        continue
                    except Exception as e:  # pylint: disable=broad-except
                        obs = ser.result_raise(e)
                yield mk("chk_graph_report", f"graph_report {t} {preds_s(ins)} {preds_s(outs)}", obs,
                         io_desc(text, ins, outs, fn="is_connected_to_agregates"), any_true)


class InlineLiteral:
    name = "inline_literal"
    imports = IMPORTS
    source = ("ngo.inline.InlineTranslator.inline_literal(stm, blit, UniqueVariables(orig)) for the pairs found by "
              "get_body_lit (single rules or not)")

    def cases(self, inputs, rng):
        from ngo.utils.globals import UniqueVariables
        x, _ = build([], [], [])
        for text, pp, _ in prepared(inputs, rng):
            for stm in pp:
                if not fun_head(stm) or has_theory(stm) or not stm.body:
                    continue
                sym = stm.head.atom.symbol
                for orig in pp:
                    if orig.ast_type not in (ASTType.Rule, ASTType.Minimize) or orig is stm or has_theory(orig):
                        continue
                    if not uses_at_top(orig, sym.name, len(sym.arguments)):
                        continue
                    try:
                        blit = x.get_body_lit(stm, orig)
                    except Exception:  # pylint: disable=broad-except
                        continue
                    if blit is None:
                        continue
                    if blit.sign == Sign.Negation and stm.body[0].ast_type != ASTType.Literal:
                        continue
                    uv = UniqueVariables(orig)
                    av0 = names(uv)
                    obs, js, r = observe(lambda: x.inline_literal(stm, blit, uv),  # pylint: disable=cell-var-from-loop
                                         lambda v: (f"({ser.body(v)}, {names(uv)})", [str(i) for i in v]))  # pylint: disable=cell-var-from-loop
                    if obs is None:
                        continue
                    yield mk("chk_body_av", f"inline_literal {ser.stmt(stm)} {ser.lit(blit)} {av0}", obs,
                             {"fn": "inline_literal", "stmt": str(stm), "orig": str(orig), "blit": str(blit),
                              "observed": js}, r is not None)


def function_conds(atom):
    """(elem, cond) pairs of a body aggregate whose condition is a literal over a named predicate"""
    out = []
    for el in atom.elements:
        for c in el.condition:
            if (c.ast_type == ASTType.Literal and c.atom.ast_type == ASTType.SymbolicAtom
                    and c.atom.symbol.ast_type == ASTType.Function):
                out.append((el, c))
    return out


class NewBodyElements:
    name = "inline_new_body_elements"
    imports = IMPORTS
    source = ("ngo.inline.InlineTranslator.compute_new_body_elements(rule, replace_cond, replace_elem, agg, atom, "
              "UniqueVariables(orig)): rule = a rule with predicate head and a body aggregate, atom = a body "
              "aggregate of another rule (preferably one that mentions the head predicate)")

    def cases(self, inputs, rng):
        from ngo.utils.ast import collect_ast
        from ngo.utils.globals import UniqueVariables
        x, _ = build([], [], [])
        for text, pp, _ in prepared(inputs, rng):
            rules = [s for s in pp if s.ast_type == ASTType.Rule and not has_theory(s)]
            count = 0
            for rule in rules:
                if not fun_head(rule):
                    continue
                aggs = collect_ast(rule, "BodyAggregate")
                if not aggs:
                    continue
                sym = rule.head.atom.symbol
                for orig in rules:
                    if orig is rule or count >= 6:
                        continue
                    for blit in orig.body:
                        if blit.ast_type != ASTType.Literal or blit.atom.ast_type != ASTType.BodyAggregate:
                            continue
                        pairs = function_conds(blit.atom)
                        good = [(e, c) for e, c in pairs if c.atom.symbol.name == sym.name
                                and len(c.atom.symbol.arguments) == len(sym.arguments)]
                        if not good and (not pairs or rng.random() < 0.7):
                            continue
                        el, cond = rng.choice(good or pairs)
                        uv = UniqueVariables(orig)
                        av0 = names(uv)
                        try:
                            model = (f"compute_new_body_elements {terms(sym.arguments)} {ser.body(rule.body)} "
                                     f"{terms(cond.atom.symbol.arguments)} {terms(el.terms)} {belems(aggs[0].elements)} "
                                     f"{belems(blit.atom.elements)} {av0}")
                        except ser.Unsupported:
                            continue
                        obs, js, r = observe(
                            lambda: x.compute_new_body_elements(rule, cond, el, aggs[0], blit.atom, uv),  # pylint: disable=cell-var-from-loop
                            lambda v: (f"({belems(v)}, {names(uv)})", [str(i) for i in v]))  # pylint: disable=cell-var-from-loop
                        if obs is None:
                            continue
                        count += 1
                        yield mk("chk_belems_av", model, obs,
                                 {"fn": "compute_new_body_elements", "rule": str(rule), "atom": str(blit.atom),
                                  "replace_elem": str(el), "replace_cond": str(cond), "observed": js}, bool(r))


class BodyAggregate:
    name = "inline_body_aggregate"
    imports = IMPORTS
    source = ("ngo.inline.InlineTranslator.inline_body_aggregate(stm, atom, UniqueVariables(orig)) for the single "
              "rules stm of a program and the body aggregates of all other rules")

    def cases(self, inputs, rng):
        from ngo.utils.globals import UniqueVariables
        for text, pp, _ in prepared(inputs, rng):
            for ins, outs in io_rounds(rng, pp):
                x, _exc = build(pp, ins, outs)
                if x is None:
                    continue
                for stm, _index, _orig in singles_of(x, pp):
                    if has_theory(stm):
                        continue
                    for orig in pp:
                        if orig.ast_type != ASTType.Rule or orig is stm or has_theory(orig):
                            continue
                        uv = UniqueVariables(orig)
                        for blit in orig.body:
                            if blit.ast_type != ASTType.Literal or blit.atom.ast_type != ASTType.BodyAggregate:
                                continue
                            av0 = names(uv)
                            atom = blit.atom
                            obs, js, r = observe(lambda: x.inline_body_aggregate(stm, atom, uv),  # pylint: disable=cell-var-from-loop
                                                 lambda v: (f"({ser.atom(v)}, {names(uv)})", str(v)))  # pylint: disable=cell-var-from-loop
                            if obs is None:
                                continue
                            changed = r is not None and r != atom
                            bump(self.name, changed)
                            yield mk("chk_atom_av", f"inline_body_aggregate {ser.stmt(stm)} {ser.atom(atom)} {av0}", obs,
                                     {"fn": "inline_body_aggregate", "stmt": str(stm), "atom": str(atom),
                                      "orig": str(orig), "observed": js}, changed)


class ReplaceInsideAgg:
    name = "inline_replace_inside_agg"
    imports = IMPORTS
    source = "ngo.inline.InlineTranslator.replace_inside_agg(stm, orig) for the single rules and their users"

    def cases(self, inputs, rng):
        for text, pp, _ in prepared(inputs, rng):
            for ins, outs in io_rounds(rng, pp):
                x, _exc = build(pp, ins, outs)
                if x is None:
                    continue
                for stm, _index, orig in singles_of(x, pp):
                    if has_theory(stm) or has_theory(orig):
                        continue
                    obs, js, r = observe(lambda: x.replace_inside_agg(stm, orig),  # pylint: disable=cell-var-from-loop
                                         lambda v: (ser.stmt(v), str(v)))
                    if obs is None:
                        continue
                    changed = r is not None and r != orig
                    bump(self.name, changed)
                    yield mk("chk_stmt", f"replace_inside_agg {ser.stmt(stm)} {ser.stmt(orig)}", obs,
                             {"fn": "replace_inside_agg", "stmt": str(stm), "orig": str(orig), "observed": js}, changed)


class ProgramStep:
    """families that run one method prg -> prg of a translator built on the same program"""
    imports = IMPORTS
    method = ""
    model = ""

    def cases(self, inputs, rng):
        for text, pp, t in prepared(inputs, rng):
            for ins, outs in io_rounds(rng, pp):
                x, exc = build(pp, ins, outs)
                before = [str(s) for s in pp]
                if x is None:
                    obs, js, r = ser.result_raise(exc), "raise " + type(exc).__name__, None
                else:
                    obs, js, r = observe(lambda: getattr(x, self.method)(list(pp)), conv_stmts)  # pylint: disable=cell-var-from-loop
                    if obs is None:
                        continue
                changed = r is not None and js != before
                bump(self.name, changed)
                yield mk("chk_prog", state_expr(t, ins, outs, f"{self.model} {t}"), obs,
                         io_desc("\n".join(before), ins, outs, fn=self.method, source=text, observed=js), changed)


class RuleForAgg(ProgramStep):
    name = "inline_rule_for_agg"
    source = "ngo.inline.InlineTranslator.replace_single_rule_for_agg(prg) (one step)"
    method = "replace_single_rule_for_agg"
    model = "replace_single_rule_for_agg st"


class RuleForBody(ProgramStep):
    name = "inline_rule_for_body"
    source = "ngo.inline.InlineTranslator.replace_single_rule_for_body(prg) (one step)"
    method = "replace_single_rule_for_body"
    model = "replace_single_rule_for_body st"


class InAgg(ProgramStep):
    name = "inline_in_agg"
    source = "ngo.inline.InlineTranslator.inline_in_agg(prg)"
    method = "inline_in_agg"
    model = "inline_in_agg st"


class InRulebody(ProgramStep):
    name = "inline_in_rulebody"
    source = "ngo.inline.InlineTranslator.inline_in_rulebody(prg)"
    method = "inline_in_rulebody"
    model = "inline_in_rulebody st"


class InMinimize(ProgramStep):
    name = "inline_in_minimize"
    source = "ngo.inline.InlineTranslator.inline_in_minimize(prg)"
    method = "inline_in_minimize"
    model = "(fun _ => inline_in_minimize) st"


class Minimize:
    name = "inline_minimize"
    imports = IMPORTS
    source = "ngo.inline.InlineTranslator.inline_minimize(stm) after analyze_minimize(prg), every statement"

    def cases(self, inputs, rng):
        x, _ = build([], [], [])
        for text, pp, t in prepared(inputs, rng):
            if not any(s.ast_type == ASTType.Minimize for s in pp):
                continue
            x.analyze_minimize(pp)
            for stm in pp:
                if stm.ast_type != ASTType.Minimize and rng.random() < 0.8:
                    continue
                obs, js, r = observe(lambda: x.inline_minimize(stm), conv_stmts)  # pylint: disable=cell-var-from-loop
                if obs is None:
                    continue
                changed = r is not None and js != [str(stm)]
                bump(self.name, changed)
                yield mk("chk_prog", f"inline_minimize (analyze_minimize {t}) {ser.stmt(stm)}", obs,
                         {"fn": "inline_minimize", "program": "\n".join(str(s) for s in pp), "stmt": str(stm),
                          "observed": js}, changed)


class Execute:
    name = "inline_execute"
    imports = IMPORTS
    source = "ngo.inline.InlineTranslator(prg, ins, outs).execute(prg) on preprocessed programs"

    def cases(self, inputs, rng):
        from ngo.inline import InlineTranslator
        for text, pp, t in prepared(inputs, rng):
            for ins, outs in io_rounds(rng, pp):
                before = [str(s) for s in pp]
                obs, js, r = observe(lambda: InlineTranslator(pp, list(ins), list(outs)).execute(list(pp)),  # pylint: disable=cell-var-from-loop
                                     conv_stmts)
                if obs is None:
                    continue
                changed = r is not None and js != before
                bump(self.name, changed)
                yield mk("chk_prog", f"run_execute {t} {preds_s(ins)} {preds_s(outs)} {t}", obs,
                         io_desc("\n".join(before), ins, outs, fn="execute", source=text, observed=js), changed)


FAMILIES = [AnalyzeMinimize(), Info(), Analytics(), TransformArgs(), IsSingle(), GetBodyLit(), Graph(), InlineLiteral(),
            NewBodyElements(), BodyAggregate(), ReplaceInsideAgg(), RuleForAgg(), RuleForBody(), Minimize(), InAgg(),
            InRulebody(), InMinimize(), Execute()]
