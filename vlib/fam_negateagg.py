"""correspondence family for ngo.utils.ast.negate_agg (Model/NegateAgg.v)"""
from clingo.ast import ASTType

from . import ser
from .corr import Case
from .inputs import try_parse

EXTRA = """
h(X) :- p(X), not Y = #sum{W,I : q(I,W), W > 1}, X = Y-2.
h(X) :- p(X), not 2 < #count{I : q(I,W), W != 3, I >= 2} <= 5.
h :- not 1 <= #min{W : q(I,W), not W = 4; V : r(V), 1 < V < 5} != 7.
h :- not 1 { q(X,Y) : X < Y; r(Z) : Z >= 2 } 3.
h :- 3 > #max{W,I : q(I,W), W <= 2 : r(I)}.
"""


class NegateAggFam:
    name = "math_negate_agg"
    imports = ["Gen.Tables", "Model.NegateAgg"]
    source = "ngo.utils.ast.negate_agg on every body aggregate (and, for the assertion, on other atoms)"

    def cases(self, inputs, rng):
        from ngo.utils.ast import negate_agg
        texts = [EXTRA] + [i["text"] for i in inputs]
        for text in texts:
            prg = try_parse(text)
            if prg is None:
                continue
            for stm in prg:
                if stm.ast_type not in (ASTType.Rule, ASTType.Minimize):
                    continue
                for blit in stm.body:
                    if blit.ast_type != ASTType.Literal:
                        continue
                    a = blit.atom
                    try:
                        sa = ser.atom(a)
                    except ser.Unsupported:
                        continue
                    try:
                        r = negate_agg(a)
                        obs = "(Some " + ser.atom(r) + ")"
                        js = str(r)
                    except AssertionError:
                        obs, js = "None", None
                    except ser.Unsupported:
                        continue
                    inner = a.ast_type in (ASTType.BodyAggregate, ASTType.Aggregate) and \
                        any(c.ast_type == ASTType.Literal and c.atom.ast_type == ASTType.Comparison
                            for e in a.elements for c in getattr(e, "condition", []))
                    yield Case(f"chk_negate_agg (negate_agg {sa}) {obs}",
                               {"fn": "negate_agg", "stmt": str(stm), "atom": str(a), "observed": js}, nontrivial=inner)


FAMILIES = [NegateAggFam()]
