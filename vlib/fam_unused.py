"""correspondence families for coq/Model/Unused.v (model of ngo/unused.py UnusedTranslator and of
ngo.dependency.RuleDependency)

unused_anonymize        _anonymize_variables: returned list AND the in-place mutated input list
unused_usage            analyze_usage: the `used` set and the `used_positions` dict (modulo order), exceptions
unused_project          project_unused: program and whole object state (unique_names, used, used_positions,
                        new_names) after the call; from the real pipeline state, from injected random
                        used_positions, and a second call on the same object (new_names / unique_names persist)
unused_remove           remove_unused with the pipeline `used` set and with random ones
unused_rule_dependency  RuleDependency.__init__: head2bodies / head2rules / pred2stm, key order included
unused_single_copies    remove_single_copies (Mapper, Mapper.convert, RuleDependency)
unused_execute_core     UnusedTranslator.execute with ngo.unused.exline_arithmetic patched to `lambda prg: list(prg)`
unused_execute          the unpatched execute against Model/UnusedExecute.v (exline_arithmetic of Model/Normalize.v)

The real code mutates the statements it is given (stm.body[index] = ...), so every call gets statements that were
parsed (and preprocessed) for that call only; the Coq text of the input is produced before the call.
Exceptions of the real code are observed results (Raise "<class>").  Programs whose statements are outside
the AST mirror (ser.Unsupported) are skipped and counted in SKIPPED.

Set UNUSED_FRAGMENT=1 to turn every case into "does the model answer inside its fragment?": the reported
mismatches are then exactly the OutOfFragment cases (used to measure the OutOfFragment share per family).
With UNUSED_FRAGMENT=2 a case fails only if the model answers OutOfFragment on a program WITHOUT opaque
statements, i.e. through the set-order guard of Mapper.__init__ (expected: never).
"""
import logging
import os
from collections import defaultdict

from clingo.ast import ASTType

from . import ser
from .corr import Case
from .inputs import parse, try_parse

IMPORTS = ["Model.Traverse", "Model.Globals", "Model.Unused"]
FRAGMENT_MODE = os.environ.get("UNUSED_FRAGMENT", "")
SKIPPED = defaultdict(int)
MAX_TEXT = 40000


# ------------------------------------------------------------------------------------------------
# serialisation helpers (local to this file)
# ------------------------------------------------------------------------------------------------
def nats(xs):
    return ser.lst([str(int(x)) for x in xs])


def preds(ps):
    return ser.lst([ser.pred(p) for p in ps])


def positions(d):
    return ser.lst([f"({ser.pred(p)}, {nats(sorted(s))})" for p, s in d.items()])


def names(d):
    return ser.lst([f"(({ser.pred(k[0])}, {ser.pred(k[1])}), {ser.q(v)})" for k, v in d.items()])


def ustate(ut):
    un = ut.unique_names
    return (f"(mk_ustate (mk_unames {int(un.auxcounter)} {preds(sorted(un.predicates))}) {preds(sorted(ut.used))} "
            f"{positions(ut.used_positions)} {names(ut.new_names)})")


def ustate_js(ut):
    return {"used": sorted(map(str, ut.used)),
            "used_positions": {str(p): sorted(s) for p, s in ut.used_positions.items()},
            "new_names": {f"{a}->{b}": v for (a, b), v in ut.new_names.items()},
            "unique_names": sorted(map(str, ut.unique_names.predicates))}


def observe(fn, conv):
    """run fn; (Coq text of a `result`, json-able)"""
    try:
        r = fn()
    except ser.Unsupported:
        raise
    except Exception as e:  # pylint: disable=broad-except
        return ser.result_raise(e), "raise " + type(e).__name__
    text, js = conv(r)
    return ser.result_ok(text), js


def conv_prog(r):
    return ser.prog(r), [str(s) for s in r]


def case(chk, model, obs, desc, nontrivial, t=None):
    if FRAGMENT_MODE == "2" and t is not None:
        # OutOfFragment must be explained by an opaque statement (never by the Mapper set-order guard)
        return Case(f"(in_fragment_b ({model}) || negb (prog_in_fragment {t}))", desc, nontrivial=nontrivial)
    if FRAGMENT_MODE:
        return Case(f"in_fragment_b ({model})", desc, nontrivial=nontrivial)
    return Case(f"{chk} ({model}) {obs}", desc, nontrivial=nontrivial)


def prog_preds(prg):
    from ngo.utils.ast import predicates
    out = []
    for s in prg:
        for sp in predicates(s):
            if sp.pred not in out:
                out.append(sp.pred)
    return out


FOREIGN = [("foreign", 1), ("p", 1), ("p1", 1), ("a", 0), ("q", 2), ("p2", 1)]


def random_preds(rng, ps, empty=0.3):
    from ngo.utils.ast import Predicate
    if rng.random() < empty or not ps:
        out = []
    else:
        out = [rng.choice(ps) for _ in range(rng.randint(1, 3))]
    if rng.random() < 0.15:
        out.append(Predicate(*rng.choice(FOREIGN)))
    return out


def in_out_choices(rng, prg, n=3):
    """(input_predicates, output_predicates) lists; includes output = [] and output = all"""
    ps = prog_preds(prg)
    out = [([], []), (random_preds(rng, ps), list(ps))]
    for _ in range(n):
        out.append((random_preds(rng, ps), random_preds(rng, ps, 0.15)))
    return out


# ------------------------------------------------------------------------------------------------
# seeded generator of programs in which predicates / positions are unused and rules are copies
# ------------------------------------------------------------------------------------------------
class UGen:
    PREDS = [("p", 1), ("p", 2), ("p1", 1), ("q", 1), ("q", 2), ("r", 2), ("s", 3), ("a", 1), ("b", 1), ("c", 2), ("u", 0),
             ("a", 2), ("b", 2), ("p", 0), ("p2", 1)]
    VARS = ["X", "Y", "Z", "X0", "Y0", "X1", "X00"]
    ARGS = ["X", "X", "Y", "Y", "Z", "X0", "Y0", "_", "_", "1", "2", "c", "f(X)", "f(Y,_)", "X+1", "(X,Y)", "g(Z)", "X1",
            "1..2", "-X", "f(g(X))"]

    def __init__(self, rng):
        self.r = rng
        self.preds = rng.sample(self.PREDS, rng.randint(3, 8))

    def pred(self, arity=None):
        cands = [p for p in self.preds if arity is None or p[1] == arity] or \
                [p for p in self.PREDS if arity is None or p[1] == arity]
        return self.r.choice(cands)

    def atom(self, pool=None, pred=None):
        n, a = pred or self.pred()
        if a == 0:
            return n
        pool = pool or self.ARGS[: self.r.choice([5, 9, 12, len(self.ARGS)])]
        return f"{n}({','.join(self.r.choice(pool) for _ in range(a))})"

    def lit(self, pool=None, neg=0.2):
        r = self.r.random()
        if r < 0.06:
            return self.r.choice(["X < Y", "X = Y+1", "Z != 1", "X = f(Y)", "_ = X", "X0 = g(_)"])
        s = "not " if self.r.random() < neg else ""
        if r < 0.09:
            return s + "-" + self.atom(pool)
        return s + self.atom(pool)

    def cond(self, lo=1, hi=2):
        return ", ".join(self.lit() for _ in range(self.r.randint(lo, hi)))

    def aggregate(self):
        k = self.r.random()
        es = "; ".join(f"{self.r.choice(['X', '1', 'X,Y', 'f(X),Z', 'Y0', 'h(Z)'])} : {self.cond(1, 3)}"
                       for _ in range(self.r.randint(1, 2)))
        if k < 0.7:
            return (f"{self.r.choice(['', '', 'not '])}{self.r.choice(['', 'Z = ', '1 <= ', 'f(X) = '])}"
                    f"{self.r.choice(['#sum', '#count', '#max'])} {{ {es} }}{self.r.choice(['', ' > 1', ' = Y', ' < g(1)'])}")
        es = "; ".join(f"{self.lit(neg=0)} : {self.cond(1, 2)}" for _ in range(self.r.randint(1, 2)))
        return f"{self.r.choice(['', '1 ', 'X '])}{{ {es} }}{self.r.choice(['', ' 2', ' Y'])}"

    def body(self, lo=1, hi=4):
        elems = []
        for _ in range(self.r.randint(lo, hi)):
            k = self.r.random()
            if k < 0.74:
                elems.append(self.lit())
            elif k < 0.86:
                elems.append(self.aggregate())
            else:
                elems.append(f"{self.lit()} : {self.cond(1, 2)}")
        return "; ".join(elems)

    def copy_rule(self):
        a = self.r.choice([0, 1, 1, 2, 2, 2, 3])
        hp = self.pred(a)
        bp = self.pred(a) if self.r.random() < 0.9 else self.pred()
        vs = self.r.sample(self.VARS, max(a, 1)) + ["X", "_"]
        hpool = vs[: self.r.choice([a, a, a + 1, a + 2])] or ["X"]
        if self.r.random() < 0.08:
            hpool = hpool + ["1", "f(X)"]
        k = self.r.random()
        if k < 0.6:
            bpool = hpool
        elif k < 0.8:
            bpool = vs + ["Z"]
        else:
            bpool = vs + ["1", "c", "f(X)", "_", "f(X0,Y)", "X+Y"]
        head = self.atom(hpool, hp)
        body = self.atom(bpool, bp)
        k = self.r.random()
        if k < 0.05:
            body = "not " + body
        elif k < 0.1:
            body = body + ", " + self.lit()
        return f"{head} :- {body}."

    def statement(self):
        k = self.r.random()
        if k < 0.3:
            return self.copy_rule()
        if k < 0.55:
            return f"{self.atom()} :- {self.body()}."
        if k < 0.6:
            return f"{self.atom(['1', '2', 'c', 'f(1)'])}."
        if k < 0.67:
            return f":- {self.body()}."
        if k < 0.76:
            es = "; ".join(self.atom() + (" : " + self.cond() if self.r.random() < 0.7 else "")
                           for _ in range(self.r.randint(1, 3)))
            b = self.body(0, 2)
            return f"{self.r.choice(['', '1 ', 'f(X) '])}{{ {es} }}{self.r.choice(['', ' 1'])}" + (f" :- {b}." if b else ".")
        if k < 0.81:
            es = "; ".join(self.r.choice(["", "", "not "]) + self.atom() + (" : " + self.cond() if self.r.random() < 0.6 else "")
                           for _ in range(self.r.randint(2, 3)))
            b = self.body(0, 2)
            return es + (f" :- {b}." if b else ".")
        if k < 0.825:
            es = "; ".join(f"1,{self.r.choice(['X', 'Y'])} : {self.atom()}" + (" : " + self.cond() if self.r.random() < 0.7 else "")
                           for _ in range(self.r.randint(0, 2)))
            return f"#sum {{ {es} }} >= 1 :- {self.body(1, 2)}."
        if k < 0.87:
            return f":~ {self.body(1, 3)}. [{self.r.choice(['1', 'X', 'f(X)'])}@{self.r.choice(['1', 'Y'])},{self.r.choice(['X', 'g(Y)', 'Z'])}]"
        if k < 0.9:
            return f"#minimize {{ {self.r.choice(['1', 'X'])}@1,{self.r.choice(['X', 'f(Y)'])} : {self.cond(1, 3)} }}."
        if k < 0.95:
            n, a = self.pred()
            return f"#show {self.r.choice(['', '', '-'])}{n}/{a}."
        if k < 0.985:
            return f"#show {self.r.choice(['X', 'f(X,Y)', 'c', self.atom()])} : {self.cond(1, 2)}."
        return self.r.choice(["#show.", "#const n = f(3).", "#project p/1.", "#project a(X) : b(X).", "#defined q/1.",
                              "#external a(X) : b(X,_).", "#program base.", "a :- &diff { X - Y : p(X,_) } <= f(3), q(X,Y)."])

    def program(self):
        for _ in range(50):
            txt = "\n".join(self.statement() for _ in range(self.r.randint(2, 8)))
            if try_parse(txt) is not None:
                return txt
        return "a."


def with_synthetic(inputs, rng, n):
    out = list(inputs)
    for i in range(n):
        out.append({"origin": f"unused-gen:{i}", "text": UGen(rng).program()})
    return out


def variants(inputs, fam, kinds=("raw", "preprocessed")):
    """(text, kind, make) for every distinct input program; make() parses (and preprocesses) afresh"""
    from ngo.normalize import preprocess
    seen = set()
    for inp in inputs:
        text = inp["text"]
        if text in seen or try_parse(text) is None:
            continue
        seen.add(text)
        for kind in kinds:
            if kind == "raw":
                make = lambda text=text: parse(text)  # noqa: E731
            else:
                make = lambda text=text: preprocess(parse(text))  # noqa: E731
            try:
                prg = make()
                t = ser.prog(prg)
            except ser.Unsupported:
                SKIPPED[fam] += 1
                continue
            except Exception:  # pylint: disable=broad-except
                continue                       # preprocess itself failed on this input
            if len(t) > MAX_TEXT:
                SKIPPED[fam] += 1
                continue
            yield text, kind, make, t


def new_translator(prg, ins, outs):
    from ngo.unused import UnusedTranslator
    return UnusedTranslator(prg, list(ins), list(outs))


def quiet():
    logging.disable(logging.CRITICAL)


# ------------------------------------------------------------------------------------------------
class UnusedAnonymize:
    name = "unused_anonymize"
    imports = IMPORTS
    source = "ngo.unused.UnusedTranslator._anonymize_variables / transform_body_ast_except_aggregate"

    def cases(self, inputs, rng):
        quiet()
        inputs = with_synthetic(inputs, rng, 150)
        for text, kind, make, t in variants(inputs, self.name):
            prg = make()
            before = [str(s) for s in prg]
            ut = new_translator([], [], [])
            ret = ut._anonymize_variables(prg)  # pylint: disable=protected-access
            same_objects = len(ret) == len(prg) and all(a is b for a, b in zip(ret, prg))
            obs, js = observe(lambda: ret, conv_prog)       # pylint: disable=cell-var-from-loop
            after, _ = observe(lambda: prg, conv_prog)      # pylint: disable=cell-var-from-loop
            desc = {"fn": "_anonymize_variables", "kind": kind, "program": "\n".join(before), "observed": js,
                    "same_objects": same_objects}
            if FRAGMENT_MODE:
                yield Case(f"in_fragment_b (_anonymize_variables {t})", desc, nontrivial=js != before)
            else:
                yield Case(f"(chk_rprog (_anonymize_variables {t}) {obs} && chk_rprog (_anonymize_variables {t}) {after} "
                           f"&& {ser.b(same_objects)})", desc, nontrivial=js != before)


# ------------------------------------------------------------------------------------------------
def conv_usage(ut):
    return f"({preds(sorted(ut.used))}, {positions(ut.used_positions)})", \
        {"used": sorted(map(str, ut.used)), "used_positions": {str(p): sorted(s) for p, s in ut.used_positions.items()}}


class UnusedUsage:
    name = "unused_usage"
    imports = IMPORTS
    source = "ngo.unused.UnusedTranslator.analyze_usage / _add_usage / _add_usage_stm"

    def cases(self, inputs, rng):
        quiet()
        inputs = with_synthetic(inputs, rng, 150)
        for text, kind, make, t0 in variants(inputs, self.name):
            for anonymize in (True, False):
                for ins, outs in in_out_choices(rng, make(), 1 if not anonymize else 2):
                    prg = make()
                    ut = new_translator(prg, ins, outs)
                    t = t0
                    if anonymize:
                        prg = ut._anonymize_variables(prg)  # pylint: disable=protected-access
                        t = ser.prog(prg)

                    def run(ut=ut, prg=prg):
                        ut.analyze_usage(prg)
                        return ut
                    obs, js = observe(run, conv_usage)
                    yield case("chk_usage", f"analyze_usage_prg {preds(ins)} {preds(outs)} {t}", obs,
                               {"fn": "analyze_usage", "kind": kind, "anonymized": anonymize, "program": "\n".join(map(str, prg)),
                                "inputs": [str(p) for p in ins], "outputs": [str(p) for p in outs], "observed": js},
                               nontrivial=isinstance(js, str) or bool(js["used"]), t=t)


# ------------------------------------------------------------------------------------------------
def conv_project(x):
    r, ut = x
    return f"({ser.prog(r)}, {ustate(ut)})", {"program": [str(s) for s in r], "state": ustate_js(ut)}


def random_usage(rng, prg):
    """an arbitrary used / used_positions state over the Function nodes of the program"""
    from ngo.utils.ast import Predicate, collect_ast
    sigs = []
    for s in prg:
        for f in collect_ast(s, "Function"):
            p = Predicate(f.name, len(f.arguments))
            if p not in sigs:
                sigs.append(p)
    used = set()
    pos = defaultdict(set)
    for p in sigs:
        if rng.random() < 0.8:
            used.add(p)
        k = rng.random()
        if k < 0.15:
            continue                         # no key at all
        if k < 0.45:
            pos[p].update(range(p.arity))
        else:
            pos[p].update(i for i in range(p.arity + 1) if rng.random() < 0.6)
    return used, pos


class UnusedProject:
    name = "unused_project"
    imports = IMPORTS
    source = "ngo.unused.UnusedTranslator.project_unused / _project_unused_stm / transform / _new_name"

    def cases(self, inputs, rng):
        quiet()
        inputs = with_synthetic(inputs, rng, 200)
        for text, kind, make, t in variants(inputs, self.name):
            # ---- the state of the real pipeline: anonymize, analyze_usage, project
            for ins, outs in in_out_choices(rng, make(), 1):
                prg = make()
                before = [str(s) for s in prg]
                ctor = prg if rng.random() < 0.8 else []
                ut = new_translator(ctor, ins, outs)

                def run(ut=ut, prg=prg):
                    p = ut._anonymize_variables(prg)  # pylint: disable=protected-access
                    ut.analyze_usage(p)
                    return ut.project_unused(p), ut
                obs, js = observe(run, conv_project)
                yield case("chk_project", f"pipeline_project {t if ctor else '[]'} {preds(ins)} {preds(outs)} {t}", obs,
                           {"fn": "anonymize; analyze_usage; project_unused", "kind": kind, "program": "\n".join(before),
                            "ctor_program_empty": not ctor,
                            "inputs": [str(p) for p in ins], "outputs": [str(p) for p in outs], "observed": js},
                           nontrivial=isinstance(js, str) or bool(js["state"]["new_names"]), t=t)
            # ---- injected state, two calls on the same object
            prg = make()
            before = [str(s) for s in prg]
            ins = random_preds(rng, prog_preds(prg), 0.6)
            ut = new_translator(prg, ins, [])
            for call in range(2):
                ut.used, ut.used_positions = random_usage(rng, prg)
                st = ustate(ut)
                obs, js = observe(lambda: (ut.project_unused(prg), ut), conv_project)  # pylint: disable=cell-var-from-loop
                yield case("chk_project", f"project_unused {st} {t}", obs,
                           {"fn": "project_unused (injected state)", "call": call, "kind": kind, "program": "\n".join(before),
                            "state_before": st, "observed": js},
                           nontrivial=isinstance(js, str) or [str(s) for s in js["program"]] != before, t=t)


# ------------------------------------------------------------------------------------------------
class UnusedRemove:
    name = "unused_remove"
    imports = IMPORTS
    source = "ngo.unused.UnusedTranslator.remove_unused"

    def cases(self, inputs, rng):
        quiet()
        inputs = with_synthetic(inputs, rng, 150)
        for text, kind, make, t in variants(inputs, self.name):
            for mode in ("pipeline", "random"):
                prg = make()
                before = [str(s) for s in prg]
                ins, outs = rng.choice(in_out_choices(rng, prg, 2))
                ut = new_translator(prg, ins, outs)
                if mode == "pipeline":
                    try:
                        ut.analyze_usage(prg)
                    except Exception:  # pylint: disable=broad-except
                        continue
                else:
                    ut.used, _ = random_usage(rng, prg)
                used = sorted(ut.used)
                r = ut.remove_unused(prg)
                js = [str(s) for s in r]
                yield Case(f"prog_eqb (remove_unused (mk_ustate (mk_unames 0 []) {preds(used)} [] []) {t}) {ser.prog(r)}",
                           {"fn": "remove_unused", "mode": mode, "kind": kind, "program": "\n".join(before),
                            "used": [str(p) for p in used], "observed": js}, nontrivial=js != before)


# ------------------------------------------------------------------------------------------------
def ddict(d, conv):
    return ser.lst([f"({ser.pred(p)}, {ser.lst([conv(x) for x in v])})" for p, v in d.items()])


class UnusedRuleDependency:
    name = "unused_rule_dependency"
    imports = IMPORTS
    source = "ngo.dependency.RuleDependency.__init__ / get_headderivable_predicates"

    def cases(self, inputs, rng):
        from ngo.dependency import RuleDependency
        quiet()
        inputs = with_synthetic(inputs, rng, 100)
        for text, kind, make, t in variants(inputs, self.name):
            prg = make()
            rd = RuleDependency(prg)
            heads = rd.get_headderivable_predicates()
            assert heads == list(rd.head2rules.keys())
            expr = (f"chk_rule_dependency {t} {ddict(rd.head2bodies, ser.body)} {ddict(rd.head2rules, ser.stmt)} "
                    f"{ddict(rd.pred2stm, ser.stmt)}")
            if len(expr) > 4 * MAX_TEXT:
                continue
            yield Case(expr, {"fn": "RuleDependency", "kind": kind, "program": "\n".join(map(str, prg)),
                              "heads": [str(p) for p in heads], "uses": [str(p) for p in rd.pred2stm]},
                       nontrivial=bool(heads))


# ------------------------------------------------------------------------------------------------
class UnusedSingleCopies:
    name = "unused_single_copies"
    imports = IMPORTS
    source = "ngo.unused.UnusedTranslator.remove_single_copies / Mapper.__init__ / Mapper.convert (+ RuleDependency)"

    def cases(self, inputs, rng):
        quiet()
        inputs = with_synthetic(inputs, rng, 300)
        for text, kind, make, t in variants(inputs, self.name):
            for ins, outs in in_out_choices(rng, make(), 1)[::2] + [([], [])]:
                prg = make()
                before = [str(s) for s in prg]
                ut = new_translator(prg, ins, outs)
                obs, js = observe(lambda: ut.remove_single_copies(prg), conv_prog)  # pylint: disable=cell-var-from-loop
                yield case("chk_rprog", f"remove_single_copies {preds(ins)} {preds(outs)} {t}", obs,
                           {"fn": "remove_single_copies", "kind": kind, "program": "\n".join(before),
                            "inputs": [str(p) for p in ins], "outputs": [str(p) for p in outs], "observed": js},
                           nontrivial=js != before, t=t)


# ------------------------------------------------------------------------------------------------
def run_core(ctor, ins, outs, prg):
    import ngo.unused as mod
    saved = mod.exline_arithmetic
    mod.exline_arithmetic = lambda prg: list(prg)
    try:
        return mod.UnusedTranslator(ctor, list(ins), list(outs)).execute(prg)
    finally:
        mod.exline_arithmetic = saved


class UnusedExecuteCore:
    name = "unused_execute_core"
    imports = IMPORTS
    source = "ngo.unused.UnusedTranslator.execute with ngo.unused.exline_arithmetic patched to `lambda prg: list(prg)`"
    model = "execute_core"

    def run(self, ctor, ins, outs, prg):
        return run_core(ctor, ins, outs, prg)

    def cases(self, inputs, rng):
        quiet()
        inputs = with_synthetic(inputs, rng, 300)
        for text, kind, make, t in variants(inputs, self.name):
            for ins, outs in in_out_choices(rng, make(), 1):
                prg = make()
                before = [str(s) for s in prg]
                k = rng.random()
                if k < 0.8:
                    ctor, ct = prg, t
                elif k < 0.9:
                    ctor, ct = [], "[]"
                else:
                    ctor = parse(text)
                    try:
                        ct = ser.prog(ctor)
                    except ser.Unsupported:
                        ctor, ct = prg, t
                obs, js = observe(lambda: self.run(ctor, ins, outs, prg), conv_prog)  # pylint: disable=cell-var-from-loop
                yield case("chk_rprog", f"{self.model} {ct} {preds(ins)} {preds(outs)} {t}", obs,
                           {"fn": self.source, "kind": kind, "program": "\n".join(before), "source": text,
                            "ctor_program": [str(s) for s in ctor] if ctor is not prg else "same",
                            "inputs": [str(p) for p in ins], "outputs": [str(p) for p in outs], "observed": js},
                           nontrivial=js != before, t=t)


class UnusedExecute(UnusedExecuteCore):
    name = "unused_execute"
    imports = IMPORTS + ["Model.UnusedExecute"]
    source = "ngo.unused.UnusedTranslator.execute (unpatched: exline_arithmetic of ngo.normalize)"
    model = "execute"

    def run(self, ctor, ins, outs, prg):
        from ngo.unused import UnusedTranslator
        return UnusedTranslator(ctor, list(ins), list(outs)).execute(prg)


FAMILIES = [UnusedAnonymize(), UnusedUsage(), UnusedProject(), UnusedRemove(), UnusedRuleDependency(),
            UnusedSingleCopies(), UnusedExecuteCore()]
if os.path.exists(os.path.join(os.path.dirname(os.path.dirname(os.path.abspath(__file__))), "coq", "Model", "UnusedExecute.vo")):
    FAMILIES.append(UnusedExecute())
