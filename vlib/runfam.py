"""developer tool: run one correspondence family and print its mismatches
usage: ./runfam <family> [--gen N] [--seed S] [--show K] [--keep]"""
import argparse
import json
import random
import sys

from . import corr, inputs
from .families import FAMILIES


def main():
    ap = argparse.ArgumentParser()
    ap.add_argument("family")
    ap.add_argument("--gen", type=int, default=150)
    ap.add_argument("--seed", type=int, default=0)
    ap.add_argument("--twist", type=int, default=0, help="only N neighbourhood mutants of corpus + repo tests")
    ap.add_argument("--show", type=int, default=5)
    ap.add_argument("--keep", action="store_true")
    a = ap.parse_args()
    fam = FAMILIES[a.family]
    rng = random.Random(a.seed)
    if a.twist:
        inp = inputs.neighbourhood(inputs.curated() + inputs.harvest(), a.seed, a.twist)
    else:
        inp = inputs.curated() + inputs.harvest() + inputs.generated(a.seed, a.gen)
    cases = list(fam.cases(inp, rng))
    res = corr.run_family(fam, cases, keep=a.keep)
    print(f"{fam.name}: cases={res.cases} nontrivial={res.distinct_nontrivial} mismatches={len(res.mismatches)} "
          f"errors={len(res.errors)} wall={res.wall:.1f}s")
    for e in res.errors[:3]:
        print("ERROR", e)
    for m in res.mismatches[:a.show]:
        print("MISMATCH", json.dumps(m.desc, indent=1)[:3000])
        print("   EXPR", m.expr[:3000])
    return 0 if res.ok else 1


if __name__ == "__main__":
    sys.exit(main())
