"""correspondence families for the sympy glue of ngo/math_simplification.py (Model/Math.v)

math_sympy2ast         Goebner.sympy2ast (+ new_sum / new_mul / new_pow / new_abs): sympy tree -> clingo AST
math_ast2sympy_accepts Goebner._to_sympy_term: acceptance, raised exception, registration side effects and the
                       value of the produced sympy expression on three integer assignments; ast2sympy_op table
"""
import logging

from clingo.ast import ASTType

from . import ser
from .corr import Case
from .inputs import try_parse

# ------------------------------------------------------------------------------------------------
# serialisation of sympy trees / environments
# ------------------------------------------------------------------------------------------------
_INT_ASSUMPTIONS = None


def _int_assumptions():
    global _INT_ASSUMPTIONS  # pylint: disable=global-statement
    if _INT_ASSUMPTIONS is None:
        from sympy import Symbol
        _INT_ASSUMPTIONS = Symbol("x", integer=True).assumptions0
    return _INT_ASSUMPTIONS


def skey(s):
    from sympy import Dummy
    if isinstance(s, Dummy):
        return f"(KDummy {ser.q(s.name)} {ser.z(s.dummy_index)})"
    return f"(KSym {ser.q(s.name)} {ser.b(s.assumptions0 == _int_assumptions())})"


def sexpr(e):
    """walk expr.func / expr.args exactly like Goebner.sympy2ast does"""
    from sympy import Abs, Add, Dummy, Integer, Mod, Mul, Pow, Rational, Symbol, floor
    from sympy.core.numbers import NegativeOne, One, Zero
    f = e.func
    if f in (Integer, Zero, NegativeOne, One):
        return f"(SInt {ser.z(int(e))})"
    if f in (Symbol, Dummy):
        return f"(SSym {skey(e)})"
    if isinstance(e, Rational):
        return f"(SRat {ser.z(int(e.p))} {int(e.q)}%positive)"
    args = ser.lst([sexpr(a) for a in e.args])
    if f == Add:
        fn = "FAdd"
    elif f == Mul:
        fn = "FMul"
    elif f == Pow:
        pos = len(e.args) == 2 and e.args[1].is_positive is True
        fn = f"(FPow {ser.b(pos)})"
    elif f == Abs:
        fn = "FAbs"
    elif f == Mod:
        fn = "FMod"
    elif f == floor:
        fn = "FFloor"
    else:
        fn = f"(FOther {ser.q(getattr(f, '__name__', str(f)))})"
    return f"(SApp {fn} {args})"


class _Timeout(Exception):
    pass


def _symbolic_divisor(t):
    """`/` or `\\` whose right operand contains a variable: sympy normalises Mod / floor symbolically (e.g.
    Mod(X, -3*X) -> X in sympy 1.12), which the glue model does not predict; acceptance and registration order
    are still compared, the VALUE is not"""
    from clingo.ast import ASTType, BinaryOperator, Transformer
    hit = []

    class V(Transformer):
        def visit_BinaryOperation(self, b):
            if b.operator_type in (BinaryOperator.Modulo, BinaryOperator.Division):
                inner = []

                class W(Transformer):
                    def visit_Variable(self, v):
                        inner.append(v)
                        return v
                W().visit(b.right)
                if inner:
                    hit.append(b)
            self.visit_children(b)
            return b
    V().visit(t)
    return bool(hit)


class limit:
    """wall-clock guard around sympy calls (random unevaluated trees can make sympy very slow)"""

    def __init__(self, seconds=2.0):
        self.seconds = seconds

    def _raise(self, *_):
        raise _Timeout()

    def __enter__(self):
        import signal
        import time
        self.old = signal.signal(signal.SIGALRM, self._raise)
        self.t0 = time.time()
        self.outer = signal.setitimer(signal.ITIMER_REAL, self.seconds)   # (remaining, interval) of an outer deadline

    def __exit__(self, *exc):
        import signal
        import time
        signal.setitimer(signal.ITIMER_REAL, 0)
        signal.signal(signal.SIGALRM, self.old)
        rem, itv = self.outer
        if rem > 0:     # re-arm the family deadline of vlib/runner.py
            signal.setitimer(signal.ITIMER_REAL, max(0.05, rem - (time.time() - self.t0)), itv)
        return False


def _safe_str(e):
    try:
        return str(e)
    except Exception:  # pylint: disable=broad-except
        return "<unprintable raw node>"


def belems(agg):
    return ser.lst([f"({ser.lst([ser.term(t) for t in e.terms])}, {ser.lst([ser.lit(c) for c in e.condition])})"
                    for e in agg.elements])


def sast(r):
    if r.ast_type == ASTType.BodyAggregate:
        if r.left_guard is not None or r.right_guard is not None:
            raise ser.Unsupported("guards")
        return f"(RAgg {ser.AGG[r.function]} {belems(r)})"
    return f"(RTerm {ser.term(r)})"


def genv(gb):
    fo = ser.lst([f"({skey(k)}, {ser.term(v)})" for k, v in gb._fo_vars.items()])  # pylint: disable=protected-access
    ag = ser.lst([f"({skey(k)}, ({ser.AGG[v.function]}, {belems(v)}))"
                  for k, v in gb._sym2agg.items()])  # pylint: disable=protected-access
    co = ser.lst([f"({skey(k)}, {ser.term(v)})" for k, v in gb._constants.items()])  # pylint: disable=protected-access
    return f"{{| fo_vars := {fo}; sym2agg := {ag}; constants := {co} |}}"


# ------------------------------------------------------------------------------------------------
# environments: a Goebner object filled the way MathSimplification.execute fills it
# ------------------------------------------------------------------------------------------------
TEMPLATES = [
    "h :- X = Y + 1, Y < Z, c = X, p(X,Y,Z).",
    "h :- X = #sum { W,p : p(W); 1,q : q }, Y = #count { A : r(A) }, X < Y, p(Z), Z = n.",
    "h :- X = #sum { W,p : p(W) }, Y = #sum+ { A,B : r(A,B), not q }, M = #max { B : s(B) }, N = #min { B : s(B) }, p(Z).",
    "h :- 1 <= #sum { W : p(W) } <= X, Y = #count { A : r(A); B,c : s(B) }, Z != AUX, AUX = 3, p(X,Z).",
    "h :- X = #sum { 1 : a; 2 : b; W,f(W) : p(W), not q(W) }, M = #max { B : s(B) }, Y = #sum { V : t(V) }, U = #sum { V,V : t(V) }, p(Z), Z > 0 - c.",
    "h :- p(X,Y,Z,AUX), X = |Y|, Z = AUX ** 2, c < d.",
    "h :- p(X), X < 3.",
]


def make_env(text, rng, with_empty_elem=False):
    """returns (gb, registered symbols by kind) or None"""
    from clingo.ast import BodyAggregateElement
    from ngo.math_simplification import Goebner
    prg = try_parse(text)
    if prg is None:
        return None
    gb = Goebner()
    used = False
    for stm in prg:
        if stm.ast_type not in (ASTType.Rule, ASTType.Minimize):
            continue
        for blit in stm.body:
            if with_empty_elem and blit.ast_type == ASTType.Literal and blit.atom.ast_type == ASTType.BodyAggregate \
                    and blit.atom.elements:
                # an element without tuple terms cannot be parsed; build it directly (new_mul's nocoverage branch)
                els = list(blit.atom.elements)
                els.append(BodyAggregateElement([], list(els[0].condition)))
                blit = blit.update(atom=blit.atom.update(elements=els))
            try:
                if gb.to_sympy(blit) is not None:
                    used = True
            except Exception:  # pylint: disable=broad-except
                continue     # e.g. assertion on aggregates without left guard, ZeroDivisionError
    if not used:
        return None
    return gb


class ExprGen:
    """random sympy expressions over the symbols of an environment"""

    def __init__(self, gb, rng):
        from sympy import Dummy, Symbol
        self.rng = rng
        self.fo = list(gb._fo_vars)  # pylint: disable=protected-access
        self.ag = list(gb._sym2agg)  # pylint: disable=protected-access
        self.co = list(gb._constants)  # pylint: disable=protected-access
        self.neq = list(gb.help_neq_vars)
        self.unknown = [Symbol("Q", integer=True), Symbol("X"), Symbol("X", positive=True), Symbol("c"),
                        Dummy("temp", integer=True), Dummy("agg5", integer=True)]

    def leaf(self):
        from sympy import Float, Integer, Rational, oo, pi
        r = self.rng.random()
        if r < 0.45 and self.fo:
            return self.rng.choice(self.fo)
        if r < 0.55 and self.ag:
            return self.rng.choice(self.ag)
        if r < 0.62 and self.co:
            return self.rng.choice(self.co)
        if r < 0.88:
            return Integer(self.rng.choice([0, 1, -1, 2, -2, 3, -3, 5, 7, -7, 12]))
        if r < 0.895:
            return Integer(self.rng.choice([2 ** 31 - 1, 2 ** 31, -2 ** 31, -2 ** 31 - 1, 10 ** 12]))
        if r < 0.93:
            return self.rng.choice([Rational(1, 2), Rational(3, 2), Rational(-1, 2), Rational(-5, 3), Rational(7, 4)])
        if r < 0.94:
            return self.rng.choice([Float(1.5), oo, pi])
        if r < 0.955 and self.neq:
            return self.rng.choice(self.neq)
        if r < 0.97:
            return self.rng.choice(self.unknown)
        return Integer(self.rng.randint(-20, 20))

    def expr(self, depth):
        from sympy import Abs, Add, Basic, Max, Mod, Mul, Pow, floor, Integer, Rational
        rng = self.rng
        if depth <= 0 or rng.random() < 0.2:
            return self.leaf()
        k = rng.random()
        ev = rng.random() < 0.5
        if k < 0.32:
            args = [self.expr(depth - 1) for _ in range(rng.choice([2, 2, 3, 4]))]
            return Add(*args, evaluate=ev)
        if k < 0.64:
            args = [self.expr(depth - 1) for _ in range(rng.choice([2, 2, 3]))]
            return Mul(*args, evaluate=ev)
        if k < 0.78:
            base = self.expr(depth - 1)
            r = rng.random()
            if r < 0.6:
                ex = Integer(rng.choice([2, 3, 1, 0, -1, 2, 2, 3]))
            elif r < 0.7:
                ex = Rational(1, 2)
            else:
                ex = self.expr(depth - 2)
            if ex.is_number and not (abs(ex) <= 6):
                ev = False
            try:
                return Pow(base, ex, evaluate=ev)
            except Exception:  # pylint: disable=broad-except
                return base
        if k < 0.86:
            return Abs(self.expr(depth - 1), evaluate=ev)
        if k < 0.89:
            try:
                return Mod(self.expr(depth - 1), self.expr(depth - 2))
            except Exception:  # pylint: disable=broad-except
                return self.leaf()
        if k < 0.92:
            return floor(self.expr(depth - 1) / rng.choice([2, 3]))
        if k < 0.94:
            return Max(self.expr(depth - 1), self.expr(depth - 1))
        if k < 0.96:
            # raw one-argument Add / Mul node (cannot come out of sympy's constructors): the asserts in new_sum/new_mul
            return Basic.__new__(rng.choice([Add, Mul]), self.expr(depth - 1))
        if k < 0.98:
            return -self.expr(depth - 1)
        return self.expr(depth - 1) - self.expr(depth - 1)

    def handpicked(self):
        from sympy import Abs, Add, Mul, Pow, Rational, expand, Integer
        out = []
        s = (self.fo + self.co + self.ag)
        if not s:
            return out
        a = s[0]
        b = s[1 % len(s)]
        c = s[2 % len(s)]
        out += [a, -a, a - b, a + b + c, 2 * a, -2 * a * b, a / 2, 3 * a / 2, Rational(1, 2) * a + b, a ** 2, a ** -1,
                a ** b, a ** Rational(1, 2), Abs(a), Abs(a - b), a % 2, a % b, expand((a + 1) ** 2),
                (a + 1) * (b - 1), expand((a + 1) * (b - 1)), a ** (b ** 2 + 1), a * b * c, a + b * c - 3,
                -a - b - 1, Integer(2) - a, (a + b) * c, 2 * (a + b), Add(a, 1, evaluate=False),
                Add(1, a, evaluate=False), Mul(a, -1, evaluate=False), Mul(2, 3, evaluate=False),
                Pow(a, 0, evaluate=False), Pow(a, 1, evaluate=False), Add(a, Add(b, 1, evaluate=False), evaluate=False),
                Mul(a, Mul(b, 2, evaluate=False), evaluate=False), Mul(Add(a, b, evaluate=False), 2, evaluate=False),
                Abs(-a, evaluate=False), Pow(Pow(a, 2, evaluate=False), 3, evaluate=False), (a ** 2) ** b, a * a,
                a + a, a - a, a * b - b * a + c]
        if self.ag:
            g = self.ag[0]
            h = self.ag[-1]
            out += [g, g + 1, g + a, 2 * g, -g, a * g, a * b * g, g * h, g + h, g + h + a + 2, 2 * g + 3 * h - a, g ** 2,
                    Abs(g), g / 2, Add(a, g, 1, evaluate=False), Mul(a, g, 2, evaluate=False), a ** g, 2 ** g]
        return out


class Sympy2Ast:
    name = "math_sympy2ast"
    imports = ["Model.Math"]
    source = "ngo.math_simplification.Goebner.sympy2ast / new_sum / new_mul / new_pow / new_abs"

    def cases(self, inputs, rng):
        from ngo.math_simplification import SympyApi  # noqa: F401  pylint: disable=unused-import
        logging.disable(logging.CRITICAL)
        texts = [(t, "template") for t in TEMPLATES]
        pool = [i["text"] for i in inputs if any(x in i["text"] for x in ("#sum", "#count", " < ", " = ", ">", "!="))]
        rng.shuffle(pool)
        texts += [(t, "input") for t in pool[:250]]
        for idx, (text, origin) in enumerate(texts):
            gb = make_env(text, rng, with_empty_elem=(idx % 3 == 1))
            if gb is None:
                continue
            try:
                env = genv(gb)
            except ser.Unsupported:
                continue
            gen = ExprGen(gb, rng)
            exprs = gen.handpicked() if origin == "template" else []
            n = 60 if origin == "template" else 10
            for _ in range(n):
                try:
                    with limit():
                        exprs.append(gen.expr(rng.choice([1, 2, 2, 3, 3, 4])))
                except Exception:  # pylint: disable=broad-except
                    continue         # sympy refused to build it (e.g. Mod by zero) or took too long
            for e in exprs:
                try:
                    with limit():
                        se = sexpr(e)
                        shown_e = _safe_str(e)
                except Exception:  # pylint: disable=broad-except
                    continue
                kind = "ok"
                try:
                    with limit(5.0):
                        r = gb.sympy2ast(e)
                    try:
                        obs = f"(Ok {sast(r)})"
                    except ser.Unsupported:
                        continue
                    shown = str(r)
                    if r.ast_type == ASTType.BodyAggregate:
                        kind = "ok-aggregate"
                except _Timeout:
                    continue
                except Exception as ex:  # pylint: disable=broad-except
                    obs = ser.result_raise(ex)
                    shown = type(ex).__name__ + ": " + str(ex)[:80]
                    kind = type(ex).__name__
                yield Case(f"chk_sympy2ast {env} {se} {obs}",
                           {"fn": "sympy2ast", "program": text, "expr": shown_e, "observed": shown, "kind": kind},
                           nontrivial=(kind.startswith("ok") and bool(e.args)))


# ------------------------------------------------------------------------------------------------
# _to_sympy_term
# ------------------------------------------------------------------------------------------------
class TermGen:
    def __init__(self, rng):
        self.rng = rng

    def leaf(self):
        r = self.rng.random()
        if r < 0.45:
            return self.rng.choice(["X", "Y", "Z", "AUX"])
        if r < 0.86:
            return str(self.rng.choice([0, 1, 2, 3, 4, 5, 7, -1, -2, -3, -7, 10]))
        if r < 0.94:
            return self.rng.choice(["c", "d", "n"])
        return self.rng.choice(['"s"', "#inf", "#sup", "f(X)", "c()", "@f()", "@g(X)", "f(1,Y)", "(X,Y)", "()",
                                "(1..X)", "(1;2)", "-c", "_"])

    def small(self):
        return self.rng.choice(["0", "1", "2", "3", "-1", "-2", "X", "Y", "(X-Y)", "(Y+1)", "(0-2)", "(1-1)"])

    def term(self, depth):
        rng = self.rng
        if depth <= 0 or rng.random() < 0.15:
            return self.leaf()
        k = rng.random()
        if k < 0.08:
            return f"-({self.term(depth - 1)})"
        if k < 0.14:
            return f"|{self.term(depth - 1)}|"
        if k < 0.17:
            return f"~({self.term(depth - 1)})"
        op = rng.choice(["+", "+", "-", "-", "*", "*", "/", "/", "\\", "\\", "**", "+", "-", "*", "/", "\\", "**",
                         "&", "?", "^"])
        lhs = self.term(depth - 1)
        if op == "**":
            rhs = self.small()
        elif op in ("/", "\\") and rng.random() < 0.06:
            rhs = rng.choice(["0", "(1-1)", "(X-X)", "(Y*0)", "(2*X-X-X)"])
        else:
            rhs = self.term(depth - 1)
        return f"(({lhs}){op}({rhs}))"


HAND_TERMS = ["X", "1", "-1", "c", "-c", '"s"', "#inf", "#sup", "f(X)", "c()", "-X", "~X", "|X|", "X+Y", "X-Y", "X*Y",
              "X/Y", "X\\Y", "X**Y", "X&Y", "X?Y", "X^Y", "1..X", "(1;2)", "(X,Y)", "7/2", "-7/2", "(-7)/2", "7/(-2)",
              "7/0", "7\\0", "-7\\2", "7\\(-2)", "X\\0", "X/0", "0**(-1)", "2**(-1)", "0**0", "X/X", "(2*X+1)/2",
              "@f(X)", "@f()", "f()", "-f()", "- -X", 'X+"s"', "X+f(Y)", "f(Y)+Z", "(Z/0)+f(Y)", "(X&Y)+Z", "2**10",
              "|-3|", "2147483647+1", "c**2", "(X\\Y)\\(Y-Y)", "(X+c)*(Y-d)", "X\\(0-2)", "(0-X)\\3", "(0-X)/3",
              "X/(0-3)", "(X*Y)/Y", "(X*2)\\2", "((X/2)*2)+(X\\2)", "X**2**2", "(X**2)**Y", "|X-Y|*|Y-X|", "()",
              "(X-X)\\(X-X)", "X\\(Y*0)", "f(X)\\0", "(X\\0)+f(Y)", "f(Y)+(X\\0)", "(X&Y)\\0", "X\\(X&Y)"]


def parse_term(txt):
    prg = try_parse(f"p({txt}).")
    if prg is None or len(prg) < 2:
        return None
    try:
        args = prg[1].head.atom.symbol.arguments
    except Exception:  # pylint: disable=broad-except
        return None
    if len(args) != 1:
        return None
    return args[0]


def input_terms(inputs):
    from ngo.utils.ast import collect_ast
    seen = set()
    for inp in inputs:
        prg = try_parse(inp["text"])
        if prg is None:
            continue
        for stm in prg:
            if stm.ast_type not in (ASTType.Rule, ASTType.Minimize):
                continue
            for kind in ("BinaryOperation", "UnaryOperation"):
                for t in collect_ast(stm, kind):
                    s = str(t)
                    if s not in seen and len(s) < 200:
                        seen.add(s)
                        yield t, inp["text"]


class Ast2SympyAccepts:
    name = "math_ast2sympy_accepts"
    imports = ["Model.Math"]
    source = "ngo.math_simplification.Goebner._to_sympy_term / Goebner.ast2sympy_op"

    def cases(self, inputs, rng):
        from clingo.ast import ComparisonOperator as CO
        from clingo.ast import SymbolicTerm
        import clingo
        from sympy import Integer, Rational
        from ngo.math_simplification import Goebner
        from ngo.utils.ast import LOC
        logging.disable(logging.CRITICAL)
        for op, cname in ser.CMP.items():
            yield Case(f"srel_eqb (ast2sympy_op {cname}) {Goebner.ast2sympy_op[op].__name__}",
                       {"fn": "ast2sympy_op", "op": str(op), "observed": Goebner.ast2sympy_op[op].__name__})
        assert len(Goebner.ast2sympy_op) == len(list(CO))
        terms = []
        for s in HAND_TERMS:
            t = parse_term(s)
            if t is not None:
                terms.append((t, s))
        # a negative constant as SymbolicTerm cannot be parsed (the parser builds a UnaryOperation)
        terms.append((SymbolicTerm(LOC, clingo.Function("c", [], False)), "SymbolicTerm(-c)"))
        tg = TermGen(rng)
        for _ in range(2500):
            s = tg.term(rng.choice([1, 2, 2, 3, 3]))
            t = parse_term(s)
            if t is not None:
                terms.append((t, s))
        terms += list(input_terms(inputs))
        seen = set()
        for t, origin in terms:
            try:
                st = ser.term(t)
            except ser.Unsupported:
                continue
            if st in seen:
                continue
            seen.add(st)
            gb = Goebner()
            vals = []
            nontrivial = False
            try:
                r = gb._to_sympy_term(t)  # pylint: disable=protected-access
                fo = ser.lst([skey(k) for k in gb._fo_vars])  # pylint: disable=protected-access
                co = ser.lst([skey(k) for k in gb._constants])  # pylint: disable=protected-access
                obs = f"(Ok ({ser.b(r is not None)}, {fo}, {co}))"
                shown = str(r)
                if r is not None and not _symbolic_divisor(t):
                    syms = sorted(r.free_symbols, key=lambda s: s.name)
                    names = sorted({s.name for s in syms} | {k.name for k in gb._fo_vars}  # pylint: disable=protected-access
                                   | {k.name for k in gb._constants})  # pylint: disable=protected-access
                    for _ in range(3):
                        asg = {n: rng.randint(-4, 5) for n in names}
                        try:
                            # xreplace rebuilds bottom-up (evaluating); sequential .subs() is unsound on nested Mod
                            # in sympy 1.12: Mod(Mod(4, Y*Z), Y + n**X).subs({X: 4, Y: 4, Z: 5, n: 2}) gives -16
                            v = r.xreplace({s: Integer(asg[s.name]) for s in syms})
                            if v.is_Rational:
                                v = Rational(v)
                                val = f"(Some ({ser.z(int(v.p))}, {int(v.q)}%positive))"
                                nontrivial = True
                            else:
                                val = "None"
                        except Exception:  # pylint: disable=broad-except
                            val = "None"
                        pairs = ser.lst([f"({ser.q(n)}, {ser.z(v)})" for n, v in asg.items()])
                        vals.append(f"({pairs}, {val})")
            except RecursionError:
                # sympy 1.12 bug (e.g. `Z \\ ((Z \\ -7)**3)`, `((Z-3)*(X \\ -2))**3`): not a property of the glue, the
                # model cannot predict it; the exception escapes ngo.optimize (reported as a finding)
                continue
            except Exception as ex:  # pylint: disable=broad-except
                obs = ser.result_raise(ex)
                shown = type(ex).__name__
                nontrivial = True
            yield Case(f"chk_to_sympy_term {st} {obs} {ser.lst(vals)}",
                       {"fn": "_to_sympy_term", "term": str(t), "origin": origin[:300], "observed": shown},
                       nontrivial=nontrivial)


class Ast2SympyFragment:
    """share of terms on which the model of _to_sympy_term answers OutOfFragment (expected: none of them)"""
    name = "math_ast2sympy_fragment"
    imports = ["Model.Math"]
    source = "Model/Math.v to_sympy_term: fragment census (every case must be inside the fragment)"

    def cases(self, inputs, rng):
        fam = Ast2SympyAccepts()
        for c in fam.cases(inputs, rng):
            if c.desc.get("fn") != "_to_sympy_term":
                continue
            st = c.expr[len("chk_to_sympy_term "):]
            # the term is the first balanced parenthesised group
            depth = 0
            end = 0
            instr = False
            for i, ch in enumerate(st):
                if ch == '"':
                    instr = not instr
                if instr:
                    continue
                if ch == "(":
                    depth += 1
                elif ch == ")":
                    depth -= 1
                    if depth == 0:
                        end = i + 1
                        break
            if end == 0:
                continue
            yield Case(f"to_sympy_in_fragment {st[:end]}", dict(c.desc, fn="fragment"), nontrivial=c.nontrivial)


FAMILIES = [Sympy2Ast(), Ast2SympyAccepts()]
# developer census (a "mismatch" of this family is a term outside the model's fragment, not a disagreement)
import os  # noqa: E402  pylint: disable=wrong-import-position
if os.environ.get("MATH_FRAGMENT"):
    FAMILIES.append(Ast2SympyFragment())
