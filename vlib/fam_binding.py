"""correspondence families for coq/Model/Binding.v (variable-binding analysis of ngo/utils/ast.py:403-682)

Sets of Variable ASTs are observed as sorted lists of variable names; the Coq side compares modulo
order (vset_eqb).  An exception raised by the real function is an observed result (Raise "<class>").
The chk_ functions are strict (OutOfFragment counts as a mismatch); inputs outside the model's
fragment (theory atoms below the top level of a body / head) are skipped here and counted in SKIPPED.
"""
from clingo.ast import AST, ASTType, Location, Position, Variable

from . import ser
from .corr import Case
from .inputs import try_parse

IMPORTS = ["Model.Corr", "Model.Binding"]
LOC = Location(Position("<v>", 1, 1), Position("<v>", 1, 1))
SKIPPED = {"binding_body": 0, "binding_head": 0, "binding_misc": 0}
TERM_TYPES = (ASTType.Variable, ASTType.SymbolicTerm, ASTType.UnaryOperation, ASTType.BinaryOperation,
              ASTType.Interval, ASTType.Function, ASTType.Pool)


# ------------------------------------------------------------------------------------------------
# helpers (local to this file)
# ------------------------------------------------------------------------------------------------
def walk(node):
    """all AST nodes below node (pre-order, attributes in declaration order)"""
    yield node
    for k in node.child_keys:
        v = getattr(node, k)
        if v is None:
            continue
        if isinstance(v, AST):
            yield from walk(v)
        else:
            try:
                it = list(v)
            except TypeError:
                continue
            for x in it:
                if isinstance(x, AST):
                    yield from walk(x)


def has_theory(node):
    return any(n.ast_type == ASTType.TheoryAtom for n in walk(node))


def var_names(node):
    out = []
    for n in walk(node):
        if n.ast_type == ASTType.Variable and n.name not in out:
            out.append(n.name)
    return out


def mkvars(names):
    return {Variable(LOC, n) for n in names}


def names(s):
    return sorted({v.name for v in s})


def vs(s):
    """Coq text of a set of Variable ASTs / iterable of names"""
    return ser.strlist(sorted({(v if isinstance(v, str) else v.name) for v in s}))


def pair(r):
    return f"({vs(r[0])}, {vs(r[1])})"


def observe(fn, conv):
    """run fn, return (coq text of result, json-able)"""
    try:
        r = fn()
    except Exception as e:  # pylint: disable=broad-except
        return ser.result_raise(e), "raise " + type(e).__name__, False
    text, js, nontrivial = conv(r)
    return ser.result_ok(text), js, nontrivial


def conv_pair(r):
    return pair(r), [names(r[0]), names(r[1])], bool(r[0] or r[1])


def conv_set(r):
    return vs(r), names(r), bool(r)


def conv_bool(r):
    return ser.b(r), bool(r), bool(r)


def body_in_fragment(body):
    """theory atoms are only allowed as the atom of a top-level body literal"""
    for x in body:
        if x.ast_type == ASTType.Literal and x.atom.ast_type == ASTType.TheoryAtom:
            continue
        if has_theory(x):
            return False
    return True


def head_in_fragment(head):
    return head.ast_type == ASTType.TheoryAtom or not has_theory(head)


def rand_subset(rng, xs, p=0.5):
    return [x for x in xs if rng.random() < p]


def rand_names(rng, pool, extra=("Q9", "_")):
    s = rand_subset(rng, pool, rng.choice([0.2, 0.5, 0.8]))
    if rng.random() < 0.15:
        e = rng.choice(extra)
        if e not in s:
            s.append(e)
    return s


def statements(inputs):
    seen = set()
    for inp in inputs:
        prg = try_parse(inp["text"])
        if prg is None:
            continue
        for s in prg:
            k = str(s)
            if k in seen:
                continue
            seen.add(k)
            yield s


def bodies(inputs):
    """(statement, body list) of every statement that has a body"""
    for s in statements(inputs):
        if "body" in s.keys():
            body = list(s.body)
            try:
                ser.body(body)
            except ser.Unsupported:
                continue
            yield s, body


def opt_set(names_):
    return "None" if names_ is None else f"(Some {ser.strlist(names_)})"


# ------------------------------------------------------------------------------------------------
class BindingBody:
    name = "binding_body"
    imports = IMPORTS
    source = ("ngo.utils.ast.collect_binding_information_body (with prebound) / collect_bound_variables / "
              "global_vars_inside_body")

    def cases(self, inputs, rng):
        from ngo.utils.ast import collect_binding_information_body, collect_bound_variables, global_vars_inside_body

        def one(body, prebound, what):
            if not body_in_fragment(body):
                SKIPPED[self.name] += 1
                return None
            t = ser.body(body)
            pre = None if prebound is None else mkvars(prebound)
            obs, js, nt = observe(lambda: collect_binding_information_body(body, pre) if pre is not None
                                  else collect_binding_information_body(body), conv_pair)
            return Case(f"chk_binding (collect_binding_information_body {t} {opt_set(prebound)}) {obs}",
                        {"fn": "collect_binding_information_body", "variant": what,
                         "stmt": "; ".join(map(str, body)), "prebound": prebound, "observed": js}, nontrivial=nt)

        for stm, body in bodies(inputs):
            allv = var_names(stm)
            out = [one(body, None, "full")]
            if body_in_fragment(body):
                t = ser.body(body)
                obs, js, nt = observe(lambda: collect_bound_variables(body), conv_set)
                out.append(Case(f"chk_vset (collect_bound_variables {t}) {obs}",
                                {"fn": "collect_bound_variables", "stmt": "; ".join(map(str, body)), "observed": js},
                                nontrivial=nt))
                obs, js, nt = observe(lambda: global_vars_inside_body(body), conv_set)
                out.append(Case(f"chk_vset (global_vars_inside_body {t}) {obs}",
                                {"fn": "global_vars_inside_body", "stmt": "; ".join(map(str, body)), "observed": js},
                                nontrivial=nt))
            out.append(one(body, [], "prebound-empty"))
            if allv:
                for _ in range(2):
                    out.append(one(body, rand_names(rng, allv), "prebound"))
            if len(body) >= 2:
                for _ in range(2):
                    sub = rand_subset(rng, body, rng.choice([0.4, 0.7]))
                    rng.shuffle(sub)
                    out.append(one(sub, None, "sublist"))
                perm = list(body)
                rng.shuffle(perm)
                out.append(one(perm, None, "permutation"))
                out.append(one(list(reversed(body)), rand_names(rng, allv) if allv else None, "reversed+prebound"))
                if len(body) <= 3:
                    out.append(one(body + body, None, "doubled"))
            for c in out:
                if c is not None:
                    yield c


class BindingHead:
    name = "binding_head"
    imports = IMPORTS
    source = "ngo.utils.ast.collect_binding_information_head / global_vars_inside_head"

    def cases(self, inputs, rng):
        from ngo.utils.ast import collect_binding_information_head, global_vars_inside_head

        def one(head, body, what):
            if not body_in_fragment(body) or not head_in_fragment(head):
                SKIPPED[self.name] += 1
                return None
            try:
                th, tb = ser.head(head), ser.body(body)
            except ser.Unsupported:
                return None
            obs, js, nt = observe(lambda: collect_binding_information_head(head, body), conv_pair)
            return Case(f"chk_binding (collect_binding_information_head {th} {tb}) {obs}",
                        {"fn": "collect_binding_information_head", "variant": what,
                         "stmt": f"{head} :- {'; '.join(map(str, body))}.", "observed": js}, nontrivial=nt)

        rules = [s for s in statements(inputs) if s.ast_type == ASTType.Rule]
        allbodies = [list(s.body) for s in rules if s.body]
        for stm in rules:
            head, body = stm.head, list(stm.body)
            try:
                ser.body(body)
                th = ser.head(head)
            except ser.Unsupported:
                continue
            out = [one(head, body, "rule"), one(head, [], "empty-body")]
            if head_in_fragment(head):
                obs, js, nt = observe(lambda: global_vars_inside_head(head), conv_set)
                out.append(Case(f"chk_vset (global_vars_inside_head {th}) {obs}",
                                {"fn": "global_vars_inside_head", "stmt": str(head), "observed": js}, nontrivial=nt))
            if len(body) >= 2:
                sub = rand_subset(rng, body, 0.5)
                rng.shuffle(sub)
                out.append(one(head, sub, "sub-body"))
            if head.ast_type != ASTType.Literal or rng.random() < 0.3:
                # a foreign body binds other subsets of the head's variables
                other = rng.choice(allbodies) if allbodies else []
                try:
                    ser.body(other)
                    out.append(one(head, other, "foreign-body"))
                except ser.Unsupported:
                    pass
            for c in out:
                if c is not None:
                    yield c


class BindingMisc:
    name = "binding_misc"
    imports = IMPORTS
    source = ("ngo.utils.ast._collect_binding_information_conditions / _simple_literal / _from_equal / "
              "_from_comparison / _from_comparisons / comparison2comparisonlist / conditions_of_body_agg / "
              "has_unsafe_operation / has_interval")

    def cases(self, inputs, rng):
        # pylint: disable=too-many-locals,too-many-branches,too-many-statements
        from ngo.utils.ast import (_collect_binding_information_conditions, _collect_binding_information_from_comparison,
                                   _collect_binding_information_from_comparisons,
                                   _collect_binding_information_from_equal,
                                   _collect_binding_information_simple_literal, comparison2comparisonlist,
                                   conditions_of_body_agg, has_interval, has_unsafe_operation)
        for stm in statements(inputs):
            allv = var_names(stm)
            nodes = list(walk(stm))
            # ---- condition lists of aggregates / conditional literals
            condlists = []
            for n in nodes:
                if n.ast_type in (ASTType.ConditionalLiteral, ASTType.BodyAggregateElement):
                    condlists.append(list(n.condition))
            for conds in condlists:
                if any(has_theory(c) for c in conds):
                    SKIPPED[self.name] += 1
                    continue
                try:
                    t = ser.lst([ser.lit(c) for c in conds])
                except ser.Unsupported:
                    continue
                variants = [[]] + [rand_names(rng, allv) for _ in range(2 if allv else 0)]
                for ab in variants:
                    inp = mkvars(ab)
                    obs, js, nt = observe(lambda: _collect_binding_information_conditions(conds, inp), conv_pair)
                    # the input set must not have been modified
                    yield Case(f"chk_binding_after (collect_binding_information_conditions {t} {ser.strlist(ab)}) "
                               f"(Ok {ser.strlist(ab)}) {obs} {vs(inp)}",
                               {"fn": "_collect_binding_information_conditions", "stmt": ", ".join(map(str, conds)),
                                "already_bound": ab, "observed": js}, nontrivial=nt)
                    if len(conds) >= 2:
                        perm = list(conds)
                        rng.shuffle(perm)
                        tp = ser.lst([ser.lit(c) for c in perm])
                        obs, js, nt = observe(lambda: _collect_binding_information_conditions(perm, mkvars(ab)),
                                              conv_pair)
                        yield Case(f"chk_binding (collect_binding_information_conditions {tp} {ser.strlist(ab)}) {obs}",
                                   {"fn": "_collect_binding_information_conditions", "variant": "permutation",
                                    "stmt": ", ".join(map(str, perm)), "already_bound": ab, "observed": js},
                                   nontrivial=nt)
            # ---- literals
            for n in nodes:
                if n.ast_type != ASTType.Literal:
                    continue
                if has_theory(n):
                    if n.atom.ast_type != ASTType.TheoryAtom:
                        SKIPPED[self.name] += 1
                        continue
                try:
                    t = ser.lit(n)
                except ser.Unsupported:
                    continue
                if not has_theory(n):
                    obs, js, nt = observe(lambda: has_unsafe_operation(n), conv_bool)
                    yield Case(f"chk_bool (has_unsafe_operation_lit {t}) {obs}",
                               {"fn": "has_unsafe_operation", "stmt": str(n), "observed": js}, nontrivial=nt)
                    obs, js, nt = observe(lambda: has_interval(n), conv_bool)
                    yield Case(f"chk_bool (has_interval_lit {t}) {obs}",
                               {"fn": "has_interval", "stmt": str(n), "observed": js}, nontrivial=nt)
                else:
                    SKIPPED[self.name] += 1
                # conditions_of_body_agg on the atom
                ta = ser.atom(n.atom)
                try:
                    r = conditions_of_body_agg(n.atom)
                    yield Case(f"chk_lits (conditions_of_body_agg {ta}) {ser.lst([ser.lit(c) for c in r])}",
                               {"fn": "conditions_of_body_agg", "stmt": str(n.atom), "observed": [str(c) for c in r]},
                               nontrivial=bool(r))
                except ser.Unsupported:
                    pass
                # simple literal
                for _ in range(2 if allv else 1):
                    ib, iu = rand_names(rng, allv), rand_names(rng, allv)
                    sb, su = mkvars(ib), mkvars(iu)
                    obs, js, nt = observe(lambda: _collect_binding_information_simple_literal(n, sb, su), conv_pair)
                    yield Case(f"chk_binding_after (Ok (simple_literal {t} {ser.strlist(ib)} {ser.strlist(iu)})) "
                               f"(Ok {ser.strlist(ib)}) {obs} {vs(sb)}",
                               {"fn": "_collect_binding_information_simple_literal", "stmt": str(n), "in_bound": ib,
                                "in_unbound": iu, "observed": js}, nontrivial=nt)
                # comparison helpers (non-comparisons hit the assertions)
                obs, js, nt = observe(lambda: comparison2comparisonlist(n.atom), lambda r: (
                    ser.lst([f"({ser.term(a)}, {ser.CMP[o]}, {ser.term(b)})" for a, o, b in r]),
                    [f"{a} {o} {b}" for a, o, b in r], len(r) > 1))
                yield Case(f"chk_cmplist (comparison2comparisonlist {ta}) {obs}",
                           {"fn": "comparison2comparisonlist", "stmt": str(n.atom), "observed": js}, nontrivial=nt)
                if n.atom.ast_type == ASTType.Comparison or rng.random() < 0.1:
                    for _ in range(2 if allv else 1):
                        ib = rand_names(rng, allv)
                        sb = mkvars(ib)
                        obs, js, nt = observe(lambda: _collect_binding_information_from_comparison(n, sb), conv_pair)
                        yield Case(f"chk_binding_after (from_comparison {t} {ser.strlist(ib)}) (Ok {ser.strlist(ib)}) "
                                   f"{obs} {vs(sb)}",
                                   {"fn": "_collect_binding_information_from_comparison", "stmt": str(n),
                                    "input_bound": ib, "observed": js}, nontrivial=nt)
                if n.atom.ast_type == ASTType.Comparison:
                    # every adjacent pair, whatever the operator (the function itself does not look at it)
                    lhs = n.atom.term
                    for g in n.atom.guards:
                        rhs = g.term
                        tl, tr = ser.term(lhs), ser.term(rhs)
                        pv = var_names(lhs) + [v for v in var_names(rhs) if v not in var_names(lhs)]
                        for pool in ([], pv, allv):
                            ib = rand_names(rng, pool) if pool else []
                            sb = mkvars(ib)
                            l_, r_ = lhs, rhs
                            obs, js, nt = observe(lambda: _collect_binding_information_from_equal(l_, r_, sb), conv_pair)
                            yield Case(f"chk_binding_after (Ok (from_equal {tl} {tr} {ser.strlist(ib)})) "
                                       f"(Ok (from_equal_input_after {tl} {tr} {ser.strlist(ib)})) {obs} {vs(sb)}",
                                       {"fn": "_collect_binding_information_from_equal", "stmt": f"{lhs} = {rhs}",
                                        "input_bound": ib, "observed": js, "input_after": names(sb)},
                                       nontrivial=names(sb) != sorted(set(ib)))
                        lhs = rhs
            # ---- terms
            for n in nodes:
                if n.ast_type not in TERM_TYPES:
                    continue
                try:
                    t = ser.term(n)
                except ser.Unsupported:
                    continue
                obs, js, nt = observe(lambda: has_unsafe_operation(n), conv_bool)
                yield Case(f"chk_bool (Ok (has_unsafe_operation {t})) {obs}",
                           {"fn": "has_unsafe_operation", "stmt": str(n), "observed": js}, nontrivial=nt)
                obs, js, nt = observe(lambda: has_interval(n), conv_bool)
                yield Case(f"chk_bool (Ok (has_interval {t})) {obs}",
                           {"fn": "has_interval", "stmt": str(n), "observed": js}, nontrivial=nt)
            # ---- from_comparisons on the body (and a shuffled body)
            if "body" in stm.keys() and stm.body:
                body = list(stm.body)
                try:
                    ser.body(body)
                except ser.Unsupported:
                    continue
                variants = [body]
                if len(body) >= 2:
                    perm = list(body)
                    rng.shuffle(perm)
                    variants.append(perm)
                for bd in variants:
                    tb = ser.body(bd)
                    for ib in [[]] + ([rand_names(rng, allv)] if allv else []):
                        sb = mkvars(ib)
                        obs, js, nt = observe(lambda: _collect_binding_information_from_comparisons(bd, sb), conv_pair)
                        yield Case(f"chk_binding_after (collect_binding_information_from_comparisons {tb} {ser.strlist(ib)}) "
                                   f"(from_comparisons_input_after {tb} {ser.strlist(ib)}) {obs} {vs(sb)}",
                                   {"fn": "_collect_binding_information_from_comparisons",
                                    "stmt": "; ".join(map(str, bd)), "input_bound": ib, "observed": js,
                                    "input_after": names(sb)}, nontrivial=nt)


FAMILIES = [BindingBody(), BindingHead(), BindingMisc()]
