"""correspondence family for ngo.utils.parser.PredicateList (Model/PredList.v)"""
from . import ser
from .corr import Case

ALPHA = ["a", "p", "q", "e", "_", ",", ",", "/", "/", " ", "0", "1", "2", "3", "9", "+", "-", "\t", "x1"]
FIXED = ["auto", "", "a/1", "p/1,p/2", "p/2, p/1", "e/2,e/1", "zero/0, another/14", "a", "a/", "/1", "a/b", "a/1/2",
         "a/1,", ",a/1", " a /1", "a/ 1", "a/1 ", "a / 1 , b / 2", "a/-1", "a/+1", "a/1_0", "a/_1", "a/1_", "a/1__0",
         "a/--1", "a/+-1", "a/ +1 ", "a/0x1", "a/1.0", "auto,a/1", "auto/1", " auto", "a/1,a/1", "a/1,b/1,a/2,b/2,a/1",
         "p/1,q/1,p/3,p/2,q/0", "a/01", "a/00", "a /1,a/1", "a/1\t", "a/\t1", ",", "/", "a//1", "p/1,,p/2"]


def observe(values):
    from argparse import ArgumentTypeError, Namespace
    from ngo.utils.parser import PredicateList
    act = PredicateList(option_strings=["--input-predicates"], dest="x")
    ns = Namespace()
    try:
        act(None, ns, values)
    except ArgumentTypeError:
        return "None", None
    v = ns.x
    if v == "auto":
        return "(Some None)", "auto"
    return ("(Some (Some " + ser.lst([f"({ser.q(p.name)}, {ser.z(p.arity)})" for p in v]) + "))",
            [[p.name, p.arity] for p in v])


class PredicateListFam:
    name = "predicate_list"
    imports = ["Gen.Cli", "Model.PredList"]
    source = "ngo.utils.parser.PredicateList.__call__(parser, namespace, values)"

    def cases(self, inputs, rng):
        vals = list(FIXED)
        for _ in range(1500):
            k = rng.randint(1, 4)
            parts = []
            for _ in range(k):
                r = rng.random()
                if r < 0.7:
                    name = rng.choice(["a", "p", "q", "e", "long_name", " p", "p "])
                    ar = rng.choice(["0", "1", "2", "3", "14", "-1", "+2", " 1", "1 ", "1_0", "x", "", "1/2"])
                    parts.append(f"{name}/{ar}")
                else:
                    parts.append("".join(rng.choice(ALPHA) for _ in range(rng.randint(0, 6))))
            vals.append(rng.choice([",", ",", ", ", " ,"]).join(parts))
        seen = set()
        for v in vals:
            if v in seen:
                continue
            seen.add(v)
            obs, js = observe(v)
            names = [x.split("/")[0].strip(" ") for x in v.split(",")]
            yield Case(f"chk_predlist (parse_predicate_list {ser.q(v)}) {obs}",
                       {"fn": "PredicateList", "values": v, "observed": js},
                       nontrivial=js is not None and js != "auto" and len(set(names)) < len(names))


FAMILIES = [PredicateListFam()]
