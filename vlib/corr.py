"""correspondence driver: runs the real ngo function and the Coq model on the same inputs.

A correspondence *family* is a Python object with
  name       : str
  imports    : Coq modules the generated shard needs
  cases(inputs, rng) -> iterable of Case(expr, desc, nontrivial)
where `expr` is a Coq expression of type bool that is true iff the model agrees with what the
real function returned (the observed result is embedded in the expression).
"""
import concurrent.futures
import os
import re
import shutil
import time

from .common import CASES, COQ, NCPU, sh

SHARD = 300


class CaseTimeout(BaseException):
    """raised by case_limit (BaseException: not swallowed by the `except Exception` around the real call)"""


class case_limit:
    """wall-clock limit around ONE call of the real code inside a family (junk inputs can send the real
    pipeline into very long or endless loops; such a case is skipped, not compared). Re-arms the family deadline
    of vlib/runner.py, which uses the same timer."""

    def __init__(self, seconds):
        self.seconds = seconds

    def _raise(self, *_):
        raise CaseTimeout()

    def __enter__(self):
        import signal
        self.old = signal.signal(signal.SIGALRM, self._raise)
        self.t0 = time.time()
        self.outer = signal.setitimer(signal.ITIMER_REAL, self.seconds)
        return self

    def __exit__(self, *exc):
        import signal
        signal.setitimer(signal.ITIMER_REAL, 0)
        signal.signal(signal.SIGALRM, self.old)
        rem, itv = self.outer
        if rem > 0:
            signal.setitimer(signal.ITIMER_REAL, max(0.05, rem - (time.time() - self.t0)), itv)
        return False


class Case:
    def __init__(self, expr, desc, nontrivial=True, key=None):
        self.expr = expr
        self.desc = desc            # json-able description used for replay / samples
        self.nontrivial = nontrivial
        self.key = key if key is not None else expr


class FamilyResult:
    def __init__(self, name):
        self.name = name
        self.cases = 0
        self.distinct_nontrivial = 0
        self.skipped = 0
        self.mismatches = []        # list of Case
        self.errors = []            # coqc failures (strings)
        self.samples = []
        self.wall = 0.0
        self.tags = {}

    @property
    def ok(self):
        return not self.mismatches and not self.errors and self.cases > 0


PRELUDE = """From Coq Require Import List String ZArith Bool.
From NGO Require Import Syntax.Ast {imports}.
Import ListNotations.
Open Scope string_scope. Open Scope list_scope.
Fixpoint bad_idx (n: nat) (l: list bool) : list nat :=
  match l with [] => [] | b :: r => (if b then [] else [n]) ++ bad_idx (S n) r end.
"""


def _run_shard(args):
    fam, k, exprs, imports, tag = args
    name = f"c_{fam}_{tag}_{k}"
    path = os.path.join(CASES, name + ".v")
    with open(path, "w", encoding="utf-8") as f:
        f.write(PRELUDE.format(imports=" ".join(imports)))
        f.write("Definition cases : list bool := [\n" + ";\n".join(exprs) + "].\n")
        f.write("Eval vm_compute in (bad_idx 0 cases).\n")
    rc, out, err = sh(["timeout", "900", "coqc", "-Q", ".", "NGO", "-Q", "_cases", "NGOCases", path], cwd=COQ,
                      timeout=1000)
    if rc != 0:
        msg = (err or out)[-1500:]
        m = re.search(r'line (\d+), characters (\d+)-(\d+)', msg)
        if m:
            try:
                ln = open(path, encoding="utf-8").read().split("\n")[int(m.group(1)) - 1]
                c = int(m.group(2))
                msg += "\nOFFENDING TEXT: ..." + ln[max(0, c - 300):c + 200]
            except Exception:  # pylint: disable=broad-except
                pass
        return k, None, msg
    m = re.search(r"=\s*\[(.*?)\]\s*:\s*list nat", out, re.S)
    if not m:
        return k, None, "unparsable coqc output: " + out[-500:]
    idx = [int(x) for x in re.findall(r"\d+", m.group(1))]
    return k, idx, None


def run_family(fam, cases, shard=SHARD, keep=False):
    """cases: list of Case. returns FamilyResult"""
    t0 = time.time()
    res = FamilyResult(fam.name)
    os.makedirs(CASES, exist_ok=True)
    seen = set()
    uniq = []
    for c in cases:
        if c.key in seen:
            continue
        seen.add(c.key)
        uniq.append(c)
    res.cases = len(uniq)
    res.distinct_nontrivial = sum(1 for c in uniq if c.nontrivial)
    res.samples = [c.desc for c in uniq if c.nontrivial][:3] or [c.desc for c in uniq][:3]
    shards = [uniq[i:i + shard] for i in range(0, len(uniq), shard)]
    tag = f"{os.getpid()}x{int(time.time() * 1000) % 100000000}"   # concurrent checks may run the same family
    jobs = [(fam.name, k, [c.expr for c in sh_], fam.imports, tag) for k, sh_ in enumerate(shards)]
    with concurrent.futures.ThreadPoolExecutor(max_workers=NCPU) as ex:
        for k, idx, err in ex.map(_run_shard, jobs):
            if err is not None:
                res.errors.append(f"shard {k}: {err}")
                continue
            for i in idx:
                res.mismatches.append(shards[k][i])
    if not keep:
        for f in os.listdir(CASES):
            if f.startswith(f"c_{fam.name}_{tag}_") or f.startswith(f".c_{fam.name}_{tag}_"):
                try:
                    os.remove(os.path.join(CASES, f))
                except OSError:
                    pass
    res.wall = time.time() - t0
    return res


def cleanup_cases():
    shutil.rmtree(CASES, ignore_errors=True)
