"""Property oracles used (i) to replay known findings, (ii) as support over the fixed corpus and
(iii) to search for a concrete failing input after an obligation broke.  They are independent of
the Coq models and of ngo's own helper functions.  No verdict of "holds" rests on them."""
import contextlib
import clingo
import io
import logging
import os
import subprocess
import sys

from clingo.ast import AST, ASTSequence, ASTType, Sign, UnaryOperator

from .common import PY, env
from .inputs import parse, try_parse


# ---------------------------------------------------------------------------------------------
# independent AST walking
# ---------------------------------------------------------------------------------------------
def walk(x):
    """pre-order generator over all AST nodes below x (inclusive)"""
    if isinstance(x, AST):
        yield x
        if x.ast_type == ASTType.TheoryAtom:
            return      # theory atoms are outside the properties' quantifier (and outside ngo's target fragment)
        for k in x.keys():
            if k == "location":
                continue
            yield from walk(getattr(x, k))
    elif isinstance(x, (ASTSequence, list, tuple)):
        for y in x:
            yield from walk(y)


def atom_preds(symbolic_atom):
    """(name, arity) of a SymbolicAtom node; a pool contributes each alternative; classically
    negated atoms and non-function symbols contribute nothing (Predicate cannot express them)"""
    sym = symbolic_atom.symbol
    alts = sym.arguments if sym.ast_type == ASTType.Pool else [sym]
    out = []
    for a in alts:
        if a.ast_type == ASTType.Function:
            out.append((a.name, len(a.arguments)))
    return out


def occurring(node):
    res = set()
    for n in walk(node):
        if n.ast_type == ASTType.SymbolicAtom:
            res.update(atom_preds(n))
    return res


def positive_head_atoms(stm):
    res = set()
    if stm.ast_type != ASTType.Rule:
        return res
    h = stm.head
    lits = []
    if h.ast_type == ASTType.Literal:
        lits.append(h)
    elif h.ast_type in (ASTType.Aggregate, ASTType.Disjunction):
        lits.extend(e.literal for e in h.elements)
    elif h.ast_type == ASTType.HeadAggregate:
        lits.extend(e.condition.literal for e in h.elements)
    for l in lits:
        if l.ast_type == ASTType.Literal and l.sign == Sign.NoSign and l.atom.ast_type == ASTType.SymbolicAtom:
            res.update(atom_preds(l.atom))
    return res


# ---------------------------------------------------------------------------------------------
# C18
# ---------------------------------------------------------------------------------------------
def c18_check(prg):
    """returns None if the property holds for prg, else a description of the failure"""
    from ngo.utils.ast import Predicate
    from ngo.utils.globals import auto_detect_input, auto_detect_output
    logging.disable(logging.CRITICAL)
    occ = set()
    heads = set()
    for s in prg:
        if s.ast_type in (ASTType.Rule, ASTType.Minimize):
            occ |= occurring(s)
        heads |= positive_head_atoms(s)
    got_in = {(p.name, p.arity) for p in auto_detect_input(prg)}
    missing = sorted((occ - heads) - got_in)
    if missing:
        return {"kind": "input-missing", "missing": [f"{n}/{a}" for n, a in missing]}
    for s in prg:
        if s.ast_type == ASTType.Rule:
            body = occurring(s.body)
            for p in positive_head_atoms(s):
                if p not in body and p in got_in:
                    return {"kind": "input-derived-returned", "pred": f"{p[0]}/{p[1]}", "stmt": str(s)}
    want_out = set()
    for s in prg:
        if s.ast_type == ASTType.ShowSignature:
            want_out.add((s.name, s.arity))
        elif s.ast_type == ASTType.ShowTerm:
            want_out |= occurring(s.body)
    got_out = auto_detect_output(prg)
    if {(p.name, p.arity) for p in got_out} != want_out:
        return {"kind": "output-differs", "want": sorted(f"{n}/{a}" for n, a in want_out),
                "got": [str(p) for p in got_out]}
    if got_out != sorted(set(got_out)):
        return {"kind": "output-not-sorted-set", "got": [str(p) for p in got_out]}
    return None


def c18_oracle(text):
    prg = try_parse(text)
    if prg is None:
        return None
    return c18_check(prg)


def unpooled_text(text):
    prg = try_parse(text)
    if prg is None:
        return text
    out = []
    for s in prg:
        out.extend(str(u) for u in s.unpool())
    return "\n".join(out)


# ---------------------------------------------------------------------------------------------
# C19
# ---------------------------------------------------------------------------------------------
TRAITS = ["cleanup", "unused", "duplication", "symmetry", "minmax_chains", "sum_chains", "math", "inline",
          "projection"]
DOC_DEFAULT = [t for t in TRAITS if t != "duplication"]


def documented_flags(tokens):
    """documented expansion; None = rejected. tokens None = option absent"""
    if tokens is None:
        return {t: t in DOC_DEFAULT for t in TRAITS}
    if "none" in tokens and len(tokens) > 1:
        return None
    if "all" in tokens:
        return {t: True for t in TRAITS}
    en = set(t for t in tokens if t in TRAITS)
    if "default" in tokens:
        en |= set(DOC_DEFAULT)
    return {t: t in en for t in TRAITS}


def parse_predlist(s):
    """documented parsing of name/arity lists; 'auto' and empty handled by the caller"""
    from ngo.utils.ast import Predicate
    res = []
    for part in s.split(","):
        n, a = part.split("/")
        res.append(Predicate(n.strip(" "), int(a)))
    return res


def run_cli(argv, stdin_text, timeout=120):
    r = subprocess.run([PY, "-m", "ngo", *argv], input=stdin_text, capture_output=True, text=True, env=env(),
                       timeout=timeout)
    return r.returncode, r.stdout, r.stderr


def api_output(text, tokens, inp, outp):
    """stdout the documentation promises for this invocation (None if rejected)"""
    from ngo.api import optimize
    from ngo.utils.globals import auto_detect_input, auto_detect_output
    logging.disable(logging.CRITICAL)
    flags = documented_flags(tokens)
    if flags is None:
        return None
    prg = parse(text)
    if inp is None or inp == "auto":
        ip = auto_detect_input(prg)
    elif inp == "":
        ip = []
    else:
        ip = parse_predlist(inp)
    if outp is None or outp == "auto":
        op = auto_detect_output(prg)
    elif outp == "":
        op = []
    else:
        op = parse_predlist(outp)
    res = optimize(prg, ip, op, **flags)
    return "".join(str(s) + "\n" for s in res)


def c19_check(case):
    """case: {text, tokens (list|None), input (str|None), output (str|None), log (str|None)}"""
    argv = []
    if case.get("tokens") is not None:
        argv += ["--enable", *case["tokens"]]
    if case.get("input") is not None:
        argv += ["--input-predicates=" + case["input"]] if case["input"] != "" else ["--input-predicates", ""]
    if case.get("output") is not None:
        argv += ["--output-predicates=" + case["output"]] if case["output"] != "" else ["--output-predicates", ""]
    if case.get("log"):
        argv += ["--log", case["log"]]
    try:
        want = api_output(case["text"], case.get("tokens"), case.get("input"), case.get("output"))
    except Exception as e:  # pylint: disable=broad-except
        return None  # the API itself fails on this program: C03's business, not C19's
    rc, out, err = run_cli(argv, case["text"])
    if want is None:
        if rc == 0 or out != "":
            return {"kind": "invalid-combination-accepted", "argv": argv, "rc": rc, "stdout": out[:300]}
        return None
    if rc != 0:
        return {"kind": "cli-failed", "argv": argv, "rc": rc, "stderr": err[-400:]}
    if out != want:
        return {"kind": "stdout-differs", "argv": argv, "stdout": out[:600], "expected": want[:600]}
    return None


# ---------------------------------------------------------------------------------------------
# C03: optimize returns (no exception / assertion / endless loop)   -- run in a watchdog worker
# ---------------------------------------------------------------------------------------------
def exc_site(exc):
    """innermost frame inside the ngo package: 'module.function' (robust against line shifts)"""
    import traceback
    tb = traceback.extract_tb(exc.__traceback__)
    site = None
    for fr in tb:
        if "/ngo/" in fr.filename.replace("\\", "/"):
            site = fr.filename.replace("\\", "/").split("/ngo/")[-1] + ":" + fr.name
    return site or "outside-ngo"


def c03_check(payload):
    """payload: text, traits, input, output. failure = exception (timeouts are detected by the caller)"""
    from . import asp_oracle
    try:
        asp_oracle.optimize_text(payload["text"], payload.get("traits", []), payload.get("input", "auto"),
                                 payload.get("output", "auto"))
    except Exception as e:  # pylint: disable=broad-except
        return {"kind": "exception", "exc": type(e).__name__, "site": exc_site(e), "message": str(e)[:200]}
    return None


# ---------------------------------------------------------------------------------------------
# C04: result is valid + safe, printed form faithful
# ---------------------------------------------------------------------------------------------
def c04_check(payload):
    import clingo
    from clingo.ast import ProgramBuilder, parse_string
    from . import asp_oracle
    text = payload["text"]
    try:
        asp_oracle.solve(text, "")
    except asp_oracle.GroundError:
        return None            # source not safe / not accepted: outside the quantifier
    except asp_oracle.Skip:
        pass
    try:
        prg, res, ip, op = asp_oracle.optimize_text(text, payload.get("traits", []), payload.get("input", "auto"),
                                                    payload.get("output", "auto"))
    except Exception:  # pylint: disable=broad-except
        return None            # C03's business
    res_text = "\n".join(str(s) for s in res)
    # (1) every statement can be added to a builder and the program grounds
    msgs = []
    ctl = clingo.Control(["-Wno-atom-undefined"], logger=lambda c, m: msgs.append(m), message_limit=20)
    try:
        with ProgramBuilder(ctl) as bld:
            for s in res:
                bld.add(s)
        ctl.ground([("base", [])])
    except RuntimeError as e:
        return {"kind": "ast-does-not-ground", "error": str(e)[:200], "messages": msgs[:3], "result": res_text[:1200]}
    # (2) printed text parses back to the same text
    for s in res:
        back = []
        try:
            parse_string(str(s), back.append, logger=lambda c, m: None)
        except RuntimeError as e:
            return {"kind": "text-does-not-parse", "stmt": str(s)[:300], "error": str(e)[:200]}
        if back and back[0].ast_type == ASTType.Program and str(back[0]) == "#program base.":
            back = back[1:]        # parse_string always emits the implicit base program first
        if s.ast_type == ASTType.Program and str(s) == "#program base." and not back:
            continue
        if len(back) != 1 or str(back[0]) != str(s):
            return {"kind": "print-parse-roundtrip", "stmt": str(s)[:300], "back": [str(b)[:300] for b in back][:3]}
    # (3) text grounds, and AST / text give the same answer sets on a few instances
    import random
    rng = random.Random(len(text))
    inp_preds = [(p.name, p.arity) for p in ip]
    for facts in asp_oracle.gen_instances(rng, inp_preds, 3):
        try:
            m_src = asp_oracle.solve(text, facts)
        except (asp_oracle.Skip, asp_oracle.GroundError):
            continue
        try:
            m_txt = asp_oracle.solve(res_text, facts)
            m_ast = asp_oracle.solve(res, facts, via="ast")
        except asp_oracle.GroundError as e:
            return {"kind": "result-does-not-ground", "instance": facts, "error": str(e)[:200],
                    "result": res_text[:1200]}
        except asp_oracle.Skip:
            continue
        if asp_oracle.canon(m_txt, True) != asp_oracle.canon(m_ast, True):
            return {"kind": "ast-vs-text-answer-sets-differ", "instance": facts, "result": res_text[:1200]}
    return None


# ---------------------------------------------------------------------------------------------
# C07 (structural part): pass-through of non-rule statements, no new defining rules for inputs
# ---------------------------------------------------------------------------------------------
def c07_check(payload):
    from . import asp_oracle
    text = payload["text"]
    try:
        prg, res, ip, op = asp_oracle.optimize_text(text, payload.get("traits", []), payload.get("input", "auto"),
                                                    payload.get("output", "auto"))
    except Exception:  # pylint: disable=broad-except
        return None
    rule_kinds = (ASTType.Rule, ASTType.Minimize)
    src_other = []
    for s in prg:
        if s.ast_type not in rule_kinds:
            src_other.extend(str(u) for u in s.unpool())
    res_other = [str(s) for s in res if s.ast_type not in rule_kinds]
    if src_other != res_other:
        return {"kind": "non-rule-statements-changed", "source": src_other[:8], "result": res_other[:8]}
    ins = {(p.name, p.arity) for p in ip}
    def head_count(stms):
        cnt = {}
        for s in stms:
            for u in (s.unpool() if s.ast_type in rule_kinds else [s]):
                for p in positive_head_atoms(u):
                    if p in ins:
                        cnt[p] = cnt.get(p, 0) + 1
        return cnt
    a, b = head_count(prg), head_count(res)
    if a != b:
        return {"kind": "input-predicate-heads-changed", "source": {f"{k[0]}/{k[1]}": v for k, v in a.items()},
                "result": {f"{k[0]}/{k[1]}": v for k, v in b.items()}}
    # freshness: an invented predicate never coincides with a source predicate. Renaming every source predicate
    # (prefix "zq": cannot produce a name of the shape ngo generates) must therefore leave the SHAPE of the result
    # unchanged: same number of distinct predicates, same multiset of (arity, defining rules, body occurrences)
    try:
        if any(k in text for k in (";", "&", "#external", "#project", "#heuristic", "#edge", "#defined", "#script")):
            return None         # pools / theory atoms / directives: the renamer does not cover them
        ren = rename_predicates(prg, "zq")
        rip = [type(p)("zq" + p.name, p.arity) for p in ip]
        rop = [type(p)("zq" + p.name, p.arity) for p in op]
        from ngo.api import optimize
        flags = {t: (t in payload.get("traits", [])) for t in asp_oracle.TRAITS}
        res2 = optimize(ren, rip, rop, **flags)
    except Exception:  # pylint: disable=broad-except
        return None
    s1, s2 = shape(res), shape(res2)
    if s1 != s2:
        return {"kind": "result-shape-depends-on-predicate-names", "shape": str(s1)[:300], "shape_renamed": str(s2)[:300],
                "result": "\n".join(str(x) for x in res)[:1200], "result_renamed": "\n".join(str(x) for x in res2)[:1200]}
    return None


def rename_predicates(prg, prefix):
    """every symbolic atom p(..) -> <prefix>p(..); #show p/n likewise (theory atoms untouched)"""
    from clingo.ast import Transformer

    class Ren(Transformer):
        def visit_SymbolicAtom(self, sa):
            sym = sa.symbol
            if sym.ast_type == ASTType.Function:
                return sa.update(symbol=sym.update(name=prefix + sym.name))
            if sym.ast_type == ASTType.SymbolicTerm and sym.symbol.type == clingo.SymbolType.Function \
                    and not sym.symbol.arguments:
                return sa.update(symbol=sym.update(symbol=clingo.Function(prefix + sym.symbol.name, [],
                                                                           sym.symbol.positive)))
            if sym.ast_type == ASTType.UnaryOperation and sym.argument.ast_type == ASTType.Function:
                return sa.update(symbol=sym.update(argument=sym.argument.update(name=prefix + sym.argument.name)))
            return sa

        def visit_ShowSignature(self, st):
            return st.update(name=prefix + st.name) if st.name else st

        def visit_TheoryAtom(self, ta):
            return ta
    r = Ren()
    return [r.visit(s) for s in prg]


def shape(stms):
    """multiset of (arity, #rules with the predicate in a positive head, #occurrences outside heads)"""
    from clingo.ast import Transformer
    heads, uses = {}, {}
    for s in stms:
        hs = positive_head_atoms(s) if s.ast_type in (ASTType.Rule,) else set()
        for h in hs:
            heads[h] = heads.get(h, 0) + 1

        class Cnt(Transformer):
            def visit_SymbolicAtom(self, sa):
                sym = sa.symbol
                if sym.ast_type == ASTType.Function:
                    k = (sym.name, len(sym.arguments))
                    uses[k] = uses.get(k, 0) + 1
                return sa
        if s.ast_type in (ASTType.Rule, ASTType.Minimize):
            Cnt().visit(s)
    keys = set(heads) | set(uses)
    return sorted((k[1], heads.get(k, 0), uses.get(k, 0)) for k in keys)


# ---------------------------------------------------------------------------------------------
# C17 (in-process part): argument untouched, repeatable, history independent
# ---------------------------------------------------------------------------------------------
OTHER_PROGRAMS = [
    "{ shift(D,L) : pshift(D,L) } 1 :- day(D). #minimize { L,D : shift(D,L) }. a(M) :- M = #max { V : p(V), c(V) }. {c(V)} :- p(V).",
    ":- s(J1,M), s(J2,M), J1 != J2. {s(J,M)} :- j(J), m(M). x(X) :- y(X,Y), z(Y), w(Y,Z), v(Z).",
]


def c17_check(payload):
    from ngo.api import optimize
    from . import asp_oracle
    text = payload["text"]
    traits = payload.get("traits", [])
    flags = {t: (t in traits) for t in asp_oracle.TRAITS}
    try:
        prg, res1, ip, op = asp_oracle.optimize_text(text, traits, payload.get("input", "auto"), payload.get("output", "auto"))
    except Exception:  # pylint: disable=broad-except
        return None
    out1 = [str(s) for s in res1]
    # the caller's statements are not modified
    arg = parse(text)
    before = [str(s) for s in arg]
    n_before = len(arg)
    ipl, opl = list(ip), list(op)
    try:
        res2 = optimize(arg, ipl, opl, **flags)
    except Exception as e:  # pylint: disable=broad-except
        return {"kind": "second-run-raises", "exc": repr(e)[:200]}
    after = [str(s) for s in arg]
    if before != after or len(arg) != n_before:
        return {"kind": "argument-modified", "before": [b for b, a in zip(before, after) if a != b][:3],
                "after": [a for b, a in zip(before, after) if a != b][:3]}
    if [str(x) for x in ipl] != [str(x) for x in ip] or [str(x) for x in opl] != [str(x) for x in op]:
        return {"kind": "predicate-list-argument-modified", "input_before": [str(x) for x in ip],
                "input_after": [str(x) for x in ipl], "output_before": [str(x) for x in op],
                "output_after": [str(x) for x in opl]}
    # the same with declarations the program does not agree with (nothing declared): the lists stay empty
    e_in, e_out = [], []
    try:
        optimize(parse(text), e_in, e_out, **flags)
    except Exception:  # pylint: disable=broad-except
        pass
    if e_in or e_out:
        return {"kind": "predicate-list-argument-modified", "input_before": [], "input_after": [str(x) for x in e_in],
                "output_before": [], "output_after": [str(x) for x in e_out]}
    if [str(s) for s in res2] != out1:
        return {"kind": "second-run-differs", "first": out1[:6], "second": [str(s) for s in res2][:6]}
    # history: other programs optimised in between
    for other in OTHER_PROGRAMS:
        try:
            asp_oracle.optimize_text(other, asp_oracle.TRAITS)
        except Exception:  # pylint: disable=broad-except
            pass
    try:
        _, res3, _, _ = asp_oracle.optimize_text(text, traits, payload.get("input", "auto"), payload.get("output", "auto"))
    except Exception as e:  # pylint: disable=broad-except
        return {"kind": "run-after-history-raises", "exc": repr(e)[:200]}
    if [str(s) for s in res3] != out1:
        return {"kind": "history-dependent", "first": out1[:6], "later": [str(s) for s in res3][:6]}
    return None


# ---------------------------------------------------------------------------------------------
# C20: generated domain / min / max / next predicates describe the real domain
# ---------------------------------------------------------------------------------------------
def _parse_atom(a):
    import clingo
    s = clingo.parse_term(a)
    return s


def c20_check(payload):
    import re
    import random
    from . import asp_oracle
    text = payload["text"]
    try:
        asp_oracle.solve(text, "")
    except asp_oracle.GroundError:
        return None
    except asp_oracle.Skip:
        pass
    try:
        prg, res, ip, op = asp_oracle.optimize_text(text, payload.get("traits", []), payload.get("input", "auto"),
                                                    payload.get("output", "auto"))
    except Exception:  # pylint: disable=broad-except
        return None
    res_text = "\n".join(str(s) for s in res)
    src_preds = asp_oracle.program_preds(prg)
    res_preds = asp_oracle.program_preds(res)
    new_preds = {p for p in res_preds if p not in src_preds}
    doms = {p for p in new_preds if p[0].startswith("__dom_")}
    order = set()
    for p in new_preds:
        m = re.match(r"^__(min|max|next)_(\d+(?:_\d+)*)_(\d+)(.+)$", p[0])
        if m and any(q[0] == m.group(4) for q in res_preds):
            order.add(p)
    if not doms and not order:
        return None
    instances = payload.get("instances")
    if instances is None:
        instances = asp_oracle.gen_instances(random.Random(len(text)), [(p.name, p.arity) for p in ip], 5)
    for facts in instances:
        try:
            models = asp_oracle.solve(res_text, facts)
        except (asp_oracle.Skip, asp_oracle.GroundError):
            continue
        ext_per_model = []
        for atoms, _ in models:
            by_pred = {}
            for a in atoms:
                s = _parse_atom(a)
                by_pred.setdefault((s.name, len(s.arguments)), set()).add(tuple(s.arguments))
            ext_per_model.append(by_pred)
            # (1) domain predicate over-approximates the predicate it is named after
            for d in doms:
                orig = (d[0][len("__dom_"):], d[1])
                if orig in src_preds:
                    missing = by_pred.get(orig, set()) - by_pred.get(d, set())
                    if missing:
                        return {"kind": "domain-not-superset", "instance": facts, "domain": f"{d[0]}/{d[1]}",
                                "missing": [str(list(map(str, m))) for m in list(missing)[:3]], "result": res_text[:1500]}
            # (3) min / max / next are least / greatest / successor of the domain values per group
            for o in order:
                m = re.match(r"^__(min|max|next)_(\d+(?:_\d+)*)_(\d+)(.+)$", o[0])
                if not m:
                    continue
                kind, positions, position, domname = m.group(1), [int(x) for x in m.group(2).split("_")], int(m.group(3)), m.group(4)
                cands = [p for p in res_preds if p[0] == domname]
                if len(cands) != 1:
                    continue
                dom = cands[0]
                groups = {}
                for t in by_pred.get(dom, set()):
                    g = tuple(t[i] for i in range(dom[1]) if i not in positions)
                    groups.setdefault(g, set()).add(t[position])
                want = set()
                for g, vals in groups.items():
                    sv = sorted(vals)
                    if kind == "min":
                        want.add(g + (sv[0],))
                    elif kind == "max":
                        want.add(g + (sv[-1],))
                    else:
                        for x, y in zip(sv, sv[1:]):
                            want.add(g + (x, y))
                got = by_pred.get(o, set())
                if got != want:
                    return {"kind": f"{kind}-predicate-wrong", "instance": facts, "pred": f"{o[0]}/{o[1]}",
                            "got": sorted(str(list(map(str, t))) for t in got)[:5],
                            "want": sorted(str(list(map(str, t))) for t in want)[:5], "result": res_text[:1500]}
        # (2) domain / order predicates do not depend on choices: same extension in every answer set
        if ext_per_model:
            for d in sorted(doms | order):
                exts = {frozenset(m.get(d, set())) for m in ext_per_model}
                if len(exts) > 1:
                    return {"kind": "auxiliary-predicate-depends-on-choices", "instance": facts, "pred": f"{d[0]}/{d[1]}",
                            "result": res_text[:1500]}
    return None


# ---------------------------------------------------------------------------------------------
# C17 (cross-process part): same bytes from fresh interpreters, under several hash seeds
# ---------------------------------------------------------------------------------------------
XPROC_SCRIPT = r"""
import sys, json, logging
logging.disable(logging.CRITICAL)
from clingo.ast import parse_string
from ngo.api import optimize
from ngo.utils.ast import Predicate
from ngo.utils.globals import auto_detect_input, auto_detect_output
case = json.loads(sys.stdin.read())
prg = []
parse_string(case["text"], prg.append, logger=lambda c, m: None)
def decl(d, auto):
    if d is None or d == "auto":
        return auto(prg)
    return [Predicate(x.split("/")[0], int(x.split("/")[1])) for x in d]
ip = decl(case.get("input"), auto_detect_input)
op = decl(case.get("output"), auto_detect_output)
traits = ["cleanup", "unused", "duplication", "symmetry", "minmax_chains", "sum_chains", "math", "inline", "projection"]
res = optimize(prg, ip, op, **{t: (t in case.get("traits", [])) for t in traits})
sys.stdout.write("\n".join(str(s) for s in res))
"""


def c17_xproc_check(payload, runs=None):
    """fresh interpreter per run; PYTHONHASHSEED cycles through 0,1,2,random"""
    import json
    runs = runs or payload.get("runs", 4)
    seeds = ["0", "1", "2", "random", "7", "random", "13", "random", "0", "random"]
    outs = []
    for k in range(runs):
        e = env()
        e["PYTHONHASHSEED"] = seeds[k % len(seeds)]
        try:
            r = subprocess.run([PY, "-c", XPROC_SCRIPT], input=json.dumps(payload), capture_output=True, text=True,
                               env=e, timeout=120)
        except subprocess.TimeoutExpired:
            return None
        if r.returncode != 0:
            return None      # crashes are C03's business
        outs.append(r.stdout)
    if len(set(outs)) > 1:
        a = outs[0]
        b = next(o for o in outs if o != a)
        return {"kind": "output-differs-between-processes", "runs": runs, "distinct_outputs": len(set(outs)),
                "one": a[:600], "other": b[:600]}
    return None
