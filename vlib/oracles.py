"""Property oracles used (i) to replay known findings, (ii) as support over the fixed corpus and
(iii) to search for a concrete failing input after an obligation broke.  They are independent of
the Coq models and of ngo's own helper functions.  No verdict of "holds" rests on them."""
import contextlib
import io
import logging
import os
import subprocess
import sys

from clingo.ast import AST, ASTSequence, ASTType, Sign, UnaryOperator

from .common import PY, env
from .inputs import parse, try_parse


# ---------------------------------------------------------------------------------------------
# independent AST walking
# ---------------------------------------------------------------------------------------------
def walk(x):
    """pre-order generator over all AST nodes below x (inclusive)"""
    if isinstance(x, AST):
        yield x
        for k in x.keys():
            if k == "location":
                continue
            yield from walk(getattr(x, k))
    elif isinstance(x, (ASTSequence, list, tuple)):
        for y in x:
            yield from walk(y)


def atom_preds(symbolic_atom):
    """(name, arity) of a SymbolicAtom node; a pool contributes each alternative; classically
    negated atoms and non-function symbols contribute nothing (Predicate cannot express them)"""
    sym = symbolic_atom.symbol
    alts = sym.arguments if sym.ast_type == ASTType.Pool else [sym]
    out = []
    for a in alts:
        if a.ast_type == ASTType.Function:
            out.append((a.name, len(a.arguments)))
    return out


def occurring(node):
    res = set()
    for n in walk(node):
        if n.ast_type == ASTType.SymbolicAtom:
            res.update(atom_preds(n))
    return res


def positive_head_atoms(stm):
    res = set()
    if stm.ast_type != ASTType.Rule:
        return res
    h = stm.head
    lits = []
    if h.ast_type == ASTType.Literal:
        lits.append(h)
    elif h.ast_type in (ASTType.Aggregate, ASTType.Disjunction):
        lits.extend(e.literal for e in h.elements)
    elif h.ast_type == ASTType.HeadAggregate:
        lits.extend(e.condition.literal for e in h.elements)
    for l in lits:
        if l.ast_type == ASTType.Literal and l.sign == Sign.NoSign and l.atom.ast_type == ASTType.SymbolicAtom:
            res.update(atom_preds(l.atom))
    return res


# ---------------------------------------------------------------------------------------------
# C18
# ---------------------------------------------------------------------------------------------
def c18_check(prg):
    """returns None if the property holds for prg, else a description of the failure"""
    from ngo.utils.ast import Predicate
    from ngo.utils.globals import auto_detect_input, auto_detect_output
    logging.disable(logging.CRITICAL)
    occ = set()
    heads = set()
    for s in prg:
        if s.ast_type in (ASTType.Rule, ASTType.Minimize):
            occ |= occurring(s)
        heads |= positive_head_atoms(s)
    got_in = {(p.name, p.arity) for p in auto_detect_input(prg)}
    missing = sorted((occ - heads) - got_in)
    if missing:
        return {"kind": "input-missing", "missing": [f"{n}/{a}" for n, a in missing]}
    for s in prg:
        if s.ast_type == ASTType.Rule:
            body = occurring(s.body)
            for p in positive_head_atoms(s):
                if p not in body and p in got_in:
                    return {"kind": "input-derived-returned", "pred": f"{p[0]}/{p[1]}", "stmt": str(s)}
    want_out = set()
    for s in prg:
        if s.ast_type == ASTType.ShowSignature:
            want_out.add((s.name, s.arity))
        elif s.ast_type == ASTType.ShowTerm:
            want_out |= occurring(s.body)
    got_out = auto_detect_output(prg)
    if {(p.name, p.arity) for p in got_out} != want_out:
        return {"kind": "output-differs", "want": sorted(f"{n}/{a}" for n, a in want_out),
                "got": [str(p) for p in got_out]}
    if got_out != sorted(set(got_out)):
        return {"kind": "output-not-sorted-set", "got": [str(p) for p in got_out]}
    return None


def c18_oracle(text):
    prg = try_parse(text)
    if prg is None:
        return None
    return c18_check(prg)


def unpooled_text(text):
    prg = try_parse(text)
    if prg is None:
        return text
    out = []
    for s in prg:
        out.extend(str(u) for u in s.unpool())
    return "\n".join(out)


# ---------------------------------------------------------------------------------------------
# C19
# ---------------------------------------------------------------------------------------------
TRAITS = ["cleanup", "unused", "duplication", "symmetry", "minmax_chains", "sum_chains", "math", "inline",
          "projection"]
DOC_DEFAULT = [t for t in TRAITS if t != "duplication"]


def documented_flags(tokens):
    """documented expansion; None = rejected. tokens None = option absent"""
    if tokens is None:
        return {t: t in DOC_DEFAULT for t in TRAITS}
    if "none" in tokens and len(tokens) > 1:
        return None
    if "all" in tokens:
        return {t: True for t in TRAITS}
    en = set(t for t in tokens if t in TRAITS)
    if "default" in tokens:
        en |= set(DOC_DEFAULT)
    return {t: t in en for t in TRAITS}


def parse_predlist(s):
    """documented parsing of name/arity lists; 'auto' and empty handled by the caller"""
    from ngo.utils.ast import Predicate
    res = []
    for part in s.split(","):
        n, a = part.split("/")
        res.append(Predicate(n.strip(" "), int(a)))
    return res


def run_cli(argv, stdin_text, timeout=120):
    r = subprocess.run([PY, "-m", "ngo", *argv], input=stdin_text, capture_output=True, text=True, env=env(),
                       timeout=timeout)
    return r.returncode, r.stdout, r.stderr


def api_output(text, tokens, inp, outp):
    """stdout the documentation promises for this invocation (None if rejected)"""
    from ngo.api import optimize
    from ngo.utils.globals import auto_detect_input, auto_detect_output
    logging.disable(logging.CRITICAL)
    flags = documented_flags(tokens)
    if flags is None:
        return None
    prg = parse(text)
    if inp is None or inp == "auto":
        ip = auto_detect_input(prg)
    elif inp == "":
        ip = []
    else:
        ip = parse_predlist(inp)
    if outp is None or outp == "auto":
        op = auto_detect_output(prg)
    elif outp == "":
        op = []
    else:
        op = parse_predlist(outp)
    res = optimize(prg, ip, op, **flags)
    return "".join(str(s) + "\n" for s in res)


def c19_check(case):
    """case: {text, tokens (list|None), input (str|None), output (str|None), log (str|None)}"""
    argv = []
    if case.get("tokens") is not None:
        argv += ["--enable", *case["tokens"]]
    if case.get("input") is not None:
        argv += ["--input-predicates=" + case["input"]] if case["input"] != "" else ["--input-predicates", ""]
    if case.get("output") is not None:
        argv += ["--output-predicates=" + case["output"]] if case["output"] != "" else ["--output-predicates", ""]
    if case.get("log"):
        argv += ["--log", case["log"]]
    try:
        want = api_output(case["text"], case.get("tokens"), case.get("input"), case.get("output"))
    except Exception as e:  # pylint: disable=broad-except
        return None  # the API itself fails on this program: C03's business, not C19's
    rc, out, err = run_cli(argv, case["text"])
    if want is None:
        if rc == 0 or out != "":
            return {"kind": "invalid-combination-accepted", "argv": argv, "rc": rc, "stdout": out[:300]}
        return None
    if rc != 0:
        return {"kind": "cli-failed", "argv": argv, "rc": rc, "stderr": err[-400:]}
    if out != want:
        return {"kind": "stdout-differs", "argv": argv, "stdout": out[:600], "expected": want[:600]}
    return None
