"""correspondence families for coq/Model/Unify.v

  unify_pairs     : pu a b                          vs  ngo.utils.ast._potentially_unifying(a, b)
                    potentially_unifying a b        vs  ngo.utils.ast.potentially_unifying(a, b)
  unify_unpool    : unpool_term t                   vs  list(t.unpool())     (clingo 5.8.2, as lists: order checked)
  unify_sequences : potentially_unifying_sequence   vs  ngo.utils.ast.potentially_unifying_sequence

Pairs come from the argument positions of atoms, aggregate tuples and minimize tuples of the input
programs, from a fixed list of corner cases (API-built `Function("unique", [], False)` versus the parsed
constant, `-X`, `-f(1)`, `|X|`, ...), from a seeded random term generator with a very small alphabet (so
that name/arity collisions are frequent), and from mutated copies.
"""
from clingo import Function, Infimum, Number, String, Supremum
from clingo import ast as A
from clingo.ast import ASTType, Location, Position, parse_string

from . import ser
from .corr import Case
from .inputs import try_parse

LOC = Location(Position("<u>", 1, 1), Position("<u>", 1, 1))
LOC2 = Location(Position("<zz>", 4, 2), Position("<zz>", 5, 1))
UN = list(A.UnaryOperator)
BIN = list(A.BinaryOperator)
TERM_TYPES = {ASTType.Variable, ASTType.SymbolicTerm, ASTType.UnaryOperation, ASTType.BinaryOperation,
              ASTType.Interval, ASTType.Function, ASTType.Pool}
MAXPROD = 400        # bound on |lhs.unpool()| * |rhs.unpool()|


def pterm(text):
    """term parsed by clingo's parser"""
    out = []
    parse_string(f"p__({text}).", out.append, logger=lambda c, m: None)
    return out[1].head.atom.symbol.arguments[0]


# ------------------------------------------------------------------------------------------------
# collecting terms from programs
# ------------------------------------------------------------------------------------------------
def children(n):
    for k in n.keys():
        if k == "location":
            continue
        v = getattr(n, k)
        if isinstance(v, A.AST):
            yield k, None, v
        elif isinstance(v, A.ASTSequence):
            for i, c in enumerate(v):
                yield k, i, c


def walk(n):
    yield n
    for _, _, c in children(n):
        yield from walk(c)


def replace_child(n, k, i, new):
    if i is None:
        return n.update(**{k: new})
    seq = list(getattr(n, k))
    seq[i] = new
    return n.update(**{k: seq})


def program_terms(prg):
    """(terms at argument positions, list of tuples) of one program"""
    terms, tuples = [], []
    for stm in prg:
        for n in walk(stm):
            t = n.ast_type
            if t == ASTType.SymbolicAtom:
                s = n.symbol
                terms.append(s)
                while s.ast_type == ASTType.UnaryOperation:
                    s = s.argument
                if s.ast_type in (ASTType.Function, ASTType.Pool):
                    terms.extend(s.arguments)
                    if s.ast_type == ASTType.Function:
                        tuples.append(list(s.arguments))
            elif t in (ASTType.BodyAggregateElement, ASTType.HeadAggregateElement):
                terms.extend(n.terms)
                tuples.append(list(n.terms))
            elif t == ASTType.Minimize:
                tup = [n.weight, n.priority, *n.terms]
                terms.extend(tup)
                tuples.append(tup)
            elif t == ASTType.Function:
                terms.extend(n.arguments)
            elif t == ASTType.Guard:
                terms.append(n.term)
    return terms, tuples


# ------------------------------------------------------------------------------------------------
# random terms (small alphabet)
# ------------------------------------------------------------------------------------------------
FN = ["f", "f", "g", "", "a", "unique"]
CN = ["a", "b", "unique", "f"]
VN = ["X", "Y", "_", "AUX"]
NUMS = [0, 1, 1, 2, -1, -2, 3]
STRS = ["s", "", "a"]


def rand_sym(r, depth=0):
    x = r.random()
    if x < 0.4:
        return Number(r.choice(NUMS))
    if x < 0.65:
        return Function(r.choice(CN), [], r.random() < 0.85)
    if x < 0.75:
        return String(r.choice(STRS))
    if x < 0.8:
        return Infimum
    if x < 0.84:
        return Supremum
    if depth >= 2:
        return Number(r.choice(NUMS))
    n = r.choice([1, 1, 2])
    return Function(r.choice(FN), [rand_sym(r, depth + 1) for _ in range(n)], r.random() < 0.8)


def rand_term(r, depth=0, pools=True):
    x = r.random()
    if depth >= 3:
        x *= 0.5
    loc = LOC if r.random() < 0.5 else LOC2
    if x < 0.18:
        return A.Variable(loc, r.choice(VN))
    if x < 0.42:
        return A.SymbolicTerm(loc, rand_sym(r))
    if x < 0.54:
        return A.UnaryOperation(loc, r.choice(UN + [A.UnaryOperator.Minus]), rand_term(r, depth + 1, pools))
    if x < 0.62:
        return A.BinaryOperation(loc, r.choice(BIN), rand_term(r, depth + 1, pools), rand_term(r, depth + 1, pools))
    if x < 0.67:
        return A.Interval(loc, rand_term(r, depth + 1, pools), rand_term(r, depth + 1, pools))
    if x < 0.93 or not pools:
        n = r.choice([0, 1, 1, 2, 2, 3])
        return A.Function(loc, r.choice(FN), [rand_term(r, depth + 1, pools) for _ in range(n)], int(r.random() < 0.1))
    return A.Pool(loc, [rand_term(r, depth + 1, pools) for _ in range(r.choice([0, 1, 2, 2, 3]))])


def sym_to_term(s):
    """the AST the parser would build for a ground symbol (functions with arguments become Function nodes)"""
    if s.type.name == "Function" and s.positive:
        if s.arguments or s.name == "":
            return A.Function(LOC, s.name, [sym_to_term(a) for a in s.arguments], 0)
    return A.SymbolicTerm(LOC, s)


def local_mutations(r, n):
    t = n.ast_type
    out = [lambda: rand_term(r, 2)]
    if t == ASTType.Variable:
        out.append(lambda: n.update(name=r.choice(VN)))
        out.append(lambda: A.UnaryOperation(LOC, A.UnaryOperator.Minus, n))
    if t == ASTType.SymbolicTerm:
        out.append(lambda: n.update(symbol=rand_sym(r)))
        s = n.symbol
        if s.type.name == "Function":
            # same ground value, other representation: constant a  <->  Function("a", [], False); f(1) symbol <-> f(1) node
            out.append(lambda: A.Function(LOC, s.name, [A.SymbolicTerm(LOC, a) for a in s.arguments], 0))
            out.append(lambda: sym_to_term(s))
            out.append(lambda: n.update(symbol=Function(s.name, s.arguments, not s.positive)))
        if s.type.name == "Number":
            out.append(lambda: n.update(symbol=Number(-s.number)))
            out.append(lambda: A.UnaryOperation(LOC, A.UnaryOperator.Minus, n.update(symbol=Number(-s.number))))
    if t == ASTType.Function:
        args = list(n.arguments)
        out.append(lambda: n.update(name=r.choice(FN)))
        out.append(lambda: n.update(external=1 - n.external))
        out.append(lambda: n.update(arguments=args + [rand_term(r, 2)]))
        if args:
            out.append(lambda: n.update(arguments=args[:-1]))
            out.append(lambda: n.update(arguments=args[::-1]))
        if all(a.ast_type == ASTType.SymbolicTerm for a in args):
            # fold into one SymbolicTerm (only possible through the API)
            out.append(lambda: A.SymbolicTerm(LOC, Function(n.name, [a.symbol for a in args], True)))
    if t == ASTType.UnaryOperation:
        out.append(lambda: n.update(operator_type=r.choice(UN)))
        out.append(lambda: n.argument)
        out.append(lambda: A.UnaryOperation(LOC, A.UnaryOperator.Minus, n))
    if t == ASTType.BinaryOperation:
        out.append(lambda: n.update(operator_type=r.choice(BIN)))
        out.append(lambda: n.update(left=n.right, right=n.left))
    if t == ASTType.Interval:
        out.append(lambda: n.update(left=n.right, right=n.left))
    if t == ASTType.Pool:
        args = list(n.arguments)
        out.append(lambda: n.update(arguments=args + [rand_term(r, 2)]))
        if args:
            out.append(lambda: n.update(arguments=args[1:]))
    if t in TERM_TYPES and t != ASTType.Pool:
        out.append(lambda: A.Pool(LOC, [n, rand_term(r, 2)]))
        out.append(lambda: A.UnaryOperation(LOC, r.choice(UN), n))
        out.append(lambda: A.Function(LOC, r.choice(FN), [n], 0))
    return out


def mutate(r, n, p_here=0.35):
    ch = [c for c in children(n)]
    if ch and r.random() > p_here:
        k, i, c = r.choice(ch)
        return replace_child(n, k, i, mutate(r, c, p_here))
    return r.choice(local_mutations(r, n))()


def fixed_terms():
    """corner cases named in the task"""
    texts = ["unique", "unique()", "a", "a()", "f(a)", "f(a())", "f(1)", "f(X)", "f(X,1)", "f(1,2)", "g(1)", "f(f(1))",
             "f(g(X),Y)", "f(g(1),2)", "f(g(2),2)", "(a,Y+1)", "(a,b)", "(1,)", "()", "(X,Y)", "(1,2,3)",
             "-X", "- -X", "-f(1)", "- -f(1)", "-f(X)", "-a", "-1", "- -1", "|X|", "|1|", "|-1|", "|~-0|", "|~-2|",
             "~1", "~X", "X+1", "1+1", "2", "1..2", "X..Y", "(1..2)+1", "f(1..2)", "(1;2)", "f(1;2)", "f((1;2),(3;4))",
             "(f(1);g(2))", "f(X;Y)", "(1;2)+(3;4)", "-(1;2)", "\"s\"", "\"\"", "\"a\"", "#inf", "#sup", "g(-3,\"s\")",
             "@f(1)", "@g", "@f(X)", "_", "X", "Y", "0", "1", "f(#inf)", "f(\"s\")", "f(-1)", "f(|X|)", "f(X+1)",
             "f(1,(2;3);4)", "((1;2);3)", "f(;)", "(;)", "(1;)"]
    out = [pterm(t) for t in texts]
    out += [
        A.Function(LOC, "unique", [], False),                               # as built by ngo.inline
        A.Function(LOC, "a", [], False),
        A.Function(LOC, "f", [A.Function(LOC, "a", [], False)], False),
        A.SymbolicTerm(LOC, Function("f", [Number(1)])),                  # API only
        A.SymbolicTerm(LOC, Function("f", [Number(1)], False)),
        A.SymbolicTerm(LOC, Function("a", [], False)),
        A.SymbolicTerm(LOC, Function("", [Number(1), Number(2)])),
        A.SymbolicTerm(LOC, Function("", [])),
        A.SymbolicTerm(LOC, Number(-1)),
        A.SymbolicTerm(LOC, Number(-3)),
        A.UnaryOperation(LOC, A.UnaryOperator.Absolute, A.SymbolicTerm(LOC, Number(-1))),
        A.UnaryOperation(LOC, A.UnaryOperator.Minus, A.SymbolicTerm(LOC, Function("f", [Number(1)], False))),
        A.UnaryOperation(LOC, A.UnaryOperator.Minus, A.SymbolicTerm(LOC, Function("a", [], False))),
        A.Pool(LOC, []),
        A.Pool(LOC, [A.Variable(LOC, "X")]),
        A.Function(LOC, "f", [A.Pool(LOC, [])], 0),
        A.Function(LOC, "f", [A.Pool(LOC, [A.SymbolicTerm(LOC, Number(1))]), A.SymbolicTerm(LOC, Number(2))], 0),
    ]
    return out


def unpool_len(t):
    return len(t.unpool())


# programs whose tuples hit the unsound answers of the test (kept here, not in corpus/, so that the inputs of
# other families do not change); the first three are miscompiled by ngo.inline (foo(5) becomes foo(10))
EXTRA_PROGRAMS = [
    """{ a((1..3)) }.
suminline(A,B) :- a(A); B = #sum { Y: person(A,Y) }.
foo(X) :- X = #sum { F,f(V): suminline(V,F); A,-B: test(A,B) }.""",
    """{ a((1..3)) }.
suminline(A,B) :- a(A); B = #sum { Y: person(A,Y) }.
foo(X) :- X = #sum { F,V,c(): suminline(V,F); A,B,c: test(A,B) }.""",
    """{ a((1..3)) }.
suminline(A,B) :- a(A); B = #sum { Y: person(A,Y) }.
foo(X) :- X = #sum { F,f(V): suminline(V,F); A,- -B: test(A,B) }.""",
    """x(S) :- S = #sum{ 1,-X : d(X); 1,f(1) : d(_); 1,|~-0| ; 1,|~-2| ; 2,a() ; 2,a ; 3,@f(1) ; 3,g(1) }.
:~ p(X,Y). [X@1,f(Y),unique]
:~ q(X,Y). [X@1,f(-Y),unique()]
:~ q(X,Y). [X@Y,(Y;X),(1..2)]
#minimize { 1@2,X,(a,Y+1) : r(X,Y); W@2,g(-3,"s") : r(W,_); 1@2,-f(1),|X| : r(X,X) }.
r(f(X,1),(a,Y+1)) :- s(X;Y), not t(f(1;2),#inf,#sup,"s").""",
]


def _collect(inputs):
    """per program: (text, terms, tuples); terms deduplicated by serialisation"""
    res = []
    for inp in list(inputs) + [{"origin": "fam_unify", "text": t} for t in EXTRA_PROGRAMS]:
        prg = try_parse(inp["text"])
        if prg is None:
            continue
        terms, tuples = program_terms(prg)
        seen = set()
        ts = []
        for t in terms:
            if t.ast_type not in TERM_TYPES:
                continue
            k = str(t) + t.ast_type.name
            if k not in seen:
                seen.add(k)
                ts.append(t)
        tuples = [tp for tp in tuples if all(x.ast_type in TERM_TYPES for x in tp)]
        if ts or tuples:
            res.append((inp["text"], ts, tuples))
    return res


def _kind(t):
    return t.ast_type.name


class UnifyPairs:
    name = "unify_pairs"
    imports = ["Model.Unify"]
    source = "ngo.utils.ast._potentially_unifying / potentially_unifying"

    def pairs(self, inputs, rng):
        fixed = fixed_terms()
        for a in fixed:
            for b in fixed:
                yield a, b, "fixed"
        pool = []
        for text, ts, _ in _collect(inputs):
            pool.extend(ts)
            if len(ts) >= 2:
                for _ in range(min(6, len(ts))):
                    a, b = rng.choice(ts), rng.choice(ts)
                    yield a, b, "same-program"
        for _, ts, _ in _collect([]):          # the extra programs only
            for _ in range(250):
                yield rng.choice(ts), rng.choice(ts), "extra-program"
        for _ in range(1500):
            yield rng.choice(pool), rng.choice(pool), "cross-program"
        for _ in range(1200):
            a = rng.choice(pool)
            yield a, mutate(rng, a), "program-mutated"
        for _ in range(1500):
            yield rng.choice(pool), rng.choice(fixed), "program-fixed"
        for _ in range(2500):
            yield rand_term(rng), rand_term(rng), "random"
        for _ in range(3500):
            a = rand_term(rng)
            b = mutate(rng, a)
            if rng.random() < 0.3:
                b = mutate(rng, b)
            yield a, b, "random-mutated"
        for _ in range(800):
            a = rng.choice(fixed)
            yield a, mutate(rng, a), "fixed-mutated"

    def cases(self, inputs, rng):
        from ngo.utils.ast import _potentially_unifying, potentially_unifying
        for a, b, how in self.pairs(inputs, rng):
            for x, y in ((a, b), (b, a)):
                try:
                    sx, sy = ser.term(x), ser.term(y)
                except ser.Unsupported:
                    continue
                obs = bool(_potentially_unifying(x, y))
                yield Case(f"chk_bool (pu {sx} {sy}) {ser.b(obs)}",
                           {"fn": "_potentially_unifying", "lhs": str(x), "rhs": str(y), "kinds": [_kind(x), _kind(y)],
                            "observed": obs, "how": how},
                           nontrivial=(x != y))
                if unpool_len(x) * unpool_len(y) > MAXPROD:
                    continue
                obs = bool(potentially_unifying(x, y))
                yield Case(f"chk_bool (potentially_unifying {sx} {sy}) {ser.b(obs)}",
                           {"fn": "potentially_unifying", "lhs": str(x), "rhs": str(y), "kinds": [_kind(x), _kind(y)],
                            "observed": obs, "how": how},
                           nontrivial=(x != y))


class UnifyUnpool:
    name = "unify_unpool"
    imports = ["Model.Unify"]
    source = "clingo.ast.AST.unpool() on terms"

    def terms(self, inputs, rng):
        for t in fixed_terms():
            yield t, "fixed"
        for _, ts, _ in _collect(inputs):
            for t in ts:
                yield t, "program"
        S = lambda n: A.SymbolicTerm(LOC, Function(n))          # noqa: E731
        P = lambda p, n: A.Pool(LOC, [S(f"{p}{i}") for i in range(1, n + 1)])   # noqa: E731
        # the order of gringo's cross product: all shapes up to 3 positions with 0..4 alternatives
        for n1 in range(0, 5):
            for n2 in range(0, 5):
                yield A.Function(LOC, "t", [P("r", n1), P("x", n2)], 0), "cross2"
                yield A.BinaryOperation(LOC, A.BinaryOperator.Plus, P("r", n1), P("x", n2)), "cross2"
                yield A.Interval(LOC, P("r", n1), P("x", n2)), "cross2"
                for n3 in range(1, 4):
                    yield A.Function(LOC, "", [P("r", n1), P("x", n2), P("y", n3)], 0), "cross3"
                    yield A.Function(LOC, "t", [P("r", n1), S("c"), P("x", n2), P("y", n3)], 1), "cross4"
        for _ in range(2500):
            t = rand_term(rng)
            if rng.random() < 0.7:
                # force pools somewhere
                for _ in range(rng.choice([1, 2, 3])):
                    t = mutate_to_pool(rng, t)
            yield t, "random"

    def cases(self, inputs, rng):
        for t, how in self.terms(inputs, rng):
            try:
                st = ser.term(t)
            except ser.Unsupported:
                continue
            obs = list(t.unpool())
            if len(obs) > 300:
                continue
            yield Case(f"chk_terms (unpool_term {st}) {ser.lst([ser.term(x) for x in obs])}",
                       {"fn": "AST.unpool", "term": str(t), "observed": [str(x) for x in obs], "how": how},
                       nontrivial=len(obs) != 1 or obs[0] != t)


def mutate_to_pool(r, n):
    """replace a random sub-term by a pool of 0..3 terms"""
    ch = [c for c in children(n)]
    if ch and r.random() < 0.7:
        k, i, c = r.choice(ch)
        return replace_child(n, k, i, mutate_to_pool(r, c))
    k = r.choice([0, 1, 2, 2, 3])
    alts = [n] + [rand_term(r, 2) for _ in range(k)]
    r.shuffle(alts)
    return A.Pool(LOC, alts[:k] if r.random() < 0.2 else alts)


class UnifySequences:
    name = "unify_sequences"
    imports = ["Model.Unify"]
    source = "ngo.utils.ast.potentially_unifying_sequence"

    def pairs(self, inputs, rng):
        alltuples = []
        for _, _, tuples in _collect(inputs):
            alltuples.extend(tuples)
            # the way ngo uses it: all tuples of one program against each other
            if len(tuples) >= 2:
                for _ in range(min(8, len(tuples) * 2)):
                    yield rng.choice(tuples), rng.choice(tuples), "same-program"
        for _, _, tuples in _collect([]):      # the extra programs only: all pairs
            for a in tuples:
                for b in tuples:
                    yield a, b, "extra-program"
        for _ in range(1200):
            yield rng.choice(alltuples), rng.choice(alltuples), "cross-program"
        fixed = fixed_terms()
        for _ in range(3000):
            x = rng.random()
            if x < 0.3:
                a = list(rng.choice(alltuples))
            else:
                a = [rng.choice(fixed) if rng.random() < 0.4 else rand_term(rng, 1) for _ in range(rng.choice([0, 1, 2, 2, 3, 4]))]
            b = list(a)
            y = rng.random()
            if y < 0.15 and b:
                b.pop(rng.randrange(len(b)))
            elif y < 0.25:
                b.insert(rng.randint(0, len(b)), rand_term(rng, 1))
            else:
                for _ in range(rng.choice([0, 1, 1, 2])):
                    if b:
                        i = rng.randrange(len(b))
                        b[i] = mutate(rng, b[i])
            if rng.random() < 0.1:
                b = b[::-1]
            yield a, b, "mutated"
        # inline pads tuples with Function(LOC, "unique", [], False); user programs may contain the constant unique
        u_api = A.Function(LOC, "unique", [], False)
        u_txt = pterm("unique")
        one = A.SymbolicTerm(LOC, Number(1))
        yield [one, u_api], [one, u_txt], "unique-padding"
        yield [one, u_api], [one, u_api], "unique-padding"
        yield [one, u_api, u_api], [one, A.Variable(LOC, "X"), u_txt], "unique-padding"

    def cases(self, inputs, rng):
        from ngo.utils.ast import potentially_unifying_sequence
        for a, b, how in self.pairs(inputs, rng):
            for x, y in ((a, b), (b, a)):
                try:
                    sx = ser.lst([ser.term(t) for t in x])
                    sy = ser.lst([ser.term(t) for t in y])
                except ser.Unsupported:
                    continue
                if any(unpool_len(p) * unpool_len(q) > MAXPROD for p, q in zip(x, y)):
                    continue
                obs = bool(potentially_unifying_sequence(x, y))
                yield Case(f"chk_bool (potentially_unifying_sequence {sx} {sy}) {ser.b(obs)}",
                           {"fn": "potentially_unifying_sequence", "lhs": [str(t) for t in x], "rhs": [str(t) for t in y],
                            "observed": obs, "how": how},
                           nontrivial=(list(x) != list(y)))


FAMILIES = [UnifyPairs(), UnifyUnpool(), UnifySequences()]
