(* C03: totality: every modelled loop terminates within its fuel; generated tables are total (partial: the outer fixpoint loop of api.optimize is not bounded, see DESIGN)
   Only statements, `exact`, and Print Assumptions live here. *)
From Coq Require Import List String ZArith Bool Permutation.
From NGO Require Import Syntax.Ast Model.Traverse Model.Globals Model.Unify Gen.Tables Link.GlobalsSpec Link.TablesSpec Link.UnifySpec.
Import ListNotations.

Theorem C03_new_predicate_terminates : forall (st : unames) (sim : string) (ar : nat), exists (p : pred) (st' : unames), new_predicate st sim ar = Ok (p, st').
Proof. exact (@new_predicate_total). Qed.
Print Assumptions C03_new_predicate_terminates.

Theorem C03_new_auxpredicate_terminates : forall (st : unames) (ar : nat), exists (p : pred) (st' : unames), new_auxpredicate st ar = Ok (p, st').
Proof. exact (@new_auxpredicate_total). Qed.
Print Assumptions C03_new_auxpredicate_terminates.

Theorem C03_make_unique_terminates : forall (vars : list string) (v : string), exists (v' : string) (vars' : list string), make_unique vars v = Ok (v', vars').
Proof. exact (@make_unique_total). Qed.
Print Assumptions C03_make_unique_terminates.

Theorem C03_names_history_never_out_of_fuel : forall (st : unames) (rs : list req), run_requests st rs <> OutOfFuel.
Proof. exact (@run_requests_never_out_of_fuel). Qed.
Print Assumptions C03_names_history_never_out_of_fuel.

Theorem C03_compare_total : forall (x : Z) (o : cmp) (y : Z), compare x o y <> None.
Proof. exact (@compare_total_proof). Qed.
Print Assumptions C03_compare_total.

Theorem C03_unify_fuel_enough : forall (n m : nat) (a b : term), term_size a + term_size b < n -> term_size a + term_size b < m -> pu_fuel n a b = pu_fuel m a b.
Proof. exact (@pu_fuel_enough). Qed.
Print Assumptions C03_unify_fuel_enough.

From NGO Require Import Syntax.Ast Model.Cleanup Link.CleanupSpec.

Theorem C03_cleanup_body_loop_terminates : forall (sups : list Mapping) (body : list bodyelem), remove_superseed_body sups body <> OutOfFuel.
Proof. exact (@remove_superseed_body_no_outoffuel_proof). Qed.
Print Assumptions C03_cleanup_body_loop_terminates.

Theorem C03_cleanup_condition_loop_terminates : forall (sups : list Mapping) (c : list lit), remove_superseed_cond sups c <> OutOfFuel.
Proof. exact (@remove_superseed_cond_no_outoffuel_proof). Qed.
Print Assumptions C03_cleanup_condition_loop_terminates.

Theorem C03_cleanup_loop_shrinks : forall (A : Type) (as_lit : A -> option lit) (eqb : A -> A -> bool) (ss : list Mapping) (l l' : list A) (updated : bool), (forall x : A, In x l -> eqb x x = true) -> _remove_superseed_from_list as_lit eqb ss l = Ok (l', updated) -> (updated = true -> Datatypes.length l' < Datatypes.length l) /\ (updated = false <-> l' = l).
Proof. exact (@remove_superseed_shrinks_proof). Qed.
Print Assumptions C03_cleanup_loop_shrinks.
