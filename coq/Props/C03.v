(* C03: totality: every modelled loop terminates within its fuel; generated tables are total (partial: the outer fixpoint loop of api.optimize is not bounded, see DESIGN)
   Only statements, `exact`, and Print Assumptions live here. *)
From Coq Require Import List String ZArith Bool Permutation.
From NGO Require Import Syntax.Ast Model.Traverse Model.Globals Model.Unify Gen.Tables Link.GlobalsSpec Link.TablesSpec Link.UnifySpec.
Import ListNotations.

Theorem C03_new_predicate_terminates : forall (st : unames) (sim : string) (ar : nat), exists (p : pred) (st' : unames), new_predicate st sim ar = Ok (p, st').
Proof. exact (@new_predicate_total). Qed.
Print Assumptions C03_new_predicate_terminates.

Theorem C03_new_auxpredicate_terminates : forall (st : unames) (ar : nat), exists (p : pred) (st' : unames), new_auxpredicate st ar = Ok (p, st').
Proof. exact (@new_auxpredicate_total). Qed.
Print Assumptions C03_new_auxpredicate_terminates.

Theorem C03_make_unique_terminates : forall (vars : list string) (v : string), exists (v' : string) (vars' : list string), make_unique vars v = Ok (v', vars').
Proof. exact (@make_unique_total). Qed.
Print Assumptions C03_make_unique_terminates.

Theorem C03_names_history_never_out_of_fuel : forall (st : unames) (rs : list req), run_requests st rs <> OutOfFuel.
Proof. exact (@run_requests_never_out_of_fuel). Qed.
Print Assumptions C03_names_history_never_out_of_fuel.

Theorem C03_compare_total : forall (x : Z) (o : cmp) (y : Z), compare x o y <> None.
Proof. exact (@compare_total_proof). Qed.
Print Assumptions C03_compare_total.

Theorem C03_unify_fuel_enough : forall (n m : nat) (a b : term), term_size a + term_size b < n -> term_size a + term_size b < m -> pu_fuel n a b = pu_fuel m a b.
Proof. exact (@pu_fuel_enough). Qed.
Print Assumptions C03_unify_fuel_enough.

From NGO Require Import Syntax.Ast Model.Cleanup Link.CleanupSpec.

Theorem C03_cleanup_body_loop_terminates : forall (sups : list Mapping) (body : list bodyelem), remove_superseed_body sups body <> OutOfFuel.
Proof. exact (@remove_superseed_body_no_outoffuel_proof). Qed.
Print Assumptions C03_cleanup_body_loop_terminates.

Theorem C03_cleanup_condition_loop_terminates : forall (sups : list Mapping) (c : list lit), remove_superseed_cond sups c <> OutOfFuel.
Proof. exact (@remove_superseed_cond_no_outoffuel_proof). Qed.
Print Assumptions C03_cleanup_condition_loop_terminates.

Theorem C03_cleanup_loop_shrinks : forall (A : Type) (as_lit : A -> option lit) (eqb : A -> A -> bool) (ss : list Mapping) (l l' : list A) (updated : bool), (forall x : A, In x l -> eqb x x = true) -> _remove_superseed_from_list as_lit eqb ss l = Ok (l', updated) -> (updated = true -> Datatypes.length l' < Datatypes.length l) /\ (updated = false <-> l' = l).
Proof. exact (@remove_superseed_shrinks_proof). Qed.
Print Assumptions C03_cleanup_loop_shrinks.

From NGO Require Import Link.TerminationSpec.

Theorem C03_cleanup_closure_terminates : forall a : list Cleanup.Mapping, Cleanup.transitive_closure a <> Ast.OutOfFuel.
Proof. exact (@TerminationSpec.transitive_closure_no_outoffuel). Qed.
Print Assumptions C03_cleanup_closure_terminates.

Theorem C03_cleanup_execute_terminates : forall (ins : list Ast.pred) (prg : list Ast.stmt), CleanupExecute.execute ins prg <> Ast.OutOfFuel.
Proof. exact (@TerminationSpec.cleanup_execute_no_outoffuel). Qed.
Print Assumptions C03_cleanup_execute_terminates.

Theorem C03_binding_body_terminates : forall (stmlist : list Ast.bodyelem) (prebound : option Binding.vset), Binding.collect_binding_information_body stmlist prebound <> Ast.OutOfFuel.
Proof. exact (@TerminationSpec.collect_binding_information_body_no_outoffuel). Qed.
Print Assumptions C03_binding_body_terminates.

Theorem C03_binding_head_terminates : forall (h : Ast.head) (body : list Ast.bodyelem), Binding.collect_binding_information_head h body <> Ast.OutOfFuel.
Proof. exact (@TerminationSpec.collect_binding_information_head_no_outoffuel). Qed.
Print Assumptions C03_binding_head_terminates.

Theorem C03_preprocess_terminates : forall prg : list Ast.stmt, Normalize.preprocess prg <> Ast.OutOfFuel.
Proof. exact (@TerminationSpec.preprocess_no_outoffuel). Qed.
Print Assumptions C03_preprocess_terminates.

Theorem C03_exline_idempotent : forall prg prg' : list Ast.stmt, Normalize.exline_arithmetic prg = Ast.Ok prg' -> Normalize.exline_arithmetic prg' = Ast.Ok prg'.
Proof. exact (@TerminationSpec.exline_arithmetic_idempotent). Qed.
Print Assumptions C03_exline_idempotent.

Theorem C03_exline_loop_two_rounds : forall (fuel : nat) (prg : list Ast.stmt), 2 <= fuel -> Normalize.exline_loop fuel prg = Normalize.exline_arithmetic prg.
Proof. exact (@TerminationSpec.exline_loop_two_rounds). Qed.
Print Assumptions C03_exline_loop_two_rounds.

Theorem C03_optimize_none_terminates : forall prg : list Ast.stmt, Normalize.optimize_none prg <> Ast.OutOfFuel.
Proof. exact (@TerminationSpec.optimize_none_no_outoffuel). Qed.
Print Assumptions C03_optimize_none_terminates.

Theorem C03_unused_loop_terminates : forall (fuel : nat) (ins outs : list Ast.pred) (st : Unused.ustate) (prg : list Ast.stmt), Datatypes.length prg + Unused.count_positions prg < fuel -> Unused.execute_loop fuel ins outs st prg <> Ast.OutOfFuel.
Proof. exact (@TerminationSpec.unused_execute_loop_no_outoffuel). Qed.
Print Assumptions C03_unused_loop_terminates.

Theorem C03_unused_execute_terminates : forall (ctor_prg : list Ast.stmt) (ins outs : list Ast.pred) (prg : list Ast.stmt), UnusedExecute.execute ctor_prg ins outs prg <> Ast.OutOfFuel.
Proof. exact (@TerminationSpec.unused_execute_no_outoffuel). Qed.
Print Assumptions C03_unused_execute_terminates.

Theorem C03_projection_execute_terminates : forall (ctor : list Ast.stmt) (ins : list Ast.pred) (prg : list Ast.stmt), ProjectionExecute.execute ctor ins prg <> Ast.OutOfFuel.
Proof. exact (@TerminationSpec.projection_execute_no_outoffuel). Qed.
Print Assumptions C03_projection_execute_terminates.

Theorem C03_dp_init_terminates : forall (un : Globals.unames) (prg : list Ast.stmt), Dependency.dp_init un prg <> Ast.OutOfFuel.
Proof. exact (@TerminationSpec.dp_init_no_outoffuel). Qed.
Print Assumptions C03_dp_init_terminates.

Theorem C03_add_domain_rule_terminates : forall (st : Dependency.dstate) (p : Ast.pred) (conditions : list Dependency.dr_entry), Dependency.add_domain_rule st p conditions <> Ast.OutOfFuel.
Proof. exact (@TerminationSpec.add_domain_rule_no_outoffuel). Qed.
Print Assumptions C03_add_domain_rule_terminates.

Theorem C03_create_domain_terminates : forall (p : Ast.pred) (st : Dependency.dstate), snd (Dependency.create_domain_top p st) <> Ast.OutOfFuel.
Proof. exact (@TerminationSpec.create_domain_top_no_outoffuel). Qed.
Print Assumptions C03_create_domain_terminates.

Theorem C03_reachable_iff : forall (g : list Dependency.edge) (n y : Ast.pred), In y (Dependency.reachable g n) <-> TerminationDependency.tc_path g n y.
Proof. exact (@TerminationSpec.reachable_iff). Qed.
Print Assumptions C03_reachable_iff.
