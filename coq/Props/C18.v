(* C18: the predicate collectors and input/output auto-detection, stated against the independent
   occurrence specification of Link/TraverseSpec.v over the model Model/Traverse.v.
   Only statements, `exact`, and Print Assumptions live here. *)
From Coq Require Import List String ZArith Bool.
From NGO Require Import Syntax.Ast Model.Traverse Link.TraverseSpec Link.InputExact.
Import ListNotations.
Open Scope string_scope. Open Scope list_scope.

(* predicates(stm) yields exactly the signatures of the Function-symbol atoms occurring in stm *)
Theorem C18_predicates_complete : forall s p, occurs p s <-> In p (map snd (predicates all_signs s)).
Proof. exact predicates_complete_proof. Qed.
Print Assumptions C18_predicates_complete.

(* headderivable_predicates(stm) yields exactly the positive atoms in head-literal position
   (for heads as clingo's parser builds them: no aggregate atom as a head literal) *)
Theorem C18_headderivable_spec : forall s p, wf_heads s ->
  (pos_head_atom p s <-> In p (map snd (headderivable s))).
Proof. exact headderivable_spec_proof. Qed.
Print Assumptions C18_headderivable_spec.

(* body_predicates / minimize_predicates yield exactly the predicates of the body *)
Theorem C18_body_spec : forall s p, in_body p s <-> In p (map snd (body_or_min all_signs s)).
Proof. exact body_spec_proof. Qed.
Print Assumptions C18_body_spec.

(* a predicate that occurs somewhere and is never a positive head atom is reported as input *)
Theorem C18_input_lower : forall P p, Forall wf_heads P ->
  (exists s, In s P /\ occurs p s) ->
  (forall s, In s P -> ~ pos_head_atom p s) ->
  In p (auto_detect_input P).
Proof. exact C18_input_lower_proof. Qed.
Print Assumptions C18_input_lower.

(* a predicate that is a positive head atom of some statement whose body does not mention it
   is not reported as input *)
Theorem C18_input_excl : forall P p i s, Forall wf_heads P ->
  nth_error P i = Some s -> pos_head_atom p s -> ~ in_body p s ->
  ~ In p (auto_detect_input P).
Proof. exact C18_input_excl_proof. Qed.
Print Assumptions C18_input_excl.

(* the output predicates are exactly those named by #show p/n. and those in bodies of #show t : body. *)
Theorem C18_output_exact : forall P p,
  In p (auto_detect_output P) <->
  (exists n a b, In (SShowSig n a b) P /\ p = (n, a)) \/
  (exists t b x, In (SShowTerm t b) P /\ In x b /\ bodyelem_has p x).
Proof. exact C18_output_exact_proof. Qed.
Print Assumptions C18_output_exact.

(* the output list is duplicate free and sorted *)
Theorem C18_auto_detect_output_sorted_nodup : forall P,
  NoDup (auto_detect_output P) /\ psorted (auto_detect_output P).
Proof. exact auto_detect_output_sorted_nodup_proof. Qed.
Print Assumptions C18_auto_detect_output_sorted_nodup.

(* known defect: atoms written with a pool, a :- p(1;2)., are invisible to the collectors, so the
   input predicate p/1 is not reported *)
Example C18_pool_refuted_ex :
  lit_has_pool ("p", 1) pool_lit /\ ~ occurs ("p", 1) pool_rule /\ auto_detect_input [pool_rule] = [].
Proof. exact pool_refuted_ex_proof. Qed.
Print Assumptions C18_pool_refuted_ex.

(* non-vacuity of C18_input_lower on a program with a choice head, a body aggregate and #show *)
Example C18_input_lower_nonvacuous :
  Forall wf_heads nv_prog /\
  (exists s, In s nv_prog /\ occurs ("q", 1) s) /\
  (forall s, In s nv_prog -> ~ pos_head_atom ("q", 1) s) /\
  auto_detect_input nv_prog = [("d", 1); ("q", 1); ("d", 1)] /\
  auto_detect_output nv_prog = [("a", 1)].
Proof. exact input_lower_nonvacuous_proof. Qed.
Print Assumptions C18_input_lower_nonvacuous.

(* nothing is invented: every reported input predicate occurs in a rule or objective *)
Theorem C18_input_upper : forall P p,
  In p (auto_detect_input P) -> exists s, In s P /\ occurs p s.
Proof. exact input_upper_proof. Qed.
Print Assumptions C18_input_upper.

(* exact characterisation: p is reported iff it occurs and either is never a positive head atom or
   the statements deriving it are exactly the statements using it in their body *)
Theorem C18_input_exact : forall P p, Forall wf_heads P ->
  (In p (auto_detect_input P) <->
   (exists s, In s P /\ occurs p s) /\
   ((forall s, In s P -> ~ pos_head_atom p s) \/ self_defined P p)).
Proof. exact input_exact_proof. Qed.
Print Assumptions C18_input_exact.

(* non-vacuity of the self-defined case: `p(X) :- p(X). r(X) :- q(X).` *)
Example C18_input_exact_nonvacuous :
  auto_detect_input sd_prog = [("q", 1); ("p", 1)] /\ self_defined sd_prog ("p", 1) /\
  ~ (forall s, In s sd_prog -> ~ pos_head_atom ("p", 1) s).
Proof. exact input_exact_nonvacuous_proof. Qed.
Print Assumptions C18_input_exact_nonvacuous.

(* the open part (all - derivable) of auto_detect_input is sorted *)
Theorem C18_input_open_part_sorted : forall P, psorted (fst (auto_detect_input_parts P)).
Proof. exact input_open_part_sorted_proof. Qed.
Print Assumptions C18_input_open_part_sorted.
