(* C05: always-on normal form: literal/atom-level HT-equivalences and their lifting to programs
   Only statements, `exact`, and Print Assumptions live here. *)
From Coq Require Import List String ZArith Bool Permutation.
From NGO Require Import Syntax.Ast Sem.Sym Sem.Sat Model.NormalizeCore Link.Equiv Link.NormalizeSem Link.AggSem.
Import ListNotations.

Theorem C05_chain_split_pos : forall (sym_lt : sym -> sym -> Prop) (G : list string) (H T : interp) (s : subst) (t : term) (gs : list guard), gs <> nil -> lit_sat sym_lt G H T s (Lit NoSign (ACmp t gs)) <-> lits_sat sym_lt G H T s (split_cmp_lit NoSign t gs).
Proof. exact (@chain_split_pos_proof). Qed.
Print Assumptions C05_chain_split_pos.

Theorem C05_chain_split_notnot : forall (sym_lt : sym -> sym -> Prop) (G : list string) (H T : interp) (s : subst) (t : term) (gs : list guard), gs <> nil -> lit_sat sym_lt G H T s (Lit NegNeg (ACmp t gs)) <-> lits_sat sym_lt G H T s (split_cmp_lit NegNeg t gs).
Proof. exact (@chain_split_nn_proof). Qed.
Print Assumptions C05_chain_split_notnot.

Theorem C05_chain_split_neg_refuted : forall sym_lt : sym -> sym -> Prop, sym_order sym_lt -> forall (G : list string) (H T : interp) (s : subst), lit_sat sym_lt G H T s (Lit Neg (ACmp negchain_t negchain_gs)) /\ ~ lits_sat sym_lt G H T s (split_cmp_lit Neg negchain_t negchain_gs).
Proof. exact (@chain_split_neg_refuted_proof). Qed.
Print Assumptions C05_chain_split_neg_refuted.

Theorem C05_guard_to_left : forall (sym_lt : sym -> sym -> Prop) (s : subst) (f : aggfun) (o : cmp) (t : term) (S : tupset), agg_holds sym_lt s None f (Some (o, t)) S <-> agg_holds sym_lt s (Some (rhs2lhs_comparison o, t)) f None S.
Proof. exact (@guard_to_left_proof). Qed.
Print Assumptions C05_guard_to_left.

Theorem C05_normalize_guards : forall sym_lt : sym -> sym -> Prop, sym_order sym_lt -> forall (s : subst) (f : aggfun) (lg rg : option guard) (S : tupset), agg_holds sym_lt s lg f rg S <-> agg_holds sym_lt s (fst (normalize_guards lg rg)) f (snd (normalize_guards lg rg)) S.
Proof. exact (@normalize_guards_proof). Qed.
Print Assumptions C05_normalize_guards.

Theorem C05_count_to_sumplus : forall (sym_lt : sym -> sym -> Prop) (G : list string) (H T : interp) (s : subst) (sg : sign) (lg : option guard) (es : list (list term * list lit)) (rg : option guard), atom_sat sym_lt G H T s sg (ABodyAgg lg FCount es rg) <-> atom_sat sym_lt G H T s sg (ABodyAgg lg FSumPlus (convert_count_elems es) rg).
Proof. exact (@count_to_sumplus_proof). Qed.
Print Assumptions C05_count_to_sumplus.

Theorem C05_map_equiv : forall (sym_lt : sym -> sym -> Prop) (f : stmt -> stmt) (P : list stmt), (forall st : stmt, In st P -> forall H T : interp, subi H T -> stmt_sat sym_lt H T st <-> stmt_sat sym_lt H T (f st)) -> equiv_all sym_lt P (map f P).
Proof. exact (@map_equiv). Qed.
Print Assumptions C05_map_equiv.

Theorem C05_flat_map_equiv : forall (sym_lt : sym -> sym -> Prop) (f : stmt -> list stmt) (P : list stmt), (forall st : stmt, In st P -> stmts_equiv sym_lt (st :: nil) (f st)) -> equiv_all sym_lt P (flat_map f P).
Proof. exact (@flat_map_equiv). Qed.
Print Assumptions C05_flat_map_equiv.

From NGO Require Import Syntax.Ast Sem.Sym Sem.Sat Model.Normalize Link.NormalizeSpec.

Theorem C05_expand_comparisons_stmt : forall (sym_lt : sym -> sym -> Prop) (st : stmt), cmp_ok_stmt st = true -> forall H T : interp, stmt_sat sym_lt H T st <-> stmt_sat sym_lt H T (expand_comparisons st).
Proof. exact (@expand_comparisons_stmt_proof). Qed.
Print Assumptions C05_expand_comparisons_stmt.

Theorem C05_expand_comparisons_prog : forall (sym_lt : sym -> sym -> Prop) (P : list stmt), forallb cmp_ok_stmt P = true -> equiv_all sym_lt P (map expand_comparisons P).
Proof. exact (@expand_comparisons_prog_proof). Qed.
Print Assumptions C05_expand_comparisons_prog.

Theorem C05_expand_comparisons_neg_chain_refuted : forall sym_lt : sym -> sym -> Prop, sym_order sym_lt -> cmp_ok_stmt negchain_rule = false /\ ~ stmt_sat sym_lt empty_interp empty_interp negchain_rule /\ stmt_sat sym_lt empty_interp empty_interp (expand_comparisons negchain_rule).
Proof. exact (@expand_comparisons_neg_chain_refuted_proof). Qed.
Print Assumptions C05_expand_comparisons_neg_chain_refuted.

Theorem C05_remove_bounds_prog : forall sym_lt : sym -> sym -> Prop, sym_order sym_lt -> forall P Q : list stmt, remove_unecessary_bounds P = Ok Q -> equiv_all sym_lt P Q.
Proof. exact (@remove_bounds_prog_proof). Qed.
Print Assumptions C05_remove_bounds_prog.

Theorem C05_count_to_sum_prog : forall (sym_lt : sym -> sym -> Prop) (P Q : list stmt), forallb no_old_agg_rule P = true -> replace_old_aggregates P = Ok Q -> equiv_all sym_lt P Q.
Proof. exact (@count_to_sum_prog_proof). Qed.
Print Assumptions C05_count_to_sum_prog.

Theorem C05_preprocess_equiv : forall sym_lt : sym -> sym -> Prop, sym_order sym_lt -> forall P Q : list stmt, forallb preprocess_ok_stmt P = true -> preprocess P = Ok Q -> equiv_all sym_lt P Q.
Proof. exact (@preprocess_equiv_proof). Qed.
Print Assumptions C05_preprocess_equiv.

Theorem C05_preprocess_passthrough : forall (P1 : list stmt) (st : stmt) (P2 Q : list stmt), passthrough_stmt st = true -> preprocess (P1 ++ st :: P2) = Ok Q -> exists Q1 Q2 : list stmt, preprocess P1 = Ok Q1 /\ preprocess P2 = Ok Q2 /\ Q = Q1 ++ st :: Q2.
Proof. exact (@preprocess_passthrough_proof). Qed.
Print Assumptions C05_preprocess_passthrough.

From NGO Require Import Syntax.Ast Sem.Sym Sem.Sat Model.Normalize Link.SubstSpec.

Theorem C05_exline_literal_sound : forall (sym_lt : sym -> sym -> Prop) (G G' : list string) (H T : interp) (s : subst) (sg : sign) (p : string) (pre : list term) (a : term) (post : list term) (e : bool) (AUX : string), negb (Globals.smem AUX (flat_map vars_term (pre ++ a :: post))) = true -> lit_sat sym_lt G H T s (Lit sg (ASym (TFun p (pre ++ a :: post) e))) <-> (exists v : sym, lit_sat sym_lt G' H T (upd s AUX v) (Lit sg (ASym (TFun p (pre ++ TVar AUX :: post) e))) /\ lit_sat sym_lt G' H T (upd s AUX v) (Lit NoSign (ACmp (TVar AUX) ((CEq, a) :: nil)))).
Proof. exact (@exline_literal_sound). Qed.
Print Assumptions C05_exline_literal_sound.

Theorem C05_exline_rule_sound : forall (sym_lt : sym -> sym -> Prop) (G G' : list string) (H T : interp) (hl : lit) (B1 B2 : list bodyelem) (sg : sign) (p : string) (pre : list term) (a : term) (post : list term) (e : bool) (AUX : string), simple_lit_b hl = true -> forallb simple_bodyelem_b B1 = true -> forallb simple_bodyelem_b B2 = true -> negb (Globals.smem AUX (vars_lit hl ++ flat_map vars_bodyelem B1 ++ flat_map vars_term (pre ++ a :: post) ++ flat_map vars_bodyelem B2)) = true -> rule_sat sym_lt G H T (HLit hl) (B1 ++ BLit (Lit sg (ASym (TFun p (pre ++ a :: post) e))) :: B2) <-> rule_sat sym_lt G' H T (HLit hl) (B1 ++ BLit (Lit sg (ASym (TFun p (pre ++ TVar AUX :: post) e))) :: BLit (Lit NoSign (ACmp (TVar AUX) ((CEq, a) :: nil))) :: B2).
Proof. exact (@exline_rule_sound). Qed.
Print Assumptions C05_exline_rule_sound.

Theorem C05_exline_arithmetic_rule_one_sound : forall (sym_lt : sym -> sym -> Prop) (ln : nat) (hl : lit) (B1 B2 : list bodyelem) (sg : sign) (n : string) (pre : list term) (a : term) (post : list term) (e : bool), simple_lit_b hl = true -> plain_lit hl = true -> forallb simple_bodyelem_b B1 = true -> forallb plain_bodyelem B1 = true -> forallb simple_bodyelem_b B2 = true -> forallb plain_bodyelem B2 = true -> is_arith a = true -> plain_terms pre = true -> plain_terms post = true -> has_pool_lit (Lit sg (ASym (TFun n (pre ++ a :: post) e))) = false -> let stm := SRule ln (HLit hl) (B1 ++ BLit (Lit sg (ASym (TFun n (pre ++ a :: post) e))) :: B2) in exists uv : string, let stm' := SRule ln (HLit hl) (B1 ++ BLit (Lit sg (ASym (TFun n (pre ++ TVar uv :: post) e))) :: BLit (assign uv a) :: B2) in exline_arithmetic_rule stm = Ok stm' /\ ~ In uv (vars_stmt stm) /\ (forall H T : interp, stmt_sat sym_lt H T stm <-> stmt_sat sym_lt H T stm').
Proof. exact (@exline_arithmetic_rule_one_sound). Qed.
Print Assumptions C05_exline_arithmetic_rule_one_sound.

Theorem C05_inline_equality_sound_partial : forall (sym_lt : sym -> sym -> Prop) (G G' : list string) (H T : interp) (hl : lit) (B : list bodyelem) (E : lit) (x : string) (t : term), simple_lit_b hl = true -> forallb simple_bodyelem_b B = true -> In (BLit E) B -> equality E = Some (x, t) -> negb (Globals.smem x (vars_term t)) = true -> inline_safe x t (filter (keep_other (BLit E)) B) = true -> rule_sat sym_lt G H T (HLit hl) B <-> rule_sat sym_lt G' H T (HLit (inline_replace_lit x t hl)) (map (inline_replace_bodyelem x t) (filter (keep_other (BLit E)) B)).
Proof. exact (@inline_equality_sound_partial). Qed.
Print Assumptions C05_inline_equality_sound_partial.

Theorem C05_inline_rule_sound : forall (sym_lt : sym -> sym -> Prop) (fuel : nat) (stm stm' : stmt), inline_checked fuel stm = true -> inline_rule_fuel fuel stm = Ok stm' -> forall H T : interp, stmt_sat sym_lt H T stm <-> stmt_sat sym_lt H T stm'.
Proof. exact (@inline_rule_sound). Qed.
Print Assumptions C05_inline_rule_sound.

Theorem C05_inline_self_reference_refuted : forall sym_lt : sym -> sym -> Prop, inline_rule self_ref_rule = Ok self_ref_inlined /\ stmt_sat sym_lt (single "q" f_a) (single "q" f_a) self_ref_rule /\ ~ stmt_sat sym_lt (single "q" f_a) (single "q" f_a) self_ref_inlined.
Proof. exact (@inline_self_reference_refuted). Qed.
Print Assumptions C05_inline_self_reference_refuted.

Theorem C05_inline_duplicate_equality_refuted : forall sym_lt : sym -> sym -> Prop, inline_rule dup_rule = Ok dup_inlined /\ negb (Globals.smem "X" (vars_term y_plus_1)) = true /\ stmt_sat sym_lt (single "q" c_sym) (single "q" c_sym) dup_rule /\ ~ stmt_sat sym_lt (single "q" c_sym) (single "q" c_sym) dup_inlined.
Proof. exact (@inline_duplicate_equality_refuted). Qed.
Print Assumptions C05_inline_duplicate_equality_refuted.

Theorem C05_exline_head_converse_refuted : forall sym_lt : sym -> sym -> Prop, inline_replace_lit "AUX" x_plus_1 (p_of (TVar "AUX")) = p_of x_plus_1 /\ negb (Globals.smem "AUX" (vars_term x_plus_1 ++ vars_lit (q_of (TVar "X")))) = true /\ (forall G : list string, rule_sat sym_lt G T_qc T_qc (HLit (p_of (TVar "AUX"))) ((BLit (q_of (TVar "X")) :: nil) ++ BLit (assign "AUX" x_plus_1) :: nil) /\ ~ rule_sat sym_lt G T_qc T_qc (HLit (p_of x_plus_1)) (BLit (q_of (TVar "X")) :: nil)).
Proof. exact (@exline_head_converse_refuted). Qed.
Print Assumptions C05_exline_head_converse_refuted.
