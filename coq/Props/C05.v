(* C05: always-on normal form: literal/atom-level HT-equivalences and their lifting to programs
   Only statements, `exact`, and Print Assumptions live here. *)
From Coq Require Import List String ZArith Bool Permutation.
From NGO Require Import Syntax.Ast Sem.Sym Sem.Sat Model.NormalizeCore Link.Equiv Link.NormalizeSem Link.AggSem.
Import ListNotations.

Theorem C05_chain_split_pos : forall (sym_lt : sym -> sym -> Prop) (G : list string) (H T : interp) (s : subst) (t : term) (gs : list guard), gs <> nil -> lit_sat sym_lt G H T s (Lit NoSign (ACmp t gs)) <-> lits_sat sym_lt G H T s (split_cmp_lit NoSign t gs).
Proof. exact (@chain_split_pos_proof). Qed.
Print Assumptions C05_chain_split_pos.

Theorem C05_chain_split_notnot : forall (sym_lt : sym -> sym -> Prop) (G : list string) (H T : interp) (s : subst) (t : term) (gs : list guard), gs <> nil -> lit_sat sym_lt G H T s (Lit NegNeg (ACmp t gs)) <-> lits_sat sym_lt G H T s (split_cmp_lit NegNeg t gs).
Proof. exact (@chain_split_nn_proof). Qed.
Print Assumptions C05_chain_split_notnot.

Theorem C05_chain_split_neg_refuted : forall sym_lt : sym -> sym -> Prop, sym_order sym_lt -> forall (G : list string) (H T : interp) (s : subst), lit_sat sym_lt G H T s (Lit Neg (ACmp negchain_t negchain_gs)) /\ ~ lits_sat sym_lt G H T s (split_cmp_lit Neg negchain_t negchain_gs).
Proof. exact (@chain_split_neg_refuted_proof). Qed.
Print Assumptions C05_chain_split_neg_refuted.

Theorem C05_guard_to_left : forall (sym_lt : sym -> sym -> Prop) (s : subst) (f : aggfun) (o : cmp) (t : term) (S : tupset), agg_holds sym_lt s None f (Some (o, t)) S <-> agg_holds sym_lt s (Some (rhs2lhs_comparison o, t)) f None S.
Proof. exact (@guard_to_left_proof). Qed.
Print Assumptions C05_guard_to_left.

Theorem C05_normalize_guards : forall sym_lt : sym -> sym -> Prop, sym_order sym_lt -> forall (s : subst) (f : aggfun) (lg rg : option guard) (S : tupset), agg_holds sym_lt s lg f rg S <-> agg_holds sym_lt s (fst (normalize_guards lg rg)) f (snd (normalize_guards lg rg)) S.
Proof. exact (@normalize_guards_proof). Qed.
Print Assumptions C05_normalize_guards.

Theorem C05_count_to_sumplus : forall (sym_lt : sym -> sym -> Prop) (G : list string) (H T : interp) (s : subst) (sg : sign) (lg : option guard) (es : list (list term * list lit)) (rg : option guard), atom_sat sym_lt G H T s sg (ABodyAgg lg FCount es rg) <-> atom_sat sym_lt G H T s sg (ABodyAgg lg FSumPlus (convert_count_elems es) rg).
Proof. exact (@count_to_sumplus_proof). Qed.
Print Assumptions C05_count_to_sumplus.

Theorem C05_map_equiv : forall (sym_lt : sym -> sym -> Prop) (f : stmt -> stmt) (P : list stmt), (forall st : stmt, In st P -> forall H T : interp, subi H T -> stmt_sat sym_lt H T st <-> stmt_sat sym_lt H T (f st)) -> equiv_all sym_lt P (map f P).
Proof. exact (@map_equiv). Qed.
Print Assumptions C05_map_equiv.

Theorem C05_flat_map_equiv : forall (sym_lt : sym -> sym -> Prop) (f : stmt -> list stmt) (P : list stmt), (forall st : stmt, In st P -> stmts_equiv sym_lt (st :: nil) (f st)) -> equiv_all sym_lt P (flat_map f P).
Proof. exact (@flat_map_equiv). Qed.
Print Assumptions C05_flat_map_equiv.
