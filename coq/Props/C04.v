(* C04: lexical validity of every generated name (prefixes generated from utils/globals.py); safety and print/parse fidelity are observed (see DESIGN)
   Only statements, `exact`, and Print Assumptions live here. *)
From Coq Require Import List String ZArith Bool Permutation.
From NGO Require Import Syntax.Ast Syntax.Wf Gen.Names Model.Globals Link.WfSpec.
Import ListNotations.

Theorem C04_name_constants_valid : valid_pred_name AUX_FUNC = true /\ valid_pred_name CHAIN_STR = true /\ valid_pred_name MIN_STR = true /\ valid_pred_name MAX_STR = true /\ valid_pred_name NEXT_STR = true /\ valid_pred_name DOM_STR = true /\ valid_pred_name AGG_STR = true /\ valid_var_name NEXT_name = true /\ valid_var_name PREV_name = true /\ valid_var_name AUX_VAR_name = true.
Proof. exact (@name_constants_valid_proof). Qed.
Print Assumptions C04_name_constants_valid.

Theorem C04_aux_names_valid : forall k : nat, valid_pred_name (AUX_FUNC ++ string_of_nat k) = true.
Proof. exact (@aux_names_valid_proof). Qed.
Print Assumptions C04_aux_names_valid.

Theorem C04_prefixed_name_valid : forall p : string, valid_pred_name p = true -> valid_pred_name (DOM_STR ++ p) = true /\ valid_pred_name (MIN_STR ++ p) = true /\ valid_pred_name (MAX_STR ++ p) = true /\ valid_pred_name (NEXT_STR ++ p) = true /\ valid_pred_name (CHAIN_STR ++ p) = true.
Proof. exact (@prefixed_name_valid_proof). Qed.
Print Assumptions C04_prefixed_name_valid.

Theorem C04_numbered_names_valid : forall (s : string) (k : nat), (valid_pred_name s = true -> valid_pred_name (s ++ string_of_nat k) = true) /\ (valid_var_name s = true -> valid_var_name (s ++ string_of_nat k) = true).
Proof. exact (@numbered_names_valid_proof). Qed.
Print Assumptions C04_numbered_names_valid.

Theorem C04_string_of_nat_ident : forall n : nat, all_ident_chars (string_of_nat n) = true.
Proof. exact (@string_of_nat_ident_proof). Qed.
Print Assumptions C04_string_of_nat_ident.

Theorem C04_none_is_not_a_variable : valid_var_name "none" = false /\ valid_pred_name "none" = true.
Proof. exact (@none_is_not_a_variable_proof). Qed.
Print Assumptions C04_none_is_not_a_variable.

From NGO Require Import Syntax.Ast Model.Binding Model.Projection Link.ProjectionSpec.

Theorem C04_projection_new_rule_safe : forall (new rest : list bodyelem) (stm : stmt) (t : list string), good_split new rest stm = Ok (Some t) -> exists bound : vset, collect_binding_information_body new None = Ok (bound, nil).
Proof. exact (@good_split_new_safe_proof). Qed.
Print Assumptions C04_projection_new_rule_safe.

Theorem C04_projection_rest_rule_legal : forall (new rest : list bodyelem) (stm : stmt) (t : list string), good_split new rest stm = Ok (Some t) -> exists bound : vset, collect_binding_information_body rest (Some t) = Ok (bound, nil).
Proof. exact (@good_split_rest_legal_proof). Qed.
Print Assumptions C04_projection_rest_rule_legal.

From NGO Require Import Model.Binding Model.Safe Link.SafeSpec.

Theorem C04_closure_spec : forall (A : Type) (eqb : A -> A -> bool), (forall a b : A, eqb a b = true <-> a = b) -> forall (rules : list brule) (B : list A) (x : A), In x (closure eqb rules B) <-> derivable rules B x.
Proof. exact (@SafeSpec.closure_spec). Qed.
Print Assumptions C04_closure_spec.

Theorem C04_safe_core_perm : forall (s : Ast.stmt) (b' : list Ast.bodyelem), Permutation (body_of s) b' -> safe_core (set_body s b') = safe_core s.
Proof. exact (@SafeSpec.safe_core_perm). Qed.
Print Assumptions C04_safe_core_perm.

Theorem C04_add_literal_safe : forall (n : nat) (h : Ast.lit) (b : list Ast.bodyelem) (l : Ast.lit), flat_body b = true -> is_plain_lit l = true -> safe_core (Ast.SRule n (Ast.HLit h) b) = true -> (forall x : name, In x (lit_needed l) -> bound (l :: blits b) (head_carrier h :: nil) x) -> safe_core (Ast.SRule n (Ast.HLit h) (Ast.BLit l :: b)) = true.
Proof. exact (@SafeSpec.add_literal_safe). Qed.
Print Assumptions C04_add_literal_safe.

Theorem C04_delete_literal_safe : forall (n : nat) (h : Ast.lit) (b1 : list Ast.bodyelem) (l : Ast.lit) (b2 : list Ast.bodyelem), flat_body (b1 ++ Ast.BLit l :: b2) = true -> safe_core (Ast.SRule n (Ast.HLit h) (b1 ++ Ast.BLit l :: b2)) = true -> lit_ies l = nil -> (forall (D P : list name) (x : name), In (D, P) (lit_brules nil l) -> In x P -> bound (blits (b1 ++ b2)) (head_carrier h :: nil) x) -> safe_core (Ast.SRule n (Ast.HLit h) (b1 ++ b2)) = true.
Proof. exact (@SafeSpec.delete_literal_safe). Qed.
Print Assumptions C04_delete_literal_safe.

Theorem C04_replace_by_aux_safe : forall (n : nat) (h : Ast.lit) (New Rest : list Ast.lit) (a : string) (ts : list string), forallb is_plain_lit (New ++ Rest) = true -> safe_core (Ast.SRule n (Ast.HLit h) (map Ast.BLit (New ++ Rest))) = true -> ~ In "_" ts -> scope_ies Rest (head_carrier h :: nil) = nil -> (forall x : name, In x (flat_map lit_names New) -> In x (scope_needed false Rest (head_carrier h :: nil)) -> exists v : string, x = NVar v /\ In v ts) -> safe_core (Ast.SRule n (Ast.HLit h) (map Ast.BLit (var_atom a ts :: Rest))) = true.
Proof. exact (@SafeSpec.replace_by_aux_safe). Qed.
Print Assumptions C04_replace_by_aux_safe.

Theorem C04_aux_rule_safe : forall (n : nat) (New : list Ast.lit) (a : string) (ts : list string), forallb is_plain_lit New = true -> ~ In "_" ts -> safe_core (Ast.SRule n (Ast.HLit (var_atom a ts)) (map Ast.BLit New)) = true <-> (forall x : name, In x (flat_map lit_needed New) -> bound New nil x) /\ (forall v : string, In v ts -> bound New nil (NVar v)).
Proof. exact (@SafeSpec.aux_rule_safe). Qed.
Print Assumptions C04_aux_rule_safe.

Theorem C04_rename_safe : forall sg : string -> string, (forall x y : string, sg x = sg y -> x = y) -> (forall x : string, sg x <> "_") -> forall (n : nat) (h : Ast.lit) (ls : list Ast.lit), forallb slit (h :: ls) = true -> safe_core (Ast.SRule n (Ast.HLit h) (map Ast.BLit ls)) = true -> safe_core (Ast.SRule n (Ast.HLit (rl sg h)) (map Ast.BLit (map (rl sg) ls))) = true.
Proof. exact (@SafeSpec.rename_safe). Qed.
Print Assumptions C04_rename_safe.

Theorem C04_binding_complete_implies_safe : forall (n : nat) (h : Ast.lit) (ls : list Ast.lit) (bv : vset), forallb flit (h :: ls) = true -> collect_binding_information_body (map Ast.BLit ls) None = Ast.Ok (bv, nil) -> incl (Ast.vars_lit h) bv -> safe_core (Ast.SRule n (Ast.HLit h) (map Ast.BLit ls)) = true.
Proof. exact (@SafeSpec.binding_complete_implies_safe). Qed.
Print Assumptions C04_binding_complete_implies_safe.

Theorem C04_ngo_binding_interval_refuted : refutes (Ast.SRule 1 (Ast.HLit (atom1 "a" (Ast.TVar "X"))) (Ast.BLit (atom1 "p" (Ast.TInterval (Ast.TSym (Ast.SNum 1)) (Ast.TVar "X"))) :: nil)) = true.
Proof. exact (@SafeSpec.ngo_binding_interval_refuted). Qed.
Print Assumptions C04_ngo_binding_interval_refuted.

Theorem C04_ngo_binding_nested_division_refuted : refutes (Ast.SRule 1 (Ast.HLit (atom1 "a" (Ast.TVar "X"))) (Ast.BLit (atom1 "p" (Ast.TBin Ast.BPlus (Ast.TBin Ast.BDiv (Ast.TVar "X") (Ast.TSym (Ast.SNum 2))) (Ast.TSym (Ast.SNum 1)))) :: nil)) = true.
Proof. exact (@SafeSpec.ngo_binding_nested_division_refuted). Qed.
Print Assumptions C04_ngo_binding_nested_division_refuted.

Theorem C04_ngo_binding_aggregate_cycle_refuted : refutes (Ast.SRule 1 (Ast.HLit (atom1 "a" (Ast.TVar "X"))) (Ast.BLit (Ast.Lit Ast.NoSign (Ast.ABodyAgg (Some (Ast.CEq, Ast.TVar "X")) Ast.FSum ((Ast.TSym (Ast.SNum 1) :: nil, atom1 "p" (Ast.TVar "X") :: nil) :: nil) None)) :: nil)) = true.
Proof. exact (@SafeSpec.ngo_binding_aggregate_cycle_refuted). Qed.
Print Assumptions C04_ngo_binding_aggregate_cycle_refuted.

Theorem C04_delete_without_bounds_condition_refuted : safe_stmt (Ast.SRule 1 (Ast.HLit ex_head) (map Ast.BLit (ex_px :: ex_x3 :: ex_xy :: ex_yx :: nil))) = true /\ (forall (D P : list name) (x : name), In (D, P) (lit_brules nil ex_x3) -> In x P -> bound (ex_px :: ex_xy :: ex_yx :: nil) (head_carrier ex_head :: nil) x) /\ lit_ies ex_x3 <> nil /\ safe_result (Ast.SRule 1 (Ast.HLit ex_head) (map Ast.BLit (ex_px :: ex_xy :: ex_yx :: nil))) = Ast.Ok ("Y" :: nil).
Proof. exact (@SafeSpec.delete_without_bounds_condition_refuted). Qed.
Print Assumptions C04_delete_without_bounds_condition_refuted.
