(* C04: lexical validity of every generated name (prefixes generated from utils/globals.py); safety and print/parse fidelity are observed (see DESIGN)
   Only statements, `exact`, and Print Assumptions live here. *)
From Coq Require Import List String ZArith Bool Permutation.
From NGO Require Import Syntax.Ast Syntax.Wf Gen.Names Model.Globals Link.WfSpec.
Import ListNotations.

Theorem C04_name_constants_valid : valid_pred_name AUX_FUNC = true /\ valid_pred_name CHAIN_STR = true /\ valid_pred_name MIN_STR = true /\ valid_pred_name MAX_STR = true /\ valid_pred_name NEXT_STR = true /\ valid_pred_name DOM_STR = true /\ valid_pred_name AGG_STR = true /\ valid_var_name NEXT_name = true /\ valid_var_name PREV_name = true /\ valid_var_name AUX_VAR_name = true.
Proof. exact (@name_constants_valid_proof). Qed.
Print Assumptions C04_name_constants_valid.

Theorem C04_aux_names_valid : forall k : nat, valid_pred_name (AUX_FUNC ++ string_of_nat k) = true.
Proof. exact (@aux_names_valid_proof). Qed.
Print Assumptions C04_aux_names_valid.

Theorem C04_prefixed_name_valid : forall p : string, valid_pred_name p = true -> valid_pred_name (DOM_STR ++ p) = true /\ valid_pred_name (MIN_STR ++ p) = true /\ valid_pred_name (MAX_STR ++ p) = true /\ valid_pred_name (NEXT_STR ++ p) = true /\ valid_pred_name (CHAIN_STR ++ p) = true.
Proof. exact (@prefixed_name_valid_proof). Qed.
Print Assumptions C04_prefixed_name_valid.

Theorem C04_numbered_names_valid : forall (s : string) (k : nat), (valid_pred_name s = true -> valid_pred_name (s ++ string_of_nat k) = true) /\ (valid_var_name s = true -> valid_var_name (s ++ string_of_nat k) = true).
Proof. exact (@numbered_names_valid_proof). Qed.
Print Assumptions C04_numbered_names_valid.

Theorem C04_string_of_nat_ident : forall n : nat, all_ident_chars (string_of_nat n) = true.
Proof. exact (@string_of_nat_ident_proof). Qed.
Print Assumptions C04_string_of_nat_ident.

Theorem C04_none_is_not_a_variable : valid_var_name "none" = false /\ valid_pred_name "none" = true.
Proof. exact (@none_is_not_a_variable_proof). Qed.
Print Assumptions C04_none_is_not_a_variable.

From NGO Require Import Syntax.Ast Model.Binding Model.Projection Link.ProjectionSpec.

Theorem C04_projection_new_rule_safe : forall (new rest : list bodyelem) (stm : stmt) (t : list string), good_split new rest stm = Ok (Some t) -> exists bound : vset, collect_binding_information_body new None = Ok (bound, nil).
Proof. exact (@good_split_new_safe_proof). Qed.
Print Assumptions C04_projection_new_rule_safe.

Theorem C04_projection_rest_rule_legal : forall (new rest : list bodyelem) (stm : stmt) (t : list string), good_split new rest stm = Ok (Some t) -> exists bound : vset, collect_binding_information_body rest (Some t) = Ok (bound, nil).
Proof. exact (@good_split_rest_legal_proof). Qed.
Print Assumptions C04_projection_rest_rule_legal.
