(* C08: cleanup deletes only literals and rules that cannot matter: meta-theorem (G2), semantic soundness of the modelled same-predicate branch of _superseeded, structure of the removal loop, boolean constants
   Only statements, `exact`, and Print Assumptions live here. *)
From Coq Require Import List String ZArith Bool Permutation.
From NGO Require Import Syntax.Ast Sem.Sym Sem.Sat Meta.Cleanup Model.Cleanup Link.NormalizeSem Link.CleanupSpec.
Import ListNotations.

Theorem C08_supported : forall (atom F : Type) (fsat : interp atom -> interp atom -> F -> Prop), (forall (H T : interp atom) (f : F), subi atom H T -> fsat H T f -> fsat T T f) -> forall (P : prog atom F) (T : interp atom) (a : atom), stable atom F fsat P T -> T a -> exists r : rule atom F, P r /\ head_atom atom (hd atom F r) a /\ bsat atom F fsat T T (bd atom F r).
Proof. exact (@Cleanup.supported). Qed.
Print Assumptions C08_supported.

Theorem C08_cleanup_fwd : forall (atom F : Type) (fsat : interp atom -> interp atom -> F -> Prop) (pos : atom -> F), (forall (H T : interp atom) (a : atom), fsat H T (pos a) <-> H a) -> (forall (H T : interp atom) (f : F), subi atom H T -> fsat H T f -> fsat T T f) -> forall P P' : prog atom F, (forall r : rule atom F, P r -> exists r' : rule atom F, P' r' /\ shortened atom F pos P r r') -> (forall r' : rule atom F, P' r' -> exists r : rule atom F, P r /\ shortened atom F pos P r r') -> forall T : interp atom, stable atom F fsat P T -> stable atom F fsat P' T.
Proof. exact (@Cleanup.cleanup_fwd). Qed.
Print Assumptions C08_cleanup_fwd.

Theorem C08_cleanup_bwd : forall (atom F : Type) (fsat : interp atom -> interp atom -> F -> Prop) (pos : atom -> F), (forall (H T : interp atom) (a : atom), fsat H T (pos a) <-> H a) -> (forall (H H' T : interp atom) (f : F), subi atom H H' -> fsat H T f -> fsat H' T f) -> forall P P' : prog atom F, (forall r : rule atom F, P r -> exists r' : rule atom F, P' r' /\ shortened atom F pos P r r') -> (forall r' : rule atom F, P' r' -> exists r : rule atom F, P r /\ shortened atom F pos P r r') -> forall T : interp atom, stable atom F fsat P' T -> stable atom F fsat P T.
Proof. exact (@Cleanup.cleanup_bwd). Qed.
Print Assumptions C08_cleanup_bwd.

Theorem C08_true_literal : forall (sym_lt : sym -> sym -> Prop) (G : list string) (H T : Sym.interp) (s : subst), lit_sat sym_lt G H T s (Lit NoSign (ABool true)) /\ lit_sat sym_lt G H T s (Lit NegNeg (ABool true)).
Proof. exact (@true_literal_proof). Qed.
Print Assumptions C08_true_literal.

Theorem C08_false_literal : forall (sym_lt : sym -> sym -> Prop) (G : list string) (H T : Sym.interp) (s : subst), ~ lit_sat sym_lt G H T s (Lit NoSign (ABool false)) /\ ~ lit_sat sym_lt G H T s (Lit NegNeg (ABool false)).
Proof. exact (@false_literal_proof). Qed.
Print Assumptions C08_false_literal.

Theorem C08_same_pred_implied : forall (sym_lt : sym -> sym -> Prop) (ss : list Mapping) (lhs rhs : lit) (G : list string) (H T : Sym.interp) (s : subst), Sym.subi H T -> pred_symbol lhs <> None -> same_pred lhs rhs = true -> no_anon rhs = true -> _superseeded ss lhs rhs = Ok true -> lit_sat sym_lt G H T s lhs -> lit_sat sym_lt G H T s rhs.
Proof. exact (@same_pred_implied_proof). Qed.
Print Assumptions C08_same_pred_implied.

Theorem C08_same_pred_implied_weak : forall (sym_lt : sym -> sym -> Prop) (ss : list Mapping) (lhs rhs : lit) (G : list string) (H T : Sym.interp) (s : subst), Sym.subi H T -> pred_symbol lhs <> None -> same_pred lhs rhs = true -> anon_guarded lhs rhs = true -> _superseeded ss lhs rhs = Ok true -> lit_sat sym_lt G H T s lhs -> lit_sat sym_lt G H T s rhs.
Proof. exact (@same_pred_implied_weak_proof). Qed.
Print Assumptions C08_same_pred_implied_weak.

Theorem C08_superseeded_lhs_positive : forall (ss : list Mapping) (lhs rhs : lit), _superseeded ss lhs rhs = Ok true -> lit_sign lhs = NoSign.
Proof. exact (@superseeded_lhs_positive_proof). Qed.
Print Assumptions C08_superseeded_lhs_positive.

Theorem C08_superseeded_same_pred_never_negative : forall (ss : list Mapping) (lhs rhs : lit), same_pred lhs rhs = true -> lit_sign rhs = Neg -> _superseeded ss lhs rhs = Ok false.
Proof. exact (@superseeded_same_pred_never_negative_proof). Qed.
Print Assumptions C08_superseeded_same_pred_never_negative.

Theorem C08_remove_implied_body : forall (sym_lt : sym -> sym -> Prop) (ss : list Mapping) (lhs rhs : lit) (G : list string) (H T : Sym.interp) (s : subst) (rest : list lit), Sym.subi H T -> pred_symbol lhs <> None -> same_pred lhs rhs = true -> no_anon rhs = true -> _superseeded ss lhs rhs = Ok true -> lits_sat sym_lt G H T s (lhs :: rhs :: rest) <-> lits_sat sym_lt G H T s (lhs :: rest).
Proof. exact (@remove_implied_body_proof). Qed.
Print Assumptions C08_remove_implied_body.

Theorem C08_remove_only_removes : forall (A : Type) (as_lit : A -> option lit) (eqb : A -> A -> bool) (ss : list Mapping) (l l' : list A) (updated : bool), _remove_superseed_from_list as_lit eqb ss l = Ok (l', updated) -> subseq l' l /\ (forall x : A, In x l' -> In x l) /\ Datatypes.length l' <= Datatypes.length l /\ (updated = false -> l' = l).
Proof. exact (@remove_superseed_only_removes_proof). Qed.
Print Assumptions C08_remove_only_removes.

Theorem C08_remove_reaches_fixpoint : forall (A : Type) (as_lit : A -> option lit) (eqb : A -> A -> bool) (ss : list Mapping) (l l' : list A) (updated : bool), _remove_superseed_from_list as_lit eqb ss l = Ok (l', updated) -> find_pair as_lit ss l' 0 l' = Ok None.
Proof. exact (@remove_superseed_fixpoint_proof). Qed.
Print Assumptions C08_remove_reaches_fixpoint.

Theorem C08_lit_sat_persist : forall (sym_lt : sym -> sym -> Prop) (G : list string) (H T : Sym.interp) (s : subst) (l : lit), Sym.subi H T -> lit_sat sym_lt G H T s l -> lit_sat sym_lt G T T s l.
Proof. exact (@lit_sat_persist_all_proof). Qed.
Print Assumptions C08_lit_sat_persist.

Theorem C08_anon_side_condition_needed : forall sym_lt : sym -> sym -> Prop, let lhs := Lit NoSign (ASym (TFun "p" (TVar "X" :: nil) false)) in let rhs := Lit NoSign (ASym (TFun "p" (TVar "_" :: nil) false)) in let T0 := fun a : gatom => a = ("p", SNum 1 :: nil) in let s0 := fun x : string => if x =? "_" then SNum 2 else SNum 1 in same_pred lhs rhs = true /\ _superseeded nil lhs rhs = Ok true /\ no_anon rhs = false /\ lit_sat sym_lt nil T0 T0 s0 lhs /\ ~ lit_sat sym_lt nil T0 T0 s0 rhs.
Proof. exact (@same_pred_anon_needed). Qed.
Print Assumptions C08_anon_side_condition_needed.

From NGO Require Import Syntax.Ast Sem.Sym Sem.Sat Meta.Cleanup Link.Ground.

Theorem C08_ground_stable_iff : forall (sym_lt : sym -> sym -> Prop) (P : program), simple_prog P = true -> forall (I : list gatom) (T : Sym.interp), Sat.stable sym_lt P I T <-> stable gatom gF gsat (ground_prog sym_lt P I) T.
Proof. exact (@ground_stable_iff). Qed.
Print Assumptions C08_ground_stable_iff.

Theorem C08_supported_nonground : forall (sym_lt : sym -> sym -> Prop) (P : program) (I : list gatom) (T : Sym.interp) (a : gatom), simple_prog P = true -> Sat.stable sym_lt P I T -> T a -> In a I \/ (exists (line : nat) (h : Ast.head) (b : list bodyelem) (s : subst), In (SRule line h b) P /\ head_derives s h a /\ body_sat sym_lt (gvars_rule h b) T T s b).
Proof. exact (@supported_nonground). Qed.
Print Assumptions C08_supported_nonground.

Theorem C08_cleanup_nonground_del : forall (sym_lt : sym -> sym -> Prop) (P P' : program) (I : list gatom), simple_prog P = true -> simple_prog P' = true -> Forall2 (del_ok sym_lt P I) P P' -> forall T : Sym.interp, Sat.stable sym_lt P I T <-> Sat.stable sym_lt P' I T.
Proof. exact (@cleanup_nonground_del). Qed.
Print Assumptions C08_cleanup_nonground_del.

Theorem C08_cleanup_nonground_fwd : forall (sym_lt : sym -> sym -> Prop) (P P' : program) (I : list gatom), simple_prog P = true -> simple_prog P' = true -> (forall r : rule gatom gF, ground_prog sym_lt P I r -> exists r' : rule gatom gF, ground_prog sym_lt P' I r' /\ shortened gatom gF GPos (ground_prog sym_lt P I) r r') -> (forall r' : rule gatom gF, ground_prog sym_lt P' I r' -> exists r : rule gatom gF, ground_prog sym_lt P I r /\ shortened gatom gF GPos (ground_prog sym_lt P I) r r') -> forall T : Sym.interp, Sat.stable sym_lt P I T -> Sat.stable sym_lt P' I T.
Proof. exact (@cleanup_nonground_fwd). Qed.
Print Assumptions C08_cleanup_nonground_fwd.

From NGO Require Import Syntax.Ast Sem.Sym Sem.Sat Meta.Cleanup Model.Cleanup Link.Ground Link.CleanupSem.

Theorem C08_execute_core_sound : forall (sym_lt : sym -> sym -> Prop) (inputs : list pred) (prg : program) (prg' : list stmt), frag_prog prg = true -> execute_core inputs prg = Ok prg' -> forall I : list gatom, facts_over (in_inputs inputs) I -> forall T : Sym.interp, Sat.stable sym_lt prg I T <-> Sat.stable sym_lt prg' I T.
Proof. exact (@execute_core_sound). Qed.
Print Assumptions C08_execute_core_sound.

Theorem C08_find_superseeded_meaning : forall (sym_lt : sym -> sym -> Prop) (inputs : list pred) (prg : program) (I : list gatom) (sups : list Mapping), heads_ok prg = true -> facts_over (in_inputs inputs) I -> _find_superseeded inputs nil prg = Ok sups -> Forall (mapping_ok sym_lt prg I) sups.
Proof. exact (@find_superseeded_meaning). Qed.
Print Assumptions C08_find_superseeded_meaning.

Theorem C08_transitive_closure_meaning : forall (sym_lt : sym -> sym -> Prop) (P : program) (I : list gatom) (a cl : list Mapping), Forall (mapping_ok sym_lt P I) a -> transitive_closure a = Ok cl -> Forall (mapping_ok sym_lt P I) cl.
Proof. exact (@transitive_closure_meaning). Qed.
Print Assumptions C08_transitive_closure_meaning.

Theorem C08_superseeded_meaning : forall (sym_lt : sym -> sym -> Prop) (P : program) (I : list gatom) (ss : list Mapping) (lhs rhs : lit), Forall (mapping_ok sym_lt P I) ss -> CleanupSpec.no_anon rhs = true -> _superseeded ss lhs rhs = Ok true -> exists (ln : string) (largs : list term) (le : bool) (sg : sign) (rn : string) (rargs : list term) (re : bool), lhs = Lit NoSign (ASym (TFun ln largs le)) /\ rhs = Lit sg (ASym (TFun rn rargs re)) /\ (forall t : term, In t rargs -> In t largs) /\ (forall (s : subst) (vs : list sym), eval_list s largs = Some vs -> exists ws : list sym, eval_list s rargs = Some ws /\ ((rn, ws) = (ln, vs) /\ sg <> Neg /\ CleanupSpec.same_pred lhs rhs = true \/ imp gatom gF GPos (ground_prog sym_lt P I) (ln, vs) (sign_form sg (rn, ws)))).
Proof. exact (@superseeded_meaning). Qed.
Print Assumptions C08_superseeded_meaning.

Theorem C08_create_mappings_meaning : forall (sym_lt : sym -> sym -> Prop) (p : pred) (ln : nat) (n : string) (hargs : list term) (e : bool) (body : list bodyelem) (loc : list Mapping) (m : Mapping), _compute_local_superseed p (SRule ln (HLit (Lit NoSign (ASym (TFun n hargs e)))) body) = Ok loc -> In m loc -> p = (n, Datatypes.length hargs) /\ head_pred m = p /\ mapping_wf m /\ mapping_holds_in (ground_rule sym_lt (SRule ln (HLit (Lit NoSign (ASym (TFun n hargs e)))) body)) m.
Proof. exact (@create_mappings_meaning). Qed.
Print Assumptions C08_create_mappings_meaning.
