(* C08: cleanup deletes only literals and rules that cannot matter (meta level + boolean constants)
   Only statements, `exact`, and Print Assumptions live here. *)
From Coq Require Import List String ZArith Bool Permutation.
From NGO Require Import Syntax.Ast Sem.Sym Sem.Sat Meta.Cleanup Link.NormalizeSem.
Import ListNotations.

Theorem C08_supported : forall (atom F : Type) (fsat : interp atom -> interp atom -> F -> Prop), (forall (H T : interp atom) (f : F), subi atom H T -> fsat H T f -> fsat T T f) -> forall (P : prog atom F) (T : interp atom) (a : atom), stable atom F fsat P T -> T a -> exists r : rule atom F, P r /\ head_atom atom (hd atom F r) a /\ bsat atom F fsat T T (bd atom F r).
Proof. exact (@Cleanup.supported). Qed.
Print Assumptions C08_supported.

Theorem C08_cleanup_fwd : forall (atom F : Type) (fsat : interp atom -> interp atom -> F -> Prop) (pos : atom -> F), (forall (H T : interp atom) (a : atom), fsat H T (pos a) <-> H a) -> (forall (H T : interp atom) (f : F), subi atom H T -> fsat H T f -> fsat T T f) -> forall P P' : prog atom F, (forall r : rule atom F, P r -> exists r' : rule atom F, P' r' /\ shortened atom F pos P r r') -> (forall r' : rule atom F, P' r' -> exists r : rule atom F, P r /\ shortened atom F pos P r r') -> forall T : interp atom, stable atom F fsat P T -> stable atom F fsat P' T.
Proof. exact (@Cleanup.cleanup_fwd). Qed.
Print Assumptions C08_cleanup_fwd.

Theorem C08_cleanup_bwd : forall (atom F : Type) (fsat : interp atom -> interp atom -> F -> Prop) (pos : atom -> F), (forall (H T : interp atom) (a : atom), fsat H T (pos a) <-> H a) -> (forall (H H' T : interp atom) (f : F), subi atom H H' -> fsat H T f -> fsat H' T f) -> forall P P' : prog atom F, (forall r : rule atom F, P r -> exists r' : rule atom F, P' r' /\ shortened atom F pos P r r') -> (forall r' : rule atom F, P' r' -> exists r : rule atom F, P r /\ shortened atom F pos P r r') -> forall T : interp atom, stable atom F fsat P' T -> stable atom F fsat P T.
Proof. exact (@Cleanup.cleanup_bwd). Qed.
Print Assumptions C08_cleanup_bwd.

Theorem C08_true_literal : forall (sym_lt : sym -> sym -> Prop) (G : list string) (H T : Sym.interp) (s : subst), lit_sat sym_lt G H T s (Lit NoSign (ABool true)) /\ lit_sat sym_lt G H T s (Lit NegNeg (ABool true)).
Proof. exact (@true_literal_proof). Qed.
Print Assumptions C08_true_literal.

Theorem C08_false_literal : forall (sym_lt : sym -> sym -> Prop) (G : list string) (H T : Sym.interp) (s : subst), ~ lit_sat sym_lt G H T s (Lit NoSign (ABool false)) /\ ~ lit_sat sym_lt G H T s (Lit NegNeg (ABool false)).
Proof. exact (@false_literal_proof). Qed.
Print Assumptions C08_false_literal.
