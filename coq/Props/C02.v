(* C02: cost algebra on tuple sets (objectives count each distinct tuple once) and the telescoping identity used by the chain passes
   Only statements, `exact`, and Print Assumptions live here. *)
From Coq Require Import List String ZArith Bool Permutation.
From NGO Require Import Syntax.Ast Sem.Sym Sem.Sat Sem.Cost Link.CostAlg Meta.Chain.
Import ListNotations.

Theorem C02_sum_enumeration_independent : forall (S : tupset) (l l' : list (list sym)), enumerates S l -> enumerates S l' -> sum_of l = sum_of l'.
Proof. exact (@sum_enumeration_independent_proof). Qed.
Print Assumptions C02_sum_enumeration_independent.

Theorem C02_sum_disjoint_union : forall (S1 S2 : tupset) (l1 l2 : list (list sym)), enumerates S1 l1 -> enumerates S2 l2 -> (forall tv : list sym, S1 tv -> S2 tv -> False) -> enumerates (fun tv : list sym => S1 tv \/ S2 tv) (l1 ++ l2) /\ sum_of (l1 ++ l2) = (sum_of l1 + sum_of l2)%Z.
Proof. exact (@sum_disjoint_union_proof). Qed.
Print Assumptions C02_sum_disjoint_union.

Theorem C02_overlap_counted_once : forall tv : list sym, enumerates (fun x : list sym => x = tv \/ x = tv) (tv :: nil) /\ sum_of (tv :: nil) = weight tv.
Proof. exact (@sum_overlap_counted_once_proof). Qed.
Print Assumptions C02_overlap_counted_once.

Theorem C02_cost_ext : forall (sym_lt : sym -> sym -> Prop) (P Q : program) (T T' : interp), (forall (p : Z) (tv : list sym), cost_tuples sym_lt P T p tv <-> cost_tuples sym_lt Q T' p tv) -> same_cost sym_lt P Q T T'.
Proof. exact (@cost_ext_proof). Qed.
Print Assumptions C02_cost_ext.

Theorem C02_telescoping_max : forall (r : list Z) (d m : Z), Sorted.StronglySorted Z.lt (d :: r) -> In m (d :: r) -> (d + steps (fun v : Z => v <=? m) d r)%Z = m.
Proof. exact (@telescoping_max). Qed.
Print Assumptions C02_telescoping_max.
