(* C02: cost algebra on tuple sets (objectives count each distinct tuple once) and the telescoping identity used by the chain passes
   Only statements, `exact`, and Print Assumptions live here. *)
From Coq Require Import List String ZArith Bool Permutation.
From NGO Require Import Syntax.Ast Sem.Sym Sem.Sat Sem.Cost Link.CostAlg Meta.Chain.
Import ListNotations.

Theorem C02_sum_enumeration_independent : forall (S : tupset) (l l' : list (list sym)), enumerates S l -> enumerates S l' -> sum_of l = sum_of l'.
Proof. exact (@sum_enumeration_independent_proof). Qed.
Print Assumptions C02_sum_enumeration_independent.

Theorem C02_sum_disjoint_union : forall (S1 S2 : tupset) (l1 l2 : list (list sym)), enumerates S1 l1 -> enumerates S2 l2 -> (forall tv : list sym, S1 tv -> S2 tv -> False) -> enumerates (fun tv : list sym => S1 tv \/ S2 tv) (l1 ++ l2) /\ sum_of (l1 ++ l2) = (sum_of l1 + sum_of l2)%Z.
Proof. exact (@sum_disjoint_union_proof). Qed.
Print Assumptions C02_sum_disjoint_union.

Theorem C02_overlap_counted_once : forall tv : list sym, enumerates (fun x : list sym => x = tv \/ x = tv) (tv :: nil) /\ sum_of (tv :: nil) = weight tv.
Proof. exact (@sum_overlap_counted_once_proof). Qed.
Print Assumptions C02_overlap_counted_once.

Theorem C02_cost_ext : forall (sym_lt : sym -> sym -> Prop) (P Q : program) (T T' : interp), (forall (p : Z) (tv : list sym), cost_tuples sym_lt P T p tv <-> cost_tuples sym_lt Q T' p tv) -> same_cost sym_lt P Q T T'.
Proof. exact (@cost_ext_proof). Qed.
Print Assumptions C02_cost_ext.

Theorem C02_telescoping_max : forall (r : list Z) (d m : Z), Sorted.StronglySorted Z.lt (d :: r) -> In m (d :: r) -> (d + steps (fun v : Z => v <=? m) d r)%Z = m.
Proof. exact (@telescoping_max). Qed.
Print Assumptions C02_telescoping_max.

From NGO Require Import Sem.Sym Sem.Sat Sem.Cost Link.SumChainsSem.

Theorem C02_sum_chain_cost : forall (sym_lt : Ast.sym -> Ast.sym -> Prop) (T : interp) (p ch nx : string) (gs : list string) (lv pv : string) (pr : Ast.term) (ts : list Ast.term) (cs : list Ast.lit) (line : nat), forallb Normalize.simple_lit_b cs = true -> ofresh gs pr ts cs lv -> ofresh gs pr ts cs pv -> lv <> pv -> forall (prj : string) (p0 : Z), (forall g r : list Ast.sym, octx sym_lt T gs pr ts cs p0 g r -> group_ok T p ch nx g) -> (forall g r : list Ast.sym, octx sym_lt T gs pr ts cs p0 g r -> (forall v : Ast.sym, ~ T (p, g ++ v :: nil)) -> forall d : Ast.sym, ~ T (ch, g ++ d :: nil)) -> (forall g g' r : list Ast.sym, octx sym_lt T gs pr ts cs p0 g r -> octx sym_lt T gs pr ts cs p0 g' r -> g = g') -> (exists L : list (list Ast.sym * list Ast.sym), forall g r : list Ast.sym, octx sym_lt T gs pr ts cs p0 g r -> (exists v : Ast.sym, T (p, g ++ v :: nil)) -> In (g, r) L) -> (forall (g r : list Ast.sym) (n : Ast.sym), octx sym_lt T gs pr ts cs p0 g r -> T (prj, g ++ n :: nil) <-> (exists q : Ast.sym, T (nx, g ++ q :: n :: nil))) -> forall P1 P2 : list Ast.stmt, (forall tv : list Ast.sym, cost_tuples sym_lt (obj_orig p gs lv pr ts cs line :: nil) T p0 tv -> cost_tuples sym_lt (P1 ++ P2) T p0 tv -> False) -> (forall tv : list Ast.sym, cost_tuples sym_lt (obj_step ch nx gs lv pv pr ts cs line :: obj_first_proj ch nx gs lv pr ts cs line prj :: nil) T p0 tv -> cost_tuples sym_lt (P1 ++ P2) T p0 tv -> False) -> forall c : Z, cost_at sym_lt (P1 ++ obj_orig p gs lv pr ts cs line :: P2) T p0 c <-> cost_at sym_lt (P1 ++ obj_step ch nx gs lv pv pr ts cs line :: obj_first_proj ch nx gs lv pr ts cs line prj :: P2) T p0 c.
Proof. exact (@SumChainsSem.sum_chain_cost). Qed.
Print Assumptions C02_sum_chain_cost.

Theorem C02_sum_chain_cost_max : forall (sym_lt : Ast.sym -> Ast.sym -> Prop) (T : interp) (p ch nx : string) (gs : list string) (lv pv : string) (pr : Ast.term) (ts : list Ast.term) (cs : list Ast.lit) (line : nat), forallb Normalize.simple_lit_b cs = true -> ofresh gs pr ts cs lv -> ofresh gs pr ts cs pv -> lv <> pv -> forall (prj : string) (p0 : Z), (forall g r : list Ast.sym, octx sym_lt T gs pr ts cs p0 g r -> group_ok T p ch nx g) -> (forall g r : list Ast.sym, octx sym_lt T gs pr ts cs p0 g r -> (forall v : Ast.sym, ~ T (p, g ++ v :: nil)) -> forall d : Ast.sym, ~ T (ch, g ++ d :: nil)) -> (forall g g' r : list Ast.sym, octx sym_lt T gs pr ts cs p0 g r -> octx sym_lt T gs pr ts cs p0 g' r -> g = g') -> (exists L : list (list Ast.sym * list Ast.sym), forall g r : list Ast.sym, octx sym_lt T gs pr ts cs p0 g r -> (exists v : Ast.sym, T (p, g ++ v :: nil)) -> In (g, r) L) -> (forall (g r : list Ast.sym) (n : Ast.sym), octx sym_lt T gs pr ts cs p0 g r -> T (prj, g ++ n :: nil) <-> (exists q : Ast.sym, T (nx, g ++ q :: n :: nil))) -> forall P1 P2 : list Ast.stmt, (forall tv : list Ast.sym, cost_tuples sym_lt (neg_stmt (obj_orig p gs lv pr ts cs line) :: nil) T p0 tv -> cost_tuples sym_lt (P1 ++ P2) T p0 tv -> False) -> (forall tv : list Ast.sym, cost_tuples sym_lt (neg_stmt (obj_step ch nx gs lv pv pr ts cs line) :: neg_stmt (obj_first_proj ch nx gs lv pr ts cs line prj) :: nil) T p0 tv -> cost_tuples sym_lt (P1 ++ P2) T p0 tv -> False) -> forall c : Z, cost_at sym_lt (P1 ++ neg_stmt (obj_orig p gs lv pr ts cs line) :: P2) T p0 c <-> cost_at sym_lt (P1 ++ neg_stmt (obj_step ch nx gs lv pv pr ts cs line) :: neg_stmt (obj_first_proj ch nx gs lv pr ts cs line prj) :: P2) T p0 c.
Proof. exact (@SumChainsSem.sum_chain_cost_max). Qed.
Print Assumptions C02_sum_chain_cost_max.

Theorem C02_projected_group_refuted : forall sym_lt : Ast.sym -> Ast.sym -> Prop, cost_at sym_lt (Refutations.b_orig :: nil) Refutations.Tb 0 3 /\ cost_at sym_lt (Refutations.b_step :: Refutations.b_first :: nil) Refutations.Tb 0 6.
Proof. exact (@SumChainsSem.Refutations.projected_group_refuted). Qed.
Print Assumptions C02_projected_group_refuted.
