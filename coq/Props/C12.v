(* C12: chain encodings of #min/#max over a finite sorted domain (G6) and the comparison tables (generated)
   Only statements, `exact`, and Print Assumptions live here. *)
From Coq Require Import List String ZArith Bool Permutation.
From NGO Require Import Syntax.Ast Sem.Sym Gen.Tables Link.TablesSpec Meta.Chain.
Import ListNotations.

Theorem C12_negate_correct : forall sym_lt : sym -> sym -> Prop, sym_order sym_lt -> forall (o : cmp) (a b : sym), cmp_holds sym_lt (negate_comparison o) a b <-> ~ cmp_holds sym_lt o a b.
Proof. exact (@negate_correct_proof). Qed.
Print Assumptions C12_negate_correct.

Theorem C12_next_exact : forall (X : Type) (lt : X -> X -> Prop), (forall a : X, ~ lt a a) -> (forall a b c : X, lt a b -> lt b c -> lt a c) -> forall D : list X, Sorted.StronglySorted lt D -> forall nxt : X -> X -> Prop, (forall p n : X, starts X D nxt p -> In n D -> lt p n -> (forall b : X, In b D -> lt p b -> lt b n -> False) -> nxt p n) -> (forall p n : X, nxt p n -> starts X D nxt p /\ In n D /\ lt p n /\ (forall b : X, In b D -> lt p b -> lt b n -> False)) -> forall p n : X, nxt p n <-> consecutive X D p n.
Proof. exact (@Chain.next_exact). Qed.
Print Assumptions C12_next_exact.

Theorem C12_chain_max_meaning : forall (X : Type) (lt : X -> X -> Prop), (forall a : X, ~ lt a a) -> (forall a b c : X, lt a b -> lt b c -> lt a c) -> forall D : list X, Sorted.StronglySorted lt D -> forall elem chain : X -> Prop, (forall v : X, elem v -> In v D) -> (forall v : X, elem v -> chain v) -> (forall p n : X, chain n -> consecutive X D p n -> chain p) -> (forall v : X, chain v -> elem v \/ (exists n : X, chain n /\ consecutive X D v n)) -> forall v : X, chain v <-> In v D /\ (exists e : X, elem e /\ (v = e \/ lt v e)).
Proof. exact (@Chain.chain_max_meaning). Qed.
Print Assumptions C12_chain_max_meaning.

Theorem C12_chain_top_is_max : forall (X : Type) (lt : X -> X -> Prop), (forall a : X, ~ lt a a) -> (forall a b c : X, lt a b -> lt b c -> lt a c) -> forall D : list X, Sorted.StronglySorted lt D -> forall elem chain : X -> Prop, (forall v : X, elem v -> In v D) -> (forall v : X, elem v -> chain v) -> (forall p n : X, chain n -> consecutive X D p n -> chain p) -> (forall v : X, chain v -> elem v \/ (exists n : X, chain n /\ consecutive X D v n)) -> forall m : X, chain m -> (forall n : X, consecutive X D m n -> ~ chain n) -> elem m /\ (forall e : X, elem e -> e = m \/ lt e m).
Proof. exact (@Chain.chain_top_is_max). Qed.
Print Assumptions C12_chain_top_is_max.

Theorem C12_telescoping_max : forall (r : list Z) (d m : Z), Sorted.StronglySorted Z.lt (d :: r) -> In m (d :: r) -> (d + steps (fun v : Z => v <=? m) d r)%Z = m.
Proof. exact (@telescoping_max). Qed.
Print Assumptions C12_telescoping_max.
