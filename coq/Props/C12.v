(* C12: chain encodings of #min/#max over a finite sorted domain (G6) and the comparison tables (generated)
   Only statements, `exact`, and Print Assumptions live here. *)
From Coq Require Import List String ZArith Bool Permutation.
From NGO Require Import Syntax.Ast Sem.Sym Gen.Tables Link.TablesSpec Meta.Chain.
Import ListNotations.

Theorem C12_negate_correct : forall sym_lt : sym -> sym -> Prop, sym_order sym_lt -> forall (o : cmp) (a b : sym), cmp_holds sym_lt (negate_comparison o) a b <-> ~ cmp_holds sym_lt o a b.
Proof. exact (@negate_correct_proof). Qed.
Print Assumptions C12_negate_correct.

Theorem C12_next_exact : forall (X : Type) (lt : X -> X -> Prop), (forall a : X, ~ lt a a) -> (forall a b c : X, lt a b -> lt b c -> lt a c) -> forall D : list X, Sorted.StronglySorted lt D -> forall nxt : X -> X -> Prop, (forall p n : X, starts X D nxt p -> In n D -> lt p n -> (forall b : X, In b D -> lt p b -> lt b n -> False) -> nxt p n) -> (forall p n : X, nxt p n -> starts X D nxt p /\ In n D /\ lt p n /\ (forall b : X, In b D -> lt p b -> lt b n -> False)) -> forall p n : X, nxt p n <-> consecutive X D p n.
Proof. exact (@Chain.next_exact). Qed.
Print Assumptions C12_next_exact.

Theorem C12_chain_max_meaning : forall (X : Type) (lt : X -> X -> Prop), (forall a : X, ~ lt a a) -> (forall a b c : X, lt a b -> lt b c -> lt a c) -> forall D : list X, Sorted.StronglySorted lt D -> forall elem chain : X -> Prop, (forall v : X, elem v -> In v D) -> (forall v : X, elem v -> chain v) -> (forall p n : X, chain n -> consecutive X D p n -> chain p) -> (forall v : X, chain v -> elem v \/ (exists n : X, chain n /\ consecutive X D v n)) -> forall v : X, chain v <-> In v D /\ (exists e : X, elem e /\ (v = e \/ lt v e)).
Proof. exact (@Chain.chain_max_meaning). Qed.
Print Assumptions C12_chain_max_meaning.

Theorem C12_chain_top_is_max : forall (X : Type) (lt : X -> X -> Prop), (forall a : X, ~ lt a a) -> (forall a b c : X, lt a b -> lt b c -> lt a c) -> forall D : list X, Sorted.StronglySorted lt D -> forall elem chain : X -> Prop, (forall v : X, elem v -> In v D) -> (forall v : X, elem v -> chain v) -> (forall p n : X, chain n -> consecutive X D p n -> chain p) -> (forall v : X, chain v -> elem v \/ (exists n : X, chain n /\ consecutive X D v n)) -> forall m : X, chain m -> (forall n : X, consecutive X D m n -> ~ chain n) -> elem m /\ (forall e : X, elem e -> e = m \/ lt e m).
Proof. exact (@Chain.chain_top_is_max). Qed.
Print Assumptions C12_chain_top_is_max.

Theorem C12_telescoping_max : forall (r : list Z) (d m : Z), Sorted.StronglySorted Z.lt (d :: r) -> In m (d :: r) -> (d + steps (fun v : Z => v <=? m) d r)%Z = m.
Proof. exact (@telescoping_max). Qed.
Print Assumptions C12_telescoping_max.

From NGO Require Import Syntax.Ast Sem.Sym Sem.Sat Gen.Tables Link.MinMaxSpec.

Theorem C12_dispatch_table : forall (sg : sign) (f : aggfun) (c : cmp), minmax_simple_dispatch sg f c = true <-> sg = NoSign /\ (f = FMax /\ (c = CLt \/ c = CLe) \/ f = FMin /\ (c = CGt \/ c = CGe)) \/ sg = Neg /\ (f = FMin /\ (c = CLt \/ c = CLe) \/ f = FMax /\ (c = CGt \/ c = CGe)).
Proof. exact (@dispatch_table_proof). Qed.
Print Assumptions C12_dispatch_table.

Theorem C12_dispatch_never_double_negation : forall (f : aggfun) (c : cmp), minmax_simple_dispatch NegNeg f c = false.
Proof. exact (@dispatch_never_double_negation_proof). Qed.
Print Assumptions C12_dispatch_never_double_negation.

Theorem C12_max_lower_bound : forall sym_lt : sym -> sym -> Prop, sym_order sym_lt -> forall (S : tupset) (w : sym) (c : cmp), c = CLt \/ c = CLe -> w <> SInf -> (exists m : sym, heads_of S m /\ (forall e : sym, heads_of S e -> e = m \/ sym_lt e m)) \/ (forall tv : list sym, ~ S tv) -> (exists v : sym, agg_value sym_lt FMax S v /\ cmp_holds sym_lt c w v) <-> (exists e : sym, heads_of S e /\ cmp_holds sym_lt c w e).
Proof. exact (@max_lower_bound_proof). Qed.
Print Assumptions C12_max_lower_bound.

Theorem C12_finite_has_max : forall sym_lt : sym -> sym -> Prop, sym_order sym_lt -> forall l : list sym, l <> nil -> exists m : sym, In m l /\ (forall e : sym, In e l -> e = m \/ sym_lt e m).
Proof. exact (@finite_has_max). Qed.
Print Assumptions C12_finite_has_max.

Theorem C12_negated_simple_translation_refuted : forall sym_lt : sym -> sym -> Prop, sym_order sym_lt -> let S_H := fun _ : list sym => False in let S_T := fun tv : list sym => tv = SNum 0 :: nil in ~ (exists v : sym, agg_value sym_lt FMin S_T v /\ cmp_holds sym_lt CLt (SNum 1) v) /\ ~ (exists e : sym, (exists tv : list sym, S_H tv /\ hd_error tv = Some e) /\ ~ cmp_holds sym_lt CLt (SNum 1) e).
Proof. exact (@negated_simple_translation_refuted_proof). Qed.
Print Assumptions C12_negated_simple_translation_refuted.

From NGO Require Import Syntax.Ast Sem.Sym Sem.Sat Meta.Chain Link.ChainSem.

Theorem C12_supported_general : forall (sym_lt : sym -> sym -> Prop) (P : list stmt) (I : list gatom) (T : interp) (a : gatom), (forall (line : nat) (h : head) (b : list bodyelem), In (SRule line h b) P -> gen_head h) -> stable sym_lt P I T -> T a -> In a I \/ (exists (line : nat) (h : head) (b : list bodyelem) (s : subst), In (SRule line h b) P /\ head_derives (gvars_rule h b) s h a /\ body_sat sym_lt (gvars_rule h b) T T s b).
Proof. exact (@supported_general). Qed.
Print Assumptions C12_supported_general.

Theorem C12_next_pred_meaning : forall (sym_lt : sym -> sym -> Prop) (dom mn nx : string) (P : list stmt) (I : list (string * list sym)) (T : interp), sym_order sym_lt -> (forall (line : nat) (h : head) (b : list bodyelem), In (SRule line h b) P -> gen_head h) -> In (min_rule dom mn) P -> In (next_rule_base dom mn nx) P -> In (next_rule_step dom nx) P -> (forall (line : nat) (h : head) (b : list bodyelem), In (SRule line h b) P -> In (mn, 1) (head_names h) -> SRule line h b = min_rule dom mn) -> (forall (line : nat) (h : head) (b : list bodyelem), In (SRule line h b) P -> In (nx, 2) (head_names h) -> SRule line h b = next_rule_base dom mn nx \/ SRule line h b = next_rule_step dom nx) -> (forall v : sym, ~ In (mn, v :: nil) I) -> (forall p n : sym, ~ In (nx, p :: n :: nil) I) -> stable sym_lt P I T -> (exists l : list sym, forall v : sym, T (dom, v :: nil) <-> In v l) -> exists D : list sym, Sorted.StronglySorted sym_lt D /\ (forall v : sym, T (dom, v :: nil) <-> In v D) /\ (forall v : sym, T (mn, v :: nil) <-> hd_error D = Some v) /\ (forall p n : sym, T (nx, p :: n :: nil) <-> consecutive sym D p n).
Proof. exact (@next_pred_meaning). Qed.
Print Assumptions C12_next_pred_meaning.

From NGO Require Import Sem.Sym Sem.Sat Link.Equiv Link.MinMaxSem.

Theorem C12_simple_translation_rule_sound : forall sym_lt : Ast.sym -> Ast.sym -> Prop, sym_order sym_lt -> forall (G : list string) (H T : interp) (h : Ast.head) (B : list Ast.bodyelem) (f : Ast.aggfun) (c : Ast.cmp) (w : Ast.term) (res : list ((string -> string) * Ast.belem)) (G' : (string -> string) * Ast.belem -> list string), subi H T -> own_dir f c -> (forall re : (string -> string) * Ast.belem, In re res -> elem_ok G (rest_vars G h B w) (fst re) (snd re)) -> (forall re : (string -> string) * Ast.belem, In re res -> gweak_ok G (G' re) h B) -> (forall s : subst, has_ext sym_lt f (AggSem.elems_tuples sym_lt G H T s (map snd res))) -> (forall s : subst, has_ext sym_lt f (AggSem.elems_tuples sym_lt G T T s (map snd res))) -> (forall (X : interp) (s : subst) (a : Ast.sym), body_sat sym_lt G X T s B -> eval s w = Some a -> bad_bound f c <> Some a) -> rule_sat sym_lt G H T h (B ++ Ast.BLit (agg_lit Ast.NoSign c w f (map snd res)) :: nil) <-> (forall re : (string -> string) * Ast.belem, In re res -> rule_sat sym_lt (G' re) H T h (B ++ elem_body Ast.NoSign c w (ren_elem (fst re) (snd re)))).
Proof. exact (@MinMaxSem.simple_translation_rule_sound). Qed.
Print Assumptions C12_simple_translation_rule_sound.

Theorem C12_max_lower_bound_rule_sound : forall sym_lt : Ast.sym -> Ast.sym -> Prop, sym_order sym_lt -> forall (G : list string) (H T : interp) (h : Ast.head) (B : list Ast.bodyelem) (c : Ast.cmp) (w : Ast.term) (res : list ((string -> string) * Ast.belem)) (G' : (string -> string) * Ast.belem -> list string), subi H T -> c = Ast.CLt \/ c = Ast.CLe -> (forall re : (string -> string) * Ast.belem, In re res -> elem_ok G (rest_vars G h B w) (fst re) (snd re)) -> (forall re : (string -> string) * Ast.belem, In re res -> gweak_ok G (G' re) h B) -> (forall s : subst, has_max sym_lt (AggSem.elems_tuples sym_lt G H T s (map snd res))) -> (forall s : subst, has_max sym_lt (AggSem.elems_tuples sym_lt G T T s (map snd res))) -> (c = Ast.CLe -> forall (X : interp) (s : subst), body_sat sym_lt G X T s B -> eval s w <> Some Ast.SInf) -> rule_sat sym_lt G H T h (B ++ Ast.BLit (Ast.Lit Ast.NoSign (Ast.ABodyAgg (Some (c, w)) Ast.FMax (map snd res) None)) :: nil) <-> (forall re : (string -> string) * Ast.belem, In re res -> rule_sat sym_lt (G' re) H T h (B ++ elem_body Ast.NoSign c w (ren_elem (fst re) (snd re)))).
Proof. exact (@MinMaxSem.max_lower_bound_rule_sound). Qed.
Print Assumptions C12_max_lower_bound_rule_sound.

Theorem C12_min_upper_bound_rule_sound : forall sym_lt : Ast.sym -> Ast.sym -> Prop, sym_order sym_lt -> forall (G : list string) (H T : interp) (h : Ast.head) (B : list Ast.bodyelem) (c : Ast.cmp) (w : Ast.term) (res : list ((string -> string) * Ast.belem)) (G' : (string -> string) * Ast.belem -> list string), subi H T -> c = Ast.CGt \/ c = Ast.CGe -> (forall re : (string -> string) * Ast.belem, In re res -> elem_ok G (rest_vars G h B w) (fst re) (snd re)) -> (forall re : (string -> string) * Ast.belem, In re res -> gweak_ok G (G' re) h B) -> (forall s : subst, has_min sym_lt (AggSem.elems_tuples sym_lt G H T s (map snd res))) -> (forall s : subst, has_min sym_lt (AggSem.elems_tuples sym_lt G T T s (map snd res))) -> (c = Ast.CGe -> forall (X : interp) (s : subst), body_sat sym_lt G X T s B -> eval s w <> Some Ast.SSup) -> rule_sat sym_lt G H T h (B ++ Ast.BLit (Ast.Lit Ast.NoSign (Ast.ABodyAgg (Some (c, w)) Ast.FMin (map snd res) None)) :: nil) <-> (forall re : (string -> string) * Ast.belem, In re res -> rule_sat sym_lt (G' re) H T h (B ++ elem_body Ast.NoSign c w (ren_elem (fst re) (snd re)))).
Proof. exact (@MinMaxSem.min_upper_bound_rule_sound). Qed.
Print Assumptions C12_min_upper_bound_rule_sound.

Theorem C12_simple_translation_program_sound : forall sym_lt : Ast.sym -> Ast.sym -> Prop, sym_order sym_lt -> forall (P1 P2 : list Ast.stmt) (ln : nat) (h : Ast.head) (B : list Ast.bodyelem) (f : Ast.aggfun) (c : Ast.cmp) (w : Ast.term) (res : list ((string -> string) * Ast.belem)), own_dir f c -> elems_ok h B Ast.NoSign c w f res -> (forall (I : list gatom) (T : interp), stable sym_lt (P1 ++ (source_stmt ln h B Ast.NoSign c w f res :: nil) ++ P2) I T \/ stable sym_lt (P1 ++ target_stmts ln h B Ast.NoSign c w res ++ P2) I T -> forall s : subst, fin_heads (AggSem.elems_tuples sym_lt (source_gvars h B Ast.NoSign c w f res) T T s (map snd res))) -> (forall (X T : interp) (s : subst) (a : Ast.sym), body_sat sym_lt (source_gvars h B Ast.NoSign c w f res) X T s B -> eval s w = Some a -> bad_bound f c <> Some a) -> equiv_all sym_lt (P1 ++ (source_stmt ln h B Ast.NoSign c w f res :: nil) ++ P2) (P1 ++ target_stmts ln h B Ast.NoSign c w res ++ P2).
Proof. exact (@MinMaxSem.simple_translation_program_sound). Qed.
Print Assumptions C12_simple_translation_program_sound.

Theorem C12_negated_total_sound : forall sym_lt : Ast.sym -> Ast.sym -> Prop, sym_order sym_lt -> forall (G : list string) (T : interp) (h : Ast.head) (B : list Ast.bodyelem) (f : Ast.aggfun) (c : Ast.cmp) (w : Ast.term) (res : list ((string -> string) * Ast.belem)) (G' : (string -> string) * Ast.belem -> list string), opp_dir f c -> (forall re : (string -> string) * Ast.belem, In re res -> elem_ok G (rest_vars G h B w) (fst re) (snd re)) -> (forall re : (string -> string) * Ast.belem, In re res -> gweak_ok G (G' re) h B) -> (forall s : subst, has_ext sym_lt f (AggSem.elems_tuples sym_lt G T T s (map snd res))) -> (forall s : subst, body_sat sym_lt G T T s B -> eval s w <> None) -> (forall (s : subst) (a : Ast.sym), body_sat sym_lt G T T s B -> eval s w = Some a -> neg_bad_bound f c <> Some a) -> rule_sat sym_lt G T T h (B ++ Ast.BLit (agg_lit Ast.Neg c w f (map snd res)) :: nil) <-> (forall re : (string -> string) * Ast.belem, In re res -> rule_sat sym_lt (G' re) T T h (B ++ elem_body Ast.Neg c w (ren_elem (fst re) (snd re)))).
Proof. exact (@MinMaxSem.negated_simple_translation_total_sound). Qed.
Print Assumptions C12_negated_total_sound.

Theorem C12_negated_ht_partial : forall sym_lt : Ast.sym -> Ast.sym -> Prop, sym_order sym_lt -> forall (G : list string) (H T : interp) (h : Ast.head) (B : list Ast.bodyelem) (f : Ast.aggfun) (c : Ast.cmp) (w : Ast.term) (res : list ((string -> string) * Ast.belem)) (G' : (string -> string) * Ast.belem -> list string), subi H T -> opp_dir f c -> (forall re : (string -> string) * Ast.belem, In re res -> elem_ok G (rest_vars G h B w) (fst re) (snd re)) -> (forall re : (string -> string) * Ast.belem, In re res -> gweak_ok G (G' re) h B) -> rule_sat sym_lt G H T h (B ++ Ast.BLit (agg_lit Ast.Neg c w f (map snd res)) :: nil) -> forall re : (string -> string) * Ast.belem, In re res -> rule_sat sym_lt (G' re) H T h (B ++ elem_body Ast.Neg c w (ren_elem (fst re) (snd re))).
Proof. exact (@MinMaxSem.negated_simple_translation_ht_partial). Qed.
Print Assumptions C12_negated_ht_partial.

Theorem C12_negated_ht_refuted : forall sym_lt : Ast.sym -> Ast.sym -> Prop, sym_order sym_lt -> subi neg_H neg_T /\ elems_ok head_a nil Ast.Neg Ast.CLt neg_w Ast.FMin neg_res /\ ~ stmt_sat sym_lt neg_H neg_T neg_src /\ (forall st : Ast.stmt, In st neg_tgts -> stmt_sat sym_lt neg_H neg_T st).
Proof. exact (@MinMaxSem.negated_simple_translation_ht_refuted). Qed.
Print Assumptions C12_negated_ht_refuted.

Theorem C12_negated_stable_partial : forall sym_lt : Ast.sym -> Ast.sym -> Prop, sym_order sym_lt -> forall (P1 P2 : list Ast.stmt) (ln : nat) (h : Ast.head) (B : list Ast.bodyelem) (f : Ast.aggfun) (c : Ast.cmp) (w : Ast.term) (res : list ((string -> string) * Ast.belem)) (I : list gatom) (T : interp), opp_dir f c -> elems_ok h B Ast.Neg c w f res -> (forall s : subst, has_ext sym_lt f (AggSem.elems_tuples sym_lt (source_gvars h B Ast.Neg c w f res) T T s (map snd res))) -> (forall s : subst, body_sat sym_lt (source_gvars h B Ast.Neg c w f res) T T s B -> eval s w <> None) -> (forall (s : subst) (a : Ast.sym), body_sat sym_lt (source_gvars h B Ast.Neg c w f res) T T s B -> eval s w = Some a -> neg_bad_bound f c <> Some a) -> stable sym_lt (P1 ++ target_stmts ln h B Ast.Neg c w res ++ P2) I T -> stable sym_lt (P1 ++ (source_stmt ln h B Ast.Neg c w f res :: nil) ++ P2) I T.
Proof. exact (@MinMaxSem.negated_simple_translation_stable_partial). Qed.
Print Assumptions C12_negated_stable_partial.

Theorem C12_negated_pass_refuted : forall sym_lt : Ast.sym -> Ast.sym -> Prop, sym_order sym_lt -> exists Q : list Ast.stmt, MinMax.mm_execute neg_P nil neg_P = Ast.Ok Q /\ ~ equiv_all sym_lt neg_P Q.
Proof. exact (@MinMaxSem.negated_pass_refuted). Qed.
Print Assumptions C12_negated_pass_refuted.

Theorem C12_inf_bound_refuted : forall sym_lt : Ast.sym -> Ast.sym -> Prop, elems_ok head_a le_B Ast.NoSign Ast.CLe (Ast.TVar "W") Ast.FMax le_res /\ (forall (H : interp) (s : subst), subi H le_T -> has_max sym_lt (AggSem.elems_tuples sym_lt (source_gvars head_a le_B Ast.NoSign Ast.CLe (Ast.TVar "W") Ast.FMax le_res) H le_T s (map snd le_res))) /\ ~ stmt_sat sym_lt le_T le_T le_src /\ (forall st : Ast.stmt, In st le_tgts -> stmt_sat sym_lt le_T le_T st).
Proof. exact (@MinMaxSem.inf_bound_refuted). Qed.
Print Assumptions C12_inf_bound_refuted.

Theorem C12_ex_pass_sound : forall sym_lt : Ast.sym -> Ast.sym -> Prop, sym_order sym_lt -> exists Q : list Ast.stmt, MinMax.mm_execute ex_P nil ex_P = Ast.Ok Q /\ equiv_all sym_lt ex_P Q.
Proof. exact (@MinMaxSem.ex_pass_sound). Qed.
Print Assumptions C12_ex_pass_sound.
