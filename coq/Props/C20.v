(* C20: domain/order predicates: successor and chain characterisations over a finite sorted domain (G6), supportedness
   Only statements, `exact`, and Print Assumptions live here. *)
From Coq Require Import List String ZArith Bool Permutation.
From NGO Require Import Meta.Chain Meta.Cleanup.
Import ListNotations.

Theorem C20_next_exact : forall (X : Type) (lt : X -> X -> Prop), (forall a : X, ~ lt a a) -> (forall a b c : X, lt a b -> lt b c -> lt a c) -> forall D : list X, Sorted.StronglySorted lt D -> forall nxt : X -> X -> Prop, (forall p n : X, starts X D nxt p -> In n D -> lt p n -> (forall b : X, In b D -> lt p b -> lt b n -> False) -> nxt p n) -> (forall p n : X, nxt p n -> starts X D nxt p /\ In n D /\ lt p n /\ (forall b : X, In b D -> lt p b -> lt b n -> False)) -> forall p n : X, nxt p n <-> consecutive X D p n.
Proof. exact (@Chain.next_exact). Qed.
Print Assumptions C20_next_exact.

Theorem C20_chain_max_meaning : forall (X : Type) (lt : X -> X -> Prop), (forall a : X, ~ lt a a) -> (forall a b c : X, lt a b -> lt b c -> lt a c) -> forall D : list X, Sorted.StronglySorted lt D -> forall elem chain : X -> Prop, (forall v : X, elem v -> In v D) -> (forall v : X, elem v -> chain v) -> (forall p n : X, chain n -> consecutive X D p n -> chain p) -> (forall v : X, chain v -> elem v \/ (exists n : X, chain n /\ consecutive X D v n)) -> forall v : X, chain v <-> In v D /\ (exists e : X, elem e /\ (v = e \/ lt v e)).
Proof. exact (@Chain.chain_max_meaning). Qed.
Print Assumptions C20_chain_max_meaning.

Theorem C20_supported : forall (atom F : Type) (fsat : interp atom -> interp atom -> F -> Prop), (forall (H T : interp atom) (f : F), subi atom H T -> fsat H T f -> fsat T T f) -> forall (P : prog atom F) (T : interp atom) (a : atom), stable atom F fsat P T -> T a -> exists r : rule atom F, P r /\ head_atom atom (hd atom F r) a /\ bsat atom F fsat T T (bd atom F r).
Proof. exact (@Cleanup.supported). Qed.
Print Assumptions C20_supported.

From NGO Require Import Syntax.Ast Sem.Sym Sem.Sat Link.Ground.

Theorem C20_supported_nonground : forall (sym_lt : sym -> sym -> Prop) (P : program) (I : list gatom) (T : interp) (a : gatom), simple_prog P = true -> stable sym_lt P I T -> T a -> In a I \/ (exists (line : nat) (h : head) (b : list bodyelem) (s : subst), In (SRule line h b) P /\ head_derives s h a /\ body_sat sym_lt (gvars_rule h b) T T s b).
Proof. exact (@supported_nonground). Qed.
Print Assumptions C20_supported_nonground.

Theorem C20_ground_stable_iff : forall (sym_lt : sym -> sym -> Prop) (P : program), simple_prog P = true -> forall (I : list gatom) (T : interp), stable sym_lt P I T <-> Cleanup.stable gatom gF gsat (ground_prog sym_lt P I) T.
Proof. exact (@ground_stable_iff). Qed.
Print Assumptions C20_ground_stable_iff.
