(* C20: domain/order predicates: successor and chain characterisations over a finite sorted domain (G6), supportedness
   Only statements, `exact`, and Print Assumptions live here. *)
From Coq Require Import List String ZArith Bool Permutation.
From NGO Require Import Meta.Chain Meta.Cleanup.
Import ListNotations.

Theorem C20_next_exact : forall (X : Type) (lt : X -> X -> Prop), (forall a : X, ~ lt a a) -> (forall a b c : X, lt a b -> lt b c -> lt a c) -> forall D : list X, Sorted.StronglySorted lt D -> forall nxt : X -> X -> Prop, (forall p n : X, starts X D nxt p -> In n D -> lt p n -> (forall b : X, In b D -> lt p b -> lt b n -> False) -> nxt p n) -> (forall p n : X, nxt p n -> starts X D nxt p /\ In n D /\ lt p n /\ (forall b : X, In b D -> lt p b -> lt b n -> False)) -> forall p n : X, nxt p n <-> consecutive X D p n.
Proof. exact (@Chain.next_exact). Qed.
Print Assumptions C20_next_exact.

Theorem C20_chain_max_meaning : forall (X : Type) (lt : X -> X -> Prop), (forall a : X, ~ lt a a) -> (forall a b c : X, lt a b -> lt b c -> lt a c) -> forall D : list X, Sorted.StronglySorted lt D -> forall elem chain : X -> Prop, (forall v : X, elem v -> In v D) -> (forall v : X, elem v -> chain v) -> (forall p n : X, chain n -> consecutive X D p n -> chain p) -> (forall v : X, chain v -> elem v \/ (exists n : X, chain n /\ consecutive X D v n)) -> forall v : X, chain v <-> In v D /\ (exists e : X, elem e /\ (v = e \/ lt v e)).
Proof. exact (@Chain.chain_max_meaning). Qed.
Print Assumptions C20_chain_max_meaning.

Theorem C20_supported : forall (atom F : Type) (fsat : interp atom -> interp atom -> F -> Prop), (forall (H T : interp atom) (f : F), subi atom H T -> fsat H T f -> fsat T T f) -> forall (P : prog atom F) (T : interp atom) (a : atom), stable atom F fsat P T -> T a -> exists r : rule atom F, P r /\ head_atom atom (hd atom F r) a /\ bsat atom F fsat T T (bd atom F r).
Proof. exact (@Cleanup.supported). Qed.
Print Assumptions C20_supported.

From NGO Require Import Syntax.Ast Sem.Sym Sem.Sat Link.Ground.

Theorem C20_supported_nonground : forall (sym_lt : sym -> sym -> Prop) (P : program) (I : list gatom) (T : interp) (a : gatom), simple_prog P = true -> stable sym_lt P I T -> T a -> In a I \/ (exists (line : nat) (h : head) (b : list bodyelem) (s : subst), In (SRule line h b) P /\ head_derives s h a /\ body_sat sym_lt (gvars_rule h b) T T s b).
Proof. exact (@supported_nonground). Qed.
Print Assumptions C20_supported_nonground.

Theorem C20_ground_stable_iff : forall (sym_lt : sym -> sym -> Prop) (P : program), simple_prog P = true -> forall (I : list gatom) (T : interp), stable sym_lt P I T <-> Cleanup.stable gatom gF gsat (ground_prog sym_lt P I) T.
Proof. exact (@ground_stable_iff). Qed.
Print Assumptions C20_ground_stable_iff.

From NGO Require Import Syntax.Ast Sem.Sym Sem.Sat Model.Dependency Meta.Chain Link.ChainSem Link.ChainSemGrouped.

Theorem C20_supported_general : forall (sym_lt : sym -> sym -> Prop) (P : list stmt) (I : list gatom) (T : interp) (a : gatom), (forall (line : nat) (h : head) (b : list bodyelem), In (SRule line h b) P -> gen_head h) -> stable sym_lt P I T -> T a -> In a I \/ (exists (line : nat) (h : head) (b : list bodyelem) (s : subst), In (SRule line h b) P /\ head_derives (gvars_rule h b) s h a /\ body_sat sym_lt (gvars_rule h b) T T s b).
Proof. exact (@supported_general). Qed.
Print Assumptions C20_supported_general.

Theorem C20_min_rule_meaning : forall (sym_lt : sym -> sym -> Prop) (dom mn : string) (P : list stmt) (I : list (string * list sym)) (T : interp), (forall (line : nat) (h : head) (b : list bodyelem), In (SRule line h b) P -> gen_head h) -> In (min_rule dom mn) P -> (forall (line : nat) (h : head) (b : list bodyelem), In (SRule line h b) P -> In (mn, 1) (head_names h) -> SRule line h b = min_rule dom mn) -> (forall v : sym, ~ In (mn, v :: nil) I) -> stable sym_lt P I T -> forall v : sym, T (mn, v :: nil) <-> least_in sym_lt T dom v.
Proof. exact (@min_rule_meaning). Qed.
Print Assumptions C20_min_rule_meaning.

Theorem C20_next_rules_meaning : forall (sym_lt : sym -> sym -> Prop) (dom mn nx : string) (P : list stmt) (I : list (string * list sym)) (T : interp) (D : list sym), sym_order sym_lt -> (forall (line : nat) (h : head) (b : list bodyelem), In (SRule line h b) P -> gen_head h) -> In (next_rule_base dom mn nx) P -> In (next_rule_step dom nx) P -> (forall (line : nat) (h : head) (b : list bodyelem), In (SRule line h b) P -> In (nx, 2) (head_names h) -> SRule line h b = next_rule_base dom mn nx \/ SRule line h b = next_rule_step dom nx) -> (forall p n : sym, ~ In (nx, p :: n :: nil) I) -> stable sym_lt P I T -> Sorted.StronglySorted sym_lt D -> (forall v : sym, T (dom, v :: nil) <-> In v D) -> (forall v : sym, T (mn, v :: nil) <-> least_in sym_lt T dom v) -> forall p n : sym, T (nx, p :: n :: nil) <-> consecutive sym D p n.
Proof. exact (@next_rules_meaning). Qed.
Print Assumptions C20_next_rules_meaning.

Theorem C20_next_pred_meaning : forall (sym_lt : sym -> sym -> Prop) (dom mn nx : string) (P : list stmt) (I : list (string * list sym)) (T : interp), sym_order sym_lt -> (forall (line : nat) (h : head) (b : list bodyelem), In (SRule line h b) P -> gen_head h) -> In (min_rule dom mn) P -> In (next_rule_base dom mn nx) P -> In (next_rule_step dom nx) P -> (forall (line : nat) (h : head) (b : list bodyelem), In (SRule line h b) P -> In (mn, 1) (head_names h) -> SRule line h b = min_rule dom mn) -> (forall (line : nat) (h : head) (b : list bodyelem), In (SRule line h b) P -> In (nx, 2) (head_names h) -> SRule line h b = next_rule_base dom mn nx \/ SRule line h b = next_rule_step dom nx) -> (forall v : sym, ~ In (mn, v :: nil) I) -> (forall p n : sym, ~ In (nx, p :: n :: nil) I) -> stable sym_lt P I T -> (exists l : list sym, forall v : sym, T (dom, v :: nil) <-> In v l) -> exists D : list sym, Sorted.StronglySorted sym_lt D /\ (forall v : sym, T (dom, v :: nil) <-> In v D) /\ (forall v : sym, T (mn, v :: nil) <-> hd_error D = Some v) /\ (forall p n : sym, T (nx, p :: n :: nil) <-> consecutive sym D p n).
Proof. exact (@next_pred_meaning). Qed.
Print Assumptions C20_next_pred_meaning.

Theorem C20_next_pred_meaning_grouped : forall (sym_lt : sym -> sym -> Prop) (gs : list string), NoDup gs -> (forall x : string, In x gs -> ~ In x reserved) -> forall (dom mn nx : string) (P : list stmt) (I : list (string * list sym)) (T : interp), sym_order sym_lt -> (forall (line : nat) (h : head) (b : list bodyelem), In (SRule line h b) P -> gen_head h) -> In (min_rule_g gs dom mn) P -> In (next_rule_base_g gs dom mn nx) P -> In (next_rule_step_g gs dom nx) P -> (forall (line : nat) (h : head) (b : list bodyelem), In (SRule line h b) P -> In (mn, k1 gs) (head_names h) -> SRule line h b = min_rule_g gs dom mn) -> (forall (line : nat) (h : head) (b : list bodyelem), In (SRule line h b) P -> In (nx, k2 gs) (head_names h) -> SRule line h b = next_rule_base_g gs dom mn nx \/ SRule line h b = next_rule_step_g gs dom nx) -> (forall vs : list sym, Datatypes.length vs = k1 gs -> ~ In (mn, vs) I) -> (forall vs : list sym, Datatypes.length vs = k2 gs -> ~ In (nx, vs) I) -> stable sym_lt P I T -> forall g : list sym, Datatypes.length g = Datatypes.length gs -> (exists l : list sym, forall v : sym, T (dom, g ++ v :: nil) <-> In v l) -> exists D : list sym, Sorted.StronglySorted sym_lt D /\ (forall v : sym, T (dom, g ++ v :: nil) <-> In v D) /\ (forall v : sym, T (mn, g ++ v :: nil) <-> hd_error D = Some v) /\ (forall p n : sym, T (nx, g ++ p :: n :: nil) <-> consecutive sym D p n).
Proof. exact (@next_pred_meaning_g). Qed.
Print Assumptions C20_next_pred_meaning_grouped.

Theorem C20_model_emits_these_rules_static : match dp_init (Globals.init_names ModelRun.prg_static nil) ModelRun.prg_static with | Ok st => snd (create_next_pred_for_annotated_pred ("dom", 1, 0 :: nil) 0 st) | _ => Raise "init" end = Ok (min_rule "dom" "__min_0_0dom" :: max_rule "dom" "__max_0_0dom" :: next_rule_base "dom" "__min_0_0dom" "__next_0_0dom" :: next_rule_step "dom" "__next_0_0dom" :: nil).
Proof. exact (@ModelRun.model_static). Qed.
Print Assumptions C20_model_emits_these_rules_static.

Theorem C20_model_emits_these_rules_choice : match dp_init (Globals.init_names ModelRun.prg_choice (("d", 1) :: nil)) ModelRun.prg_choice with | Ok st => snd (create_next_pred_for_annotated_pred ("a", 1, 0 :: nil) 0 st) | _ => Raise "init" end = Ok (min_rule "__dom_a" "__min_0_0__dom_a" :: max_rule "__dom_a" "__max_0_0__dom_a" :: next_rule_base "__dom_a" "__min_0_0__dom_a" "__next_0_0__dom_a" :: next_rule_step "__dom_a" "__next_0_0__dom_a" :: nil).
Proof. exact (@ModelRun.model_choice). Qed.
Print Assumptions C20_model_emits_these_rules_choice.

Theorem C20_model_emits_these_rules_grouped : match dp_init (Globals.init_names ModelRunG.prg nil) ModelRunG.prg with | Ok st => snd (create_next_pred_for_annotated_pred ("dom", 2, 1 :: nil) 1 st) | _ => Raise "init" end = Ok (min_rule_g ("G0" :: nil) "dom" "__min_1_1dom" :: max_rule_g ("G0" :: nil) "dom" "__max_1_1dom" :: next_rule_base_g ("G0" :: nil) "dom" "__min_1_1dom" "__next_1_1dom" :: next_rule_step_g ("G0" :: nil) "dom" "__next_1_1dom" :: nil).
Proof. exact (@ModelRunG.model_grouped). Qed.
Print Assumptions C20_model_emits_these_rules_grouped.

Theorem C20_sanity_instance : forall sym_lt : sym -> sym -> Prop, sym_order sym_lt -> exists D : list sym, Sorted.StronglySorted sym_lt D /\ (forall v : sym, Sanity.T3 ("dom", v :: nil) <-> In v D) /\ (forall v : sym, Sanity.T3 ("mn", v :: nil) <-> hd_error D = Some v) /\ (forall p n : sym, Sanity.T3 ("nx", p :: n :: nil) <-> consecutive sym D p n).
Proof. exact (@Sanity.sanity_instance). Qed.
Print Assumptions C20_sanity_instance.

From NGO Require Import Sem.Sym Sem.Sat Link.Equiv Link.DomainSem.

Theorem C20_domain_overapprox : forall (sym_lt : Ast.sym -> Ast.sym -> Prop) (dom : Ast.pred -> option string) (Q : list Ast.stmt) (I : list gatom) (T : interp), (forall (line : nat) (h : Ast.head) (b : list Ast.bodyelem), In (Ast.SRule line h b) Q -> dhead dom Q b (gvars_rule h b) h) -> (forall (a : gatom) (dn : string), In a I -> dom (InlineSem.gpred a) = Some dn -> In (dn, snd a) I) -> stable sym_lt Q I T -> forall (n : string) (vs : list Ast.sym) (dn : string), dom (n, Datatypes.length vs) = Some dn -> T (n, vs) -> T (dn, vs).
Proof. exact (@DomainSem.domain_overapprox). Qed.
Print Assumptions C20_domain_overapprox.

Theorem C20_domain_overapprox_split : forall (sym_lt : Ast.sym -> Ast.sym -> Prop) (dom : Ast.pred -> option string) (P DR : list Ast.stmt) (I : list gatom) (T : interp), (forall (line : nat) (h : Ast.head) (b : list Ast.bodyelem), In (Ast.SRule line h b) P -> dhead dom (P ++ DR) b (gvars_rule h b) h) -> (forall (line : nat) (h : Ast.head) (b : list Ast.bodyelem), In (Ast.SRule line h b) DR -> exists (dn : string) (args : list Ast.term) (e : bool), h = Ast.HLit (dlit dn args e) /\ dom (dn, Datatypes.length args) = None) -> (forall a : gatom, In a I -> dom (InlineSem.gpred a) = None) -> stable sym_lt (P ++ DR) I T -> forall (n : string) (vs : list Ast.sym) (dn : string), dom (n, Datatypes.length vs) = Some dn -> T (n, vs) -> T (dn, vs).
Proof. exact (@DomainSem.domain_overapprox_split). Qed.
Print Assumptions C20_domain_overapprox_split.

Theorem C20_domain_overapprox_checked : forall (dom : Ast.pred -> option string) (sym_lt : Ast.sym -> Ast.sym -> Prop) (Q : Ast.program) (I : list gatom) (T : interp), fragb dom Q = true -> facts_nodomb dom I = true -> stable sym_lt Q I T -> forall (n : string) (vs : list Ast.sym) (dn : string), dom (n, Datatypes.length vs) = Some dn -> T (n, vs) -> T (dn, vs).
Proof. exact (@DomainSem.domain_overapprox_checked). Qed.
Print Assumptions C20_domain_overapprox_checked.

Theorem C20_domain_least_model : forall (sym_lt : sym -> sym -> Prop) (low : pred -> bool) (B Q : program) (I : list gatom) (T : interp), layered none_pred low B Q -> (forall st : stmt, In st B -> In st Q /\ InlineSem.stmt_in low st = true) -> stable sym_lt Q I T -> (prog_sat sym_lt (restrK low T) (restrK low T) B /\ (forall a : gatom, In a I -> low (InlineSem.gpred a) = true -> restrK low T a)) /\ (forall M : interp, prog_sat sym_lt M M B -> (forall a : gatom, In a I -> low (InlineSem.gpred a) = true -> M a) -> forall a : gatom, restrK low T a -> M a).
Proof. exact (@DomainSem.domain_least_model). Qed.
Print Assumptions C20_domain_least_model.

Theorem C20_domain_choice_free : forall (sym_lt : sym -> sym -> Prop) (low : pred -> bool) (B Q1 Q2 : program) (I1 I2 : list gatom) (T1 T2 : interp), layered none_pred low B Q1 -> layered none_pred low B Q2 -> incl B Q1 -> incl B Q2 -> (forall a : gatom, low (InlineSem.gpred a) = true -> In a I1 <-> In a I2) -> stable sym_lt Q1 I1 T1 -> stable sym_lt Q2 I2 T2 -> InlineSem.agreeK low T1 T2.
Proof. exact (@DomainSem.domain_choice_free). Qed.
Print Assumptions C20_domain_choice_free.

From NGO Require Import Sem.Sym Sem.Sat Link.DomainSem.

Theorem C20_domain_negation_refuted : forall sym_lt : sym -> sym -> Prop, run_create_domain Witnesses.neg_P [("q", 2)] ("p", 2) = (Witnesses.neg_doms, Ok Witnesses.neg_DR) /\ (forall a : gatom, In a Witnesses.neg_I -> dom_of Witnesses.neg_doms (InlineSem.gpred a) = None) /\ stable sym_lt (Witnesses.neg_P ++ Witnesses.neg_DR) Witnesses.neg_I Witnesses.neg_T /\ dom_of Witnesses.neg_doms ("p", 2) = Some "__dom_p" /\ Witnesses.neg_T ("p", [Witnesses.c1; Witnesses.c1]) /\ ~ Witnesses.neg_T ("__dom_p", [Witnesses.c1; Witnesses.c1]).
Proof. exact (@DomainSem.Witnesses.domain_negation_refuted). Qed.
Print Assumptions C20_domain_negation_refuted.

Theorem C20_domain_ignores_input_refuted : forall sym_lt : sym -> sym -> Prop, run_create_domain Witnesses.inp_P [("a", 1); ("d", 1)] ("b", 1) = (Witnesses.inp_doms, Ok Witnesses.inp_DR) /\ (forall (line : nat) (h : head) (b : list bodyelem), In (SRule line h b) Witnesses.inp_P -> dhead (dom_of Witnesses.inp_doms) (Witnesses.inp_P ++ Witnesses.inp_DR) b (gvars_rule h b) h) /\ (forall (line : nat) (h : head) (b : list bodyelem), In (SRule line h b) Witnesses.inp_DR -> exists (dn : string) (args : list term) (e : bool), h = HLit (dlit dn args e) /\ dom_of Witnesses.inp_doms (dn, Datatypes.length args) = None) /\ In ("a", [Witnesses.c5]) Witnesses.inp_I /\ dom_of Witnesses.inp_doms (InlineSem.gpred ("a", [Witnesses.c5])) = Some "__dom_a" /\ stable sym_lt (Witnesses.inp_P ++ Witnesses.inp_DR) Witnesses.inp_I Witnesses.inp_T /\ dom_of Witnesses.inp_doms ("b", 1) = Some "__dom_b" /\ Witnesses.inp_T ("b", [Witnesses.c5]) /\ ~ Witnesses.inp_T ("__dom_b", [Witnesses.c5]).
Proof. exact (@DomainSem.Witnesses.domain_ignores_input_refuted). Qed.
Print Assumptions C20_domain_ignores_input_refuted.

Theorem C20_domain_condition_refuted : forall sym_lt : sym -> sym -> Prop, run_create_domain Witnesses.cnd_P [("b", 1); ("d", 1)] ("a", 0) = (Witnesses.cnd_doms, Ok Witnesses.cnd_DR) /\ (forall a : gatom, In a Witnesses.cnd_I -> dom_of Witnesses.cnd_doms (InlineSem.gpred a) = None) /\ stable sym_lt (Witnesses.cnd_P ++ Witnesses.cnd_DR) Witnesses.cnd_I Witnesses.cnd_T /\ dom_of Witnesses.cnd_doms ("a", 0) = Some "__dom_a" /\ Witnesses.cnd_T ("a", []) /\ ~ Witnesses.cnd_T ("__dom_a", []).
Proof. exact (@DomainSem.Witnesses.domain_condition_refuted). Qed.
Print Assumptions C20_domain_condition_refuted.

Theorem C20_model_domains_overapprox : forall sym_lt : Ast.sym -> Ast.sym -> Prop, exists (doms : list (Ast.pred * Ast.pred)) (DR : list Ast.stmt), run_create_domain ModelLink.P4 ModelLink.ins4 ("c", 1) = (doms, Ast.Ok DR) /\ (forall (I : list gatom) (T : interp), (forall a : gatom, In a I -> dom_of doms (InlineSem.gpred a) = None) -> stable sym_lt (ModelLink.P4 ++ DR) I T -> forall (n : string) (vs : list Ast.sym) (dn : string), dom_of doms (n, Datatypes.length vs) = Some dn -> T (n, vs) -> T (dn, vs)).
Proof. exact (@DomainSem.ModelLink.model_domains_overapprox). Qed.
Print Assumptions C20_model_domains_overapprox.

Theorem C20_model_domains_choice_free : forall sym_lt : Ast.sym -> Ast.sym -> Prop, exists (doms : list (Ast.pred * Ast.pred)) (DR : list Ast.stmt), run_create_domain ModelLink.P4 ModelLink.ins4 ("c", 1) = (doms, Ast.Ok DR) /\ (forall (I1 I2 : list gatom) (T1 T2 : interp), (forall a : gatom, ModelLink.low_dom (InlineSem.gpred a) = true -> In a I1 <-> In a I2) -> stable sym_lt (ModelLink.P4 ++ DR) I1 T1 -> stable sym_lt (ModelLink.P4 ++ DR) I2 T2 -> forall a : gatom, ModelLink.low_dom (InlineSem.gpred a) = true -> T1 a <-> T2 a).
Proof. exact (@DomainSem.ModelLink.model_domains_choice_free). Qed.
Print Assumptions C20_model_domains_choice_free.

Theorem C20_lower_bound_cycle_unsat : forall sym_lt : sym -> sym -> Prop, sym_order sym_lt -> (forall (line : nat) (h : head) (b : list bodyelem), In (SRule line h b) Witnesses.lb_Q -> dhead Witnesses.lb_dom Witnesses.lb_Q b (gvars_rule h b) h) /\ ~ static_lit Witnesses.lb_dom (ProjectionSem.Example.at_ "c" []) /\ (forall T : interp, ~ stable sym_lt Witnesses.lb_Q [] T).
Proof. exact (@DomainSem.Witnesses.lower_bound_cycle_unsat). Qed.
Print Assumptions C20_lower_bound_cycle_unsat.
