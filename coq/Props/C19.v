(* C19: the command line is the API -- option algebra over the *generated* Gen/Cli.v.
   Only statements, `exact`, and Print Assumptions live here. *)
From Coq Require Import List String Bool Permutation.
From NGO Require Import Syntax.Ast Gen.Cli Link.CliSpec.
Import ListNotations.
Open Scope string_scope. Open Scope list_scope.

(* For every accepted token list (any length, repetitions): a trait is enabled iff the documented
   expansion says so: all = every trait; otherwise the named ones, plus the defaults if "default" occurs. *)
Theorem C19_enable_spec : forall vs en, verify_enable vs = Some en ->
  forall t, In t ALL_OPTIONS ->
    (In t en <-> (In "all" vs \/ (~ In "all" vs /\ (In t vs \/ (In "default" vs /\ In t DEFAULT_OPTIONS))))).
Proof. exact enable_spec_proof. Qed.
Print Assumptions C19_enable_spec.

Theorem C19_default_is_all_but_duplication : forall t, In t ALL_OPTIONS -> (In t DEFAULT_OPTIONS <-> t <> "duplication").
Proof. exact enable_default_proof. Qed.
Print Assumptions C19_default_is_all_but_duplication.

Theorem C19_none_alone : verify_enable ["none"] = Some ["none"] /\ forall t, In t ALL_OPTIONS -> ~ In t ["none"].
Proof. exact enable_none_proof. Qed.
Print Assumptions C19_none_alone.

Theorem C19_rejected_iff : forall vs, verify_enable vs = None <-> (1 < List.length vs /\ In "none" vs).
Proof. exact enable_rejects. Qed.
Print Assumptions C19_rejected_iff.

Theorem C19_names_are_themselves : forall vs en, verify_enable vs = Some en -> ~ In "default" vs -> ~ In "all" vs -> en = vs.
Proof. exact enable_names_proof. Qed.
Print Assumptions C19_names_are_themselves.

Theorem C19_default_plus_names_is_union : forall vs en, verify_enable vs = Some en -> In "default" vs -> ~ In "all" vs ->
  forall t, In t ALL_OPTIONS -> (In t en <-> In t vs \/ In t DEFAULT_OPTIONS).
Proof. exact enable_default_plus_proof. Qed.
Print Assumptions C19_default_plus_names_is_union.

Theorem C19_absent_option_is_default : enable_default = DEFAULT_OPTIONS.
Proof. exact absent_enable_is_default_proof. Qed.
Print Assumptions C19_absent_option_is_default.

Theorem C19_nine_traits : NoDup ALL_OPTIONS /\ List.length ALL_OPTIONS = 9 /\ Permutation ALL_OPTIONS optimize_trait_params.
Proof. exact nine_traits_proof. Qed.
Print Assumptions C19_nine_traits.

Theorem C19_wiring_identity :
  map fst wiring = optimize_trait_params /\ (forall kw nm, In (kw, nm) wiring -> kw = nm /\ In nm ALL_OPTIONS).
Proof. exact wiring_identity_proof. Qed.
Print Assumptions C19_wiring_identity.

Theorem C19_flags_are_membership : forall en kw b, In (kw, b) (flags_of en) -> b = mem String.eqb kw en.
Proof. exact flags_spec_proof. Qed.
Print Assumptions C19_flags_are_membership.

Theorem C19_api_defaults_are_cli_defaults : forall t d, In (t, d) optimize_trait_defaults -> d = mem String.eqb t DEFAULT_OPTIONS.
Proof. exact api_defaults_are_cli_defaults_proof. Qed.
Print Assumptions C19_api_defaults_are_cli_defaults.

Theorem C19_main_io_shape :
  main_input_auto_detect = true /\ main_output_auto_detect = true /\ main_prints_each_statement = true /\
  main_reads_stdin = true /\ main_logs_to_stderr = true /\ main_no_other_output = true /\
  input_predicates_default = "auto" /\ output_predicates_default = "auto".
Proof. exact main_io_shape_proof. Qed.
Print Assumptions C19_main_io_shape.

Theorem C19_choices : enable_choices = "all" :: "none" :: "default" :: ALL_OPTIONS.
Proof. exact choices_proof. Qed.
Print Assumptions C19_choices.

From Coq Require Import ZArith.
From NGO Require Import Gen.Cli Model.PredList Link.PredListSpec.

Theorem C19_predlist_constants : predlist_auto_token = "auto" /\ predlist_sep = "," /\ predlist_arity_sep = "/" /\ predlist_strip = " " /\ predlist_parts = 2.
Proof. exact (@PredListSpec.predlist_constants_proof). Qed.
Print Assumptions C19_predlist_constants.

Theorem C19_parse_parts_spec : forall (parts : list string) (l : list (string * Z)), parse_parts parts = Ast.Ok l <-> map entry_of parts = map Some l.
Proof. exact (@PredListSpec.parse_parts_spec_proof). Qed.
Print Assumptions C19_parse_parts_spec.

Theorem C19_parse_parts_length : forall (parts : list string) (l : list (string * Z)), parse_parts parts = Ast.Ok l -> Datatypes.length l = Datatypes.length parts.
Proof. exact (@PredListSpec.parse_parts_length_proof). Qed.
Print Assumptions C19_parse_parts_length.

Theorem C19_parse_predicate_list_spec : forall (v : string) (l : list (string * Z)), v <> predlist_auto_token -> v <> "" -> parse_predicate_list v = Ast.Ok (PLList l) <-> map entry_of (split_on (first_char predlist_sep) v) = map Some l.
Proof. exact (@PredListSpec.parse_predicate_list_spec_proof). Qed.
Print Assumptions C19_parse_predicate_list_spec.

Theorem C19_same_name_two_arities : parse_predicate_list "p/1,p/2" = Ast.Ok (PLList (("p", 1%Z) :: ("p", 2%Z) :: nil)) /\ parse_predicate_list "e/2, e/1" = Ast.Ok (PLList (("e", 2%Z) :: ("e", 1%Z) :: nil)) /\ parse_predicate_list "zero/0, another/14" = Ast.Ok (PLList (("zero", 0%Z) :: ("another", 14%Z) :: nil)) /\ parse_predicate_list "auto" = Ast.Ok PLAuto /\ parse_predicate_list "" = Ast.Ok (PLList nil) /\ parse_predicate_list "a/b" = Ast.Raise "ArgumentTypeError" /\ parse_predicate_list "a" = Ast.Raise "ArgumentTypeError".
Proof. exact (@PredListSpec.same_name_two_arities). Qed.
Print Assumptions C19_same_name_two_arities.
