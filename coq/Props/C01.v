(* C01: compositional shell: the relations between source and result compose over any pipeline; pipeline order is the documented one (generated from api.py)
   Only statements, `exact`, and Print Assumptions live here. *)
From Coq Require Import List String ZArith Bool Permutation.
From NGO Require Import Syntax.Ast Sem.Sym Sem.Sat Link.Equiv Gen.Cli Link.CliSpec.
Import ListNotations.

Theorem C01_equiv_out_refl : forall (sym_lt : sym -> sym -> Prop) (IN : string * nat -> Prop) (OUT : gatom -> Prop) (P : program), equiv_out sym_lt IN OUT P P.
Proof. exact (@equiv_out_refl). Qed.
Print Assumptions C01_equiv_out_refl.

Theorem C01_equiv_out_trans : forall (sym_lt : sym -> sym -> Prop) (IN : string * nat -> Prop) (OUT : gatom -> Prop) (P Q R : program), equiv_out sym_lt IN OUT P Q -> equiv_out sym_lt IN OUT Q R -> equiv_out sym_lt IN OUT P R.
Proof. exact (@equiv_out_trans). Qed.
Print Assumptions C01_equiv_out_trans.

Theorem C01_equiv_all_implies_equiv_out : forall (sym_lt : sym -> sym -> Prop) (IN : string * nat -> Prop) (OUT : gatom -> Prop) (P Q : program), equiv_all sym_lt P Q -> equiv_out sym_lt IN OUT P Q.
Proof. exact (@equiv_all_out). Qed.
Print Assumptions C01_equiv_all_implies_equiv_out.

Theorem C01_cons_ext_implies_equiv_out : forall (sym_lt : sym -> sym -> Prop) (IN : string * nat -> Prop) (V OUT : gatom -> Prop) (P Q : program), (forall a : gatom, OUT a -> V a) -> cons_ext sym_lt IN V P Q -> equiv_out sym_lt IN OUT P Q.
Proof. exact (@cons_ext_out). Qed.
Print Assumptions C01_cons_ext_implies_equiv_out.

Theorem C01_pipeline_preserves : forall R : program -> program -> Prop, (forall P : program, R P P) -> (forall P Q S : program, R P Q -> R Q S -> R P S) -> forall (pass : Type) (run : pass -> program -> program) (passes : list pass), (forall p : pass, In p passes -> forall P : program, R P (run p P)) -> forall (n : nat) (P : program), R P (iterate pass run passes n P).
Proof. exact (@pipeline_preserves). Qed.
Print Assumptions C01_pipeline_preserves.

Theorem C01_stmts_equiv_lifts : forall (sym_lt : sym -> sym -> Prop) (P Q : list stmt), stmts_equiv sym_lt P Q -> equiv_all sym_lt P Q.
Proof. exact (@stmts_equiv_equiv_all). Qed.
Print Assumptions C01_stmts_equiv_lifts.

Theorem C01_pipeline_order : map fst pass_order = optimize_trait_params /\ pipeline_frame_ok = true /\ map (fun x : string * (string * list string) => fst (snd x)) pass_order = "CleanupTranslator" :: "UnusedTranslator" :: "LiteralDuplicationTranslator" :: "SymmetryTranslator" :: "MinMaxAggregator" :: "SumAggregator" :: "MathSimplification" :: "InlineTranslator" :: "ProjectionTranslator" :: nil.
Proof. exact (@pipeline_order_proof). Qed.
Print Assumptions C01_pipeline_order.

Theorem C01_pipeline_args : forall (f c : string) (args : list string), In (f, (c, args)) pass_order -> (c = "CleanupTranslator" -> args = "input_predicates" :: nil) /\ (c = "UnusedTranslator" \/ c = "InlineTranslator" -> args = "input_" :: "input_predicates" :: "output_predicates" :: nil) /\ (c = "MathSimplification" -> args = "input_" :: nil).
Proof. exact (@pipeline_args_proof). Qed.
Print Assumptions C01_pipeline_args.
