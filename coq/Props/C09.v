(* C09: dropping definitions nothing can observe (G4)
   Only statements, `exact`, and Print Assumptions live here. *)
From Coq Require Import List String ZArith Bool Permutation.
From NGO Require Import Meta.Drop.
Import ListNotations.

Theorem C09_drop_fwd : forall (atom : Type) (dead : atom -> Prop) (F : Type) (fsat : interp atom -> interp atom -> F -> Prop), (forall (H T : interp atom) (f : F), subi atom H T -> fsat H T f -> fsat T T f) -> forall (crule : Type) (csat : interp atom -> interp atom -> crule -> Prop), (forall (H T H' T' : interp atom) (r : crule), agree_live atom dead H H' -> agree_live atom dead T T' -> csat H T r <-> csat H' T' r) -> forall (C : crule -> Prop) (D : drule atom F -> Prop), (forall r : drule atom F, D r -> dead (dhead_atom atom (dh atom F r))) -> forall T : interp atom, stable_full atom F fsat crule csat C D T -> stable_kept atom crule csat C (live atom dead T).
Proof. exact (@Drop.drop_fwd). Qed.
Print Assumptions C09_drop_fwd.

Theorem C09_drop_bwd : forall (atom : Type) (dead : atom -> Prop) (F : Type) (fsat : interp atom -> interp atom -> F -> Prop), (forall (H T H' T' : interp atom) (f : F), agree_live atom dead H H' -> agree_live atom dead T T' -> fsat H T f <-> fsat H' T' f) -> forall (crule : Type) (csat : interp atom -> interp atom -> crule -> Prop), (forall (H T H' T' : interp atom) (r : crule), agree_live atom dead H H' -> agree_live atom dead T T' -> csat H T r <-> csat H' T' r) -> forall (C : crule -> Prop) (D : drule atom F -> Prop), (forall r : drule atom F, D r -> dead (dhead_atom atom (dh atom F r))) -> forall T0 : interp atom, (forall a : atom, T0 a -> ~ dead a) -> stable_kept atom crule csat C T0 -> stable_full atom F fsat crule csat C D (extend atom dead F fsat D T0) /\ (forall a : atom, live atom dead (extend atom dead F fsat D T0) a <-> T0 a).
Proof. exact (@Drop.drop_bwd). Qed.
Print Assumptions C09_drop_bwd.

From NGO Require Import Syntax.Ast Sem.Sym Sem.Sat Model.Unused Link.UnusedSem.

Theorem C09_drop_dead_fwd : forall (sym_lt : sym -> sym -> Prop) (dead : pred -> bool) (P : program) (I : list gatom) (T : interp), Ground.simple_prog P = true -> dead_ok dead P = true -> live_facts dead I -> stable sym_lt P I T -> stable sym_lt (drop_dead dead P) I (restr (liveA dead) T).
Proof. exact (@drop_dead_fwd). Qed.
Print Assumptions C09_drop_dead_fwd.

Theorem C09_drop_dead_bwd : forall (sym_lt : sym -> sym -> Prop) (dead : pred -> bool) (P : program) (I : list gatom) (T0 : interp), Ground.simple_prog P = true -> dead_ok dead P = true -> heads_defined dead P -> live_facts dead I -> stable sym_lt (drop_dead dead P) I T0 -> exists T : interp, stable sym_lt P I T /\ same (restr (liveA dead) T) T0.
Proof. exact (@drop_dead_bwd). Qed.
Print Assumptions C09_drop_dead_bwd.

Theorem C09_drop_dead_predicate_sound : forall (sym_lt : sym -> sym -> Prop) (dead : pred -> bool) (P : program), Ground.simple_prog P = true -> dead_ok dead P = true -> heads_defined dead P -> forall (IN : pred -> Prop) (OUT : gatom -> Prop), (forall p : pred, IN p -> dead p = false) -> (forall a : gatom, OUT a -> liveA dead a) -> equiv_out sym_lt IN OUT P (drop_dead dead P).
Proof. exact (@drop_dead_predicate_sound). Qed.
Print Assumptions C09_drop_dead_predicate_sound.

Theorem C09_analyze_usage_used : forall (ins outs : list pred) (st : ustate) (prg : list stmt) (st' : ustate), analyze_usage ins outs st prg = Ok st' -> forall p : pred, In p (used st') <-> In p (flat_map stm_used prg) \/ In p ins \/ In p outs.
Proof. exact (@analyze_usage_used). Qed.
Print Assumptions C09_analyze_usage_used.

Theorem C09_analyze_usage_covers_bodies : forall (ins outs : list pred) (st : ustate) (prg : list stmt) (st' : ustate), analyze_usage ins outs st prg = Ok st' -> (forall (stm : stmt) (p : pred), In stm prg -> TraverseSpec.in_body p stm -> In p (used st')) /\ (forall p : pred, In p ins -> In p (used st')) /\ (forall p : pred, In p outs -> In p (used st')) /\ (forall (n : string) (a : nat) (b : bool), In (SShowSig n a b) prg -> In (n, a) (used st')).
Proof. exact (@analyze_usage_covers_bodies). Qed.
Print Assumptions C09_analyze_usage_covers_bodies.

Theorem C09_remove_unused_shape : forall (st : ustate) (prg : list stmt), remove_unused st prg = filter (fun stm : stmt => negb (head_unused (used st) stm)) prg.
Proof. exact (@remove_unused_shape). Qed.
Print Assumptions C09_remove_unused_shape.

Theorem C09_remove_unused_fwd : forall (sym_lt : sym -> sym -> Prop) (ins outs : list pred) (st st' : ustate) (P : program), unused_fragment P = true -> analyze_usage ins outs st P = Ok st' -> forall (I : list gatom) (T : interp), facts_over (fun p : string * nat => In p ins) I -> stable sym_lt P I T -> stable sym_lt (remove_unused st' P) I (restr (fun a : gatom => In (gpred a) (used st')) T).
Proof. exact (@remove_unused_fwd). Qed.
Print Assumptions C09_remove_unused_fwd.

Theorem C09_remove_unused_sound : forall (sym_lt : sym -> sym -> Prop) (ins outs : list pred) (st st' : ustate) (P : program), unused_fragment P = true -> analyze_usage ins outs st P = Ok st' -> heads_defined (dead_of (used st')) P -> forall (IN : pred -> Prop) (OUT : gatom -> Prop), (forall p : pred, IN p -> In p ins) -> (forall a : gatom, OUT a -> In (gpred a) outs \/ In (gpred a) (used st')) -> equiv_out sym_lt IN OUT P (remove_unused st' P).
Proof. exact (@remove_unused_sound). Qed.
Print Assumptions C09_remove_unused_sound.
