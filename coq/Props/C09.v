(* C09: dropping definitions nothing can observe (G4)
   Only statements, `exact`, and Print Assumptions live here. *)
From Coq Require Import List String ZArith Bool Permutation.
From NGO Require Import Meta.Drop.
Import ListNotations.

Theorem C09_drop_fwd : forall (atom : Type) (dead : atom -> Prop) (F : Type) (fsat : interp atom -> interp atom -> F -> Prop), (forall (H T : interp atom) (f : F), subi atom H T -> fsat H T f -> fsat T T f) -> forall (crule : Type) (csat : interp atom -> interp atom -> crule -> Prop), (forall (H T H' T' : interp atom) (r : crule), agree_live atom dead H H' -> agree_live atom dead T T' -> csat H T r <-> csat H' T' r) -> forall (C : crule -> Prop) (D : drule atom F -> Prop), (forall r : drule atom F, D r -> dead (dhead_atom atom (dh atom F r))) -> forall T : interp atom, stable_full atom F fsat crule csat C D T -> stable_kept atom crule csat C (live atom dead T).
Proof. exact (@Drop.drop_fwd). Qed.
Print Assumptions C09_drop_fwd.

Theorem C09_drop_bwd : forall (atom : Type) (dead : atom -> Prop) (F : Type) (fsat : interp atom -> interp atom -> F -> Prop), (forall (H T H' T' : interp atom) (f : F), agree_live atom dead H H' -> agree_live atom dead T T' -> fsat H T f <-> fsat H' T' f) -> forall (crule : Type) (csat : interp atom -> interp atom -> crule -> Prop), (forall (H T H' T' : interp atom) (r : crule), agree_live atom dead H H' -> agree_live atom dead T T' -> csat H T r <-> csat H' T' r) -> forall (C : crule -> Prop) (D : drule atom F -> Prop), (forall r : drule atom F, D r -> dead (dhead_atom atom (dh atom F r))) -> forall T0 : interp atom, (forall a : atom, T0 a -> ~ dead a) -> stable_kept atom crule csat C T0 -> stable_full atom F fsat crule csat C D (extend atom dead F fsat D T0) /\ (forall a : atom, live atom dead (extend atom dead F fsat D T0) a <-> T0 a).
Proof. exact (@Drop.drop_bwd). Qed.
Print Assumptions C09_drop_bwd.

From NGO Require Import Syntax.Ast Sem.Sym Sem.Sat Model.Unused Link.UnusedSem.

Theorem C09_drop_dead_fwd : forall (sym_lt : sym -> sym -> Prop) (dead : pred -> bool) (P : program) (I : list gatom) (T : interp), Ground.simple_prog P = true -> dead_ok dead P = true -> live_facts dead I -> stable sym_lt P I T -> stable sym_lt (drop_dead dead P) I (restr (liveA dead) T).
Proof. exact (@drop_dead_fwd). Qed.
Print Assumptions C09_drop_dead_fwd.

Theorem C09_drop_dead_bwd : forall (sym_lt : sym -> sym -> Prop) (dead : pred -> bool) (P : program) (I : list gatom) (T0 : interp), Ground.simple_prog P = true -> dead_ok dead P = true -> heads_defined dead P -> live_facts dead I -> stable sym_lt (drop_dead dead P) I T0 -> exists T : interp, stable sym_lt P I T /\ same (restr (liveA dead) T) T0.
Proof. exact (@drop_dead_bwd). Qed.
Print Assumptions C09_drop_dead_bwd.

Theorem C09_drop_dead_predicate_sound : forall (sym_lt : sym -> sym -> Prop) (dead : pred -> bool) (P : program), Ground.simple_prog P = true -> dead_ok dead P = true -> heads_defined dead P -> forall (IN : pred -> Prop) (OUT : gatom -> Prop), (forall p : pred, IN p -> dead p = false) -> (forall a : gatom, OUT a -> liveA dead a) -> equiv_out sym_lt IN OUT P (drop_dead dead P).
Proof. exact (@drop_dead_predicate_sound). Qed.
Print Assumptions C09_drop_dead_predicate_sound.

Theorem C09_analyze_usage_used : forall (ins outs : list pred) (st : ustate) (prg : list stmt) (st' : ustate), analyze_usage ins outs st prg = Ok st' -> forall p : pred, In p (used st') <-> In p (flat_map stm_used prg) \/ In p ins \/ In p outs.
Proof. exact (@analyze_usage_used). Qed.
Print Assumptions C09_analyze_usage_used.

Theorem C09_analyze_usage_covers_bodies : forall (ins outs : list pred) (st : ustate) (prg : list stmt) (st' : ustate), analyze_usage ins outs st prg = Ok st' -> (forall (stm : stmt) (p : pred), In stm prg -> TraverseSpec.in_body p stm -> In p (used st')) /\ (forall p : pred, In p ins -> In p (used st')) /\ (forall p : pred, In p outs -> In p (used st')) /\ (forall (n : string) (a : nat) (b : bool), In (SShowSig n a b) prg -> In (n, a) (used st')).
Proof. exact (@analyze_usage_covers_bodies). Qed.
Print Assumptions C09_analyze_usage_covers_bodies.

Theorem C09_remove_unused_shape : forall (st : ustate) (prg : list stmt), remove_unused st prg = filter (fun stm : stmt => negb (head_unused (used st) stm)) prg.
Proof. exact (@remove_unused_shape). Qed.
Print Assumptions C09_remove_unused_shape.

Theorem C09_remove_unused_fwd : forall (sym_lt : sym -> sym -> Prop) (ins outs : list pred) (st st' : ustate) (P : program), unused_fragment P = true -> analyze_usage ins outs st P = Ok st' -> forall (I : list gatom) (T : interp), facts_over (fun p : string * nat => In p ins) I -> stable sym_lt P I T -> stable sym_lt (remove_unused st' P) I (restr (fun a : gatom => In (gpred a) (used st')) T).
Proof. exact (@remove_unused_fwd). Qed.
Print Assumptions C09_remove_unused_fwd.

Theorem C09_remove_unused_sound : forall (sym_lt : sym -> sym -> Prop) (ins outs : list pred) (st st' : ustate) (P : program), unused_fragment P = true -> analyze_usage ins outs st P = Ok st' -> heads_defined (dead_of (used st')) P -> forall (IN : pred -> Prop) (OUT : gatom -> Prop), (forall p : pred, IN p -> In p ins) -> (forall a : gatom, OUT a -> In (gpred a) outs \/ In (gpred a) (used st')) -> equiv_out sym_lt IN OUT P (remove_unused st' P).
Proof. exact (@remove_unused_sound). Qed.
Print Assumptions C09_remove_unused_sound.

From NGO Require Import Sem.Sym Sem.Sat Sem.Cost Link.Equiv Link.UnusedProjectSem.

Theorem C09_project_position_sound : forall (sym_lt : Ast.sym -> Ast.sym -> Prop) (pn : string) (m : list bool) (qn : string), (qn, kcount m) <> (pn, Datatypes.length m) -> forall P : Ast.program, ok_prog pn m qn P = true -> forall I : list gatom, facts_over (fun r : string * nat => K pn m qn r = true) I -> (forall T : interp, stable sym_lt P I T -> stable sym_lt (tr_prog pn m qn P) I (prj pn m qn T)) /\ (forall T' : interp, stable sym_lt (tr_prog pn m qn P) I T' -> exists T : interp, stable sym_lt P I T /\ same (prj pn m qn T) T') /\ (forall T1 T2 : interp, stable sym_lt P I T1 -> stable sym_lt P I T2 -> same (prj pn m qn T1) (prj pn m qn T2) -> same T1 T2).
Proof. exact (@UnusedProjectSem.project_position_sound). Qed.
Print Assumptions C09_project_position_sound.

Theorem C09_project_position_equiv_out : forall (sym_lt : Ast.sym -> Ast.sym -> Prop) (pn : string) (m : list bool) (qn : string), (qn, kcount m) <> (pn, Datatypes.length m) -> forall (P : Ast.program) (IN : Ast.pred -> Prop) (OUT : gatom -> Prop), ok_prog pn m qn P = true -> (forall r : Ast.pred, IN r -> K pn m qn r = true) -> (forall a : gatom, OUT a -> K pn m qn (InlineSem.gpred a) = true) -> equiv_out sym_lt IN OUT P (tr_prog pn m qn P).
Proof. exact (@UnusedProjectSem.project_position_equiv_out). Qed.
Print Assumptions C09_project_position_equiv_out.

Theorem C09_project_position_equiv_cost : forall (sym_lt : Ast.sym -> Ast.sym -> Prop) (pn : string) (m : list bool) (qn : string), (qn, kcount m) <> (pn, Datatypes.length m) -> forall (P : Ast.program) (IN : Ast.pred -> Prop) (OUT : gatom -> Prop), ok_prog pn m qn P = true -> (forall r : Ast.pred, IN r -> K pn m qn r = true) -> (forall a : gatom, OUT a -> K pn m qn (InlineSem.gpred a) = true) -> equiv_cost sym_lt IN OUT P (tr_prog pn m qn P).
Proof. exact (@UnusedProjectSem.project_position_equiv_cost). Qed.
Print Assumptions C09_project_position_equiv_cost.

Theorem C09_project_negated_sound : forall (sym_lt : Ast.sym -> Ast.sym -> Prop) (pn : string) (m : list bool) (qn rn_ : string) (xs : list string) (l0 : nat), (qn, kcount m) <> (pn, Datatypes.length m) -> Datatypes.length xs = Datatypes.length m -> NoDup (sel m xs) -> rn_ <> qn -> K pn m qn (rn_, kcount m) = true -> forall P : list Ast.stmt, ok_prog pn m qn (Dproj pn m rn_ xs l0 :: P) = true -> InlineSem.heads_in (InlineSem.notp (rn_, Datatypes.length (sel m xs))) (tr_prog pn m qn P) = true -> InlineSem.prog_in (InlineSem.notp (rn_, Datatypes.length (sel m xs))) (rn_prog m qn rn_ xs (tr_prog pn m qn P)) = true -> forallb (mstmt rn_ (sel m xs)) (tr_prog pn m qn P) = true -> forall I : list gatom, facts_over (fun r : string * nat => K pn m qn r = true /\ r <> (rn_, kcount m)) I -> (forall T : interp, stable sym_lt (Dproj pn m rn_ xs l0 :: P) I T -> stable sym_lt (rn_prog m qn rn_ xs (tr_prog pn m qn P)) I (restr (nonr m rn_ xs) (prj pn m qn T))) /\ (forall T2 : interp, stable sym_lt (rn_prog m qn rn_ xs (tr_prog pn m qn P)) I T2 -> exists T : interp, stable sym_lt (Dproj pn m rn_ xs l0 :: P) I T /\ same (restr (nonr m rn_ xs) (prj pn m qn T)) T2) /\ (forall T1 T2 : interp, stable sym_lt (Dproj pn m rn_ xs l0 :: P) I T1 -> stable sym_lt (Dproj pn m rn_ xs l0 :: P) I T2 -> same (restr (nonr m rn_ xs) (prj pn m qn T1)) (restr (nonr m rn_ xs) (prj pn m qn T2)) -> same T1 T2).
Proof. exact (@UnusedProjectSem.project_negated_sound). Qed.
Print Assumptions C09_project_negated_sound.

Theorem C09_copy_rule_shortcut_sound : forall (sym_lt : Ast.sym -> Ast.sym -> Prop) (an bn : string) (xs : list string) (l0 : nat), an <> bn -> NoDup xs -> forall P1 : Ast.program, InlineSem.heads_in (InlineSem.notp (an, Datatypes.length xs)) P1 = true -> InlineSem.prog_in (InlineSem.notp (an, Datatypes.length xs)) (map (rn_stmt an bn xs) P1) = true -> forallb (mstmt an xs) P1 = true -> cons_ext sym_lt (fun p : string * nat => p <> (an, Datatypes.length xs)) (InlineSem.nonq an xs) (map (rn_stmt an bn xs) P1) (Dcopy an bn xs l0 :: P1).
Proof. exact (@UnusedProjectSem.copy_rule_shortcut_sound). Qed.
Print Assumptions C09_copy_rule_shortcut_sound.

Theorem C09_read_position_refuted : forall sym_lt : Ast.sym -> Ast.sym -> Prop, let OUT := fun a : gatom => InlineSem.gpred a = ("q", 1) in ok_prog "p" (true :: false :: nil) "p'" Refutations.P1 = false /\ stable sym_lt Refutations.P1 Refutations.I1 (Refutations.fin Refutations.l1) /\ ~ stable sym_lt (tr_prog "p" (true :: false :: nil) "p'" Refutations.P1) Refutations.I1 (prj "p" (true :: false :: nil) "p'" (Refutations.fin Refutations.l1)) /\ ~ equiv_out sym_lt (fun r : string * nat => K "p" (true :: false :: nil) "p'" r = true) OUT Refutations.P1 (tr_prog "p" (true :: false :: nil) "p'" Refutations.P1).
Proof. exact (@UnusedProjectSem.Refutations.read_position_refuted). Qed.
Print Assumptions C09_read_position_refuted.

Theorem C09_negated_head_refuted : forall sym_lt : Ast.sym -> Ast.sym -> Prop, UnusedExecute.execute Findings.exN (("d", 2) :: ("e", 2) :: nil) (("q", 1) :: nil) Findings.exN = Ast.Ok Findings.exN_res /\ facts_over (fun r : string * nat => r = ("d", 2) \/ r = ("e", 2)) Findings.IN_ /\ stable sym_lt Findings.exN Findings.IN_ (Refutations.fin Findings.lN) /\ (forall T' : interp, ~ stable sym_lt Findings.exN_res Findings.IN_ T') /\ ~ equiv_out sym_lt (fun r : string * nat => r = ("d", 2) \/ r = ("e", 2)) (fun a : gatom => InlineSem.gpred a = ("q", 1)) Findings.exN Findings.exN_res.
Proof. exact (@UnusedProjectSem.Findings.negated_head_refuted). Qed.
Print Assumptions C09_negated_head_refuted.

Theorem C09_copy_chain_refuted : forall sym_lt : Ast.sym -> Ast.sym -> Prop, UnusedExecute.execute Findings.exCh (("c", 1) :: ("e", 1) :: nil) (("d", 1) :: nil) Findings.exCh = Ast.Ok Findings.exCh_res /\ stable sym_lt Findings.exCh Findings.ICh (Refutations.fin Findings.lCh) /\ (forall T' : interp, stable sym_lt Findings.exCh_res Findings.ICh T' -> ~ T' ("d", Refutations.c1 :: nil)) /\ ~ equiv_out sym_lt (fun r : string * nat => r = ("c", 1) \/ r = ("e", 1)) (fun a : gatom => InlineSem.gpred a = ("d", 1)) Findings.exCh Findings.exCh_res.
Proof. exact (@UnusedProjectSem.Findings.copy_chain_refuted). Qed.
Print Assumptions C09_copy_chain_refuted.

Theorem C09_copy_rule_double_negation_refuted : forall sym_lt : Ast.sym -> Ast.sym -> Prop, stable sym_lt Findings.Pdn nil (Refutations.fin Findings.ldn) /\ Refutations.fin Findings.ldn ("ok", nil) /\ (forall T' : interp, stable sym_lt Findings.Pdn' nil T' -> ~ T' ("ok", nil)) /\ ~ equiv_out sym_lt (fun r : string * nat => r = ("given", 0)) (fun a : gatom => InlineSem.gpred a = ("ok", 0)) Findings.Pdn Findings.Pdn'.
Proof. exact (@UnusedProjectSem.Findings.copy_rule_double_negation_refuted). Qed.
Print Assumptions C09_copy_rule_double_negation_refuted.

Theorem C09_choice_projection_many_to_one : forall sym_lt : Ast.sym -> Ast.sym -> Prop, stable sym_lt ChoiceExample.Pc ChoiceExample.Ic (Refutations.fin (ChoiceExample.lc Refutations.c1)) /\ stable sym_lt ChoiceExample.Pc ChoiceExample.Ic (Refutations.fin (ChoiceExample.lc Refutations.c2)) /\ ~ same (Refutations.fin (ChoiceExample.lc Refutations.c1)) (Refutations.fin (ChoiceExample.lc Refutations.c2)) /\ same (prj "p" (true :: false :: nil) "p'" (Refutations.fin (ChoiceExample.lc Refutations.c1))) (prj "p" (true :: false :: nil) "p'" (Refutations.fin (ChoiceExample.lc Refutations.c2))) /\ ok_prog "p" (true :: false :: nil) "p'" ChoiceExample.Pc = false.
Proof. exact (@UnusedProjectSem.ChoiceExample.choice_projection_many_to_one). Qed.
Print Assumptions C09_choice_projection_many_to_one.

Theorem C09_exA_pass_sound : forall sym_lt : Ast.sym -> Ast.sym -> Prop, UnusedExecute.execute ModelExamples.exA (("d", 2) :: nil) (("q", 1) :: nil) ModelExamples.exA = Ast.Ok ModelExamples.exA_res /\ (forall I : list gatom, facts_over (fun r : string * nat => ModelExamples.KA r = true) I -> (forall T : interp, stable sym_lt ModelExamples.exA I T -> stable sym_lt ModelExamples.exA_res I (ModelExamples.prjA T)) /\ (forall T' : interp, stable sym_lt ModelExamples.exA_res I T' -> exists T : interp, stable sym_lt ModelExamples.exA I T /\ same (ModelExamples.prjA T) T') /\ (forall T1 T2 : interp, stable sym_lt ModelExamples.exA I T1 -> stable sym_lt ModelExamples.exA I T2 -> same (ModelExamples.prjA T1) (ModelExamples.prjA T2) -> same T1 T2)).
Proof. exact (@UnusedProjectSem.ModelExamples.exA_pass_sound). Qed.
Print Assumptions C09_exA_pass_sound.

Theorem C09_exM_pass_sound : forall sym_lt : Ast.sym -> Ast.sym -> Prop, UnusedExecute.execute ModelExamples.exM (("e", 2) :: ("f", 1) :: nil) nil ModelExamples.exM = Ast.Ok ModelExamples.exM_res /\ equiv_cost sym_lt (fun r : string * nat => r = ("e", 2) \/ r = ("f", 1)) (fun a : gatom => InlineSem.gpred a = ("e", 2) \/ InlineSem.gpred a = ("f", 1)) ModelExamples.exM ModelExamples.exM_res.
Proof. exact (@UnusedProjectSem.ModelExamples.exM_pass_sound). Qed.
Print Assumptions C09_exM_pass_sound.
