(* C09: dropping definitions nothing can observe (G4)
   Only statements, `exact`, and Print Assumptions live here. *)
From Coq Require Import List String ZArith Bool Permutation.
From NGO Require Import Meta.Drop.
Import ListNotations.

Theorem C09_drop_fwd : forall (atom : Type) (dead : atom -> Prop) (F : Type) (fsat : interp atom -> interp atom -> F -> Prop), (forall (H T : interp atom) (f : F), subi atom H T -> fsat H T f -> fsat T T f) -> forall (crule : Type) (csat : interp atom -> interp atom -> crule -> Prop), (forall (H T H' T' : interp atom) (r : crule), agree_live atom dead H H' -> agree_live atom dead T T' -> csat H T r <-> csat H' T' r) -> forall (C : crule -> Prop) (D : drule atom F -> Prop), (forall r : drule atom F, D r -> dead (dhead_atom atom (dh atom F r))) -> forall T : interp atom, stable_full atom F fsat crule csat C D T -> stable_kept atom crule csat C (live atom dead T).
Proof. exact (@Drop.drop_fwd). Qed.
Print Assumptions C09_drop_fwd.

Theorem C09_drop_bwd : forall (atom : Type) (dead : atom -> Prop) (F : Type) (fsat : interp atom -> interp atom -> F -> Prop), (forall (H T H' T' : interp atom) (f : F), agree_live atom dead H H' -> agree_live atom dead T T' -> fsat H T f <-> fsat H' T' f) -> forall (crule : Type) (csat : interp atom -> interp atom -> crule -> Prop), (forall (H T H' T' : interp atom) (r : crule), agree_live atom dead H H' -> agree_live atom dead T T' -> csat H T r <-> csat H' T' r) -> forall (C : crule -> Prop) (D : drule atom F -> Prop), (forall r : drule atom F, D r -> dead (dhead_atom atom (dh atom F r))) -> forall T0 : interp atom, (forall a : atom, T0 a -> ~ dead a) -> stable_kept atom crule csat C T0 -> stable_full atom F fsat crule csat C D (extend atom dead F fsat D T0) /\ (forall a : atom, live atom dead (extend atom dead F fsat D T0) a <-> T0 a).
Proof. exact (@Drop.drop_bwd). Qed.
Print Assumptions C09_drop_bwd.
