(* C07: every invented name is fresh -- UniqueVariables / UniqueNames of ngo/utils/globals.py
   (model: Model/Globals.v, tied to the real classes by the families unique_variables / unique_names).
   Only statements, `exact`, and Print Assumptions live here.
   `Ok` = the call returned, `OutOfFuel` = the model's loop bound was too small (proved impossible). *)
From Coq Require Import List String Bool.
From NGO Require Import Syntax.Ast Gen.Names Model.Traverse Model.Globals Link.GlobalsSpec.
Import ListNotations.
Open Scope string_scope. Open Scope list_scope.

(* Python's str(int) never maps two counters to the same suffix *)
Theorem C07_string_of_nat_injective : forall n m, string_of_nat n = string_of_nat m -> n = m.
Proof. exact string_of_nat_inj. Qed.
Print Assumptions C07_string_of_nat_injective.

(* (a) new_predicate: the result is new, is remembered, nothing is forgotten, the arity is the requested one *)
Theorem C07_new_predicate_fresh : forall st sim ar p st',
  new_predicate st sim ar = Ok (p, st') ->
  ~ In p (known st) /\ In p (known st') /\ incl (known st) (known st') /\ snd p = ar.
Proof. exact new_predicate_fresh. Qed.
Print Assumptions C07_new_predicate_fresh.

Theorem C07_new_predicate_terminates : forall st sim ar, exists p st', new_predicate st sim ar = Ok (p, st').
Proof. exact new_predicate_total. Qed.
Print Assumptions C07_new_predicate_terminates.

Theorem C07_new_predicate_shape : forall st sim ar p st',
  new_predicate st sim ar = Ok (p, st') ->
  (fst p = sim \/ exists k, fst p = (sim ++ string_of_nat k)%string) /\
  auxcounter st' = auxcounter st /\ (forall q, In q (known st') <-> q = p \/ In q (known st)) /\
  (~ In (sim, ar) (known st) -> p = (sim, ar)).
Proof. exact new_predicate_shape. Qed.
Print Assumptions C07_new_predicate_shape.

(* (b) new_auxpredicate *)
Theorem C07_new_auxpredicate_fresh : forall st ar p st',
  new_auxpredicate st ar = Ok (p, st') ->
  ~ In p (known st) /\ In p (known st') /\ incl (known st) (known st') /\ snd p = ar.
Proof. exact new_auxpredicate_fresh. Qed.
Print Assumptions C07_new_auxpredicate_fresh.

Theorem C07_new_auxpredicate_terminates : forall st ar, exists p st', new_auxpredicate st ar = Ok (p, st').
Proof. exact new_auxpredicate_total. Qed.
Print Assumptions C07_new_auxpredicate_terminates.

Theorem C07_new_auxpredicate_shape : forall st ar p st',
  new_auxpredicate st ar = Ok (p, st') ->
  (exists k, fst p = (AUX_FUNC ++ string_of_nat k)%string) /\
  auxcounter st < auxcounter st' /\ (forall q, In q (known st') <-> q = p \/ In q (known st)).
Proof. exact new_auxpredicate_shape. Qed.
Print Assumptions C07_new_auxpredicate_shape.

(* (c) any history of requests against one object, from any state: it always returns, all returned
   predicates are pairwise distinct, none was known before, everything stays known *)
Theorem C07_names_history_distinct_any_state : forall rs st,
  exists st' outs, run_requests st rs = Ok (st', outs) /\
    NoDup outs /\ (forall p, In p outs -> ~ In p (known st)) /\
    incl (known st) (known st') /\ incl outs (known st') /\ List.length outs = List.length rs.
Proof. exact run_requests_spec. Qed.
Print Assumptions C07_names_history_distinct_any_state.

Theorem C07_names_history_distinct : forall known0 rs,
  exists st outs, run_requests (mk_unames 0 known0) rs = Ok (st, outs) /\
    NoDup outs /\ (forall p, In p outs -> ~ In p known0) /\
    incl known0 (known st) /\ incl outs (known st).
Proof. exact names_history_distinct. Qed.
Print Assumptions C07_names_history_distinct.

Theorem C07_names_history_never_out_of_fuel : forall st rs, run_requests st rs <> OutOfFuel.
Proof. exact run_requests_never_out_of_fuel. Qed.
Print Assumptions C07_names_history_never_out_of_fuel.

(* (d) make_unique *)
Theorem C07_make_unique_fresh : forall vars v v' vars',
  v <> "_" -> make_unique vars v = Ok (v', vars') ->
  In v' vars' /\ incl vars vars' /\ vars' = vars ++ [v'] /\
  ((~ In v vars /\ v' = v) \/ (In v vars /\ ~ In v' vars /\ exists k, v' = (v ++ string_of_nat k)%string)).
Proof. exact make_unique_fresh. Qed.
Print Assumptions C07_make_unique_fresh.

Theorem C07_make_unique_not_in_rule : forall vars v v' vars',
  v <> "_" -> make_unique vars v = Ok (v', vars') -> ~ In v' vars.
Proof. exact make_unique_not_in_rule. Qed.
Print Assumptions C07_make_unique_not_in_rule.

Theorem C07_make_unique_anonymous : forall vars, make_unique vars "_" = Ok ("_", vars).
Proof. exact make_unique_anonymous. Qed.
Print Assumptions C07_make_unique_anonymous.

Theorem C07_make_unique_terminates : forall vars v, exists v' vars', make_unique vars v = Ok (v', vars').
Proof. exact make_unique_total. Qed.
Print Assumptions C07_make_unique_terminates.

Theorem C07_vars_history_distinct : forall vs vars,
  exists vars' outs, run_make_unique vars vs = Ok (vars', outs) /\
    incl vars vars' /\ incl (filter (fun v => negb (String.eqb v "_")) outs) vars' /\
    List.length outs = List.length vs /\
    (~ In "_" vs -> NoDup outs /\ forall x, In x outs -> ~ In x vars).
Proof. exact vars_history_distinct. Qed.
Print Assumptions C07_vars_history_distinct.

(* (e) what UniqueNames.__init__ knows: exactly the input predicates and the predicates occurring in
   rules / minimize statements *)
Theorem C07_unique_names_init_covers : forall prg ins,
  (forall s p, In s prg -> In p (map snd (predicates all_signs s)) -> In p (known (init_names prg ins))) /\
  (forall p, In p ins -> In p (known (init_names prg ins))) /\
  auxcounter (init_names prg ins) = 0.
Proof. exact unique_names_init_covers. Qed.
Print Assumptions C07_unique_names_init_covers.

Theorem C07_unique_names_init_known : forall prg ins p,
  In p (known (init_names prg ins)) <->
  In p ins \/ exists s, In s prg /\ In p (map snd (predicates all_signs s)).
Proof. exact unique_names_init_known. Qed.
Print Assumptions C07_unique_names_init_known.

(* KNOWN DEFECT (refutation of "invented names avoid the declared output predicates"):
   for `a :- b.` the output predicate out/1 is handed out by new_predicate("out", 1) *)
Theorem C07_unique_names_ignores_out_refuted :
  let st := init_names [rule_a_b] [] in
  known st = [("a", 0); ("b", 0)] /\ ~ In ("out", 1) (known st) /\
  new_predicate st "out" 1 = Ok (("out", 1), mk_unames 0 [("a", 0); ("b", 0); ("out", 1)]).
Proof. exact unique_names_ignores_out_refuted. Qed.
Print Assumptions C07_unique_names_ignores_out_refuted.

Theorem C07_unique_names_ignores_show_refuted :
  let prg := [rule_a_b; SShowSig "out" 1 true] in
  auto_detect_output prg = [("out", 1)] /\
  exists st', new_predicate (init_names prg (auto_detect_input prg)) "out" 1 = Ok (("out", 1), st').
Proof. exact unique_names_ignores_show_refuted. Qed.
Print Assumptions C07_unique_names_ignores_show_refuted.

(* non-vacuity: concrete colliding histories *)
Theorem C07_colliding_history :
  run_requests (mk_unames 0 [("__aux_1", 1); ("__aux_2", 1); ("p", 2)])
               [NewAux 1; NewAux 1; NewPred "p" 2; NewPred "p" 2; NewPred "__aux_" 1; NewAux 0; NewPred "q" 0]
  = Ok (mk_unames 6 [("__aux_1", 1); ("__aux_2", 1); ("p", 2); ("__aux_3", 1); ("__aux_5", 1); ("p1", 2);
                     ("p2", 2); ("__aux_", 1); ("__aux_6", 0); ("q", 0)],
        [("__aux_3", 1); ("__aux_5", 1); ("p1", 2); ("p2", 2); ("__aux_", 1); ("__aux_6", 0); ("q", 0)]).
Proof. exact colliding_history. Qed.
Print Assumptions C07_colliding_history.

Theorem C07_colliding_make_unique :
  run_make_unique ["X"; "X0"; "Y"; "X"] ["X"; "X"; "_"; "Z"; "Z"; "AUX"; "AUX"; "X0"]
  = Ok (["X"; "X0"; "Y"; "X"; "X1"; "X2"; "Z"; "Z0"; "AUX"; "AUX0"; "X00"],
        ["X1"; "X2"; "_"; "Z"; "Z0"; "AUX"; "AUX0"; "X00"]).
Proof. exact colliding_make_unique. Qed.
Print Assumptions C07_colliding_make_unique.

From NGO Require Import Syntax.Ast Model.Cleanup Link.CleanupSpec.

Theorem C07_passthrough_cleanup : forall (inputs : list pred) (prg out : list stmt), execute_core inputs prg = Ok out -> filter non_rule out = filter non_rule prg.
Proof. exact (@passthrough_cleanup_proof). Qed.
Print Assumptions C07_passthrough_cleanup.

From NGO Require Import Syntax.Ast Model.Projection Link.ProjectionSpec.

Theorem C07_projection_passthrough : forall (ctor_prg : list stmt) (ins : list pred) (prg out : list stmt), execute_core ctor_prg ins prg = Ok out -> filter non_rule out = filter non_rule prg /\ Datatypes.length prg <= Datatypes.length out /\ (exists (blks : list (list stmt)) (auxs : list pred) (st' : Globals.unames), exec_trace (Globals.init_names ctor_prg ins) prg blks auxs st' /\ out = List.concat blks /\ Datatypes.length out = Datatypes.length prg + Datatypes.length auxs /\ Forall2 (fun (s : stmt) (blk : list stmt) => blk = s :: nil \/ (exists (line : nat) (h : head) (b new rest : list bodyelem) (t : list string) (a : string), s = SRule line h b /\ blk = SRule LOC_line (HLit (aux_head a t)) new :: SRule line h (rest ++ BLit (aux_head a t) :: nil) :: nil)) prg blks).
Proof. exact (@execute_core_passthrough_proof). Qed.
Print Assumptions C07_projection_passthrough.

Theorem C07_projection_fresh_aux : forall (ctor_prg : list stmt) (ins : list pred) (prg out : list stmt) (st' : Globals.unames), execute_core_state ctor_prg ins prg = Ok (out, st') -> exists (blks : list (list stmt)) (auxs : list pred), exec_trace (Globals.init_names ctor_prg ins) prg blks auxs st' /\ out = List.concat blks /\ NoDup auxs /\ (forall p : pred, In p auxs -> ~ In p (Globals.known (Globals.init_names ctor_prg ins)) /\ ~ In p ins /\ (forall s : stmt, In s ctor_prg -> ~ In p (map snd (Traverse.predicates Traverse.all_signs s))) /\ (exists k : nat, fst p = (Names.AUX_FUNC ++ Globals.string_of_nat k)%string)) /\ incl auxs (Globals.known st').
Proof. exact (@execute_core_fresh_aux_proof). Qed.
Print Assumptions C07_projection_fresh_aux.

From NGO Require Import Link.PassthroughSpec.

Theorem C07_passthrough_unused : forall (ctor_prg : list Ast.stmt) (ins outs : list Ast.pred) (prg out : list Ast.stmt), UnusedExecute.execute ctor_prg ins outs prg = Ast.Ok out -> filter non_rule_strict out = filter non_rule_strict prg.
Proof. exact (@PassthroughSpec.passthrough_unused_proof). Qed.
Print Assumptions C07_passthrough_unused.

Theorem C07_passthrough_unused_show_term_refuted : exists (ctor : list Ast.stmt) (ins outs : list Ast.pred) (prg out : list Ast.stmt), UnusedExecute.execute ctor ins outs prg = Ast.Ok out /\ filter non_rule out <> filter non_rule prg.
Proof. exact (@PassthroughSpec.passthrough_unused_show_term_refuted). Qed.
Print Assumptions C07_passthrough_unused_show_term_refuted.

Theorem C07_passthrough_unused_declared : forall (ins outs : list Ast.pred) (ctor_prg prg out : list Ast.stmt), PtUnused.shows_declared ins outs prg -> UnusedExecute.execute ctor_prg ins outs prg = Ast.Ok out -> filter non_rule out = filter non_rule prg.
Proof. exact (@PassthroughSpec.passthrough_unused_declared_proof). Qed.
Print Assumptions C07_passthrough_unused_declared.

Theorem C07_passthrough_unused_auto : forall (ctor_prg : list Ast.stmt) (ins : list Ast.pred) (prg out : list Ast.stmt), UnusedExecute.execute ctor_prg ins (Traverse.auto_detect_output prg) prg = Ast.Ok out -> filter non_rule out = filter non_rule prg.
Proof. exact (@PassthroughSpec.passthrough_unused_auto_proof). Qed.
Print Assumptions C07_passthrough_unused_auto.

Theorem C07_fresh_unused : forall (ctor_prg : list Ast.stmt) (ins outs : list Ast.pred) (prg out : list Ast.stmt) (st' : Unused.ustate), UnusedExecute.execute_st ins outs (Unused.init_state ctor_prg ins) prg = Ast.Ok (out, st') -> let invented := map PtUnused.nn_pred (Unused.new_names st') in Globals.run_requests (Globals.init_names ctor_prg ins) (map PtUnused.nn_req (Unused.new_names st')) = Ast.Ok (Unused.unique_names st', invented) /\ NoDup invented /\ (forall p : Ast.pred, In p invented -> ~ In p (Globals.known (Globals.init_names ctor_prg ins)) /\ ~ In p ins /\ (forall s : Ast.stmt, In s ctor_prg -> ~ In p (map snd (Traverse.predicates Traverse.all_signs s)))) /\ incl invented (Globals.known (Unused.unique_names st')).
Proof. exact (@PassthroughSpec.fresh_unused_proof). Qed.
Print Assumptions C07_fresh_unused.

Theorem C07_passthrough_duplication : forall (prg : list Ast.stmt) (ins : list Ast.pred) (out : list Ast.stmt), Duplication.execute prg ins = Ast.Ok out -> filter non_rule out = filter non_rule prg.
Proof. exact (@PassthroughSpec.passthrough_duplication_proof). Qed.
Print Assumptions C07_passthrough_duplication.

Theorem C07_duplication_shape_fresh : forall (ctor_prg : list Ast.stmt) (ins : list Ast.pred) (prg out : list Ast.stmt), Duplication.execute2 ctor_prg ins prg = Ast.Ok out -> filter non_rule out = filter non_rule prg /\ (exists (auxs : list Ast.pred) (names names' : Globals.unames), names_ext (Globals.init_names ctor_prg ins) names /\ names_log names auxs names' /\ PtDup.shuffle auxs prg out /\ NoDup auxs /\ (forall p : Ast.pred, In p auxs -> ~ In p (Globals.known (Globals.init_names ctor_prg ins)) /\ ~ In p ins /\ (forall s : Ast.stmt, In s ctor_prg -> ~ In p (map snd (Traverse.predicates Traverse.all_signs s))))).
Proof. exact (@PassthroughSpec.duplication_shape_fresh_proof). Qed.
Print Assumptions C07_duplication_shape_fresh.

Theorem C07_passthrough_symmetry : forall (ctor_prg : list Ast.stmt) (ins : list Ast.pred) (prg out : list Ast.stmt), Symmetry.execute ctor_prg ins prg = Ast.Ok out -> filter non_rule out = filter non_rule prg.
Proof. exact (@PassthroughSpec.passthrough_symmetry_proof). Qed.
Print Assumptions C07_passthrough_symmetry.

Theorem C07_names_symmetry : forall (ctor_prg : list Ast.stmt) (ins : list Ast.pred) (prg : list Ast.stmt) (st st' : Dependency.dstate) (r : Ast.result (list Ast.stmt)), Symmetry.init_translator ctor_prg ins = Ast.Ok st -> Symmetry.execute_m prg st = (st', r) -> names_ext (Globals.init_names ctor_prg ins) (Dependency.unique_names st) /\ names_ext (Dependency.unique_names st) (Dependency.unique_names st') /\ incl (Globals.known (Globals.init_names ctor_prg ins)) (Globals.known (Dependency.unique_names st')).
Proof. exact (@PassthroughSpec.names_symmetry_proof). Qed.
Print Assumptions C07_names_symmetry.

Theorem C07_passthrough_inline : forall (ctor_prg : list Ast.stmt) (ins outs : list Ast.pred) (prg out : list Ast.stmt), Inline.run_execute ctor_prg ins outs prg = Ast.Ok out -> filter non_rule out = filter non_rule prg.
Proof. exact (@PassthroughSpec.passthrough_inline_proof). Qed.
Print Assumptions C07_passthrough_inline.

Theorem C07_passthrough_sumchains : forall (prg : list Ast.stmt) (ins order : list Ast.pred) (out : list Ast.stmt), SumChains.execute prg ins order = Ast.Ok out -> filter non_rule out = filter non_rule prg.
Proof. exact (@PassthroughSpec.passthrough_sumchains_proof). Qed.
Print Assumptions C07_passthrough_sumchains.

Theorem C07_names_sumchains : forall (prg : list Ast.stmt) (ins order : list Ast.pred) (sa : SumChains.sa_state) (cells : list SumChains.cellrows) (st : Dependency.dstate) (r : Ast.result (list Ast.stmt)), SumChains.sa_init prg ins order = Ast.Ok sa -> SumChains.execute_on sa prg cells = (st, r) -> names_ext (Globals.init_names prg ins) (Dependency.unique_names (SumChains.sa_dp sa)) /\ names_ext (Dependency.unique_names (SumChains.sa_dp sa)) (Dependency.unique_names st) /\ incl (Globals.known (Globals.init_names prg ins)) (Globals.known (Dependency.unique_names st)).
Proof. exact (@PassthroughSpec.names_sumchains_proof). Qed.
Print Assumptions C07_names_sumchains.

Theorem C07_passthrough_minmax : forall (ctor_prg : list Ast.stmt) (ins : list Ast.pred) (prg out : list Ast.stmt), MinMax.mm_execute ctor_prg ins prg = Ast.Ok out -> filter non_rule out = filter non_rule prg.
Proof. exact (@PassthroughSpec.passthrough_minmax_proof). Qed.
Print Assumptions C07_passthrough_minmax.

Theorem C07_names_minmax : forall (ctor_prg : list Ast.stmt) (ins : list Ast.pred) (prg : list Ast.stmt) (rd : Dependency.rdstate) (st st' : Dependency.dstate) (r : Ast.result (list Ast.stmt)), MinMax.mm_init ctor_prg ins = Ast.Ok (rd, st) -> MinMax.execute_m rd prg st = (st', r) -> names_ext (Globals.init_names ctor_prg ins) (Dependency.unique_names st) /\ names_ext (Dependency.unique_names st) (Dependency.unique_names st') /\ incl (Globals.known (Globals.init_names ctor_prg ins)) (Globals.known (Dependency.unique_names st')).
Proof. exact (@PassthroughSpec.names_minmax_proof). Qed.
Print Assumptions C07_names_minmax.

Theorem C07_passthrough_preprocess : forall prg pre : list Ast.stmt, Normalize.preprocess prg = Ast.Ok pre -> filter non_rule_strict pre = filter non_rule_strict prg.
Proof. exact (@PassthroughSpec.passthrough_preprocess_proof). Qed.
Print Assumptions C07_passthrough_preprocess.

Theorem C07_passthrough_optimize : forall (enabled : list string) (ins outs : list Ast.pred) (prg out : list Ast.stmt), Api.optimize enabled ins outs prg = Ast.Ok out -> (exists pre : list Ast.stmt, Normalize.preprocess prg = Ast.Ok pre /\ filter non_rule_strict out = filter non_rule_strict pre) /\ filter non_rule_strict out = filter non_rule_strict prg.
Proof. exact (@PassthroughSpec.passthrough_optimize_proof). Qed.
Print Assumptions C07_passthrough_optimize.

Theorem C07_passthrough_optimize_declared : forall (enabled : list string) (ins outs : list Ast.pred) (prg out : list Ast.stmt), Api.optimize enabled ins outs prg = Ast.Ok out -> exists pre : list Ast.stmt, Normalize.preprocess prg = Ast.Ok pre /\ (PtUnused.shows_declared ins outs pre -> filter non_rule out = filter non_rule pre).
Proof. exact (@PassthroughSpec.passthrough_optimize_declared_proof). Qed.
Print Assumptions C07_passthrough_optimize_declared.
