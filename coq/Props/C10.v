(* C10: factoring a literal set into an auxiliary atom is an instance of definition folding (G3a)
   Only statements, `exact`, and Print Assumptions live here. *)
From Coq Require Import List String ZArith Bool Permutation.
From NGO Require Import Meta.Fold.
Import ListNotations.

Theorem C10_fold_fwd : forall (atom : Type) (aux : atom -> Prop) (F : Type) (fsat : interp atom -> interp atom -> F -> Prop), (forall (H T H' T' : interp atom) (f : F), agree_base atom aux H H' -> agree_base atom aux T T' -> fsat H T f <-> fsat H' T' f) -> forall (Hd : Type) (hsat : interp atom -> interp atom -> Hd -> Prop), (forall (H T H' T' : interp atom) (h : Hd), agree_base atom aux H H' -> agree_base atom aux T T' -> hsat H T h <-> hsat H' T' h) -> forall (P : rule F Hd -> Prop) (Q : trule atom F Hd -> Prop), (forall (a : atom) (beta : list F), Q (TDef atom F Hd a beta) -> aux a) -> (forall (h : Hd) (a : atom) (rest : list F), Q (TFolded atom F Hd h a rest) -> aux a) -> (forall (h : Hd) (a : atom) (rest beta : list F), Q (TFolded atom F Hd h a rest) -> defs atom F Hd Q a beta -> P {| hd := h; bd := beta ++ rest |}) -> (forall r : rule F Hd, Q (TPlain atom F Hd r) -> P r) -> (forall r : rule F Hd, P r -> Q (TPlain atom F Hd r) \/ (exists (a : atom) (beta rest : list F), bd F Hd r = beta ++ rest /\ defs atom F Hd Q a beta /\ Q (TFolded atom F Hd (hd F Hd r) a rest))) -> forall T : interp atom, noaux atom aux T -> stableP atom F fsat Hd hsat P T -> stableQ atom F fsat Hd hsat Q (ext atom aux F fsat Hd Q T T).
Proof. exact (@Fold.fold_fwd). Qed.
Print Assumptions C10_fold_fwd.

Theorem C10_fold_bwd : forall (atom : Type) (aux : atom -> Prop) (F : Type) (fsat : interp atom -> interp atom -> F -> Prop), (forall (H T H' T' : interp atom) (f : F), agree_base atom aux H H' -> agree_base atom aux T T' -> fsat H T f <-> fsat H' T' f) -> (forall (H T : interp atom) (f : F), subi atom H T -> fsat H T f -> fsat T T f) -> forall (Hd : Type) (hsat : interp atom -> interp atom -> Hd -> Prop), (forall (H T H' T' : interp atom) (h : Hd), agree_base atom aux H H' -> agree_base atom aux T T' -> hsat H T h <-> hsat H' T' h) -> forall (P : rule F Hd -> Prop) (Q : trule atom F Hd -> Prop), (forall (a : atom) (beta : list F), Q (TDef atom F Hd a beta) -> aux a) -> (forall (h : Hd) (a : atom) (rest : list F), Q (TFolded atom F Hd h a rest) -> aux a) -> (forall (h : Hd) (a : atom) (rest beta : list F), Q (TFolded atom F Hd h a rest) -> defs atom F Hd Q a beta -> P {| hd := h; bd := beta ++ rest |}) -> (forall r : rule F Hd, Q (TPlain atom F Hd r) -> P r) -> (forall r : rule F Hd, P r -> Q (TPlain atom F Hd r) \/ (exists (a : atom) (beta rest : list F), bd F Hd r = beta ++ rest /\ defs atom F Hd Q a beta /\ Q (TFolded atom F Hd (hd F Hd r) a rest))) -> forall T' : interp atom, stableQ atom F fsat Hd hsat Q T' -> stableP atom F fsat Hd hsat P (restrict atom aux T') /\ (forall a : atom, T' a <-> ext atom aux F fsat Hd Q (restrict atom aux T') (restrict atom aux T') a).
Proof. exact (@Fold.fold_bwd). Qed.
Print Assumptions C10_fold_bwd.

From NGO Require Import Sem.Sym Sem.Sat Link.Equiv Link.SymmetrySem Link.DuplicationSem.

Theorem C10_fold_existing_sound : forall (sym_lt : Ast.sym -> Ast.sym -> Prop) (aux : string) (ts : list string) (r : string -> string) (P1 P2 P3 : Ast.program) (l0 line : nat) (h : Ast.head) (New Rest B : list Ast.bodyelem), let p := (aux, Datatypes.length ts) in let D := Ast.SRule l0 (Ast.HLit (Ast.Lit Ast.NoSign (Ast.ASym (Ast.TFun aux (map Ast.TVar ts) false)))) New in let Q := P1 ++ (D :: nil) ++ P2 ++ (Ast.SRule line h B :: nil) ++ P3 in let Q' := P1 ++ (D :: nil) ++ P2 ++ (Ast.SRule line h (Rest ++ Ast.BLit (Ast.Lit Ast.NoSign (Ast.ASym (Ast.TFun aux (map Ast.TVar (map r ts)) false))) :: nil) :: nil) ++ P3 in Ground.simple_prog Q = true -> heads_avoid p (P1 ++ P2 ++ (Ast.SRule line h B :: nil) ++ P3) = true -> Permutation B (map (ren_bodyelem r) New ++ Rest) -> (forall x : string, In x (flat_map Ast.vars_bodyelem New) -> In x ts) -> equiv_on sym_lt (fun q : Ast.pred => q <> p) Q Q'.
Proof. exact (@DuplicationSem.fold_existing_sound). Qed.
Print Assumptions C10_fold_existing_sound.

Theorem C10_cons_ext_equiv_on : forall (sym_lt : Ast.sym -> Ast.sym -> Prop) (IN : string * nat -> Prop) (V : gatom -> Prop) (P Q Q' : Ast.program), cons_ext sym_lt IN V P Q -> equiv_on sym_lt IN Q Q' -> cons_ext sym_lt IN V P Q'.
Proof. exact (@DuplicationSem.cons_ext_equiv_on). Qed.
Print Assumptions C10_cons_ext_equiv_on.

Theorem C10_duplication_step_sound : forall (sym_lt : Ast.sym -> Ast.sym -> Prop) (aux : string) (ts : list string) (l0 : nat) (New : list Ast.bodyelem) (items : list item) (Q1 Q2 : Ast.program), let p := (aux, Datatypes.length ts) in let auxl := fun xs : list string => Ast.Lit Ast.NoSign (Ast.ASym (Ast.TFun aux (map Ast.TVar xs) false)) in let P := map i_src items in let Q := Q1 ++ (Ast.SRule l0 (Ast.HLit (auxl ts)) New :: nil) ++ Q2 in Q1 ++ Q2 = map i_tgt items -> (exists o : occ, In (inr o) items) -> (forall o : occ, In (inr o) items -> Permutation (o_B o) (map (ren_bodyelem (o_r o)) New ++ o_rest o) /\ Permutation (o_B' o) (o_rest o ++ Ast.BLit (auxl (map (o_r o) ts)) :: nil)) -> Ground.simple_prog P = true -> ProjectionSem.prog_avoids p P = true -> (forall x : string, In x (flat_map Ast.vars_bodyelem New) -> In x ts) -> cons_ext sym_lt (fun q : string * nat => q <> p) (fun a : gatom => ~ (fst a = aux /\ Datatypes.length (snd a) = Datatypes.length ts)) P Q.
Proof. exact (@DuplicationSem.duplication_step_sound). Qed.
Print Assumptions C10_duplication_step_sound.

Theorem C10_fold_missing_variable_refuted : forall sym_lt : Ast.sym -> Ast.sym -> Prop, let p := ("__aux_1", 1) in let New := Ast.BLit (ModelExamples.at_ "a" ("X" :: "Y" :: nil)) :: nil in let Rest := Ast.BLit (ModelExamples.at_ "b" ("Y" :: nil)) :: nil in Ground.simple_prog (Refutations.dA :: Refutations.ruA :: nil) = true /\ heads_avoid p (Refutations.ruA :: nil) = true /\ Permutation (Ast.BLit (ModelExamples.at_ "a" ("X" :: "Y" :: nil)) :: Ast.BLit (ModelExamples.at_ "b" ("Y" :: nil)) :: nil) (map (ren_bodyelem (fun x : string => x)) New ++ Rest) /\ facts_over (fun q : string * nat => q <> p) Refutations.IA /\ ~ (forall x : string, In x (flat_map Ast.vars_bodyelem New) -> In x ("X" :: nil)) /\ stable sym_lt (Refutations.dA :: Refutations.ruA :: nil) Refutations.IA Refutations.TA /\ ~ stable sym_lt (Refutations.dA :: Refutations.rfA :: nil) Refutations.IA Refutations.TA /\ ~ equiv_on sym_lt (fun q : Ast.pred => q <> p) (Refutations.dA :: Refutations.ruA :: nil) (Refutations.dA :: Refutations.rfA :: nil).
Proof. exact (@DuplicationSem.Refutations.fold_missing_variable_refuted). Qed.
Print Assumptions C10_fold_missing_variable_refuted.

Theorem C10_fold_aux_fact_refuted : forall sym_lt : Ast.sym -> Ast.sym -> Prop, stable sym_lt (Refutations.dB :: Refutations.ruB :: nil) Refutations.IB Refutations.TB /\ ~ stable sym_lt (Refutations.dB :: Refutations.rfB :: nil) Refutations.IB Refutations.TB /\ ~ equiv_all sym_lt (Refutations.dB :: Refutations.ruB :: nil) (Refutations.dB :: Refutations.rfB :: nil).
Proof. exact (@DuplicationSem.Refutations.fold_aux_fact_refuted). Qed.
Print Assumptions C10_fold_aux_fact_refuted.

Theorem C10_exA_pass_sound : forall sym_lt : Ast.sym -> Ast.sym -> Prop, exists Q : list Ast.stmt, Duplication.execute ModelExamples.exA_in nil = Ast.Ok Q /\ cons_ext sym_lt (fun q : string * nat => q <> ("__aux_1", 1)) (fun a : gatom => ~ (fst a = "__aux_1" /\ Datatypes.length (snd a) = 1)) ModelExamples.exA_in Q.
Proof. exact (@DuplicationSem.ModelExamples.exA_pass_sound). Qed.
Print Assumptions C10_exA_pass_sound.

Theorem C10_exB_anonymous_variable_refuted : forall sym_lt : Ast.sym -> Ast.sym -> Prop, ~ cons_ext sym_lt (fun q : string * nat => q <> ("__aux_1", 1)) (fun a : gatom => ~ (fst a = "__aux_1" /\ Datatypes.length (snd a) = 1)) ModelExamples.exB_in ModelExamples.exB_out.
Proof. exact (@DuplicationSem.ModelExamples.exB_anonymous_variable_refuted). Qed.
Print Assumptions C10_exB_anonymous_variable_refuted.
