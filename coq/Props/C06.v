(* C06: conservative extensions: definition folding is a bijection between stable models (G3a), and implies equality on outputs
   Only statements, `exact`, and Print Assumptions live here. *)
From Coq Require Import List String ZArith Bool Permutation.
From NGO Require Import Syntax.Ast Sem.Sym Sem.Sat Link.Equiv Meta.Fold.
Import ListNotations.

Theorem C06_cons_ext_implies_equiv_out : forall (sym_lt : sym -> sym -> Prop) (IN : string * nat -> Prop) (V OUT : gatom -> Prop) (P Q : program), (forall a : gatom, OUT a -> V a) -> cons_ext sym_lt IN V P Q -> equiv_out sym_lt IN OUT P Q.
Proof. exact (@cons_ext_out). Qed.
Print Assumptions C06_cons_ext_implies_equiv_out.

Theorem C06_fold_fwd : forall (atom : Type) (aux : atom -> Prop) (F : Type) (fsat : interp atom -> interp atom -> F -> Prop), (forall (H T H' T' : interp atom) (f : F), agree_base atom aux H H' -> agree_base atom aux T T' -> fsat H T f <-> fsat H' T' f) -> forall (Hd : Type) (hsat : interp atom -> interp atom -> Hd -> Prop), (forall (H T H' T' : interp atom) (h : Hd), agree_base atom aux H H' -> agree_base atom aux T T' -> hsat H T h <-> hsat H' T' h) -> forall (P : rule F Hd -> Prop) (Q : trule atom F Hd -> Prop), (forall (a : atom) (beta : list F), Q (TDef atom F Hd a beta) -> aux a) -> (forall (h : Hd) (a : atom) (rest : list F), Q (TFolded atom F Hd h a rest) -> aux a) -> (forall (h : Hd) (a : atom) (rest beta : list F), Q (TFolded atom F Hd h a rest) -> defs atom F Hd Q a beta -> P {| hd := h; bd := beta ++ rest |}) -> (forall r : rule F Hd, Q (TPlain atom F Hd r) -> P r) -> (forall r : rule F Hd, P r -> Q (TPlain atom F Hd r) \/ (exists (a : atom) (beta rest : list F), bd F Hd r = beta ++ rest /\ defs atom F Hd Q a beta /\ Q (TFolded atom F Hd (hd F Hd r) a rest))) -> forall T : interp atom, noaux atom aux T -> stableP atom F fsat Hd hsat P T -> stableQ atom F fsat Hd hsat Q (ext atom aux F fsat Hd Q T T).
Proof. exact (@Fold.fold_fwd). Qed.
Print Assumptions C06_fold_fwd.

Theorem C06_fold_bwd : forall (atom : Type) (aux : atom -> Prop) (F : Type) (fsat : interp atom -> interp atom -> F -> Prop), (forall (H T H' T' : interp atom) (f : F), agree_base atom aux H H' -> agree_base atom aux T T' -> fsat H T f <-> fsat H' T' f) -> (forall (H T : interp atom) (f : F), subi atom H T -> fsat H T f -> fsat T T f) -> forall (Hd : Type) (hsat : interp atom -> interp atom -> Hd -> Prop), (forall (H T H' T' : interp atom) (h : Hd), agree_base atom aux H H' -> agree_base atom aux T T' -> hsat H T h <-> hsat H' T' h) -> forall (P : rule F Hd -> Prop) (Q : trule atom F Hd -> Prop), (forall (a : atom) (beta : list F), Q (TDef atom F Hd a beta) -> aux a) -> (forall (h : Hd) (a : atom) (rest : list F), Q (TFolded atom F Hd h a rest) -> aux a) -> (forall (h : Hd) (a : atom) (rest beta : list F), Q (TFolded atom F Hd h a rest) -> defs atom F Hd Q a beta -> P {| hd := h; bd := beta ++ rest |}) -> (forall r : rule F Hd, Q (TPlain atom F Hd r) -> P r) -> (forall r : rule F Hd, P r -> Q (TPlain atom F Hd r) \/ (exists (a : atom) (beta rest : list F), bd F Hd r = beta ++ rest /\ defs atom F Hd Q a beta /\ Q (TFolded atom F Hd (hd F Hd r) a rest))) -> forall T' : interp atom, stableQ atom F fsat Hd hsat Q T' -> stableP atom F fsat Hd hsat P (restrict atom aux T') /\ (forall a : atom, T' a <-> ext atom aux F fsat Hd Q (restrict atom aux T') (restrict atom aux T') a).
Proof. exact (@Fold.fold_bwd). Qed.
Print Assumptions C06_fold_bwd.

Theorem C06_fold_restrict_ext : forall (atom : Type) (aux : atom -> Prop) (F : Type) (fsat : interp atom -> interp atom -> F -> Prop) (Hd : Type) (Q : trule atom F Hd -> Prop) (T : interp atom), noaux atom aux T -> forall a : atom, restrict atom aux (ext atom aux F fsat Hd Q T T) a <-> T a.
Proof. exact (@Fold.fold_restrict_ext). Qed.
Print Assumptions C06_fold_restrict_ext.

From NGO Require Import Syntax.Ast Sem.Sym Sem.Sat Meta.Cleanup Link.Ground.

Theorem C06_ground_stable_iff : forall (sym_lt : sym -> sym -> Prop) (P : program), simple_prog P = true -> forall (I : list gatom) (T : Sym.interp), Sat.stable sym_lt P I T <-> stable gatom gF gsat (ground_prog sym_lt P I) T.
Proof. exact (@ground_stable_iff). Qed.
Print Assumptions C06_ground_stable_iff.

From NGO Require Import Syntax.Ast Sem.Sym Sem.Sat Link.Ground Link.ProjectionSem.

Theorem C06_projection_split_sound : forall (sym_lt : sym -> sym -> Prop) (aux : string) (ts : list string) (P1 P2 : program) (line line' : nat) (h : head) (B New Rest : list bodyelem), let p := (aux, Datatypes.length ts) in let auxl := Lit NoSign (ASym (TFun aux (map TVar ts) false)) in let P := P1 ++ (SRule line h B :: nil) ++ P2 in let Q := P1 ++ (SRule line' (HLit auxl) New :: SRule line h (Rest ++ BLit auxl :: nil) :: nil) ++ P2 in simple_prog P = true -> prog_avoids p P = true -> Permutation B (New ++ Rest) -> (forall x : string, In x (flat_map vars_bodyelem New) -> In x (flat_map vars_bodyelem Rest) \/ In x (vars_head h) -> In x ts) -> cons_ext sym_lt (fun q : string * nat => q <> p) (fun a : gatom => ~ (fst a = aux /\ Datatypes.length (snd a) = Datatypes.length ts)) P Q.
Proof. exact (@projection_split_sound). Qed.
Print Assumptions C06_projection_split_sound.
