(* C15: inline: the tuple-distinctness test (potentially_unifying) is sound on well-formed terms and refuted outside; sums over disjoint tuple sets add
   Only statements, `exact`, and Print Assumptions live here. *)
From Coq Require Import List String ZArith Bool Permutation.
From NGO Require Import Syntax.Ast Sem.Sym Sem.Sat Model.Unify Link.UnifySpec Link.CostAlg Link.AggAlg.
Import ListNotations.

Theorem C15_pu_sound_partial : forall (s t : term) (σ τ : subst) (v : sym), wf_term s = true -> wf_term t = true -> pos_subst σ -> pos_subst τ -> eval σ s = Some v -> eval τ t = Some v -> pu s t = true.
Proof. exact (@pu_sound_partial). Qed.
Print Assumptions C15_pu_sound_partial.

Theorem C15_pu_sound_partial_strict : forall (s t : term) (σ τ : subst) (v : sym), wf_strict s = true -> wf_strict t = true -> eval σ s = Some v -> eval τ t = Some v -> pu s t = true.
Proof. exact (@pu_sound_partial_strict). Qed.
Print Assumptions C15_pu_sound_partial_strict.

Theorem C15_pus_sound_partial : forall (ss ts : list term) (σ τ : subst) (vs : list sym), forallb pool_free ss = true -> forallb pool_free ts = true -> forallb wf_term ss = true -> forallb wf_term ts = true -> pos_subst σ -> pos_subst τ -> eval_list σ ss = Some vs -> eval_list τ ts = Some vs -> potentially_unifying_sequence ss ts = true.
Proof. exact (@pus_sound_partial). Qed.
Print Assumptions C15_pus_sound_partial.

Theorem C15_punify_sound_partial : forall (s t a b : term) (σ τ : subst) (v : sym), In a (unpool_term s) -> In b (unpool_term t) -> wf_term a = true -> wf_term b = true -> pos_subst σ -> pos_subst τ -> eval σ a = Some v -> eval τ b = Some v -> potentially_unifying s t = true.
Proof. exact (@punify_sound_partial). Qed.
Print Assumptions C15_punify_sound_partial.

Theorem C15_pu_sound_refuted : ~ (forall s t : term, unifiable s t -> pu s t = true).
Proof. exact (@pu_sound_refuted). Qed.
Print Assumptions C15_pu_sound_refuted.

Theorem C15_pu_sym : forall a b : term, pu a b = pu b a.
Proof. exact (@pu_sym). Qed.
Print Assumptions C15_pu_sym.

Theorem C15_sum_disjoint_union : forall (S1 S2 : tupset) (l1 l2 : list (list sym)), enumerates S1 l1 -> enumerates S2 l2 -> (forall tv : list sym, S1 tv -> S2 tv -> False) -> enumerates (fun tv : list sym => S1 tv \/ S2 tv) (l1 ++ l2) /\ sum_of (l1 ++ l2) = (sum_of l1 + sum_of l2)%Z.
Proof. exact (@sum_disjoint_union_proof). Qed.
Print Assumptions C15_sum_disjoint_union.

Theorem C15_sum_overlap_counted_once : forall tv : list sym, enumerates (fun x : list sym => x = tv \/ x = tv) (tv :: nil) /\ sum_of (tv :: nil) = weight tv.
Proof. exact (@sum_overlap_counted_once_proof). Qed.
Print Assumptions C15_sum_overlap_counted_once.
