(* C15: inline: the tuple-distinctness test (potentially_unifying) is sound on well-formed terms and refuted outside; sums over disjoint tuple sets add
   Only statements, `exact`, and Print Assumptions live here. *)
From Coq Require Import List String ZArith Bool Permutation.
From NGO Require Import Syntax.Ast Sem.Sym Sem.Sat Model.Unify Link.UnifySpec Link.CostAlg Link.AggAlg.
Import ListNotations.

Theorem C15_pu_sound_partial : forall (s t : term) (σ τ : subst) (v : sym), wf_term s = true -> wf_term t = true -> pos_subst σ -> pos_subst τ -> eval σ s = Some v -> eval τ t = Some v -> pu s t = true.
Proof. exact (@pu_sound_partial). Qed.
Print Assumptions C15_pu_sound_partial.

Theorem C15_pu_sound_partial_strict : forall (s t : term) (σ τ : subst) (v : sym), wf_strict s = true -> wf_strict t = true -> eval σ s = Some v -> eval τ t = Some v -> pu s t = true.
Proof. exact (@pu_sound_partial_strict). Qed.
Print Assumptions C15_pu_sound_partial_strict.

Theorem C15_pus_sound_partial : forall (ss ts : list term) (σ τ : subst) (vs : list sym), forallb pool_free ss = true -> forallb pool_free ts = true -> forallb wf_term ss = true -> forallb wf_term ts = true -> pos_subst σ -> pos_subst τ -> eval_list σ ss = Some vs -> eval_list τ ts = Some vs -> potentially_unifying_sequence ss ts = true.
Proof. exact (@pus_sound_partial). Qed.
Print Assumptions C15_pus_sound_partial.

Theorem C15_punify_sound_partial : forall (s t a b : term) (σ τ : subst) (v : sym), In a (unpool_term s) -> In b (unpool_term t) -> wf_term a = true -> wf_term b = true -> pos_subst σ -> pos_subst τ -> eval σ a = Some v -> eval τ b = Some v -> potentially_unifying s t = true.
Proof. exact (@punify_sound_partial). Qed.
Print Assumptions C15_punify_sound_partial.

Theorem C15_pu_sound_refuted : ~ (forall s t : term, unifiable s t -> pu s t = true).
Proof. exact (@pu_sound_refuted). Qed.
Print Assumptions C15_pu_sound_refuted.

Theorem C15_pu_sym : forall a b : term, pu a b = pu b a.
Proof. exact (@pu_sym). Qed.
Print Assumptions C15_pu_sym.

Theorem C15_sum_disjoint_union : forall (S1 S2 : tupset) (l1 l2 : list (list sym)), enumerates S1 l1 -> enumerates S2 l2 -> (forall tv : list sym, S1 tv -> S2 tv -> False) -> enumerates (fun tv : list sym => S1 tv \/ S2 tv) (l1 ++ l2) /\ sum_of (l1 ++ l2) = (sum_of l1 + sum_of l2)%Z.
Proof. exact (@sum_disjoint_union_proof). Qed.
Print Assumptions C15_sum_disjoint_union.

Theorem C15_sum_overlap_counted_once : forall tv : list sym, enumerates (fun x : list sym => x = tv \/ x = tv) (tv :: nil) /\ sum_of (tv :: nil) = weight tv.
Proof. exact (@sum_overlap_counted_once_proof). Qed.
Print Assumptions C15_sum_overlap_counted_once.

From NGO Require Import Sem.Sym Sem.Sat Sem.Cost Link.Equiv Link.SymmetrySem Link.DuplicationSem Link.InlineSem.

Theorem C15_elems_unfold : forall (sym_lt : Ast.sym -> Ast.sym -> Prop) (qn : string) (ts : list string) (BL : list Ast.lit) (r : string -> string), simple_lits BL = true -> forall (tup : list Ast.term) (c1 c2 : list Ast.lit) (es1 es2 : list Ast.belem) (G : list string) (X T : interp) (s : subst), ren_apart ts BL r -> fresh_for ts BL r (G ++ elem_ctx_vars tup c1 c2) -> defd sym_lt qn ts BL X T -> AggSem.tup_eq (AggSem.elems_tuples sym_lt G X T s (es1 ++ elem_q qn ts r tup c1 c2 :: es2)) (AggSem.elems_tuples sym_lt G X T s (es1 ++ elem_u BL r tup c1 c2 :: es2)).
Proof. exact (@InlineSem.elems_unfold). Qed.
Print Assumptions C15_elems_unfold.

Theorem C15_unfold_agg_fwd_sound : forall (sym_lt : Ast.sym -> Ast.sym -> Prop) (qn : string) (ts : list string) (BL : list Ast.lit) (l0 : nat) (r : string -> string), simple_lits BL = true -> ren_apart ts BL r -> forall (tup : list Ast.term) (c1 c2 : list Ast.lit) (es1 es2 : list Ast.belem) (sg : Ast.sign) (lg rg : option Ast.guard) (f : Ast.aggfun) (pre post : list Ast.bodyelem) (line : nat) (h : Ast.head), fresh_for ts BL r (gvars_rule h (body_aq qn ts r tup c1 c2 es1 es2 sg lg rg f pre post) ++ elem_ctx_vars tup c1 c2) -> forall C Q Q' : Ast.program, (forall st : Ast.stmt, In st Q <-> In st (def_stmt qn ts BL l0 :: rule_aq qn ts r tup c1 c2 es1 es2 sg lg rg f pre post line h :: C)) -> (forall st : Ast.stmt, In st Q' <-> In st (def_stmt qn ts BL l0 :: rule_au BL r tup c1 c2 es1 es2 sg lg rg f pre post line h :: C)) -> stmt_in (notp (qn, Datatypes.length ts)) (rule_au BL r tup c1 c2 es1 es2 sg lg rg f pre post line h) = true -> prog_in (notp (qn, Datatypes.length ts)) C = true -> lits_in (notp (qn, Datatypes.length ts)) BL = true -> forall I : list gatom, facts_over (fun p : string * nat => p <> (qn, Datatypes.length ts)) I -> forall T : interp, stable sym_lt Q I T -> stable sym_lt Q' I T.
Proof. exact (@InlineSem.unfold_agg_fwd_sound). Qed.
Print Assumptions C15_unfold_agg_fwd_sound.

Theorem C15_unfold_agg_sound : forall (sym_lt : Ast.sym -> Ast.sym -> Prop) (qn : string) (ts : list string) (BL : list Ast.lit) (l0 : nat) (r : string -> string), simple_lits BL = true -> ren_apart ts BL r -> forall (tup : list Ast.term) (c1 c2 : list Ast.lit) (es1 es2 : list Ast.belem) (sg : Ast.sign) (lg rg : option Ast.guard) (f : Ast.aggfun) (pre post : list Ast.bodyelem) (line : nat) (h : Ast.head), fresh_for ts BL r (gvars_rule h (body_aq qn ts r tup c1 c2 es1 es2 sg lg rg f pre post) ++ elem_ctx_vars tup c1 c2) -> forall (low : Ast.pred -> bool) (C Q Q' : Ast.program), (forall st : Ast.stmt, In st Q <-> In st (def_stmt qn ts BL l0 :: rule_aq qn ts r tup c1 c2 es1 es2 sg lg rg f pre post line h :: C)) -> (forall st : Ast.stmt, In st Q' <-> In st (def_stmt qn ts BL l0 :: rule_au BL r tup c1 c2 es1 es2 sg lg rg f pre post line h :: C)) -> head_in (notp (qn, Datatypes.length ts)) h = true -> heads_in (notp (qn, Datatypes.length ts)) C = true -> low (qn, Datatypes.length ts) = true -> lits_in low BL = true -> head_in (nlow low) h = true -> (forall st : Ast.stmt, In st C -> stmt_in low st = true \/ stmt_head_in (nlow low) st = true) -> equiv_on sym_lt (fun p : Ast.pred => p <> (qn, Datatypes.length ts)) Q Q'.
Proof. exact (@InlineSem.unfold_agg_sound). Qed.
Print Assumptions C15_unfold_agg_sound.

Theorem C15_unfold_existing_sound : forall (sym_lt : Ast.sym -> Ast.sym -> Prop) (q : string) (ts : list string) (r : string -> string) (P1 P2 P3 : Ast.program) (l0 line : nat) (h : Ast.head) (BL : list Ast.lit) (Rest : list Ast.bodyelem), let p := (q, Datatypes.length ts) in let D := Ast.SRule l0 (Ast.HLit (Ast.Lit Ast.NoSign (Ast.ASym (Ast.TFun q (map Ast.TVar ts) false)))) (map Ast.BLit BL) in let Q := P1 ++ (D :: nil) ++ P2 ++ (Ast.SRule line h (Rest ++ Ast.BLit (Ast.Lit Ast.NoSign (Ast.ASym (Ast.TFun q (map Ast.TVar (map r ts)) false))) :: nil) :: nil) ++ P3 in let Q' := P1 ++ (D :: nil) ++ P2 ++ (Ast.SRule line h (map Ast.BLit (map (ren_lit r) BL) ++ Rest) :: nil) ++ P3 in Ground.simple_prog Q = true -> Ground.simple_prog Q' = true -> heads_avoid p (P1 ++ P2 ++ (Ast.SRule line h Rest :: nil) ++ P3) = true -> ren_apart ts BL r -> fresh_for ts BL r (Ast.vars_head h ++ flat_map Ast.vars_bodyelem Rest) -> equiv_on sym_lt (fun p' : Ast.pred => p' <> p) Q Q'.
Proof. exact (@InlineSem.unfold_existing_sound). Qed.
Print Assumptions C15_unfold_existing_sound.

Theorem C15_inline_agg_then_drop_sound : forall (sym_lt : Ast.sym -> Ast.sym -> Prop) (qn : string) (ts : list string) (BL : list Ast.lit) (l0 : nat) (r : string -> string), simple_lits BL = true -> ren_apart ts BL r -> forall (tup : list Ast.term) (c1 c2 : list Ast.lit) (es1 es2 : list Ast.belem) (sg : Ast.sign) (lg rg : option Ast.guard) (f : Ast.aggfun) (pre post : list Ast.bodyelem) (line : nat) (h : Ast.head), fresh_for ts BL r (gvars_rule h (body_aq qn ts r tup c1 c2 es1 es2 sg lg rg f pre post) ++ elem_ctx_vars tup c1 c2) -> forall (low : Ast.pred -> bool) (C Q Q2 : Ast.program), (forall st : Ast.stmt, In st Q <-> In st (def_stmt qn ts BL l0 :: rule_aq qn ts r tup c1 c2 es1 es2 sg lg rg f pre post line h :: C)) -> (forall st : Ast.stmt, In st Q2 <-> In st (rule_au BL r tup c1 c2 es1 es2 sg lg rg f pre post line h :: C)) -> stmt_in (notp (qn, Datatypes.length ts)) (rule_au BL r tup c1 c2 es1 es2 sg lg rg f pre post line h) = true -> prog_in (notp (qn, Datatypes.length ts)) C = true -> lits_in (notp (qn, Datatypes.length ts)) BL = true -> low (qn, Datatypes.length ts) = true -> lits_in low BL = true -> head_in (nlow low) h = true -> (forall st : Ast.stmt, In st C -> stmt_in low st = true \/ stmt_head_in (nlow low) st = true) -> cons_ext sym_lt (fun p : string * nat => p <> (qn, Datatypes.length ts)) (nonq qn ts) Q2 Q.
Proof. exact (@InlineSem.inline_agg_then_drop_sound). Qed.
Print Assumptions C15_inline_agg_then_drop_sound.

Theorem C15_inline_agg_then_drop_cost : forall (sym_lt : Ast.sym -> Ast.sym -> Prop) (qn : string) (ts : list string) (BL : list Ast.lit) (l0 : nat) (r : string -> string), simple_lits BL = true -> ren_apart ts BL r -> forall (tup : list Ast.term) (c1 c2 : list Ast.lit) (es1 es2 : list Ast.belem) (sg : Ast.sign) (lg rg : option Ast.guard) (f : Ast.aggfun) (pre post : list Ast.bodyelem) (line : nat) (h : Ast.head), fresh_for ts BL r (gvars_rule h (body_aq qn ts r tup c1 c2 es1 es2 sg lg rg f pre post) ++ elem_ctx_vars tup c1 c2) -> forall (low : Ast.pred -> bool) (C Q Q2 : Ast.program) (IN : Ast.pred -> Prop) (OUT : gatom -> Prop), (forall st : Ast.stmt, In st Q <-> In st (def_stmt qn ts BL l0 :: rule_aq qn ts r tup c1 c2 es1 es2 sg lg rg f pre post line h :: C)) -> (forall st : Ast.stmt, In st Q2 <-> In st (rule_au BL r tup c1 c2 es1 es2 sg lg rg f pre post line h :: C)) -> stmt_in (notp (qn, Datatypes.length ts)) (rule_au BL r tup c1 c2 es1 es2 sg lg rg f pre post line h) = true -> prog_in (notp (qn, Datatypes.length ts)) C = true -> lits_in (notp (qn, Datatypes.length ts)) BL = true -> low (qn, Datatypes.length ts) = true -> lits_in low BL = true -> head_in (nlow low) h = true -> (forall st : Ast.stmt, In st C -> stmt_in low st = true \/ stmt_head_in (nlow low) st = true) -> (forall p : Ast.pred, IN p -> p <> (qn, Datatypes.length ts)) -> (forall a : gatom, OUT a -> nonq qn ts a) -> equiv_cost sym_lt IN OUT Q Q2.
Proof. exact (@InlineSem.inline_agg_then_drop_cost). Qed.
Print Assumptions C15_inline_agg_then_drop_cost.

Theorem C15_inline_agg_min_then_drop_cost : forall (sym_lt : Ast.sym -> Ast.sym -> Prop) (qn : string) (ts : list string) (BL : list Ast.lit) (l0 : nat) (r : string -> string), simple_lits BL = true -> ren_apart ts BL r -> forall (tup : list Ast.term) (c1 c2 : list Ast.lit) (es1 es2 : list Ast.belem) (sg : Ast.sign) (lg rg : option Ast.guard) (f : Ast.aggfun) (pre post : list Ast.bodyelem) (line : nat) (w pr : Ast.term) (tms : list Ast.term), fresh_for ts BL r ((min_W w pr tms ++ flat_map gvars_bodyelem (body_aq qn ts r tup c1 c2 es1 es2 sg lg rg f pre post)) ++ elem_ctx_vars tup c1 c2) -> forall (C Q Q2 : Ast.program) (IN : Ast.pred -> Prop) (OUT : gatom -> Prop), (forall st : Ast.stmt, In st Q <-> In st (def_stmt qn ts BL l0 :: min_aq qn ts r tup c1 c2 es1 es2 sg lg rg f pre post line w pr tms :: C)) -> (forall st : Ast.stmt, In st Q2 <-> In st (min_au BL r tup c1 c2 es1 es2 sg lg rg f pre post line w pr tms :: C)) -> stmt_in (notp (qn, Datatypes.length ts)) (min_au BL r tup c1 c2 es1 es2 sg lg rg f pre post line w pr tms) = true -> prog_in (notp (qn, Datatypes.length ts)) C = true -> lits_in (notp (qn, Datatypes.length ts)) BL = true -> (forall p : Ast.pred, IN p -> p <> (qn, Datatypes.length ts)) -> (forall a : gatom, OUT a -> nonq qn ts a) -> cons_ext sym_lt (fun p : string * nat => p <> (qn, Datatypes.length ts)) (nonq qn ts) Q2 Q /\ equiv_cost sym_lt IN OUT Q Q2.
Proof. exact (@InlineSem.inline_agg_min_then_drop_cost). Qed.
Print Assumptions C15_inline_agg_min_then_drop_cost.

Theorem C15_two_definitions_refuted : forall sym_lt : Ast.sym -> Ast.sym -> Prop, Ground.simple_prog (Refutations.a_d1 :: Refutations.a_d2 :: Refutations.a_r :: nil) = true /\ Ground.simple_prog (Refutations.a_d1 :: Refutations.a_d2 :: Refutations.a_r' :: nil) = true /\ heads_avoid ("q", 1) (Refutations.a_r :: nil) = true /\ heads_avoid ("q", 1) (Refutations.a_d2 :: Refutations.a_r :: nil) = false /\ facts_over (fun p : string * nat => p <> ("q", 1)) Refutations.a_I /\ stable sym_lt (Refutations.a_d1 :: Refutations.a_d2 :: Refutations.a_r :: nil) Refutations.a_I Refutations.a_T /\ ~ stable sym_lt (Refutations.a_d1 :: Refutations.a_d2 :: Refutations.a_r' :: nil) Refutations.a_I Refutations.a_T /\ ~ equiv_on sym_lt (fun p : Ast.pred => p <> ("q", 1)) (Refutations.a_d1 :: Refutations.a_d2 :: Refutations.a_r :: nil) (Refutations.a_d1 :: Refutations.a_d2 :: Refutations.a_r' :: nil).
Proof. exact (@InlineSem.Refutations.two_definitions_refuted). Qed.
Print Assumptions C15_two_definitions_refuted.

Theorem C15_used_elsewhere_refuted : forall sym_lt : Ast.sym -> Ast.sym -> Prop, prog_in (notp ("q", 1)) (Refutations.b_g :: nil) = false /\ stmt_in (notp ("q", 1)) Refutations.b_r' = true /\ lits_in (notp ("q", 1)) (at_ "a" ("X" :: nil) :: nil) = true /\ facts_over (fun p : string * nat => p <> ("q", 1)) Refutations.b_I /\ stable sym_lt (Refutations.b_d :: Refutations.b_r :: Refutations.b_g :: nil) Refutations.b_I Refutations.b_T /\ ~ stable sym_lt (Refutations.b_r' :: Refutations.b_g :: nil) Refutations.b_I (restr (nonq "q" ("X" :: nil)) Refutations.b_T).
Proof. exact (@InlineSem.Refutations.used_elsewhere_refuted). Qed.
Print Assumptions C15_used_elsewhere_refuted.

Theorem C15_capture_changes_tuples : forall (sym_lt : Ast.sym -> Ast.sym -> Prop) (s : subst), defd sym_lt "q" ("X" :: nil) Refutations.c_BL Refutations.c_T Refutations.c_T /\ simple_lits Refutations.c_BL = true /\ ren_apart ("X" :: nil) Refutations.c_BL Refutations.idr /\ ~ fresh_for ("X" :: nil) Refutations.c_BL Refutations.idr (elem_ctx_vars Refutations.c_tup nil (at_ "b" ("Y" :: nil) :: nil)) /\ AggSem.elems_tuples sym_lt nil Refutations.c_T Refutations.c_T s (elem_q "q" ("X" :: nil) Refutations.idr Refutations.c_tup nil (at_ "b" ("Y" :: nil) :: nil) :: nil) (Refutations.c1 :: Ast.SNum 6 :: nil) /\ ~ AggSem.elems_tuples sym_lt nil Refutations.c_T Refutations.c_T s (elem_u Refutations.c_BL Refutations.idr Refutations.c_tup nil (at_ "b" ("Y" :: nil) :: nil) :: nil) (Refutations.c1 :: Ast.SNum 6 :: nil).
Proof. exact (@InlineSem.Refutations.capture_changes_tuples). Qed.
Print Assumptions C15_capture_changes_tuples.

Theorem C15_repeated_head_variable_refuted : forall sym_lt : Ast.sym -> Ast.sym -> Prop, stable sym_lt (Refutations.d_d :: Refutations.d_r :: nil) Refutations.d_I Refutations.d_T /\ ~ stable sym_lt (Refutations.d_d :: Refutations.d_r' :: nil) Refutations.d_I Refutations.d_T /\ ~ equiv_on sym_lt (fun p : Ast.pred => p <> ("q", 2)) (Refutations.d_d :: Refutations.d_r :: nil) (Refutations.d_d :: Refutations.d_r' :: nil).
Proof. exact (@InlineSem.Refutations.repeated_head_variable_refuted). Qed.
Print Assumptions C15_repeated_head_variable_refuted.

Theorem C15_negated_occurrence_refuted : forall sym_lt : Ast.sym -> Ast.sym -> Prop, stable sym_lt (Refutations.e_d :: Refutations.e_r :: nil) Refutations.e_I Refutations.e_T /\ ~ stable sym_lt (Refutations.e_d :: Refutations.e_r' :: nil) Refutations.e_I Refutations.e_T /\ ~ equiv_on sym_lt (fun p : Ast.pred => p <> ("q", 1)) (Refutations.e_d :: Refutations.e_r :: nil) (Refutations.e_d :: Refutations.e_r' :: nil).
Proof. exact (@InlineSem.Refutations.negated_occurrence_refuted). Qed.
Print Assumptions C15_negated_occurrence_refuted.

Theorem C15_no_splitting_refuted : forall sym_lt : Ast.sym -> Ast.sym -> Prop, stmt_in (notp ("q", 1)) Refutations.f_r' = true /\ prog_in (notp ("q", 1)) (Refutations.f_c1 :: Refutations.f_c2 :: nil) = true /\ lits_in (notp ("q", 1)) (at_ "a" ("X" :: nil) :: nil) = true /\ facts_over (fun p : string * nat => p <> ("q", 1)) Refutations.f_I /\ stable sym_lt (Refutations.f_c1 :: Refutations.f_c2 :: Refutations.f_d :: Refutations.f_r' :: nil) Refutations.f_I Refutations.f_T /\ ~ stable sym_lt (Refutations.f_c1 :: Refutations.f_c2 :: Refutations.f_d :: Refutations.f_r :: nil) Refutations.f_I Refutations.f_T /\ (forall T : interp, ~ stable sym_lt (Refutations.f_c1 :: Refutations.f_c2 :: Refutations.f_d :: Refutations.f_r :: nil) Refutations.f_I T) /\ ~ equiv_on sym_lt (fun p : Ast.pred => p <> ("q", 1)) (Refutations.f_c1 :: Refutations.f_c2 :: Refutations.f_d :: Refutations.f_r :: nil) (Refutations.f_c1 :: Refutations.f_c2 :: Refutations.f_d :: Refutations.f_r' :: nil).
Proof. exact (@InlineSem.Refutations.no_splitting_refuted). Qed.
Print Assumptions C15_no_splitting_refuted.

Theorem C15_exB_model : Inline.run_execute ModelExamples.exB_in nil (("p", 0) :: nil) ModelExamples.exB_in = Ast.Ok ModelExamples.exB_out.
Proof. exact (@InlineSem.ModelExamples.exB_model). Qed.
Print Assumptions C15_exB_model.

Theorem C15_exA_unfold_sound : forall sym_lt : Ast.sym -> Ast.sym -> Prop, cons_ext sym_lt (fun p : string * nat => p <> ("p", 1)) (nonq "p" ("X" :: nil)) ModelExamples.exA_inlined ModelExamples.exA_in /\ equiv_out sym_lt (fun p : string * nat => p <> ("p", 1)) (fun a : gatom => fst a = "s" /\ Datatypes.length (snd a) = 1) ModelExamples.exA_in ModelExamples.exA_inlined.
Proof. exact (@InlineSem.ModelExamples.exA_unfold_sound). Qed.
Print Assumptions C15_exA_unfold_sound.
