(* C17: purity: what the model can carry (set-iteration order does not reach membership; naming histories are deterministic); aliasing, hashing and processes are observed, see DESIGN
   Only statements, `exact`, and Print Assumptions live here. *)
From Coq Require Import List String ZArith Bool Permutation.
From NGO Require Import Syntax.Ast Model.Traverse Model.Globals Link.TraverseSpec Link.PuritySpec Link.GlobalsSpec.
Import ListNotations.

Theorem C17_auto_detect_input_membership_order_free : forall (prg : list stmt) (tail' : list pred) (p : pred), Permutation (snd (auto_detect_input_parts prg)) tail' -> In p (auto_detect_input prg) <-> In p (fst (auto_detect_input_parts prg) ++ tail').
Proof. exact (@auto_detect_input_membership_order_free_proof). Qed.
Print Assumptions C17_auto_detect_input_membership_order_free.

Theorem C17_auto_detect_output_canonical : forall prg : list stmt, NoDup (auto_detect_output prg) /\ psorted (auto_detect_output prg).
Proof. exact (@auto_detect_output_canonical_proof). Qed.
Print Assumptions C17_auto_detect_output_canonical.

Theorem C17_names_history_never_out_of_fuel : forall (st : unames) (rs : list req), run_requests st rs <> OutOfFuel.
Proof. exact (@run_requests_never_out_of_fuel). Qed.
Print Assumptions C17_names_history_never_out_of_fuel.

From NGO Require Import Gen.Purity Link.PurityCensus.

Theorem C17_set_iteration_sites_audited : set_iteration_sites = map (fun x : string * string * string * audit * string => fst (fst x)) audited_set_iteration_sites.
Proof. exact (@PurityCensus.set_iteration_sites_audited_proof). Qed.
Print Assumptions C17_set_iteration_sites_audited.

Theorem C17_process_state_sites_audited : process_state_sites = map fst audited_process_state_sites.
Proof. exact (@PurityCensus.process_state_sites_audited_proof). Qed.
Print Assumptions C17_process_state_sites_audited.
