(* C16: projection: the split is an instance of definition folding (G3a)
   Only statements, `exact`, and Print Assumptions live here. *)
From Coq Require Import List String ZArith Bool Permutation.
From NGO Require Import Meta.Fold.
Import ListNotations.

Theorem C16_fold_fwd : forall (atom : Type) (aux : atom -> Prop) (F : Type) (fsat : interp atom -> interp atom -> F -> Prop), (forall (H T H' T' : interp atom) (f : F), agree_base atom aux H H' -> agree_base atom aux T T' -> fsat H T f <-> fsat H' T' f) -> forall (Hd : Type) (hsat : interp atom -> interp atom -> Hd -> Prop), (forall (H T H' T' : interp atom) (h : Hd), agree_base atom aux H H' -> agree_base atom aux T T' -> hsat H T h <-> hsat H' T' h) -> forall (P : rule F Hd -> Prop) (Q : trule atom F Hd -> Prop), (forall (a : atom) (beta : list F), Q (TDef atom F Hd a beta) -> aux a) -> (forall (h : Hd) (a : atom) (rest : list F), Q (TFolded atom F Hd h a rest) -> aux a) -> (forall (h : Hd) (a : atom) (rest beta : list F), Q (TFolded atom F Hd h a rest) -> defs atom F Hd Q a beta -> P {| hd := h; bd := beta ++ rest |}) -> (forall r : rule F Hd, Q (TPlain atom F Hd r) -> P r) -> (forall r : rule F Hd, P r -> Q (TPlain atom F Hd r) \/ (exists (a : atom) (beta rest : list F), bd F Hd r = beta ++ rest /\ defs atom F Hd Q a beta /\ Q (TFolded atom F Hd (hd F Hd r) a rest))) -> forall T : interp atom, noaux atom aux T -> stableP atom F fsat Hd hsat P T -> stableQ atom F fsat Hd hsat Q (ext atom aux F fsat Hd Q T T).
Proof. exact (@Fold.fold_fwd). Qed.
Print Assumptions C16_fold_fwd.

Theorem C16_fold_bwd : forall (atom : Type) (aux : atom -> Prop) (F : Type) (fsat : interp atom -> interp atom -> F -> Prop), (forall (H T H' T' : interp atom) (f : F), agree_base atom aux H H' -> agree_base atom aux T T' -> fsat H T f <-> fsat H' T' f) -> (forall (H T : interp atom) (f : F), subi atom H T -> fsat H T f -> fsat T T f) -> forall (Hd : Type) (hsat : interp atom -> interp atom -> Hd -> Prop), (forall (H T H' T' : interp atom) (h : Hd), agree_base atom aux H H' -> agree_base atom aux T T' -> hsat H T h <-> hsat H' T' h) -> forall (P : rule F Hd -> Prop) (Q : trule atom F Hd -> Prop), (forall (a : atom) (beta : list F), Q (TDef atom F Hd a beta) -> aux a) -> (forall (h : Hd) (a : atom) (rest : list F), Q (TFolded atom F Hd h a rest) -> aux a) -> (forall (h : Hd) (a : atom) (rest beta : list F), Q (TFolded atom F Hd h a rest) -> defs atom F Hd Q a beta -> P {| hd := h; bd := beta ++ rest |}) -> (forall r : rule F Hd, Q (TPlain atom F Hd r) -> P r) -> (forall r : rule F Hd, P r -> Q (TPlain atom F Hd r) \/ (exists (a : atom) (beta rest : list F), bd F Hd r = beta ++ rest /\ defs atom F Hd Q a beta /\ Q (TFolded atom F Hd (hd F Hd r) a rest))) -> forall T' : interp atom, stableQ atom F fsat Hd hsat Q T' -> stableP atom F fsat Hd hsat P (restrict atom aux T') /\ (forall a : atom, T' a <-> ext atom aux F fsat Hd Q (restrict atom aux T') (restrict atom aux T') a).
Proof. exact (@Fold.fold_bwd). Qed.
Print Assumptions C16_fold_bwd.

Theorem C16_fold_restrict_ext : forall (atom : Type) (aux : atom -> Prop) (F : Type) (fsat : interp atom -> interp atom -> F -> Prop) (Hd : Type) (Q : trule atom F Hd -> Prop) (T : interp atom), noaux atom aux T -> forall a : atom, restrict atom aux (ext atom aux F fsat Hd Q T T) a <-> T a.
Proof. exact (@Fold.fold_restrict_ext). Qed.
Print Assumptions C16_fold_restrict_ext.

From NGO Require Import Syntax.Ast Model.Binding Model.Globals Model.Projection Link.ProjectionSpec.

Theorem C16_good_split_interface : forall (new rest : list bodyelem) (stm : stmt) (t : list string), good_split new rest stm = Ok (Some t) -> exists (line : nat) (h : head) (b : list bodyelem) (gn gh : vset), stm = SRule line h b /\ global_vars_inside_body new = Ok gn /\ global_vars_inside_head h = Ok gh /\ (forall x : string, In x t <-> In x gn /\ ((exists r : bodyelem, In r rest /\ In x (vars_bodyelem r)) \/ In x gh)) /\ NoDup t /\ Sorted.Sorted str_le t /\ Sorted.StronglySorted str_lt t /\ ~ In "_" t.
Proof. exact (@good_split_interface_proof). Qed.
Print Assumptions C16_good_split_interface.

Theorem C16_good_split_new_safe : forall (new rest : list bodyelem) (stm : stmt) (t : list string), good_split new rest stm = Ok (Some t) -> exists bound : vset, collect_binding_information_body new None = Ok (bound, nil).
Proof. exact (@good_split_new_safe_proof). Qed.
Print Assumptions C16_good_split_new_safe.

Theorem C16_good_split_rest_legal : forall (new rest : list bodyelem) (stm : stmt) (t : list string), good_split new rest stm = Ok (Some t) -> exists bound : vset, collect_binding_information_body rest (Some t) = Ok (bound, nil).
Proof. exact (@good_split_rest_legal_proof). Qed.
Print Assumptions C16_good_split_rest_legal.

Theorem C16_good_split_size : forall (new rest : list bodyelem) (stm : stmt) (t : list string), good_split new rest stm = Ok (Some t) -> exists (line : nat) (h : head) (b : list bodyelem), stm = SRule line h b /\ 1 < Datatypes.length new /\ Datatypes.length new < Datatypes.length b /\ (exists (name : string) (args : list term) (ext : bool), In (BLit (Lit NoSign (ASym (TFun name args ext)))) rest) /\ (exists gn gh : vset, global_vars_inside_body new = Ok gn /\ global_vars_inside_head h = Ok gh /\ Datatypes.length t < Datatypes.length gn /\ Datatypes.length t < Datatypes.length gh).
Proof. exact (@good_split_size_proof). Qed.
Print Assumptions C16_good_split_size.

Theorem C16_project_rule_shape : forall (st : unames) (stm : stmt) (out : list stmt) (st' : unames), project_rule st stm = Ok (out, st') -> exists (line : nat) (h : head) (b : list bodyelem), stm = SRule line h b /\ (out = stm :: nil /\ st' = st /\ (forall n : list bodyelem, subseq n b -> good_split n (rest_of b n) stm = Ok None) \/ (exists (new rest : list bodyelem) (t : list string) (a : string), out = SRule LOC_line (HLit (aux_head a t)) new :: SRule line h (rest ++ BLit (aux_head a t) :: nil) :: nil /\ subseq new b /\ (exists pre post : list (list bodyelem), largest_subset b = pre ++ new :: post /\ (forall n : list bodyelem, In n pre -> good_split n (rest_of b n) stm = Ok None)) /\ rest = rest_of b new /\ (forall x : bodyelem, In x rest <-> In x b /\ (forall y : bodyelem, In y new -> bodyelem_eqb x y = false)) /\ good_split new rest stm = Ok (Some t) /\ new_auxpredicate st (Datatypes.length t) = Ok (a, Datatypes.length t, st') /\ ~ In (a, Datatypes.length t) (known st) /\ (forall q : pred, In q (known st') <-> q = (a, Datatypes.length t) \/ In q (known st)) /\ (exists k : nat, a = (Names.AUX_FUNC ++ string_of_nat k)%string) /\ auxcounter st < auxcounter st')).
Proof. exact (@project_rule_shape_proof). Qed.
Print Assumptions C16_project_rule_shape.

Theorem C16_project_rule_interface : forall (st : unames) (line : nat) (h : head) (b : list bodyelem) (a : string) (t : list string) (new rest : list bodyelem) (line' : nat) (st' : unames), project_rule st (SRule line h b) = Ok (SRule line' (HLit (aux_head a t)) new :: SRule line h (rest ++ BLit (aux_head a t) :: nil) :: nil, st') -> exists gn gh : vset, global_vars_inside_body new = Ok gn /\ global_vars_inside_head h = Ok gh /\ (forall x : string, In x gn -> (exists r : bodyelem, In r rest /\ In x (vars_bodyelem r)) \/ In x gh -> In x t) /\ (forall x : string, In x t -> In x gn) /\ NoDup t /\ ~ In "_" t.
Proof. exact (@project_rule_interface_proof). Qed.
Print Assumptions C16_project_rule_interface.

Theorem C16_execute_core_passthrough : forall (ctor_prg : list stmt) (ins : list pred) (prg out : list stmt), execute_core ctor_prg ins prg = Ok out -> filter non_rule out = filter non_rule prg /\ Datatypes.length prg <= Datatypes.length out /\ (exists (blks : list (list stmt)) (auxs : list pred) (st' : unames), exec_trace (init_names ctor_prg ins) prg blks auxs st' /\ out = List.concat blks /\ Datatypes.length out = Datatypes.length prg + Datatypes.length auxs /\ Forall2 (fun (s : stmt) (blk : list stmt) => blk = s :: nil \/ (exists (line : nat) (h : head) (b new rest : list bodyelem) (t : list string) (a : string), s = SRule line h b /\ blk = SRule LOC_line (HLit (aux_head a t)) new :: SRule line h (rest ++ BLit (aux_head a t) :: nil) :: nil)) prg blks).
Proof. exact (@execute_core_passthrough_proof). Qed.
Print Assumptions C16_execute_core_passthrough.

Theorem C16_execute_core_fresh_aux : forall (ctor_prg : list stmt) (ins : list pred) (prg out : list stmt) (st' : unames), execute_core_state ctor_prg ins prg = Ok (out, st') -> exists (blks : list (list stmt)) (auxs : list pred), exec_trace (init_names ctor_prg ins) prg blks auxs st' /\ out = List.concat blks /\ NoDup auxs /\ (forall p : pred, In p auxs -> ~ In p (known (init_names ctor_prg ins)) /\ ~ In p ins /\ (forall s : stmt, In s ctor_prg -> ~ In p (map snd (Traverse.predicates Traverse.all_signs s))) /\ (exists k : nat, fst p = (Names.AUX_FUNC ++ string_of_nat k)%string)) /\ incl auxs (known st').
Proof. exact (@execute_core_fresh_aux_proof). Qed.
Print Assumptions C16_execute_core_fresh_aux.

From NGO Require Import Syntax.Ast Sem.Sym Sem.Sat Model.Projection Link.Ground Link.ProjectionSem.

Theorem C16_projection_split_sound : forall (sym_lt : sym -> sym -> Prop) (aux : string) (ts : list string) (P1 P2 : program) (line line' : nat) (h : head) (B New Rest : list bodyelem), let p := (aux, Datatypes.length ts) in let auxl := Lit NoSign (ASym (TFun aux (map TVar ts) false)) in let P := P1 ++ (SRule line h B :: nil) ++ P2 in let Q := P1 ++ (SRule line' (HLit auxl) New :: SRule line h (Rest ++ BLit auxl :: nil) :: nil) ++ P2 in simple_prog P = true -> prog_avoids p P = true -> Permutation B (New ++ Rest) -> (forall x : string, In x (flat_map vars_bodyelem New) -> In x (flat_map vars_bodyelem Rest) \/ In x (vars_head h) -> In x ts) -> cons_ext sym_lt (fun q : string * nat => q <> p) (fun a : gatom => ~ (fst a = aux /\ Datatypes.length (snd a) = Datatypes.length ts)) P Q.
Proof. exact (@projection_split_sound). Qed.
Print Assumptions C16_projection_split_sound.

Theorem C16_project_rule_sound : forall (sym_lt : sym -> sym -> Prop) (st st' : Globals.unames) (P1 P2 : program) (line : nat) (h : head) (b : list bodyelem) (out : list stmt), let stm := SRule line h b in let P := P1 ++ (stm :: nil) ++ P2 in simple_prog P = true -> ~ In "_" (vars_stmt stm) -> project_rule st stm = Ok (out, st') -> out = stm :: nil \/ (exists (a : string) (t : list string) (new rest : list bodyelem), out = SRule LOC_line (HLit (ProjectionSpec.aux_head a t)) new :: SRule line h (rest ++ BLit (ProjectionSpec.aux_head a t) :: nil) :: nil /\ ~ In (a, Datatypes.length t) (Globals.known st) /\ (prog_avoids (a, Datatypes.length t) P = true -> cons_ext sym_lt (fun q : string * nat => q <> (a, Datatypes.length t)) (fun g : gatom => ~ (fst g = a /\ Datatypes.length (snd g) = Datatypes.length t)) P (P1 ++ out ++ P2))).
Proof. exact (@project_rule_sound). Qed.
Print Assumptions C16_project_rule_sound.

Theorem C16_project_rule_sound_known : forall (sym_lt : sym -> sym -> Prop) (st st' : Globals.unames) (P1 P2 : program) (line : nat) (h : head) (b : list bodyelem) (out : list stmt), let stm := SRule line h b in let P := P1 ++ (stm :: nil) ++ P2 in simple_prog P = true -> forallb fun_stmt P = true -> (forall (s0 : stmt) (q : pred), In s0 P -> In q (map snd (Traverse.predicates Traverse.all_signs s0)) -> In q (Globals.known st)) -> ~ In "_" (vars_stmt stm) -> project_rule st stm = Ok (out, st') -> out = stm :: nil \/ (exists (a : string) (k : nat), ~ In (a, k) (Globals.known st) /\ cons_ext sym_lt (fun q : string * nat => q <> (a, k)) (fun g : gatom => ~ (fst g = a /\ Datatypes.length (snd g) = k)) P (P1 ++ out ++ P2)).
Proof. exact (@project_rule_sound_known). Qed.
Print Assumptions C16_project_rule_sound_known.

Theorem C16_anonymous_variable_counterexample : forall sym_lt : sym -> sym -> Prop, ~ cons_ext sym_lt (fun q : string * nat => q <> ("__aux_1", 0)) (fun g : gatom => ~ (fst g = "__aux_1" /\ Datatypes.length (snd g) = 0)) (Example.r2 :: nil) (Example.r2_aux :: Example.r2_upd :: nil).
Proof. exact (@Example.anonymous_variable_counterexample). Qed.
Print Assumptions C16_anonymous_variable_counterexample.
