(* C14: integer exactness: comparison tables (generated), slack encoding, merged sums; refutations
   Only statements, `exact`, and Print Assumptions live here. *)
From Coq Require Import List String ZArith Bool Permutation.
From NGO Require Import Syntax.Ast Sem.Sym Sem.Sat Gen.Tables Link.TablesSpec Link.AggAlg Link.CostAlg.
Import ListNotations.

Theorem C14_compare_total : forall (x : Z) (o : cmp) (y : Z), compare x o y <> None.
Proof. exact (@compare_total_proof). Qed.
Print Assumptions C14_compare_total.

Theorem C14_compare_correct : forall sym_lt : sym -> sym -> Prop, sym_order sym_lt -> forall (x : Z) (o : cmp) (y : Z) (b : bool), compare x o y = Some b -> b = true <-> cmp_holds sym_lt o (SNum x) (SNum y).
Proof. exact (@compare_correct_proof). Qed.
Print Assumptions C14_compare_correct.

Theorem C14_negate_correct : forall sym_lt : sym -> sym -> Prop, sym_order sym_lt -> forall (o : cmp) (a b : sym), cmp_holds sym_lt (negate_comparison o) a b <-> ~ cmp_holds sym_lt o a b.
Proof. exact (@negate_correct_proof). Qed.
Print Assumptions C14_negate_correct.

Theorem C14_rhs2lhs_correct : forall (sym_lt : sym -> sym -> Prop) (o : cmp) (a b : sym), cmp_holds sym_lt o a b <-> cmp_holds sym_lt (rhs2lhs_comparison o) b a.
Proof. exact (@rhs2lhs_correct_proof). Qed.
Print Assumptions C14_rhs2lhs_correct.

Theorem C14_slack_encoding : forall (o : cmp) (l r : Z), cmpZ o l r <-> (exists s : Z, (l - r - s)%Z = 0%Z /\ cmpZ o s 0).
Proof. exact (@slack_encoding_proof). Qed.
Print Assumptions C14_slack_encoding.

Theorem C14_new_sum_two : forall (x y : sym) (S1 S2 : tupset) (l1 l2 : list (list sym)), x <> y -> enumerates S1 l1 -> enumerates S2 l2 -> Forall (fun t : list sym => t <> nil) l1 -> Forall (fun t : list sym => t <> nil) l2 -> exists l : list (list sym), enumerates (fun tv : list sym => tag x S1 tv \/ tag y S2 tv) l /\ sum_of l = (sum_of l1 + sum_of l2)%Z.
Proof. exact (@new_sum_two_proof). Qed.
Print Assumptions C14_new_sum_two.

Theorem C14_untagged_merge_refuted : let S := fun tv : list sym => tv = SNum 1 :: SNum 7 :: nil in enumerates (fun tv : list sym => S tv \/ S tv) ((SNum 1 :: SNum 7 :: nil) :: nil) /\ sum_of ((SNum 1 :: SNum 7 :: nil) :: nil) <> (1 + 1)%Z.
Proof. exact (@untagged_merge_refuted_proof). Qed.
Print Assumptions C14_untagged_merge_refuted.

Theorem C14_sumplus_negation_refuted : sumplus_of ((SNum (-1) :: nil) :: nil) = 0%Z /\ sumplus_of ((SNum 1 :: nil) :: nil) = 1%Z /\ sum_of ((SNum (-1) :: nil) :: nil) = (-1)%Z.
Proof. exact (@sumplus_negation_refuted_proof). Qed.
Print Assumptions C14_sumplus_negation_refuted.

Theorem C14_mul_eq_not_always_solvable : ~ (forall x : Z, exists y : Z, x = (y * 3)%Z).
Proof. exact (@mul_eq_not_always_solvable_proof). Qed.
Print Assumptions C14_mul_eq_not_always_solvable.
