(* C14: integer exactness: comparison tables (generated), slack encoding, merged sums; refutations
   Only statements, `exact`, and Print Assumptions live here. *)
From Coq Require Import List String ZArith Bool Permutation.
From NGO Require Import Syntax.Ast Sem.Sym Sem.Sat Gen.Tables Link.TablesSpec Link.AggAlg Link.CostAlg.
Import ListNotations.

Theorem C14_compare_total : forall (x : Z) (o : cmp) (y : Z), compare x o y <> None.
Proof. exact (@compare_total_proof). Qed.
Print Assumptions C14_compare_total.

Theorem C14_compare_correct : forall sym_lt : sym -> sym -> Prop, sym_order sym_lt -> forall (x : Z) (o : cmp) (y : Z) (b : bool), compare x o y = Some b -> b = true <-> cmp_holds sym_lt o (SNum x) (SNum y).
Proof. exact (@compare_correct_proof). Qed.
Print Assumptions C14_compare_correct.

Theorem C14_negate_correct : forall sym_lt : sym -> sym -> Prop, sym_order sym_lt -> forall (o : cmp) (a b : sym), cmp_holds sym_lt (negate_comparison o) a b <-> ~ cmp_holds sym_lt o a b.
Proof. exact (@negate_correct_proof). Qed.
Print Assumptions C14_negate_correct.

Theorem C14_rhs2lhs_correct : forall (sym_lt : sym -> sym -> Prop) (o : cmp) (a b : sym), cmp_holds sym_lt o a b <-> cmp_holds sym_lt (rhs2lhs_comparison o) b a.
Proof. exact (@rhs2lhs_correct_proof). Qed.
Print Assumptions C14_rhs2lhs_correct.

Theorem C14_slack_encoding : forall (o : cmp) (l r : Z), cmpZ o l r <-> (exists s : Z, (l - r - s)%Z = 0%Z /\ cmpZ o s 0).
Proof. exact (@slack_encoding_proof). Qed.
Print Assumptions C14_slack_encoding.

Theorem C14_new_sum_two : forall (x y : sym) (S1 S2 : tupset) (l1 l2 : list (list sym)), x <> y -> enumerates S1 l1 -> enumerates S2 l2 -> Forall (fun t : list sym => t <> nil) l1 -> Forall (fun t : list sym => t <> nil) l2 -> exists l : list (list sym), enumerates (fun tv : list sym => tag x S1 tv \/ tag y S2 tv) l /\ sum_of l = (sum_of l1 + sum_of l2)%Z.
Proof. exact (@new_sum_two_proof). Qed.
Print Assumptions C14_new_sum_two.

Theorem C14_untagged_merge_refuted : let S := fun tv : list sym => tv = SNum 1 :: SNum 7 :: nil in enumerates (fun tv : list sym => S tv \/ S tv) ((SNum 1 :: SNum 7 :: nil) :: nil) /\ sum_of ((SNum 1 :: SNum 7 :: nil) :: nil) <> (1 + 1)%Z.
Proof. exact (@untagged_merge_refuted_proof). Qed.
Print Assumptions C14_untagged_merge_refuted.

Theorem C14_sumplus_negation_refuted : sumplus_of ((SNum (-1) :: nil) :: nil) = 0%Z /\ sumplus_of ((SNum 1 :: nil) :: nil) = 1%Z /\ sum_of ((SNum (-1) :: nil) :: nil) = (-1)%Z.
Proof. exact (@sumplus_negation_refuted_proof). Qed.
Print Assumptions C14_sumplus_negation_refuted.

Theorem C14_mul_eq_not_always_solvable : ~ (forall x : Z, exists y : Z, x = (y * 3)%Z).
Proof. exact (@mul_eq_not_always_solvable_proof). Qed.
Print Assumptions C14_mul_eq_not_always_solvable.

From NGO Require Import Sem.Sym Sem.Sat Model.Math Link.MathSpec.

Theorem C14_sympy2ast_total : forall (g : genv) (e : sexpr), good (sympy2ast g e).
Proof. exact (@MathSpec.sympy2ast_total). Qed.
Print Assumptions C14_sympy2ast_total.

Theorem C14_sympy2ast_ok_iff : forall (g : genv) (e : sexpr), (exists t : Ast.term, sympy2ast g e = Ast.Ok (RTerm t)) <-> okb g e = true.
Proof. exact (@MathSpec.sympy2ast_ok_iff). Qed.
Print Assumptions C14_sympy2ast_ok_iff.

Theorem C14_sympy2ast_rejects_rationals : forall (g : genv) (e : sexpr) (p : Z) (q : positive), subexpr (SRat p q) e -> forall r : sast, sympy2ast g e <> Ast.Ok r.
Proof. exact (@MathSpec.sympy2ast_rejects_rationals). Qed.
Print Assumptions C14_sympy2ast_rejects_rationals.

Theorem C14_sympy2ast_rejects_mod_floor_other : forall (g : genv) (e : sexpr) (f : sfunc) (args : list sexpr), subexpr (SApp f args) e -> match f with | FMod | FFloor | FOther _ => True | _ => False end -> forall r : sast, sympy2ast g e <> Ast.Ok r.
Proof. exact (@MathSpec.sympy2ast_rejects_mod_floor_other). Qed.
Print Assumptions C14_sympy2ast_rejects_mod_floor_other.

Theorem C14_sympy2ast_sound : forall (g : genv) (s : subst) (sg : skey -> Z), env_agrees g s sg -> forall (e : sexpr) (t : Ast.term) (v : Z), sympy2ast g e = Ast.Ok (RTerm t) -> pos_ok sg e -> eval s t = Some (Ast.SNum v) <-> (exists q : QArith_base.Q, seval sg e = Some q /\ QArith_base.Qeq q (QArith_base.inject_Z v)).
Proof. exact (@MathSpec.sympy2ast_sound). Qed.
Print Assumptions C14_sympy2ast_sound.

Theorem C14_sympy2ast_vars : forall (g : genv) (e : sexpr) (t : Ast.term), sympy2ast g e = Ast.Ok (RTerm t) -> Ast.vars_term t = flat_map (sym_vars g) (symbols e).
Proof. exact (@MathSpec.sympy2ast_vars). Qed.
Print Assumptions C14_sympy2ast_vars.

Theorem C14_to_sympy_term_sound : forall (s : subst) (sg : skey -> Z) (t : Ast.term) (st : tstate) (e : sexpr) (st' : tstate) (v : Z), to_sympy_term t st = Ast.Ok (Some e, st') -> vars_agree s sg t -> divs_nonneg s t -> pows_nonneg s t -> eval s t = Some (Ast.SNum v) -> exists q : QArith_base.Q, seval sg e = Some q /\ QArith_base.Qeq q (QArith_base.inject_Z v).
Proof. exact (@MathSpec.to_sympy_term_sound). Qed.
Print Assumptions C14_to_sympy_term_sound.

Theorem C14_div_negative_refuted : value_is (Ast.TBin Ast.BDiv (Ast.TBin Ast.BMinus (Ast.TSym (Ast.SNum 0)) (Ast.TSym (Ast.SNum 7))) (Ast.TSym (Ast.SNum 2))) (-3) (-4).
Proof. exact (@MathSpec.div_negative_refuted). Qed.
Print Assumptions C14_div_negative_refuted.

Theorem C14_mod_negative_refuted : value_is (Ast.TBin Ast.BMod (Ast.TBin Ast.BMinus (Ast.TSym (Ast.SNum 0)) (Ast.TSym (Ast.SNum 7))) (Ast.TSym (Ast.SNum 2))) (-1) 1.
Proof. exact (@MathSpec.mod_negative_refuted). Qed.
Print Assumptions C14_mod_negative_refuted.

Theorem C14_pow_negative_refuted : let t := Ast.TBin Ast.BPow (Ast.TSym (Ast.SNum 2)) (Ast.TBin Ast.BMinus (Ast.TSym (Ast.SNum 0)) (Ast.TSym (Ast.SNum 1))) in eval s0 t = Some (Ast.SNum 0) /\ divs_nonneg s0 t /\ vars_agree s0 sg0 t /\ ~ pows_nonneg s0 t /\ (exists (e : sexpr) (st : tstate) (q : QArith_base.Q), to_sympy_term t ([], []) = Ast.Ok (Some e, st) /\ seval sg0 e = Some q /\ QArith_base.Qeq_bool q {| QArith_base.Qnum := 1; QArith_base.Qden := 2 |} = true).
Proof. exact (@MathSpec.pow_negative_refuted). Qed.
Print Assumptions C14_pow_negative_refuted.

Theorem C14_sumplus_scaling_refuted : sumplus_of ((Ast.SNum (1 * -1) :: nil) :: nil) <> (-1 * sumplus_of ((Ast.SNum 1 :: nil) :: nil))%Z.
Proof. exact (@MathSpec.sumplus_scaling_refuted). Qed.
Print Assumptions C14_sumplus_scaling_refuted.

From NGO Require Import Gen.Tables Model.NegateAgg Link.NegateAggSpec.

Theorem C14_negate_agg_shape : forall (lg : option Ast.guard) (f : Ast.aggfun) (es : list (list Ast.term * list Ast.lit)) (rg : option Ast.guard), negate_agg (Ast.ABodyAgg lg f es rg) = Ast.Ok (Ast.ABodyAgg (neg_guard lg) f es (neg_guard rg)).
Proof. exact (@NegateAggSpec.negate_agg_shape_proof). Qed.
Print Assumptions C14_negate_agg_shape.

Theorem C14_negate_agg_keeps_elements : forall (a : Ast.atom) (lg : option Ast.guard) (f : Ast.aggfun) (es : list (list Ast.term * list Ast.lit)) (rg : option Ast.guard), negate_agg a = Ast.Ok (Ast.ABodyAgg lg f es rg) -> exists lg0 rg0 : option Ast.guard, a = Ast.ABodyAgg lg0 f es rg0.
Proof. exact (@NegateAggSpec.negate_agg_keeps_elements_proof). Qed.
Print Assumptions C14_negate_agg_keeps_elements.

Theorem C14_negate_agg_involutive : forall a b c : Ast.atom, negate_agg a = Ast.Ok b -> negate_agg b = Ast.Ok c -> c = a.
Proof. exact (@NegateAggSpec.negate_agg_involutive_proof). Qed.
Print Assumptions C14_negate_agg_involutive.

Theorem C14_negate_agg_asserts : forall a : Ast.atom, (exists b : Ast.atom, negate_agg a = Ast.Ok b) <-> (exists (lg : option Ast.guard) (f : Ast.aggfun) (es : list (list Ast.term * list Ast.lit)) (rg : option Ast.guard), a = Ast.ABodyAgg lg f es rg) \/ (exists (lg : option Ast.guard) (es : list (Ast.lit * list Ast.lit)) (rg : option Ast.guard), a = Ast.AAgg lg es rg).
Proof. exact (@NegateAggSpec.negate_agg_asserts_proof). Qed.
Print Assumptions C14_negate_agg_asserts.
