(* C11: ordered/counted joins versus != joins over a strict total order (G5)
   Only statements, `exact`, and Print Assumptions live here. *)
From Coq Require Import List String ZArith Bool Permutation.
From NGO Require Import Meta.Count.
Import ListNotations.

Theorem C11_neq_to_lt : forall (X : Type) (lt : X -> X -> Prop), (forall a : X, ~ lt a a) -> (forall a b : X, lt a b \/ a = b \/ lt b a) -> forall R : X -> X -> Prop, (forall x y : X, R x y -> R y x) -> (exists x y : X, x <> y /\ R x y) <-> (exists x y : X, lt x y /\ R x y).
Proof. exact (@Count.neq_to_lt). Qed.
Print Assumptions C11_neq_to_lt.

Theorem C11_distinct_iff_increasing : forall (X : Type) (lt : X -> X -> Prop), (forall a : X, ~ lt a a) -> (forall a b c : X, lt a b -> lt b c -> lt a c) -> (forall a b : X, lt a b \/ a = b \/ lt b a) -> forall (S : X -> Prop) (k : nat), (exists l : list X, Datatypes.length l = k /\ NoDup l /\ Forall S l) <-> (exists l : list X, Datatypes.length l = k /\ Sorted.StronglySorted lt l /\ Forall S l).
Proof. exact (@Count.distinct_iff_increasing). Qed.
Print Assumptions C11_distinct_iff_increasing.

Theorem C11_distinct_iff_count : forall (X : Type) (S : X -> Prop) (L : list X) (k : nat), NoDup L -> (forall x : X, In x L <-> S x) -> (exists l : list X, Datatypes.length l = k /\ NoDup l /\ Forall S l) <-> k <= Datatypes.length L.
Proof. exact (@Count.distinct_iff_count). Qed.
Print Assumptions C11_distinct_iff_count.
