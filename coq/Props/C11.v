(* C11: ordered/counted joins versus != joins over a strict total order (G5)
   Only statements, `exact`, and Print Assumptions live here. *)
From Coq Require Import List String ZArith Bool Permutation.
From NGO Require Import Meta.Count.
Import ListNotations.

Theorem C11_neq_to_lt : forall (X : Type) (lt : X -> X -> Prop), (forall a : X, ~ lt a a) -> (forall a b : X, lt a b \/ a = b \/ lt b a) -> forall R : X -> X -> Prop, (forall x y : X, R x y -> R y x) -> (exists x y : X, x <> y /\ R x y) <-> (exists x y : X, lt x y /\ R x y).
Proof. exact (@Count.neq_to_lt). Qed.
Print Assumptions C11_neq_to_lt.

Theorem C11_distinct_iff_increasing : forall (X : Type) (lt : X -> X -> Prop), (forall a : X, ~ lt a a) -> (forall a b c : X, lt a b -> lt b c -> lt a c) -> (forall a b : X, lt a b \/ a = b \/ lt b a) -> forall (S : X -> Prop) (k : nat), (exists l : list X, Datatypes.length l = k /\ NoDup l /\ Forall S l) <-> (exists l : list X, Datatypes.length l = k /\ Sorted.StronglySorted lt l /\ Forall S l).
Proof. exact (@Count.distinct_iff_increasing). Qed.
Print Assumptions C11_distinct_iff_increasing.

Theorem C11_distinct_iff_count : forall (X : Type) (S : X -> Prop) (L : list X) (k : nat), NoDup L -> (forall x : X, In x L <-> S x) -> (exists l : list X, Datatypes.length l = k /\ NoDup l /\ Forall S l) <-> k <= Datatypes.length L.
Proof. exact (@Count.distinct_iff_count). Qed.
Print Assumptions C11_distinct_iff_count.

From NGO Require Import Sem.Sym Sem.Sat Link.Equiv Link.SymmetrySem.

Theorem C11_neq_to_lt_rule_sound : forall sym_lt : Ast.sym -> Ast.sym -> Prop, sym_order sym_lt -> forall (G : list string) (H T : interp) (h : Ast.head) (B : list Ast.bodyelem) (r : string -> string) (x y : string), body_inv sym_lt G r B -> r x = y -> r y = x -> (forall z : string, In z (Ast.vars_head h) -> r z = z) -> rule_sat sym_lt G H T h (B ++ Ast.BLit (ne_lit x y) :: nil) <-> rule_sat sym_lt G H T h (B ++ Ast.BLit (lt_lit x y) :: nil).
Proof. exact (@SymmetrySem.neq_to_lt_rule_sound_gen). Qed.
Print Assumptions C11_neq_to_lt_rule_sound.

Theorem C11_neq_to_lt_program_sound : forall sym_lt : Ast.sym -> Ast.sym -> Prop, sym_order sym_lt -> forall (P1 P2 : list Ast.stmt) (ln : nat) (h : Ast.head) (B : list Ast.bodyelem) (r : string -> string) (x y : string), (forall G : list string, body_inv sym_lt G r B) -> r x = y -> r y = x -> (forall z : string, In z (Ast.vars_head h) -> r z = z) -> equiv_all sym_lt (P1 ++ Ast.SRule ln h (B ++ Ast.BLit (ne_lit x y) :: nil) :: P2) (P1 ++ Ast.SRule ln h (B ++ Ast.BLit (lt_lit x y) :: nil) :: P2).
Proof. exact (@SymmetrySem.neq_to_lt_program_sound). Qed.
Print Assumptions C11_neq_to_lt_program_sound.

Theorem C11_all_neq_to_chain_rule_sound : forall sym_lt : Ast.sym -> Ast.sym -> Prop, sym_order sym_lt -> forall (G : list string) (H T : interp) (h : Ast.head) (B : list Ast.bodyelem) (xs : list string), NoDup xs -> (forall a b : string, In a xs -> In b xs -> exists r : string -> string, (body_inv sym_lt G r B /\ (forall z : string, In z (Ast.vars_head h) -> r z = z)) /\ (forall z : string, In z xs -> r z = sw a b z)) -> rule_sat sym_lt G H T h (B ++ pairs_ne xs) <-> rule_sat sym_lt G H T h (B ++ chain_lt xs).
Proof. exact (@SymmetrySem.all_neq_to_chain_rule_sound_gen). Qed.
Print Assumptions C11_all_neq_to_chain_rule_sound.

Theorem C11_all_neq_to_chain_program_sound : forall sym_lt : Ast.sym -> Ast.sym -> Prop, sym_order sym_lt -> forall (P1 P2 : list Ast.stmt) (ln : nat) (h : Ast.head) (B : list Ast.bodyelem) (xs : list string), NoDup xs -> (forall (G : list string) (a b : string), In a xs -> In b xs -> body_inv sym_lt G (sw a b) B) -> (forall z : string, In z xs -> ~ In z (Ast.vars_head h)) -> equiv_all sym_lt (P1 ++ Ast.SRule ln h (B ++ pairs_ne xs) :: P2) (P1 ++ Ast.SRule ln h (B ++ chain_lt xs) :: P2).
Proof. exact (@SymmetrySem.all_neq_to_chain_program_sound). Qed.
Print Assumptions C11_all_neq_to_chain_program_sound.

Theorem C11_mixed_sign_refuted : forall sym_lt : Ast.sym -> Ast.sym -> Prop, sym_order sym_lt -> forall G : list string, ~ rule_sat sym_lt G mixed_T mixed_T bad_head (mixed_body ++ Ast.BLit (ne_lit "X" "Y") :: nil) /\ rule_sat sym_lt G mixed_T mixed_T bad_head (mixed_body ++ Ast.BLit (lt_lit "X" "Y") :: nil).
Proof. exact (@SymmetrySem.mixed_sign_refuted). Qed.
Print Assumptions C11_mixed_sign_refuted.

Theorem C11_cyclic_order_unsat : forall sym_lt : Ast.sym -> Ast.sym -> Prop, sym_order sym_lt -> forall a b c : Ast.sym, ~ (sym_lt a b /\ sym_lt b c /\ sym_lt c a).
Proof. exact (@SymmetrySem.cyclic_order_unsat). Qed.
Print Assumptions C11_cyclic_order_unsat.

Theorem C11_exA_pass_sound : forall sym_lt : Ast.sym -> Ast.sym -> Prop, sym_order sym_lt -> exists Q : list Ast.stmt, Symmetry.execute (base_stmt :: exA_in :: nil) nil (base_stmt :: exA_in :: nil) = Ast.Ok Q /\ equiv_all sym_lt (base_stmt :: exA_in :: nil) Q.
Proof. exact (@SymmetrySem.exA_pass_sound). Qed.
Print Assumptions C11_exA_pass_sound.

Theorem C11_exB_pass_sound : forall sym_lt : Ast.sym -> Ast.sym -> Prop, sym_order sym_lt -> exists Q : list Ast.stmt, Symmetry.execute (base_stmt :: exB_in :: nil) nil (base_stmt :: exB_in :: nil) = Ast.Ok Q /\ equiv_all sym_lt (base_stmt :: exB_in :: nil) Q.
Proof. exact (@SymmetrySem.exB_pass_sound). Qed.
Print Assumptions C11_exB_pass_sound.

Theorem C11_exC_pass_sound : forall sym_lt : Ast.sym -> Ast.sym -> Prop, sym_order sym_lt -> exists Q : list Ast.stmt, Symmetry.execute (base_stmt :: exC_in :: nil) nil (base_stmt :: exC_in :: nil) = Ast.Ok Q /\ equiv_all sym_lt (base_stmt :: exC_in :: nil) Q.
Proof. exact (@SymmetrySem.exC_pass_sound). Qed.
Print Assumptions C11_exC_pass_sound.
