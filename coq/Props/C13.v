(* C13: at-most-one bounds (generated guaranteed_leq/geq), supportedness, telescoping sums
   Only statements, `exact`, and Print Assumptions live here. *)
From Coq Require Import List String ZArith Bool Permutation.
From NGO Require Import Syntax.Ast Sem.Sym Gen.Tables Link.TablesSpec Meta.Chain Meta.Cleanup Link.CostAlg.
Import ListNotations.

Theorem C13_guaranteed_leq_sound : forall sym_lt : sym -> sym -> Prop, sym_order sym_lt -> forall (bounds : list guard) (n : Z), guaranteed_leq bounds n = true -> forall v : Z, Forall (bound_holds sym_lt v) bounds -> (v <= n)%Z.
Proof. exact (@guaranteed_leq_sound_proof). Qed.
Print Assumptions C13_guaranteed_leq_sound.

Theorem C13_guaranteed_geq_sound : forall sym_lt : sym -> sym -> Prop, sym_order sym_lt -> forall (bounds : list guard) (n : Z), guaranteed_geq bounds n = true -> forall v : Z, Forall (bound_holds sym_lt v) bounds -> (v >= n)%Z.
Proof. exact (@guaranteed_geq_sound_proof). Qed.
Print Assumptions C13_guaranteed_geq_sound.

Theorem C13_supported : forall (atom F : Type) (fsat : interp atom -> interp atom -> F -> Prop), (forall (H T : interp atom) (f : F), subi atom H T -> fsat H T f -> fsat T T f) -> forall (P : prog atom F) (T : interp atom) (a : atom), stable atom F fsat P T -> T a -> exists r : rule atom F, P r /\ head_atom atom (hd atom F r) a /\ bsat atom F fsat T T (bd atom F r).
Proof. exact (@Cleanup.supported). Qed.
Print Assumptions C13_supported.

Theorem C13_telescoping_max : forall (r : list Z) (d m : Z), Sorted.StronglySorted Z.lt (d :: r) -> In m (d :: r) -> (d + steps (fun v : Z => v <=? m) d r)%Z = m.
Proof. exact (@telescoping_max). Qed.
Print Assumptions C13_telescoping_max.

Theorem C13_sum_disjoint_union : forall (S1 S2 : Sat.tupset) (l1 l2 : list (list sym)), Sat.enumerates S1 l1 -> Sat.enumerates S2 l2 -> (forall tv : list sym, S1 tv -> S2 tv -> False) -> Sat.enumerates (fun tv : list sym => S1 tv \/ S2 tv) (l1 ++ l2) /\ Sat.sum_of (l1 ++ l2) = (Sat.sum_of l1 + Sat.sum_of l2)%Z.
Proof. exact (@sum_disjoint_union_proof). Qed.
Print Assumptions C13_sum_disjoint_union.

From NGO Require Import Syntax.Ast Sem.Sym Sem.Sat Link.Ground.

Theorem C13_supported_nonground : forall (sym_lt : sym -> sym -> Prop) (P : program) (I : list gatom) (T : interp) (a : gatom), simple_prog P = true -> stable sym_lt P I T -> T a -> In a I \/ (exists (line : nat) (h : head) (b : list bodyelem) (s : subst), In (SRule line h b) P /\ head_derives s h a /\ body_sat sym_lt (gvars_rule h b) T T s b).
Proof. exact (@supported_nonground). Qed.
Print Assumptions C13_supported_nonground.

From NGO Require Import Sem.Sym Sem.Sat Sem.Cost Link.Equiv Link.SumChainsSem.

Theorem C13_telescope_sum : forall l : list Z, telescope l = last l 0%Z.
Proof. exact (@SumChainsSem.telescope_sum). Qed.
Print Assumptions C13_telescope_sum.

Theorem C13_telescope_sum_sorted : forall (l : list Z) (k : nat), Sorted.StronglySorted Z.lt l -> k < Datatypes.length l -> telescope (firstn (S k) l) = nth k l 0%Z.
Proof. exact (@SumChainsSem.telescope_sum_sorted). Qed.
Print Assumptions C13_telescope_sum_sorted.

Theorem C13_supported_x : forall (sym_lt : Ast.sym -> Ast.sym -> Prop) (P : list Ast.stmt) (I : list gatom) (T : interp) (a : gatom), (forall (line : nat) (h : Ast.head) (b : list Ast.bodyelem), In (Ast.SRule line h b) P -> xhead h) -> stable sym_lt P I T -> T a -> In a I \/ (exists (line : nat) (h : Ast.head) (b : list Ast.bodyelem) (s : subst), In (Ast.SRule line h b) P /\ derives_x sym_lt T (gvars_rule h b) s h a /\ body_sat sym_lt (gvars_rule h b) T T s b).
Proof. exact (@SumChainsSem.supported_x). Qed.
Print Assumptions C13_supported_x.

Theorem C13_chain_meaning : forall (sym_lt : Ast.sym -> Ast.sym -> Prop) (gs : list string), NoDup gs -> (forall x : string, In x gs -> ~ In x ChainSemGrouped.reserved) -> forall (p ch nx : string) (P : list Ast.stmt) (I : list (string * list Ast.sym)) (T : interp), sym_order sym_lt -> (forall (line : nat) (h : Ast.head) (b : list Ast.bodyelem), In (Ast.SRule line h b) P -> xhead h) -> In (chain_rule_base_g gs p ch) P -> In (chain_rule_step_g gs ch nx) P -> (forall (line : nat) (h : Ast.head) (b : list Ast.bodyelem), In (Ast.SRule line h b) P -> In (ch, ChainSemGrouped.k1 gs) (ChainSem.head_names h) -> Ast.SRule line h b = chain_rule_base_g gs p ch \/ Ast.SRule line h b = chain_rule_step_g gs ch nx) -> (forall vs : list Ast.sym, Datatypes.length vs = ChainSemGrouped.k1 gs -> ~ In (ch, vs) I) -> stable sym_lt P I T -> forall g : list Ast.sym, Datatypes.length g = Datatypes.length gs -> forall D : list Ast.sym, Sorted.StronglySorted sym_lt D -> (forall v : Ast.sym, T (p, g ++ v :: nil) -> In v D) -> (forall a b : Ast.sym, T (nx, g ++ a :: b :: nil) <-> Chain.consecutive Ast.sym D a b) -> forall d : Ast.sym, T (ch, g ++ d :: nil) <-> In d D /\ (exists v : Ast.sym, T (p, g ++ v :: nil) /\ (d = v \/ sym_lt d v)).
Proof. exact (@SumChainsSem.chain_meaning). Qed.
Print Assumptions C13_chain_meaning.

Theorem C13_chain_pred_meaning : forall (sym_lt : Ast.sym -> Ast.sym -> Prop) (gs : list string), NoDup gs -> (forall x : string, In x gs -> ~ In x ChainSemGrouped.reserved) -> forall (dom mn nx p ch : string) (P : Ast.program) (I : list (string * list Ast.sym)) (T : interp), sym_order sym_lt -> xfrag P -> In (ChainSemGrouped.min_rule_g gs dom mn) P -> In (ChainSemGrouped.next_rule_base_g gs dom mn nx) P -> In (ChainSemGrouped.next_rule_step_g gs dom nx) P -> In (chain_rule_base_g gs p ch) P -> In (chain_rule_step_g gs ch nx) P -> (forall (line : nat) (h : Ast.head) (b : list Ast.bodyelem), In (Ast.SRule line h b) P -> In (mn, ChainSemGrouped.k1 gs) (ChainSem.head_names h) -> Ast.SRule line h b = ChainSemGrouped.min_rule_g gs dom mn) -> (forall (line : nat) (h : Ast.head) (b : list Ast.bodyelem), In (Ast.SRule line h b) P -> In (nx, ChainSemGrouped.k2 gs) (ChainSem.head_names h) -> Ast.SRule line h b = ChainSemGrouped.next_rule_base_g gs dom mn nx \/ Ast.SRule line h b = ChainSemGrouped.next_rule_step_g gs dom nx) -> (forall (line : nat) (h : Ast.head) (b : list Ast.bodyelem), In (Ast.SRule line h b) P -> In (ch, ChainSemGrouped.k1 gs) (ChainSem.head_names h) -> Ast.SRule line h b = chain_rule_base_g gs p ch \/ Ast.SRule line h b = chain_rule_step_g gs ch nx) -> (forall vs : list Ast.sym, Datatypes.length vs = ChainSemGrouped.k1 gs -> ~ In (mn, vs) I) -> (forall vs : list Ast.sym, Datatypes.length vs = ChainSemGrouped.k2 gs -> ~ In (nx, vs) I) -> (forall vs : list Ast.sym, Datatypes.length vs = ChainSemGrouped.k1 gs -> ~ In (ch, vs) I) -> stable sym_lt P I T -> forall g : list Ast.sym, Datatypes.length g = Datatypes.length gs -> (exists l : list Ast.sym, forall v : Ast.sym, T (dom, g ++ v :: nil) <-> In v l) -> (forall v : Ast.sym, T (p, g ++ v :: nil) -> T (dom, g ++ v :: nil)) -> exists D : list Ast.sym, Sorted.StronglySorted sym_lt D /\ (forall v : Ast.sym, T (dom, g ++ v :: nil) <-> In v D) /\ (forall v : Ast.sym, T (mn, g ++ v :: nil) <-> hd_error D = Some v) /\ (forall a b : Ast.sym, T (nx, g ++ a :: b :: nil) <-> Chain.consecutive Ast.sym D a b) /\ (forall d : Ast.sym, T (ch, g ++ d :: nil) <-> In d D /\ (exists v : Ast.sym, T (p, g ++ v :: nil) /\ (d = v \/ sym_lt d v))).
Proof. exact (@SumChainsSem.chain_pred_meaning). Qed.
Print Assumptions C13_chain_pred_meaning.

Theorem C13_chain_sum_is_max : forall (T : interp) (ch nx : string) (g r : list Ast.sym) (DZ : list Z) (m : Z), group_sem T ch nx g DZ m -> exists l : list (list Ast.sym), enumerates (new T ch nx g r) l /\ sum_of l = m.
Proof. exact (@SumChainsSem.chain_sum_is_max). Qed.
Print Assumptions C13_chain_sum_is_max.

Theorem C13_sum_chain_value : forall (T : interp) (p ch nx : string) (g r : list Ast.sym) (DZ : list Z) (m : Z), group_sem T ch nx g DZ m -> T (p, g ++ Ast.SNum m :: nil) -> (forall v : Ast.sym, T (p, g ++ v :: nil) -> v = Ast.SNum m) -> exists lo ln : list (list Ast.sym), enumerates (orig T p g r) lo /\ enumerates (new T ch nx g r) ln /\ sum_of lo = sum_of ln /\ sum_of lo = m.
Proof. exact (@SumChainsSem.sum_chain_value). Qed.
Print Assumptions C13_sum_chain_value.

Theorem C13_sum_chain_agg : forall (T : interp) (p ch nx : string) (Ctx : list Ast.sym -> list Ast.sym -> Prop) (sym_lt : Ast.sym -> Ast.sym -> Prop) (Others : tupset), (forall g r : list Ast.sym, Ctx g r -> group_ok T p ch nx g) -> (forall g r : list Ast.sym, Ctx g r -> (forall v : Ast.sym, ~ T (p, g ++ v :: nil)) -> forall d : Ast.sym, ~ T (ch, g ++ d :: nil)) -> (forall g g' r : list Ast.sym, Ctx g r -> Ctx g' r -> g = g') -> (exists L : list (list Ast.sym * list Ast.sym), forall g r : list Ast.sym, Ctx g r -> (exists v : Ast.sym, T (p, g ++ v :: nil)) -> In (g, r) L) -> (forall tv : list Ast.sym, Orig T p Ctx tv -> Others tv -> False) -> (forall tv : list Ast.sym, New T ch nx Ctx tv -> Others tv -> False) -> forall v : Ast.sym, agg_value sym_lt Ast.FSum (fun tv : list Ast.sym => Orig T p Ctx tv \/ Others tv) v <-> agg_value sym_lt Ast.FSum (fun tv : list Ast.sym => New T ch nx Ctx tv \/ Others tv) v.
Proof. exact (@SumChainsSem.sum_chain_agg). Qed.
Print Assumptions C13_sum_chain_agg.

Theorem C13_sum_chain_elems : forall (sym_lt : Ast.sym -> Ast.sym -> Prop) (T : interp) (p ch nx : string) (gs : list string) (lv pv : string) (rs : list Ast.term) (cs : list Ast.lit) (G : list string), fresh gs rs cs G lv -> fresh gs rs cs G pv -> lv <> pv -> forall (prj : string) (es : list Ast.belem) (s : subst), (forall g r : list Ast.sym, ctx sym_lt T gs rs cs G s g r -> group_ok T p ch nx g) -> (forall g r : list Ast.sym, ctx sym_lt T gs rs cs G s g r -> (forall v : Ast.sym, ~ T (p, g ++ v :: nil)) -> forall d : Ast.sym, ~ T (ch, g ++ d :: nil)) -> (forall g g' r : list Ast.sym, ctx sym_lt T gs rs cs G s g r -> ctx sym_lt T gs rs cs G s g' r -> g = g') -> (exists L : list (list Ast.sym * list Ast.sym), forall g r : list Ast.sym, ctx sym_lt T gs rs cs G s g r -> (exists v : Ast.sym, T (p, g ++ v :: nil)) -> In (g, r) L) -> (forall (g r : list Ast.sym) (n : Ast.sym), ctx sym_lt T gs rs cs G s g r -> T (prj, g ++ n :: nil) <-> (exists q : Ast.sym, T (nx, g ++ q :: n :: nil))) -> (forall tv : list Ast.sym, AggSem.elems_tuples sym_lt G T T s (orig_elem p gs lv rs cs :: nil) tv -> AggSem.elems_tuples sym_lt G T T s es tv -> False) -> (forall tv : list Ast.sym, AggSem.elems_tuples sym_lt G T T s (elem_step ch nx gs lv pv rs cs :: elem_first_proj ch nx gs lv rs cs prj :: nil) tv -> AggSem.elems_tuples sym_lt G T T s es tv -> False) -> forall v : Ast.sym, agg_value sym_lt Ast.FSum (AggSem.elems_tuples sym_lt G T T s (orig_elem p gs lv rs cs :: es)) v <-> agg_value sym_lt Ast.FSum (AggSem.elems_tuples sym_lt G T T s (elem_step ch nx gs lv pv rs cs :: elem_first_proj ch nx gs lv rs cs prj :: es)) v.
Proof. exact (@SumChainsSem.sum_chain_elems). Qed.
Print Assumptions C13_sum_chain_elems.

Theorem C13_sumplus_chain_value : forall (T : interp) (p ch nx : string) (g r : list Ast.sym) (DZ : list Z) (m : Z), group_sem T ch nx g DZ m -> (forall z : Z, In z DZ -> (0 <= z)%Z) -> T (p, g ++ Ast.SNum m :: nil) -> (forall v : Ast.sym, T (p, g ++ v :: nil) -> v = Ast.SNum m) -> exists lo ln : list (list Ast.sym), enumerates (orig T p g r) lo /\ enumerates (new T ch nx g r) ln /\ sumplus_of lo = sumplus_of ln.
Proof. exact (@SumChainsSem.sumplus_chain_value). Qed.
Print Assumptions C13_sumplus_chain_value.

Theorem C13_no_at_most_one_refuted : (exists lo : list (list Ast.sym), enumerates (orig Refutations.Ta "p" Refutations.g7 Refutations.g7) lo /\ sum_of lo = 4%Z) /\ (exists ln : list (list Ast.sym), enumerates (new Refutations.Ta "ch" "nx" Refutations.g7 Refutations.g7) ln /\ sum_of ln = 3%Z) /\ ~ (exists lo ln : list (list Ast.sym), enumerates (orig Refutations.Ta "p" Refutations.g7 Refutations.g7) lo /\ enumerates (new Refutations.Ta "ch" "nx" Refutations.g7 Refutations.g7) ln /\ sum_of lo = sum_of ln).
Proof. exact (@SumChainsSem.Refutations.no_at_most_one_refuted). Qed.
Print Assumptions C13_no_at_most_one_refuted.

Theorem C13_sumplus_negative_minimum_refuted : forall sym_lt : Ast.sym -> Ast.sym -> Prop, agg_value sym_lt Ast.FSumPlus (orig Refutations.Tc "p" Refutations.g7 Refutations.g7) (Ast.SNum 2) /\ agg_value sym_lt Ast.FSumPlus (new Refutations.Tc "ch" "nx" Refutations.g7 Refutations.g7) (Ast.SNum 5) /\ agg_value sym_lt Ast.FSum (orig Refutations.Tc "p" Refutations.g7 Refutations.g7) (Ast.SNum 2) /\ agg_value sym_lt Ast.FSum (new Refutations.Tc "ch" "nx" Refutations.g7 Refutations.g7) (Ast.SNum 2).
Proof. exact (@SumChainsSem.Refutations.sumplus_negative_minimum_refuted). Qed.
Print Assumptions C13_sumplus_negative_minimum_refuted.

Theorem C13_non_integer_domain_refuted : forall sym_lt : Ast.sym -> Ast.sym -> Prop, agg_value sym_lt Ast.FSum (orig Refutations.Td "p" Refutations.g7 Refutations.g7) (Ast.SNum 5) /\ agg_value sym_lt Ast.FSum (new Refutations.Td "ch" "nx" Refutations.g7 Refutations.g7) (Ast.SNum 0).
Proof. exact (@SumChainsSem.Refutations.non_integer_domain_refuted). Qed.
Print Assumptions C13_non_integer_domain_refuted.

Theorem C13_model_sum : SumChains.execute ModelRun.P_sum nil ModelRun.order_sum = Ast.Ok ModelRun.Q_sum.
Proof. exact (@SumChainsSem.ModelRun.model_sum). Qed.
Print Assumptions C13_model_sum.

Theorem C13_ex_pass_sound_partial : forall sym_lt : Ast.sym -> Ast.sym -> Prop, sym_order sym_lt -> exists Q : list Ast.stmt, SumChains.execute ModelRun.P_sum nil ModelRun.order_sum = Ast.Ok Q /\ Q = ModelRun.Q_sum /\ (forall (I : list gatom) (T' : interp), Example.inst_ok I -> stable sym_lt Example.Q_norm I T' -> stable sym_lt ModelRun.P_sum I (restr Example.Vorig T') /\ (forall S : Ast.sym, T' ("tot", S :: nil) <-> agg_value sym_lt Ast.FSum (Example.orig_set T') S)).
Proof. exact (@SumChainsSem.Example.ex_pass_sound_partial). Qed.
Print Assumptions C13_ex_pass_sound_partial.
