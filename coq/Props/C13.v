(* C13: at-most-one bounds (generated guaranteed_leq/geq), supportedness, telescoping sums
   Only statements, `exact`, and Print Assumptions live here. *)
From Coq Require Import List String ZArith Bool Permutation.
From NGO Require Import Syntax.Ast Sem.Sym Gen.Tables Link.TablesSpec Meta.Chain Meta.Cleanup Link.CostAlg.
Import ListNotations.

Theorem C13_guaranteed_leq_sound : forall sym_lt : sym -> sym -> Prop, sym_order sym_lt -> forall (bounds : list guard) (n : Z), guaranteed_leq bounds n = true -> forall v : Z, Forall (bound_holds sym_lt v) bounds -> (v <= n)%Z.
Proof. exact (@guaranteed_leq_sound_proof). Qed.
Print Assumptions C13_guaranteed_leq_sound.

Theorem C13_guaranteed_geq_sound : forall sym_lt : sym -> sym -> Prop, sym_order sym_lt -> forall (bounds : list guard) (n : Z), guaranteed_geq bounds n = true -> forall v : Z, Forall (bound_holds sym_lt v) bounds -> (v >= n)%Z.
Proof. exact (@guaranteed_geq_sound_proof). Qed.
Print Assumptions C13_guaranteed_geq_sound.

Theorem C13_supported : forall (atom F : Type) (fsat : interp atom -> interp atom -> F -> Prop), (forall (H T : interp atom) (f : F), subi atom H T -> fsat H T f -> fsat T T f) -> forall (P : prog atom F) (T : interp atom) (a : atom), stable atom F fsat P T -> T a -> exists r : rule atom F, P r /\ head_atom atom (hd atom F r) a /\ bsat atom F fsat T T (bd atom F r).
Proof. exact (@Cleanup.supported). Qed.
Print Assumptions C13_supported.

Theorem C13_telescoping_max : forall (r : list Z) (d m : Z), Sorted.StronglySorted Z.lt (d :: r) -> In m (d :: r) -> (d + steps (fun v : Z => v <=? m) d r)%Z = m.
Proof. exact (@telescoping_max). Qed.
Print Assumptions C13_telescoping_max.

Theorem C13_sum_disjoint_union : forall (S1 S2 : Sat.tupset) (l1 l2 : list (list sym)), Sat.enumerates S1 l1 -> Sat.enumerates S2 l2 -> (forall tv : list sym, S1 tv -> S2 tv -> False) -> Sat.enumerates (fun tv : list sym => S1 tv \/ S2 tv) (l1 ++ l2) /\ Sat.sum_of (l1 ++ l2) = (Sat.sum_of l1 + Sat.sum_of l2)%Z.
Proof. exact (@sum_disjoint_union_proof). Qed.
Print Assumptions C13_sum_disjoint_union.

From NGO Require Import Syntax.Ast Sem.Sym Sem.Sat Link.Ground.

Theorem C13_supported_nonground : forall (sym_lt : sym -> sym -> Prop) (P : program) (I : list gatom) (T : interp) (a : gatom), simple_prog P = true -> stable sym_lt P I T -> T a -> In a I \/ (exists (line : nat) (h : head) (b : list bodyelem) (s : subst), In (SRule line h b) P /\ head_derives s h a /\ body_sat sym_lt (gvars_rule h b) T T s b).
Proof. exact (@supported_nonground). Qed.
Print Assumptions C13_supported_nonground.
