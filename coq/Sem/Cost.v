(* Cost of an answer set under #minimize / weak constraints (clingo: per priority level, the sum of the
   weights of the *set* of distinct tuples (w, p, t1..tn) whose body holds). *)
From Coq Require Import List String ZArith Bool.
From NGO Require Import Syntax.Ast Sem.Sym Sem.Sat.
Import ListNotations.
Open Scope list_scope.

Section Cost.
Variable sym_lt : sym -> sym -> Prop.

(* tuples at priority level p: weight first, then the distinguishing terms *)
Definition cost_tuples (P: program) (T: interp) (p: Z) : tupset := fun tv =>
  exists line w pr ts b s wz vs,
    In (SMin line w pr ts b) P /\
    body_sat sym_lt (vars_term w ++ vars_term pr ++ flat_map vars_term ts ++ flat_map (gvars_bodyelem) b) T T s b /\
    eval s w = Some (SNum wz) /\ eval s pr = Some (SNum p) /\ eval_list s ts = Some vs /\
    tv = SNum wz :: vs.

Definition cost_at (P: program) (T: interp) (p: Z) (c: Z) : Prop :=
  exists l, enumerates (cost_tuples P T p) l /\ c = sum_of l.

Definition same_cost (P Q: program) (T T': interp) := forall p c, cost_at P T p c <-> cost_at Q T' p c.

(* C02: same output answer sets *with* the same cost at every level *)
Definition equiv_cost (IN: string * nat -> Prop) (OUT: gatom -> Prop) (P Q: program) :=
  forall I, facts_over IN I -> forall S (k: Z -> Z -> Prop),
    (exists T, stable sym_lt P I T /\ same (restr OUT T) S /\ (forall p c, cost_at P T p c <-> k p c)) <->
    (exists T, stable sym_lt Q I T /\ same (restr OUT T) S /\ (forall p c, cost_at Q T p c <-> k p c)).
End Cost.
