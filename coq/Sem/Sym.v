(* Ground values, term evaluation and comparison. The order on symbols is a parameter: every theorem
   holds for any strict total order with #inf least, #sup greatest and numbers ordered as integers
   (clingo's concrete order, Syntax/Order.v, is one such). *)
From Coq Require Import List String ZArith Bool.
From NGO Require Import Syntax.Ast.
Import ListNotations.
Open Scope list_scope.

Definition subst := string -> sym.

Definition arith (o: binop) (a b: Z) : option Z :=
  match o with
  | BPlus => Some (a + b)%Z | BMinus => Some (a - b)%Z | BMul => Some (a * b)%Z
  | BDiv => if Z.eqb b 0 then None else Some (Z.quot a b)
  | BMod => if Z.eqb b 0 then None else Some (Z.rem a b)
  | BPow => if Z.ltb b 0 then (if Z.eqb a 0 then None else Some 0%Z) else Some (Z.pow a b)
  | BXor => Some (Z.lxor a b) | BOr => Some (Z.lor a b) | BAnd => Some (Z.land a b)
  end.

(* None = gringo's "operation undefined": the rule instance is dropped *)
Fixpoint eval (s: subst) (t: term) : option sym :=
  match t with
  | TVar x => Some (s x)
  | TSym c => Some c
  | TUn o t =>
      match eval s t with
      | Some (SNum z) =>
          match o with UMinus => Some (SNum (- z)) | UAbs => Some (SNum (Z.abs z)) | UNeg => Some (SNum (Z.lnot z)) end
      | Some (SFun n a p) => match o with UMinus => Some (SFun n a (negb p)) | _ => None end
      | _ => None
      end
  | TBin o l r =>
      match eval s l, eval s r with
      | Some (SNum a), Some (SNum b) => option_map SNum (arith o a b)
      | _, _ => None
      end
  | TInterval _ _ => None      (* intervals/pools: see DESIGN section 3, handled by ex-lining *)
  | TFun n args _ =>
      match (fix go (l: list term) : option (list sym) :=
               match l with
               | [] => Some []
               | t :: l' => match eval s t, go l' with Some v, Some vs => Some (v :: vs) | _, _ => None end
               end) args with
      | Some vs => Some (SFun n vs true)
      | None => None
      end
  | TPool _ => None
  end.

Fixpoint eval_list (s: subst) (ts: list term) : option (list sym) :=
  match ts with
  | [] => Some []
  | t :: ts' => match eval s t, eval_list s ts' with Some v, Some vs => Some (v :: vs) | _, _ => None end
  end.

Lemma eval_fun s n args e :
  eval s (TFun n args e) = match eval_list s args with Some vs => Some (SFun n vs true) | None => None end.
Proof.
  simpl. assert (E: (fix go (l: list term) : option (list sym) :=
               match l with
               | [] => Some []
               | t :: l' => match eval s t, go l' with Some v, Some vs => Some (v :: vs) | _, _ => None end
               end) args = eval_list s args).
  { induction args as [|t ts IH]; simpl; [reflexivity|]. rewrite IH. reflexivity. }
  rewrite E. reflexivity.
Qed.

Record sym_order (lt: sym -> sym -> Prop) : Prop := {
  lt_irrefl : forall a, ~ lt a a;
  lt_trans : forall a b c, lt a b -> lt b c -> lt a c;
  lt_total : forall a b, lt a b \/ a = b \/ lt b a;
  lt_num : forall x y, lt (SNum x) (SNum y) <-> (x < y)%Z;
  lt_inf : forall a, a <> SInf -> lt SInf a;
  lt_sup : forall a, a <> SSup -> lt a SSup
}.

Section Cmp.
Variable sym_lt : sym -> sym -> Prop.

Definition cmp_holds (o: cmp) (a b: sym) : Prop :=
  match o with
  | CEq => a = b
  | CNe => a <> b
  | CLt => sym_lt a b
  | CLe => sym_lt a b \/ a = b
  | CGt => sym_lt b a
  | CGe => sym_lt b a \/ a = b
  end.
End Cmp.

Definition gatom := (string * list sym)%type.
Definition interp := gatom -> Prop.
Definition subi (H T: interp) := forall a, H a -> T a.
