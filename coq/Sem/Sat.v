(* Non-ground HT semantics of the AST mirror (Abstract Gringo phrased in here-and-there, DESIGN section 3).
   Interval- and pool-free terms (others evaluate to None = instance dropped).  *)
From Coq Require Import List String ZArith Bool.
From NGO Require Import Syntax.Ast Sem.Sym.
Import ListNotations.
Open Scope list_scope.

Section Sat.
Variable sym_lt : sym -> sym -> Prop.
Notation cmp_holds := (cmp_holds sym_lt).

Definition agree_on (G: list string) (s t: subst) := forall x, In x G -> s x = t x.

(* comparison chain t0 o1 t1 o2 t2 ...: defined iff every term is defined; true iff all links hold *)
Fixpoint chain_holds (s: subst) (v: sym) (gs: list guard) : Prop :=
  match gs with
  | [] => True
  | (o, t) :: gs' => match eval s t with Some w => cmp_holds o v w /\ chain_holds s w gs' | None => False end
  end.
Fixpoint chain_defined (s: subst) (gs: list guard) : Prop :=
  match gs with [] => True | (_, t) :: gs' => eval s t <> None /\ chain_defined s gs' end.
Definition cmp_def s t gs := eval s t <> None /\ chain_defined s gs.
Definition cmp_true s t gs := match eval s t with Some v => chain_holds s v gs | None => False end.

Definition apply_sign (sg: sign) (pH pT: Prop) : Prop :=
  match sg with NoSign => pH | Neg => ~ pT | NegNeg => pT end.

(* aggregates over a (possibly infinite) set of tuples; first component = weight *)
Definition tupset := list sym -> Prop.
Definition weight (tv: list sym) : Z := match tv with SNum z :: _ => z | _ => 0%Z end.
Definition enumerates (S: tupset) (l: list (list sym)) := NoDup l /\ forall tv, In tv l <-> S tv.
Definition sum_of (l: list (list sym)) := fold_right (fun tv acc => (weight tv + acc)%Z) 0%Z l.
Definition sumplus_of (l: list (list sym)) := fold_right (fun tv acc => (Z.max 0 (weight tv) + acc)%Z) 0%Z l.
Definition is_min (S: tupset) (v: sym) :=
  (exists tv, S tv /\ hd_error tv = Some v) /\ forall tv w, S tv -> hd_error tv = Some w -> v = w \/ sym_lt v w.
Definition is_max (S: tupset) (v: sym) :=
  (exists tv, S tv /\ hd_error tv = Some v) /\ forall tv w, S tv -> hd_error tv = Some w -> v = w \/ sym_lt w v.
Definition agg_value (f: aggfun) (S: tupset) (v: sym) : Prop :=
  match f with
  | FCount => exists l, enumerates S l /\ v = SNum (Z.of_nat (List.length l))
  | FSum => exists l, enumerates S l /\ v = SNum (sum_of l)
  | FSumPlus => exists l, enumerates S l /\ v = SNum (sumplus_of l)
  | FMin => is_min S v \/ ((forall tv, ~ S tv) /\ v = SSup)
  | FMax => is_max S v \/ ((forall tv, ~ S tv) /\ v = SInf)
  end.
Definition guard_ok (s: subst) (left: bool) (g: option guard) (v: sym) : Prop :=
  match g with
  | None => True
  | Some (o, t) => match eval s t with
                   | Some w => if left then cmp_holds o w v else cmp_holds o v w
                   | None => False end
  end.
Definition agg_holds s lg f rg (S: tupset) := exists v, agg_value f S v /\ guard_ok s true lg v /\ guard_ok s false rg v.

Definition sym_atom_sat (H T: interp) (s: subst) (sg: sign) (t: term) : Prop :=
  match eval s t with
  | Some (SFun n vs true) => apply_sign sg (H (n, vs)) (T (n, vs))
  | _ => False   (* undefined or not an atom: instance dropped *)
  end.

(* G = global variables of the enclosing statement *)
Fixpoint atom_sat (G: list string) (H T: interp) (s: subst) (sg: sign) (a: atom) {struct a} : Prop :=
  match a with
  | ASym t => sym_atom_sat H T s sg t
  | ACmp t gs => cmp_def s t gs /\ apply_sign sg (cmp_true s t gs) (cmp_true s t gs)
  | ABool b => apply_sign sg (b = true) (b = true)
  | ABodyAgg lg f es rg =>
      let tuples (X: interp) : tupset := fun tv =>
        (fix ex_elem (es: list (list term * list lit)) : Prop :=
           match es with
           | [] => False
           | e :: es' =>
               (exists th, agree_on G s th /\ eval_list th (fst e) = Some tv /\
                  (fix all (cs: list lit) : Prop :=
                     match cs with [] => True | c :: cs' => lit_sat G X T th c /\ all cs' end) (snd e))
               \/ ex_elem es'
           end) es in
      apply_sign sg (agg_holds s lg f rg (tuples H) /\ agg_holds s lg f rg (tuples T))
                    (agg_holds s lg f rg (tuples T))
  | AAgg _ _ _ => False    (* old-style aggregates: given meaning through their #sum translation *)
  | ATheory _ => False
  end
with lit_sat (G: list string) (H T: interp) (s: subst) (l: lit) {struct l} : Prop :=
  match l with Lit sg a => atom_sat G H T s sg a end.

Definition lits_sat G H T s (cs: list lit) := Forall (lit_sat G H T s) cs.

Definition bodyelem_sat G (H T: interp) (s: subst) (b: bodyelem) : Prop :=
  match b with
  | BLit l => lit_sat G H T s l
  | BCond l c => forall th, agree_on G s th ->
       (lits_sat G H T th c -> lit_sat G H T th l) /\ (lits_sat G T T th c -> lit_sat G T T th l)
  end.
Definition body_sat G H T s (b: list bodyelem) := Forall (bodyelem_sat G H T s) b.

(* heads *)
Definition choice_elems_ok G (H T: interp) (s: subst) (es: list condlit) : Prop :=
  forall e th, In e es -> agree_on G s th -> lits_sat G H T th (snd e) ->
     lit_sat G H T th (fst e) \/ ~ lit_sat G T T th (fst e).
(* tuples contributed by a choice {l : c} for its bounds: one tuple per satisfied ground atom *)
Definition choice_tuples G (X T: interp) (s: subst) (es: list condlit) : tupset := fun tv =>
  exists e th n args ext vs, In e es /\ agree_on G s th /\ fst e = Lit NoSign (ASym (TFun n args ext)) /\
     eval_list th args = Some vs /\ tv = [SFun n vs true] /\ lits_sat G X T th (snd e) /\ X (n, vs).
Definition headagg_tuples G (X T: interp) (s: subst) (es: list helem) : tupset := fun tv =>
  exists e th, In e es /\ agree_on G s th /\ eval_list th (fst e) = Some tv /\
     lits_sat G X T th (snd (snd e)) /\ lit_sat G X T th (fst (snd e)).

Definition head_sat G (H T: interp) (s: subst) (h: head) : Prop :=
  match h with
  | HLit l => lit_sat G H T s l
  | HDisj es => exists e th, In e es /\ agree_on G s th /\ lits_sat G H T th (snd e) /\ lit_sat G H T th (fst e)
  | HAgg lg es rg =>
      choice_elems_ok G H T s es /\
      agg_holds s lg FCount rg (choice_tuples G T T s es)
  | HHeadAgg lg f es rg =>
      choice_elems_ok G H T s (map snd es) /\
      agg_holds s lg f rg (headagg_tuples G T T s es)
  | HTheory _ => False
  end.

Definition rule_sat (G: list string) (H T: interp) (h: head) (b: list bodyelem) : Prop :=
  forall s, (body_sat G H T s b -> head_sat G H T s h) /\ (body_sat G T T s b -> head_sat G T T s h).

(* ---- global variables of a statement (gringo): outside aggregate elements and conditional literals ---- *)
Definition gvars_lit (l: lit) : list string :=
  match l with
  | Lit _ (ASym t) => vars_term t
  | Lit _ (ACmp t gs) => vars_term t ++ flat_map vars_guard gs
  | Lit _ (ABodyAgg lg _ _ rg) => vars_oguard lg ++ vars_oguard rg
  | Lit _ (AAgg lg _ rg) => vars_oguard lg ++ vars_oguard rg
  | _ => []
  end.
Definition gvars_bodyelem (b: bodyelem) := match b with BLit l => gvars_lit l | BCond _ _ => [] end.
Definition gvars_head (h: head) : list string :=
  match h with
  | HLit l => gvars_lit l
  | HDisj _ => []
  | HAgg lg _ rg => vars_oguard lg ++ vars_oguard rg
  | HHeadAgg lg _ _ rg => vars_oguard lg ++ vars_oguard rg
  | HTheory _ => []
  end.
Definition gvars_rule (h: head) (b: list bodyelem) := gvars_head h ++ flat_map gvars_bodyelem b.

(* statements that carry meaning for answer sets: rules. Optimisation statements carry cost (Cost.v);
   #show etc. do not change the set of stable models. *)
Definition stmt_sat (H T: interp) (st: stmt) : Prop :=
  match st with
  | SRule _ h b => rule_sat (gvars_rule h b) H T h b
  | _ => True
  end.
Definition prog_sat (H T: interp) (P: program) := forall st, In st P -> stmt_sat H T st.

(* facts of an instance *)
Definition facts_sat (H: interp) (I: list gatom) := forall a, In a I -> H a.

Definition stable (P: program) (I: list gatom) (T: interp) : Prop :=
  (prog_sat T T P /\ facts_sat T I) /\
  forall H, subi H T -> prog_sat H T P -> facts_sat H I -> subi T H.

(* ---- the relations the properties use ---- *)
Definition restr (V: gatom -> Prop) (T: interp) : interp := fun a => V a /\ T a.
Definition same (A B: interp) := forall a, A a <-> B a.
Definition facts_over (IN: string * nat -> Prop) (I: list gatom) := forall a, In a I -> IN (fst a, List.length (snd a)).

(* same answer sets on every predicate, under facts over any predicate (C05) *)
Definition equiv_all (P Q: program) := forall I T, stable P I T <-> stable Q I T.
(* same answer sets restricted to OUT for every instance over IN (C01) *)
Definition equiv_out (IN: string * nat -> Prop) (OUT: gatom -> Prop) (P Q: program) :=
  forall I, facts_over IN I -> forall S,
    (exists T, stable P I T /\ same (restr OUT T) S) <-> (exists T, stable Q I T /\ same (restr OUT T) S).
(* conservative extension: restriction to V is a bijection AS(Q,I) -> AS(P,I) (C06, C10-C13, C16) *)
Definition cons_ext (IN: string * nat -> Prop) (V: gatom -> Prop) (P Q: program) :=
  forall I, facts_over IN I ->
    (forall T, stable P I T -> exists T', stable Q I T' /\ same (restr V T') T) /\
    (forall T', stable Q I T' -> stable P I (restr V T')) /\
    (forall T1 T2, stable Q I T1 -> stable Q I T2 -> same (restr V T1) (restr V T2) -> same T1 T2).
End Sat.
