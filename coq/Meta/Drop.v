(* G4: rules that define atoms which no other rule, constraint or objective can observe may be dropped.
   C = kept rules (their satisfaction ignores the dead atoms), D = dropped rules (heads: a dead atom, plain
   or choice; bodies ignore dead atoms). Restriction to the live atoms maps the stable models of C u D onto
   those of C. Axiom used: Classical_Prop.classic. *)
From Coq Require Import List Classical.
Import ListNotations.

Section Drop.
Variable atom : Type.
Variable dead : atom -> Prop.
Definition interp := atom -> Prop.
Definition subi (H T: interp) := forall a, H a -> T a.
Definition agree_live (X Y: interp) := forall a, ~ dead a -> (X a <-> Y a).

Variable F : Type.
Variable fsat : interp -> interp -> F -> Prop.
Hypothesis fsat_live : forall H T H' T' f, agree_live H H' -> agree_live T T' -> (fsat H T f <-> fsat H' T' f).
Hypothesis fsat_persist : forall H T f, subi H T -> fsat H T f -> fsat T T f.

Definition bsat H T (b: list F) := Forall (fsat H T) b.

(* kept rules: abstract, only required to ignore dead atoms *)
Variable crule : Type.
Variable csat : interp -> interp -> crule -> Prop.
Hypothesis csat_live : forall H T H' T' r, agree_live H H' -> agree_live T T' -> (csat H T r <-> csat H' T' r).
Variable C : crule -> Prop.

(* dropped rules *)
Inductive dhead := DAtom (a: atom) | DChoice (a: atom).
Definition dhead_atom (h: dhead) := match h with DAtom a | DChoice a => a end.
Record drule := { dh: dhead; db: list F }.
Variable D : drule -> Prop.
Hypothesis D_dead : forall r, D r -> dead (dhead_atom (dh r)).

Definition dhsat (H T: interp) (h: dhead) :=
  match h with DAtom a => H a | DChoice a => H a \/ ~ T a end.
Definition dsat H T (r: drule) := (bsat H T (db r) -> dhsat H T (dh r)) /\ (bsat T T (db r) -> dhsat T T (dh r)).

Definition sat_full H T := (forall r, C r -> csat H T r) /\ (forall r, D r -> dsat H T r).
Definition sat_kept H T := forall r, C r -> csat H T r.
Definition stable_full T := sat_full T T /\ forall H, subi H T -> sat_full H T -> subi T H.
Definition stable_kept T := sat_kept T T /\ forall H, subi H T -> sat_kept H T -> subi T H.

Definition live (T: interp) : interp := fun a => ~ dead a /\ T a.

Lemma agree_live_live T : agree_live (live T) T.
Proof. intros a Na. unfold live. tauto. Qed.
Lemma agree_refl T : agree_live T T.
Proof. intros a _. tauto. Qed.
Lemma agree_sym X Y : agree_live X Y -> agree_live Y X.
Proof. intros A a Na. symmetry. apply A. exact Na. Qed.

Lemma bsat_live H T H' T' b : agree_live H H' -> agree_live T T' -> (bsat H T b <-> bsat H' T' b).
Proof.
  intros A B. unfold bsat. rewrite !Forall_forall.
  split; intros X f Hf; specialize (X f Hf); apply (fsat_live H T H' T'); assumption.
Qed.
Lemma bsat_persist H T b : subi H T -> bsat H T b -> bsat T T b.
Proof. intros S B. unfold bsat in *. rewrite Forall_forall in *. intros f Hf. eapply fsat_persist; eauto. Qed.

Theorem drop_fwd T : stable_full T -> stable_kept (live T).
Proof.
  intros [[MC MD] Min]. split.
  - intros r Cr. apply (csat_live (live T) (live T) T T); try apply agree_live_live. apply MC. exact Cr.
  - intros H0 S PS.
    set (H := fun a => H0 a \/ (dead a /\ T a)).
    assert (AH: agree_live H H0).
    { intros a Na. unfold H. split; [intros [Ha|[Da _]]; [exact Ha | contradiction] | intro Ha; left; exact Ha]. }
    assert (SH: subi H T).
    { intros a [Ha|[_ Ta]]; [destruct (S a Ha) as [_ Ta]; exact Ta | exact Ta]. }
    assert (SF: sat_full H T).
    { split.
      - intros r Cr. apply (csat_live H T H0 (live T)); [exact AH | apply agree_sym, agree_live_live | apply PS; exact Cr].
      - intros r Dr. destruct (MD r Dr) as [_ M2]. split; [|exact M2].
        intro B. pose proof (M2 (bsat_persist _ _ _ SH B)) as Hd.
        pose proof (D_dead r Dr) as Dd. destruct (dh r) as [a|a]; simpl in *.
        + right. split; assumption.
        + destruct Hd as [Ta|NTa]; [left; right; split; assumption | right; exact NTa]. }
    intros a [Na Ta]. destruct (Min _ SH SF a Ta) as [Ha|[Da _]]; [exact Ha | contradiction].
Qed.

Definition extend (T0: interp) : interp :=
  fun a => T0 a \/ (dead a /\ exists r, D r /\ dh r = DAtom a /\ bsat T0 T0 (db r)).

Theorem drop_bwd (T0: interp) : (forall a, T0 a -> ~ dead a) -> stable_kept T0 ->
  stable_full (extend T0) /\ forall a, live (extend T0) a <-> T0 a.
Proof.
  intros ND [M Min].
  assert (AE: agree_live (extend T0) T0).
  { intros a Na. unfold extend. split; [intros [Ta|[Da _]]; [exact Ta | contradiction] | intro Ta; left; exact Ta]. }
  split.
  - split.
    + split.
      * intros r Cr. apply (csat_live (extend T0) (extend T0) T0 T0); try exact AE. apply M; exact Cr.
      * intros r Dr.
        assert (X: bsat (extend T0) (extend T0) (db r) -> dhsat (extend T0) (extend T0) (dh r)).
        { intro B. pose proof (D_dead r Dr) as Dd. destruct (dh r) as [a|a] eqn:Eh; simpl in *.
          - right. split; [exact Dd|]. exists r. split; [exact Dr|]. split; [exact Eh|].
            apply (bsat_live (extend T0) (extend T0) T0 T0); assumption.
          - apply classic. }
        split; exact X.
    + intros H S [PC PD].
      set (H0 := live H).
      assert (S0: subi H0 T0).
      { intros a [Na Ha]. destruct (S a Ha) as [Ta|[Da _]]; [exact Ta | contradiction]. }
      assert (PS0: sat_kept H0 T0).
      { intros r Cr. apply (csat_live H0 T0 H (extend T0)); [apply agree_live_live | apply agree_sym; exact AE | apply PC; exact Cr]. }
      pose proof (Min _ S0 PS0) as TS.
      assert (AH: agree_live H T0).
      { intros a Na. split; [intro Ha; apply S0; split; assumption | intro Ta; destruct (TS a Ta) as [_ Ha]; exact Ha]. }
      intros a [Ta|[Da [r [Dr [Eh B]]]]].
      * destruct (TS a Ta) as [_ Ha]. exact Ha.
      * destruct (PD r Dr) as [P1 _]. rewrite Eh in P1. simpl in P1. apply P1.
        apply (bsat_live H (extend T0) T0 T0); assumption.
  - intro a. unfold live, extend. split.
    + intros [Na [Ta|[Da _]]]; [exact Ta | contradiction].
    + intro Ta. split; [apply ND; exact Ta | left; exact Ta].
Qed.
End Drop.
