(* G2: supportedness and the cleanup meta-theorem, over abstract ground programs.
   Ported from the design-phase prototype. Axiom used: Classical_Prop.classic. *)
From Coq Require Import List Classical.
Import ListNotations.

Section CleanupG.
Variable atom : Type.
Definition interp := atom -> Prop.
Definition subi (H T: interp) := forall a, H a -> T a.

Variable F : Type.
Variable fsat : interp -> interp -> F -> Prop.
Variable pos : atom -> F.
Hypothesis fsat_pos : forall H T a, fsat H T (pos a) <-> H a.
Hypothesis fsat_persist : forall H T f, subi H T -> fsat H T f -> fsat T T f.
(* Phi_mono *)
Hypothesis fsat_mono : forall H H' T f, subi H H' -> fsat H T f -> fsat H' T f.

Lemma pos_elim H T a : fsat H T (pos a) -> H a.
Proof. apply fsat_pos. Qed.

Inductive head := HAtom (a: atom) | HChoice (a: atom) | HDisj (l: list atom) | HFalse.
Record rule := { hd : head; bd : list F }.

Definition hsat (H T: interp) (h: head) : Prop :=
  match h with
  | HAtom a => H a
  | HChoice a => H a \/ ~ T a
  | HDisj l => exists a, In a l /\ H a
  | HFalse => False
  end.
Definition head_atom (h: head) (a: atom) : Prop :=
  match h with HAtom b => a = b | HChoice b => a = b | HDisj l => In a l | HFalse => False end.

Definition bsat H T (b: list F) := forall f, In f b -> fsat H T f.
Definition rsat (H T: interp) (r: rule) : Prop :=
  (bsat H T (bd r) -> hsat H T (hd r)) /\ (bsat T T (bd r) -> hsat T T (hd r)).
Definition prog := rule -> Prop.
Definition psat H T (P: prog) := forall r, P r -> rsat H T r.
Definition stable (P: prog) (T: interp) :=
  psat T T P /\ forall H, subi H T -> psat H T P -> subi T H.

Lemma bsat_persist H T b : subi H T -> bsat H T b -> bsat T T b.
Proof. intros S B f Hf. eapply fsat_persist; eauto. Qed.
Lemma bsat_mono H H' T b : subi H H' -> bsat H T b -> bsat H' T b.
Proof. intros S B f Hf. eapply fsat_mono; eauto. Qed.

Lemma supported P T a : stable P T -> T a ->
  exists r, P r /\ head_atom (hd r) a /\ bsat T T (bd r).
Proof.
  intros [Hm Hmin] Ta. apply NNPP. intro Hno.
  set (H := fun b => T b /\ b <> a).
  assert (S: subi H T) by (intros b [? ?]; auto).
  assert (PS: psat H T P).
  { intros r Pr. destruct (Hm r Pr) as [Hm1 Hm2]. split; auto. intros Hb.
    pose proof (bsat_persist _ _ _ S Hb) as Hb'. specialize (Hm1 Hb').
    destruct (hd r) eqn:E; simpl in *.
    - split; auto. intro; subst a0. apply Hno. exists r. rewrite E. simpl. auto.
    - destruct Hm1 as [Ta0|]; auto. destruct (classic (a0 = a)).
      + subst. exfalso. apply Hno. exists r. rewrite E; simpl; auto.
      + left. split; auto.
    - destruct Hm1 as [b [Hb1 Hb2]]. exists b. split; auto. split; auto. intro; subst b.
      apply Hno. exists r. rewrite E; simpl; auto.
    - auto. }
  specialize (Hmin H S PS a Ta). destruct Hmin as [_ Hne]. apply Hne; reflexivity.
Qed.

(* p implies l within n closure steps: every rule that can derive p has l in its body,
   or a positive atom that implies l *)
Fixpoint impn (P: prog) (n: nat) (p: atom) (l: F) : Prop :=
  match n with
  | O => forall r, P r -> head_atom (hd r) p -> In l (bd r)
  | S n' => forall r, P r -> head_atom (hd r) p -> In l (bd r) \/ exists q, In (pos q) (bd r) /\ impn P n' q l
  end.
Definition imp P p l := exists n, impn P n p l.

Definition shortened (P: prog) (r r': rule) : Prop :=
  hd r = hd r' /\ (forall f, In f (bd r') -> In f (bd r)) /\
  (forall l, In l (bd r) -> In l (bd r') \/ exists p, In (pos p) (bd r') /\ imp P p l).

Variables P P' : prog.
Hypothesis fwd : forall r, P r -> exists r', P' r' /\ shortened P r r'.
Hypothesis bwd : forall r', P' r' -> exists r, P r /\ shortened P r r'.

Lemma impA T n : stable P T -> forall p l, T p -> impn P n p l -> fsat T T l.
Proof.
  intros St. induction n as [|n IH]; intros p l Tp I;
  destruct (supported _ _ _ St Tp) as [r [Pr [Ha B]]]; simpl in I.
  - apply B. eauto.
  - destruct (I r Pr Ha) as [Hin|[q [Hq Hi]]].
    + apply B; auto.
    + apply (IH q); auto. eapply pos_elim. apply B. auto.
Qed.

Theorem cleanup_fwd T : stable P T -> stable P' T.
Proof.
  intros St. pose proof St as [Hm Hmin]. split.
  - intros r' Pr'. destruct (bwd r' Pr') as [r [Pr [Eh [Sub Imp]]]].
    assert (X: bsat T T (bd r') -> hsat T T (hd r')).
    { intro B. rewrite <- Eh. apply (Hm r Pr). intros l Hl.
      destruct (Imp l Hl) as [Hin|[p [Hp [n Hi]]]]; auto.
      eapply impA; eauto. eapply pos_elim. apply B; auto. }
    split; auto.
  - intros H S PS. apply Hmin; auto.
    intros r Pr. destruct (fwd r Pr) as [r' [Pr' [Eh [Sub Imp]]]].
    destruct (PS r' Pr') as [A B]. unfold rsat. rewrite Eh. split; intro Bd.
    + apply A. intros f Hf. apply Bd. auto.
    + apply B. intros f Hf. apply Bd. auto.
Qed.

(* backward direction: greatest self-supported subset of H *)
Definition selfsup (T X: interp) := forall a, X a -> exists r, P r /\ head_atom (hd r) a /\ bsat X T (bd r).
Definition Hstar (H T: interp) : interp := fun a => exists X, subi X H /\ selfsup T X /\ X a.

Lemma Hstar_sub (H T: interp) : subi (Hstar H T) H.
Proof. intros a [X [S [_ Xa]]]. auto. Qed.
Lemma Hstar_selfsup (H T: interp) : selfsup T (Hstar H T).
Proof.
  intros a [X [S [SS Xa]]]. destruct (SS a Xa) as [r [Pr [Ha B]]].
  exists r. split; auto. split; auto. eapply bsat_mono; [|exact B].
  intros b Xb. exists X. auto.
Qed.
Lemma Hstar_add (H T: interp) a r : H a -> P r -> head_atom (hd r) a -> bsat (Hstar H T) T (bd r) -> Hstar H T a.
Proof.
  intros Ha Pr Hh B.
  exists (fun b => Hstar H T b \/ b = a). split; [|split].
  - intros b [Hb| ->]; auto. apply (Hstar_sub H T); auto.
  - intros b [Hb| ->].
    + destruct (Hstar_selfsup H T b Hb) as [r0 [Pr0 [Ha0 B0]]]. exists r0. split; auto. split; auto.
      eapply bsat_mono; [|exact B0]. intros c Hc; left; auto.
    + exists r. split; auto. split; auto. eapply bsat_mono; [|exact B]. intros c Hc; left; auto.
  - right; reflexivity.
Qed.

Lemma impB (H T: interp) n : forall p l, Hstar H T p -> impn P n p l -> fsat (Hstar H T) T l.
Proof.
  induction n as [|n IH]; intros p l Hp I;
  destruct (Hstar_selfsup H T p Hp) as [r [Pr [Ha B]]]; simpl in I.
  - apply B; eauto.
  - destruct (I r Pr Ha) as [Hin|[q [Hq Hi]]].
    + apply B; auto.
    + apply (IH q); auto. eapply pos_elim. apply B; auto.
Qed.

Theorem cleanup_bwd T : stable P' T -> stable P T.
Proof.
  intros [Hm Hmin]. split.
  - intros r Pr. destruct (fwd r Pr) as [r' [Pr' [Eh [Sub Imp]]]].
    assert (X: bsat T T (bd r) -> hsat T T (hd r)).
    { intro B. rewrite Eh. apply (Hm r' Pr'). intros f Hf. apply B; auto. }
    split; auto.
  - intros H S PS.
    assert (S1: subi (Hstar H T) T) by (intros a Ha; apply S; apply (Hstar_sub H T); auto).
    assert (Q: psat (Hstar H T) T P').
    { intros r' Pr'. split; [|apply (Hm r' Pr')].
      intro B. destruct (bwd r' Pr') as [r [Pr [Eh [Sub Imp]]]].
      assert (Br: bsat (Hstar H T) T (bd r)).
      { intros l Hl. destruct (Imp l Hl) as [Hin|[p [Hp [n Hi]]]]; auto.
        eapply impB; eauto. eapply pos_elim. apply B; auto. }
      assert (BH: bsat H T (bd r)) by (eapply bsat_mono; [apply Hstar_sub|exact Br]).
      destruct (PS r Pr) as [A _]. specialize (A BH). rewrite <- Eh.
      destruct (hd r) eqn:E; simpl in *.
      - eapply Hstar_add; eauto. rewrite E; simpl; auto.
      - destruct A as [Ha|]; auto. left. eapply Hstar_add; eauto. rewrite E; simpl; auto.
      - destruct A as [b [Hb1 Hb2]]. exists b. split; auto. eapply Hstar_add; eauto. rewrite E; simpl; auto.
      - auto. }
    intros a Ta. apply (Hstar_sub H T). apply (Hmin _ S1 Q a Ta).
Qed.
End CleanupG.
