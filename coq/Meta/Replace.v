(* G1: programs with the same HT-models have the same stable models (the easy direction of strong
   equivalence, Lifschitz-Pearce-Valverde), for an arbitrary notion of rule. *)
From Coq Require Import List.
Import ListNotations.

Section Replace.
Variable atom : Type.
Definition interp := atom -> Prop.
Definition subi (H T: interp) := forall a, H a -> T a.

Variable rule : Type.
Variable rsat : interp -> interp -> rule -> Prop.
Definition prog := rule -> Prop.
Definition psat (H T: interp) (P: prog) := forall r, P r -> rsat H T r.
Definition stable (P: prog) (T: interp) := psat T T P /\ forall H, subi H T -> psat H T P -> subi T H.
Definition union (P Q: prog) : prog := fun r => P r \/ Q r.

Lemma subi_refl T : subi T T. Proof. intros a Ha; exact Ha. Qed.

Theorem replace_sound (P Q: prog) :
  (forall H T, subi H T -> (psat H T P <-> psat H T Q)) -> forall T, stable P T <-> stable Q T.
Proof.
  intros E T. unfold stable. split; intros [M Min]; split.
  - apply (E T T (subi_refl T)); exact M.
  - intros H S PS. apply Min; [exact S|]. apply (E H T S); exact PS.
  - apply (E T T (subi_refl T)); exact M.
  - intros H S PS. apply Min; [exact S|]. apply (E H T S); exact PS.
Qed.

Lemma psat_union H T P Q : psat H T (union P Q) <-> psat H T P /\ psat H T Q.
Proof.
  unfold psat, union. split.
  - intros A; split; intros r Hr; apply A; [left|right]; exact Hr.
  - intros [A B] r [Hr|Hr]; [apply A | apply B]; exact Hr.
Qed.

(* exchanging a sub-program in any context *)
Theorem replace_in_context (C R R': prog) :
  (forall H T, subi H T -> (psat H T R <-> psat H T R')) ->
  forall T, stable (union C R) T <-> stable (union C R') T.
Proof.
  intros E. apply replace_sound. intros H T S. rewrite !psat_union. specialize (E H T S). tauto.
Qed.

(* a single rule exchanged for a list of rules *)
Definition single (r: rule) : prog := fun x => x = r.
Definition of_list (l: list rule) : prog := fun x => In x l.
Theorem replace_rule (C: prog) r rs :
  (forall H T, subi H T -> (rsat H T r <-> Forall (rsat H T) rs)) ->
  forall T, stable (union C (single r)) T <-> stable (union C (of_list rs)) T.
Proof.
  intros E. apply replace_in_context. intros H T S. unfold psat, single, of_list.
  specialize (E H T S). rewrite Forall_forall in E. split.
  - intros A x Hx. apply (proj1 E); [apply A; reflexivity | exact Hx].
  - intros A x Hx. subst x. apply (proj2 E). exact A.
Qed.
End Replace.
