(* G6: order (chain) encodings over a finite, strictly sorted domain D (C12, C13, C20).
   Everything is stated at the level of the extensions of the auxiliary predicates in one interpretation:
   "closed" = the generated rules are satisfied, "supported" = every auxiliary atom has a rule whose body holds
   (true in every stable model by Meta.Cleanup.supported).  No axioms. *)
From Coq Require Import List Arith ZArith Lia Sorted.
Import ListNotations.

Section Chain.
Variable X : Type.
Variable lt : X -> X -> Prop.
Hypothesis lt_irrefl : forall a, ~ lt a a.
Hypothesis lt_trans : forall a b c, lt a b -> lt b c -> lt a c.

Variable D : list X.
Hypothesis D_sorted : StronglySorted lt D.

Definition consecutive (p n: X) := exists l1 l2, D = l1 ++ p :: n :: l2.

Lemma lt_asym a b : lt a b -> lt b a -> False.
Proof. intros A B. exact (lt_irrefl a (lt_trans _ _ _ A B)). Qed.

Lemma sorted_app_lt (l1 l2: list X) x y : StronglySorted lt (l1 ++ x :: l2) -> In y l1 -> lt y x.
Proof.
  induction l1 as [|a l1 IH]; intros S Hy; [contradiction|].
  simpl in S. inversion S as [|? ? S' F]; subst. destruct Hy as [<-|Hy].
  - rewrite Forall_forall in F. apply F. apply in_or_app. right. left. reflexivity.
  - apply IH; assumption.
Qed.
Lemma sorted_app_gt (l1 l2: list X) x y : StronglySorted lt (l1 ++ x :: l2) -> In y l2 -> lt x y.
Proof.
  induction l1 as [|a l1 IH]; intros S Hy.
  - simpl in S. inversion S as [|? ? S' F]; subst. rewrite Forall_forall in F. apply F. exact Hy.
  - simpl in S. inversion S; subst. apply IH; assumption.
Qed.

Lemma sorted_nodup_gen (l: list X) : StronglySorted lt l -> NoDup l.
Proof.
  induction 1 as [|a l S IHs F]; constructor; [|exact IHs].
  intro Hin. rewrite Forall_forall in F. exact (lt_irrefl a (F a Hin)).
Qed.
Lemma D_nodup : NoDup D.
Proof. apply sorted_nodup_gen. exact D_sorted. Qed.

Lemma nodup_split_unique (v: X) : forall (l1 l2 k1 k2: list X),
  NoDup (l1 ++ v :: l2) -> l1 ++ v :: l2 = k1 ++ v :: k2 -> l1 = k1 /\ l2 = k2.
Proof.
  induction l1 as [|a l1 IHl]; intros l2 k1 k2 ND E.
  - destruct k1 as [|b k1]; simpl in E.
    + injection E as E'. split; [reflexivity | exact E'].
    + exfalso. injection E as Evb E'. simpl in ND. apply NoDup_cons_iff in ND. destruct ND as [N _].
      apply N. rewrite E'. apply in_or_app. right. left. reflexivity.
  - destruct k1 as [|b k1]; simpl in E.
    + exfalso. injection E as Eav E'. simpl in ND. apply NoDup_cons_iff in ND. destruct ND as [N _].
      apply N. rewrite Eav. apply in_or_app. right. left. reflexivity.
    + injection E as Eab E'. simpl in ND. apply NoDup_cons_iff in ND. destruct ND as [_ ND'].
      destruct (IHl l2 k1 k2 ND' E') as [E1 E2]. rewrite Eab, E1, E2. split; reflexivity.
Qed.

Lemma consecutive_facts p n : consecutive p n ->
  In p D /\ In n D /\ lt p n /\ forall b, In b D -> lt p b -> lt b n -> False.
Proof.
  intros [l1 [l2 E]]. split; [|split; [|split]].
  - rewrite E. apply in_or_app. right. left. reflexivity.
  - rewrite E. apply in_or_app. right. right. left. reflexivity.
  - apply (sorted_app_gt l1 (n :: l2) p n); [rewrite <- E; exact D_sorted | left; reflexivity].
  - intros b Hb Lpb Lbn. rewrite E in Hb. apply in_app_or in Hb. destruct Hb as [Hb|[<-|[<-|Hb]]].
    + apply (lt_asym p b Lpb). apply (sorted_app_lt l1 (n :: l2) p b); [rewrite <- E; exact D_sorted | exact Hb].
    + exact (lt_irrefl _ Lpb).
    + exact (lt_irrefl _ Lbn).
    + apply (lt_asym b n Lbn).
      apply (sorted_app_gt (l1 ++ [p]) l2 n b); [rewrite <- app_assoc; simpl; rewrite <- E; exact D_sorted | exact Hb].
Qed.

Lemma consecutive_intro p n : In p D -> In n D -> lt p n -> (forall b, In b D -> lt p b -> lt b n -> False) -> consecutive p n.
Proof.
  intros Hp Hn L Nb. destruct (in_split p D Hp) as [l1 [rest E]].
  assert (Hn': In n rest).
  { rewrite E in Hn. apply in_app_or in Hn. destruct Hn as [Hn|[<-|Hn]]; [|exfalso; exact (lt_irrefl _ L)|exact Hn].
    exfalso. apply (lt_asym p n L). apply (sorted_app_lt l1 rest p n); [rewrite <- E; exact D_sorted | exact Hn]. }
  destruct rest as [|m l2]; [contradiction|].
  exists l1, l2. destruct Hn' as [->|Hn']; [exact E|].
  exfalso. apply (Nb m).
  - rewrite E. apply in_or_app. right. right. left. reflexivity.
  - apply (sorted_app_gt l1 (m :: l2) p m); [rewrite <- E; exact D_sorted | left; reflexivity].
  - apply (sorted_app_gt (l1 ++ [p]) l2 m n); [rewrite <- app_assoc; simpl; rewrite <- E; exact D_sorted | exact Hn'].
Qed.

(* ---- the successor predicate (C20) ---- *)
Section Next.
Variable nxt : X -> X -> Prop.
Definition starts (p: X) := hd_error D = Some p \/ exists q, nxt q p.
Hypothesis nxt_closed : forall p n, starts p -> In n D -> lt p n ->
  (forall b, In b D -> lt p b -> lt b n -> False) -> nxt p n.
Hypothesis nxt_supported : forall p n, nxt p n ->
  starts p /\ In n D /\ lt p n /\ (forall b, In b D -> lt p b -> lt b n -> False).

Lemma nxt_complete : forall l1 p n l2, D = l1 ++ p :: n :: l2 -> nxt p n.
Proof.
  induction l1 as [|q l1 IH] using rev_ind; intros p n l2 E.
  - destruct (consecutive_facts p n (ex_intro _ [] (ex_intro _ l2 E))) as [_ [Hn [L Nb]]].
    apply nxt_closed; [left; rewrite E; reflexivity | exact Hn | exact L | exact Nb].
  - rewrite <- app_assoc in E. simpl in E.
    pose proof (IH q p (n :: l2) E) as Nqp.
    assert (C: consecutive p n) by (exists (l1 ++ [q]), l2; rewrite <- app_assoc; exact E).
    destruct (consecutive_facts p n C) as [_ [Hn [L Nb]]].
    apply nxt_closed; [right; exists q; exact Nqp | exact Hn | exact L | exact Nb].
Qed.

Theorem next_exact : forall p n, nxt p n <-> consecutive p n.
Proof.
  intros p n. split.
  - intro N. destruct (nxt_supported p n N) as [St [Hn [L Nb]]].
    apply consecutive_intro; [|exact Hn|exact L|exact Nb].
    destruct St as [Hh|[q Nq]].
    + destruct D as [|d r]; [discriminate|]. injection Hh as <-. left. reflexivity.
    + destruct (nxt_supported q p Nq) as [_ [Hp _]]. exact Hp.
  - intros [l1 [l2 E]]. exact (nxt_complete l1 p n l2 E).
Qed.
End Next.

(* ---- the chain predicate for #max (down-closure of the element values); #min is the dual ---- *)
Section ChainMax.
Variable elem : X -> Prop.
Variable chain : X -> Prop.
Hypothesis elem_dom : forall v, elem v -> In v D.
Hypothesis chain_base : forall v, elem v -> chain v.
Hypothesis chain_step : forall p n, chain n -> consecutive p n -> chain p.
Hypothesis chain_supported : forall v, chain v -> elem v \/ exists n, chain n /\ consecutive v n.

Lemma chain_down : forall l1 x l2, D = l1 ++ x :: l2 -> chain x -> forall y, In y l1 -> chain y.
Proof.
  induction l1 as [|q l1 IH] using rev_ind; intros x l2 E Cx y Hy; [contradiction|].
  rewrite <- app_assoc in E. simpl in E.
  assert (Cq: chain q) by (apply (chain_step q x Cx); exists l1, l2; exact E).
  apply in_app_or in Hy. destruct Hy as [Hy|[<-|[]]]; [|exact Cq].
  exact (IH q (x :: l2) E Cq y Hy).
Qed.

Lemma chain_up : forall n l1 v l2, length l2 <= n -> D = l1 ++ v :: l2 -> chain v ->
  exists e, elem e /\ (v = e \/ lt v e).
Proof.
  induction n as [|n IH]; intros l1 v l2 Len E Cv.
  - destruct l2; [|simpl in Len; lia].
    destruct (chain_supported v Cv) as [Ev|[m [_ [k1 [k2 E2]]]]]; [exists v; split; [exact Ev | left; reflexivity]|].
    exfalso. rewrite E in E2.
    assert (Hm: In m (l1 ++ [v])) by (rewrite E2; apply in_or_app; right; right; left; reflexivity).
    destruct (consecutive_facts v m (ex_intro _ k1 (ex_intro _ k2 (eq_trans E E2)))) as [_ [_ [L _]]].
    apply in_app_or in Hm. destruct Hm as [Hm|[<-|[]]]; [|exact (lt_irrefl _ L)].
    apply (lt_asym v m L). apply (sorted_app_lt l1 [] v m); [rewrite <- E; exact D_sorted | exact Hm].
  - destruct (chain_supported v Cv) as [Ev|[m [Cm Cons]]]; [exists v; split; [exact Ev | left; reflexivity]|].
    destruct (consecutive_facts v m Cons) as [_ [_ [L _]]].
    destruct Cons as [k1 [k2 E2]].
    (* the two decompositions of D at v coincide *)
    pose proof D_nodup as NDD.
    assert (EE: l1 = k1 /\ l2 = m :: k2).
    { apply (nodup_split_unique v l1 l2 k1 (m :: k2)); [rewrite <- E; exact NDD | rewrite <- E; exact E2]. }
    destruct EE as [-> ->].
    destruct (IH (k1 ++ [v]) m k2) as [e [Ee Le]]; [simpl in Len; lia | rewrite <- app_assoc; exact E | exact Cm |].
    exists e. split; [exact Ee|]. right. destruct Le as [<-|Le]; [exact L | eapply lt_trans; eauto].
Qed.

Theorem chain_max_meaning : forall v, chain v <-> In v D /\ exists e, elem e /\ (v = e \/ lt v e).
Proof.
  intro v. split.
  - intro Cv.
    assert (Hv: In v D).
    { destruct (chain_supported v Cv) as [Ev|[m [_ Cons]]]; [apply elem_dom; exact Ev|].
      destruct (consecutive_facts v m Cons) as [Hv _]. exact Hv. }
    split; [exact Hv|]. destruct (in_split v D Hv) as [l1 [l2 E]].
    exact (chain_up (length l2) l1 v l2 (le_n _) E Cv).
  - intros [Hv [e [Ee [->|L]]]]; [apply chain_base; exact Ee|].
    pose proof (elem_dom e Ee) as He. destruct (in_split e D He) as [l1 [l2 E]].
    apply (chain_down l1 e l2 E (chain_base e Ee)).
    rewrite E in Hv. apply in_app_or in Hv. destruct Hv as [Hv|[<-|Hv]]; [exact Hv | exfalso; exact (lt_irrefl _ L)|].
    exfalso. apply (lt_asym v e L). apply (sorted_app_gt l1 l2 e v); [rewrite <- E; exact D_sorted | exact Hv].
Qed.

(* the result atom: a chain element whose successor is not in the chain is the maximum element value *)
Theorem chain_top_is_max : forall m, chain m -> (forall n, consecutive m n -> ~ chain n) ->
  elem m /\ forall e, elem e -> e = m \/ lt e m.
Proof.
  intros m Cm Top.
  destruct (chain_supported m Cm) as [Em|[n [Cn Cons]]]; [|exfalso; exact (Top n Cons Cn)].
  split; [exact Em|]. intros e Ee.
  pose proof (elem_dom e Ee) as He. pose proof (elem_dom m Em) as Hm.
  destruct (in_split m D Hm) as [l1 [l2 E]].
  rewrite E in He. apply in_app_or in He. destruct He as [He|[<-|He]].
  - right. apply (sorted_app_lt l1 l2 m e); [rewrite <- E; exact D_sorted | exact He].
  - left. reflexivity.
  - exfalso. destruct l2 as [|n l2]; [contradiction|].
    apply (Top n); [exists l1, l2; exact E|].
    apply chain_max_meaning. split; [rewrite E; apply in_or_app; right; right; left; reflexivity|].
    exists e. split; [exact Ee|]. destruct He as [->|He]; [left; reflexivity|right].
    apply (sorted_app_gt (l1 ++ [m]) l2 n e); [rewrite <- app_assoc; simpl; rewrite <- E; exact D_sorted | exact He].
Qed.
End ChainMax.
End Chain.

(* ---- telescoping over the integers: min D + sum of the steps inside the chain = the maximum (C12, C13, C02) ---- *)
Fixpoint steps (inchain: Z -> bool) (d: Z) (l: list Z) : Z :=
  match l with
  | [] => 0%Z
  | n :: r => ((if inchain n then n - d else 0) + steps inchain n r)%Z
  end.

Theorem telescoping_max : forall (r: list Z) (d m: Z),
  StronglySorted Z.lt (d :: r) -> In m (d :: r) ->
  (d + steps (fun v => Z.leb v m) d r)%Z = m.
Proof.
  induction r as [|n r IH]; intros d m S Hm.
  - destruct Hm as [<-|[]]. simpl. lia.
  - inversion S as [|? ? S' F]; subst. rewrite Forall_forall in F.
    simpl. destruct (Z.leb_spec n m) as [Le|Gt].
    + assert (Hm': In m (n :: r)).
      { destruct Hm as [<-|Hm]; [|exact Hm]. exfalso. specialize (F n (or_introl eq_refl)). lia. }
      specialize (IH n m S' Hm'). lia.
    + assert (E: m = d).
      { destruct Hm as [<-|[<-|Hm]]; [reflexivity | lia |].
        inversion S' as [|? ? _ F']; subst. rewrite Forall_forall in F'. specialize (F' m Hm). lia. }
      subst m.
      assert (Z0: forall l x, (forall y, In y l -> d < y)%Z -> steps (fun v => Z.leb v d) x l = 0%Z).
      { induction l as [|y l IHl]; intros x Hl; simpl; [reflexivity|].
        destruct (Z.leb_spec y d) as [Le|_]; [specialize (Hl y (or_introl eq_refl)); lia|].
        rewrite IHl; [reflexivity|]. intros z Hz. apply Hl. right. exact Hz. }
      rewrite Z0; [lia|]. intros y Hy. inversion S' as [|? ? _ F']; subst. rewrite Forall_forall in F'.
      specialize (F' y Hy). lia.
Qed.
