(* G5: counting versus joining copies of one predicate (symmetry breaking, C11).
   X carries a strict total order. No axioms. *)
From Coq Require Import List Arith Lia Sorted Permutation.
Import ListNotations.

Section Count.
Variable X : Type.
Variable lt : X -> X -> Prop.
Hypothesis lt_irrefl : forall a, ~ lt a a.
Hypothesis lt_trans : forall a b c, lt a b -> lt b c -> lt a c.
Hypothesis lt_total : forall a b, lt a b \/ a = b \/ lt b a.

(* two copies: a symmetric join under != fires exactly when the ordered join under < fires *)
Theorem neq_to_lt (R: X -> X -> Prop) :
  (forall x y, R x y -> R y x) ->
  ((exists x y, x <> y /\ R x y) <-> (exists x y, lt x y /\ R x y)).
Proof.
  intros Sym. split.
  - intros [x [y [N Rxy]]]. destruct (lt_total x y) as [L|[E|G]].
    + exists x, y. split; assumption.
    + contradiction.
    + exists y, x. split; [exact G | apply Sym; exact Rxy].
  - intros [x [y [L Rxy]]]. exists x, y. split; [|exact Rxy]. intro E. subst. exact (lt_irrefl y L).
Qed.

(* insertion into a strictly sorted list of an element that is not in it *)
Lemma insert_sorted (a: X) (l: list X) : StronglySorted lt l -> ~ In a l ->
  exists l', Permutation (a :: l) l' /\ StronglySorted lt l'.
Proof.
  induction l as [|b l IH]; intros S N.
  - exists [a]. split; [apply Permutation_refl | constructor; constructor].
  - inversion S as [|? ? S' Fb]; subst.
    destruct (lt_total a b) as [L|[E|G]].
    + exists (a :: b :: l). split; [apply Permutation_refl|]. constructor; [exact S|].
      constructor; [exact L|]. rewrite Forall_forall in *. intros x Hx. eapply lt_trans; [exact L | apply Fb; exact Hx].
    + subst. exfalso. apply N. left. reflexivity.
    + destruct (IH S') as [l' [P S'']]; [intro Hin; apply N; right; exact Hin|].
      exists (b :: l'). split.
      * eapply perm_trans; [apply perm_swap|]. constructor. exact P.
      * constructor; [exact S''|]. rewrite Forall_forall in *. intros x Hx.
        apply Permutation_sym in P. apply (Permutation_in _ P) in Hx. destruct Hx as [<-|Hx]; [exact G | apply Fb; exact Hx].
Qed.

Lemma sort_nodup (l: list X) : NoDup l -> exists l', Permutation l l' /\ StronglySorted lt l'.
Proof.
  induction 1 as [|a l N ND IH].
  - exists []. split; constructor.
  - destruct IH as [l1 [P S]].
    destruct (insert_sorted a l1 S) as [l' [P' S']].
    + intro Hin. apply N. apply Permutation_sym in P. exact (Permutation_in _ P Hin).
    + exists l'. split; [|exact S']. eapply perm_trans; [constructor; exact P | exact P'].
Qed.

Lemma sorted_nodup (l: list X) : StronglySorted lt l -> NoDup l.
Proof.
  induction 1 as [|a l S IH F]; constructor; [|exact IH].
  intro Hin. rewrite Forall_forall in F. exact (lt_irrefl a (F a Hin)).
Qed.

(* k copies: k pairwise distinct members  <->  a strictly increasing k-tuple of members *)
Theorem distinct_iff_increasing (S: X -> Prop) (k: nat) :
  (exists l, length l = k /\ NoDup l /\ Forall S l) <-> (exists l, length l = k /\ StronglySorted lt l /\ Forall S l).
Proof.
  split.
  - intros [l [Len [ND F]]]. destruct (sort_nodup l ND) as [l' [P Srt]]. exists l'. split; [|split].
    + rewrite <- Len. symmetry. apply Permutation_length. exact P.
    + exact Srt.
    + rewrite Forall_forall in *. intros x Hx. apply F. apply Permutation_sym in P. exact (Permutation_in _ P Hx).
  - intros [l [Len [Srt F]]]. exists l. split; [exact Len|]. split; [apply sorted_nodup; exact Srt | exact F].
Qed.

Lemma In_firstn (k: nat) (l: list X) x : In x (firstn k l) -> In x l.
Proof.
  revert k. induction l as [|a l IH]; intros k Hx; destruct k; simpl in *; try contradiction.
  destruct Hx as [<-|Hx]; [left; reflexivity | right; eapply IH; exact Hx].
Qed.

Lemma NoDup_firstn (k: nat) (l: list X) : NoDup l -> NoDup (firstn k l).
Proof.
  intro ND. revert k. induction ND as [|a l N ND' IH]; intro k; destruct k; simpl; try constructor.
  - intro Hin. apply N. eapply In_firstn; exact Hin.
  - apply IH.
Qed.

(* k pairwise distinct members <-> the count of the (finite) set is at least k *)
Theorem distinct_iff_count (S: X -> Prop) (L: list X) (k: nat) :
  NoDup L -> (forall x, In x L <-> S x) ->
  ((exists l, length l = k /\ NoDup l /\ Forall S l) <-> k <= length L).
Proof.
  intros ND En. split.
  - intros [l [Len [NDl F]]]. rewrite <- Len. apply NoDup_incl_length; [exact NDl|].
    intros x Hx. apply En. rewrite Forall_forall in F. apply F. exact Hx.
  - intro Le. exists (firstn k L). split; [|split].
    + apply firstn_length_le. exact Le.
    + apply NoDup_firstn. exact ND.
    + rewrite Forall_forall. intros x Hx. apply En. eapply In_firstn; exact Hx.
Qed.
End Count.
