(* G3a: definition folding. Fresh (aux) atoms defined by non-recursive rules over the old vocabulary:
   T |-> ext T T is a bijection between the stable models of the source P and of the folded program Q.
   Body formulas and heads are abstract; the only requirements are that their satisfaction ignores
   aux atoms and that body satisfaction is persistent. Axiom used: Classical_Prop.classic. *)
From Coq Require Import List Classical.
Import ListNotations.

Section Fold.
Variable atom : Type.
Variable aux : atom -> Prop.           (* fresh atoms *)
Definition interp := atom -> Prop.
Definition subi (H T: interp) := forall a, H a -> T a.

Variable F : Type.
Variable fsat : interp -> interp -> F -> Prop.
Definition agree_base (X Y: interp) := forall a, ~ aux a -> (X a <-> Y a).
Hypothesis fsat_base : forall H T H' T' f, agree_base H H' -> agree_base T T' -> (fsat H T f <-> fsat H' T' f).
Hypothesis fsat_persist : forall H T f, subi H T -> fsat H T f -> fsat T T f.

Variable Hd : Type.
Variable hsat : interp -> interp -> Hd -> Prop.
Hypothesis hsat_base : forall H T H' T' h, agree_base H H' -> agree_base T T' -> (hsat H T h <-> hsat H' T' h).

Record rule := { hd: Hd; bd: list F }.
Inductive trule :=
| TPlain (r: rule)
| TFolded (h: Hd) (a: atom) (rest: list F)
| TDef (a: atom) (beta: list F).

Definition bsat H T (b: list F) := Forall (fsat H T) b.
Definition rsat H T (r: rule) := (bsat H T (bd r) -> hsat H T (hd r)) /\ (bsat T T (bd r) -> hsat T T (hd r)).
Definition tsat (H T: interp) (r: trule) :=
  match r with
  | TPlain r => rsat H T r
  | TFolded h a rest => (H a /\ bsat H T rest -> hsat H T h) /\ (T a /\ bsat T T rest -> hsat T T h)
  | TDef a beta => (bsat H T beta -> H a) /\ (bsat T T beta -> T a)
  end.

Variable P : rule -> Prop.
Variable Q : trule -> Prop.
Definition defs (a: atom) (beta: list F) := Q (TDef a beta).

Hypothesis Q_def_aux : forall a beta, Q (TDef a beta) -> aux a.
Hypothesis Q_folded_aux : forall h a rest, Q (TFolded h a rest) -> aux a.
Hypothesis folded_sound : forall h a rest beta, Q (TFolded h a rest) -> defs a beta -> P {| hd := h; bd := beta ++ rest |}.
Hypothesis plain_sound : forall r, Q (TPlain r) -> P r.
Hypothesis complete : forall r, P r -> Q (TPlain r) \/ exists a beta rest, bd r = beta ++ rest /\ defs a beta /\ Q (TFolded (hd r) a rest).

Definition psat H T := forall r, P r -> rsat H T r.
Definition qsat H T := forall r, Q r -> tsat H T r.
Definition stableP T := psat T T /\ forall H, subi H T -> psat H T -> subi T H.
Definition stableQ T := qsat T T /\ forall H, subi H T -> qsat H T -> subi T H.

Definition ext (H T: interp) : interp := fun a => (~ aux a /\ H a) \/ (aux a /\ exists beta, defs a beta /\ bsat H T beta).
Definition restrict (T: interp) : interp := fun a => ~ aux a /\ T a.
Definition noaux (T: interp) := forall a, T a -> ~ aux a.

Lemma bsat_app H T b1 b2 : bsat H T (b1 ++ b2) <-> bsat H T b1 /\ bsat H T b2.
Proof. unfold bsat. rewrite Forall_app. tauto. Qed.

Lemma agree_sym X Y : agree_base X Y -> agree_base Y X.
Proof. intros A a Na. symmetry. apply A. exact Na. Qed.

Lemma bsat_base H T H' T' b : agree_base H H' -> agree_base T T' -> (bsat H T b <-> bsat H' T' b).
Proof.
  intros A B. unfold bsat. rewrite !Forall_forall. split; intros X f Hf; specialize (X f Hf).
  - apply (fsat_base H T H' T'); assumption.
  - apply (fsat_base H T H' T'); assumption.
Qed.

Lemma bsat_persist H T b : subi H T -> bsat H T b -> bsat T T b.
Proof. intros S B. unfold bsat in *. rewrite Forall_forall in *. intros f Hf. eapply fsat_persist; eauto. Qed.

Lemma rsat_base H T H' T' r : agree_base H H' -> agree_base T T' -> (rsat H T r <-> rsat H' T' r).
Proof.
  intros A B. unfold rsat.
  rewrite (bsat_base H T H' T' (bd r) A B), (hsat_base H T H' T' (hd r) A B),
          (bsat_base T T T' T' (bd r) B B), (hsat_base T T T' T' (hd r) B B). tauto.
Qed.

Lemma agree_ext H T : noaux H -> agree_base H (ext H T).
Proof. intros N a Na. unfold ext. split; [tauto|]. intros [[_ Ha]|[Aa _]]; [exact Ha | contradiction]. Qed.

Lemma agree_restrict T : agree_base (restrict T) T.
Proof. intros a Na. unfold restrict. tauto. Qed.

Lemma noaux_restrict T : noaux (restrict T).
Proof. intros a [Na _]. exact Na. Qed.

Lemma subi_ext H T : subi H T -> subi (ext H T) (ext T T).
Proof.
  intros S a [[Na Ha]|[Aa [beta [D B]]]]; [left; split; [exact Na | apply S; exact Ha]|].
  right. split; [exact Aa|]. exists beta. split; [exact D|]. eapply bsat_persist; eauto.
Qed.

Lemma ext_qsat H T : noaux H -> noaux T -> subi H T -> psat H T -> qsat (ext H T) (ext T T).
Proof.
  intros NH NT S PS r Qr. destruct r as [r|h a rest|a beta]; simpl.
  - apply plain_sound in Qr. apply (rsat_base H T); auto using agree_ext.
  - assert (Aa: aux a) by eauto. split; intros [Xa B].
    + destruct Xa as [[Na _]|[_ [beta [D Bb]]]]; [contradiction|].
      pose proof (folded_sound _ _ _ _ Qr D) as Pr. destruct (PS _ Pr) as [P1 _]. simpl in *.
      apply (hsat_base H T (ext H T) (ext T T)); auto using agree_ext. apply P1. apply bsat_app. split; [exact Bb|].
      apply (bsat_base H T (ext H T) (ext T T)); auto using agree_ext.
    + destruct Xa as [[Na _]|[_ [beta [D Bb]]]]; [contradiction|].
      pose proof (folded_sound _ _ _ _ Qr D) as Pr. destruct (PS _ Pr) as [_ P2]. simpl in *.
      apply (hsat_base T T (ext T T) (ext T T)); auto using agree_ext. apply P2. apply bsat_app. split; [exact Bb|].
      apply (bsat_base T T (ext T T) (ext T T)); auto using agree_ext.
  - assert (Aa: aux a) by eauto. split; intro B; right; (split; [exact Aa|]); exists beta; (split; [exact Qr|]).
    + apply (bsat_base H T (ext H T) (ext T T)); auto using agree_ext.
    + apply (bsat_base T T (ext T T) (ext T T)); auto using agree_ext.
Qed.

Lemma restrict_psat H' T' : qsat H' T' -> psat H' T'.
Proof.
  intros QS r Pr. destruct (complete r Pr) as [Qr|[a [beta [rest [E [D Qf]]]]]].
  - exact (QS _ Qr).
  - pose proof (QS _ D) as [D1 D2]. pose proof (QS _ Qf) as [F1 F2]. simpl in *. unfold rsat. rewrite E.
    split; intro B; apply bsat_app in B; destruct B; auto.
Qed.

(* source -> folded *)
Theorem fold_fwd T : noaux T -> stableP T -> stableQ (ext T T).
Proof.
  intros NT [M Min]. split.
  - apply ext_qsat; auto. intros a Ha; exact Ha.
  - intros H' S QS.
    assert (PS: psat (restrict H') T).
    { intros r Pr. apply (rsat_base (restrict H') T H' (ext T T)); [apply agree_restrict | apply agree_ext; exact NT |].
      exact (restrict_psat H' (ext T T) QS r Pr). }
    assert (SR: subi (restrict H') T).
    { intros a [Na Ha]. destruct (S a Ha) as [[_ Ta]|[Aa _]]; [exact Ta | contradiction]. }
    pose proof (Min _ SR PS) as TS.
    intros a [[Na Ta]|[Aa [beta [D B]]]].
    + destruct (TS a Ta) as [_ Ha]. exact Ha.
    + destruct (QS _ D) as [D1 _]. simpl in D1. apply D1.
      apply (bsat_base T T H' (ext T T)); [| apply agree_ext; exact NT | exact B].
      intros b Nb. split; [intro Tb; destruct (TS b Tb) as [_ Hb]; exact Hb | intro Hb; apply SR; split; assumption].
Qed.

(* folded -> source, and the folded model is the extension of its restriction *)
Theorem fold_bwd T' : stableQ T' -> stableP (restrict T') /\ forall a, T' a <-> ext (restrict T') (restrict T') a.
Proof.
  intros [M Min].
  set (T := restrict T').
  assert (AT: agree_base T T') by apply agree_restrict.
  assert (E: forall a, T' a <-> ext T T a).
  { intro a. split.
    - intro Ta. destruct (classic (aux a)) as [Aa|Na]; [|left; split; [exact Na | split; assumption]].
      right. split; [exact Aa|].
      set (H' := fun b => T' b /\ (aux b -> exists beta, defs b beta /\ bsat T' T' beta)).
      assert (SH: subi H' T') by (intros b [Hb _]; exact Hb).
      assert (AH: agree_base H' T') by (intros b Nb; unfold H'; split; [intros [Hb _]; exact Hb | intro Hb; split; [exact Hb | intro; contradiction]]).
      assert (AR: agree_base T' T') by (intros b _; tauto).
      assert (QS: qsat H' T').
      { intros r Qr. pose proof (M r Qr) as Mr. destruct r as [r|h b rest|b beta]; simpl in *.
        - apply (rsat_base H' T' T' T'); assumption.
        - destruct Mr as [_ M2]. split; [|exact M2]. intros [[Hb _] B].
          apply (hsat_base H' T' T' T'); try assumption. apply M2. split; [exact Hb|].
          apply (bsat_base H' T' T' T'); assumption.
        - destruct Mr as [_ M2]. split; [|exact M2]. intro B.
          assert (B': bsat T' T' beta) by (apply (bsat_base H' T' T' T'); assumption).
          split; [apply M2; exact B' | intros _; exists beta; split; [exact Qr | exact B']]. }
      destruct (Min _ SH QS a Ta) as [_ Hsup]. destruct (Hsup Aa) as [beta [D B]].
      exists beta. split; [exact D|]. apply (bsat_base T T T' T'); assumption.
    - intros [[Na [_ Ta]]|[Aa [beta [D B]]]]; [exact Ta|].
      destruct (M _ D) as [_ M2]. simpl in M2. apply M2. apply (bsat_base T T T' T'); assumption. }
  split; [|exact E].
  split.
  - intros r Pr. apply (rsat_base T T T' T'); try assumption. exact (restrict_psat T' T' M r Pr).
  - intros H S PS.
    assert (NH: noaux H) by (intros a Ha; destruct (S a Ha) as [Na _]; exact Na).
    pose proof (ext_qsat H T NH (noaux_restrict T') S PS) as QS.
    assert (S2: subi (ext H T) T').
    { intros a Ha. apply E. apply (subi_ext H T S). exact Ha. }
    assert (QS': qsat (ext H T) T').
    { intros r Qr. specialize (QS r Qr).
      destruct r as [r|h b rest|b beta]; simpl in *.
      - apply (rsat_base (ext H T) (ext T T) (ext H T) T'); [intros a _; tauto | intros a _; symmetry; apply E | exact QS].
      - destruct QS as [Q1 Q2]. split.
        + intros [Hb B]. apply (hsat_base (ext H T) (ext T T) (ext H T) T'); [intros a _; tauto | intros a _; symmetry; apply E |].
          apply Q1. split; [exact Hb|]. apply (bsat_base (ext H T) (ext T T) (ext H T) T'); [intros a _; tauto | intros a _; symmetry; apply E | exact B].
        + apply (M _ Qr).
      - destruct QS as [Q1 Q2]. split.
        + intro B. apply Q1. apply (bsat_base (ext H T) (ext T T) (ext H T) T'); [intros a _; tauto | intros a _; symmetry; apply E | exact B].
        + apply (M _ Qr). }
    intros a [Na Ta]. destruct (Min _ S2 QS' a Ta) as [[_ Ha]|[Aa _]]; [exact Ha | contradiction].
Qed.

(* the two maps are mutually inverse on stable models: a bijection *)
Theorem fold_restrict_ext T : noaux T -> forall a, restrict (ext T T) a <-> T a.
Proof.
  intros NT a. unfold restrict, ext. split.
  - intros [Na [[_ Ta]|[Aa _]]]; [exact Ta | contradiction].
  - intro Ta. split; [apply NT; exact Ta | left; split; [apply NT; exact Ta | exact Ta]].
Qed.
End Fold.
