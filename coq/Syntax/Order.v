(* Executable models of the two orders of clingo 5.8.2's Python API that ngo's output depends on:

     sym_compare            clingo.Symbol.__lt__
     term_compare, lit_compare, bodyelem_compare, head_compare, ...
                            clingo.ast.AST.__lt__   (what sorted() uses on AST nodes)

   Both were measured against the real library (vlib/fam_order.py: families symbol_order,
   ast_order, ast_sorted).  No proofs here; see Link/OrderSpec.v.

   Symbol order (measured):
     #inf  <  numbers (by value)
           <  positive constants, i.e. functions without arguments (by name; "()" has the name "")
           <  negative constants (by name)
           <  strings (by content)
           <  functions with at least one argument
           <  #sup
     functions with arguments: all positive ones before all negative ones, then by arity, then
     by name, then by the arguments lexicographically (tuples are functions with the name "").
     Names and strings compare like C strcmp on the UTF-8 bytes = String.compare on Coq's byte strings.

   AST order (measured): lexicographic on
     (ASTType integer value, the attributes in node.keys() order without `location`)
   child nodes recursively, sequences lexicographically (a proper prefix is smaller), None before
   any node, strings by strcmp, enums / ints / bools by their integer value, symbols by the symbol
   order.  Locations never matter.  *)
From Coq Require Import List String ZArith Bool Arith.
From NGO Require Import Syntax.Ast.
Import ListNotations.
Open Scope string_scope. Open Scope list_scope.

(* lexicographic combination; the second comparison is only evaluated when the first says Eq *)
Notation "c1 >>> c2" := (match c1 with Eq => c2 | Lt => Lt | Gt => Gt end)
  (at level 61, right associativity, only parsing).

Definition bool_compare (a b: bool) : comparison :=
  match a, b with false, true => Lt | true, false => Gt | _, _ => Eq end.

Section ListCompare.
  Context {A: Type} (c: A -> A -> comparison).
  (* Python / C++ lexicographical_compare: first difference decides, a proper prefix is smaller *)
  Fixpoint list_compare (xs ys: list A) {struct xs} : comparison :=
    match xs, ys with
    | [], [] => Eq
    | [], _ :: _ => Lt
    | _ :: _, [] => Gt
    | x :: xs', y :: ys' => c x y >>> list_compare xs' ys'
    end.
  (* None sorts before any value *)
  Definition option_compare (x y: option A) : comparison :=
    match x, y with
    | None, None => Eq
    | None, Some _ => Lt
    | Some _, None => Gt
    | Some a, Some b => c a b
    end.
  (* stable insertion sort = Python's sorted() (elements that compare Eq keep their order) *)
  Fixpoint insert_by (x: A) (l: list A) : list A :=
    match l with
    | [] => [x]
    | y :: r => match c x y with Gt => y :: insert_by x r | _ => x :: l end
    end.
  Definition sort_by (l: list A) : list A := fold_right insert_by [] l.
End ListCompare.

Definition chk_cmp (a b: comparison) : bool :=
  match a, b with Eq, Eq | Lt, Lt | Gt, Gt => true | _, _ => false end.

(* ---------- clingo.Symbol ---------- *)
(* the internal type tags of clingo's Symbol: Inf, Num, IdP, IdN, Str, Fun, (Special), Sup *)
Definition sym_rank (s: sym) : nat :=
  match s with
  | SInf => 0
  | SNum _ => 1
  | SFun _ [] true => 2
  | SFun _ [] false => 3
  | SStr _ => 4
  | SFun _ (_ :: _) _ => 5
  | SSup => 7
  end.

Fixpoint sym_compare (a b: sym) {struct a} : comparison :=
  match Nat.compare (sym_rank a) (sym_rank b) with
  | Eq =>
      match a, b with
      | SNum x, SNum y => Z.compare x y
      | SStr x, SStr y => String.compare x y
      | SFun n xs p, SFun m ys q =>
          (* signature first: sign (positive first), arity, name; then the arguments.
             For constants the rank already fixed sign and arity, so this is the name order. *)
          bool_compare (negb p) (negb q) >>>
          Nat.compare (List.length xs) (List.length ys) >>>
          String.compare n m >>>
          list_compare sym_compare xs ys
      | _, _ => Eq
      end
  | Lt => Lt
  | Gt => Gt
  end.

(* ---------- integer values of the enums of clingo.ast ---------- *)
Definition sign_val (s: sign) : nat := match s with NoSign => 0 | Neg => 1 | NegNeg => 2 end.
Definition cmp_val (c: cmp) : nat :=
  match c with CGt => 0 | CLt => 1 | CLe => 2 | CGe => 3 | CNe => 4 | CEq => 5 end.
Definition binop_val (o: binop) : nat :=
  match o with BXor => 0 | BOr => 1 | BAnd => 2 | BPlus => 3 | BMinus => 4 | BMul => 5 | BDiv => 6 | BMod => 7 | BPow => 8 end.
Definition unop_val (o: unop) : nat := match o with UMinus => 0 | UNeg => 1 | UAbs => 2 end.
Definition aggfun_val (f: aggfun) : nat :=
  match f with FCount => 0 | FSum => 1 | FSumPlus => 2 | FMin => 3 | FMax => 4 end.

Definition sign_compare (a b: sign) := Nat.compare (sign_val a) (sign_val b).
Definition cmp_compare (a b: cmp) := Nat.compare (cmp_val a) (cmp_val b).
Definition binop_compare (a b: binop) := Nat.compare (binop_val a) (binop_val b).
Definition unop_compare (a b: unop) := Nat.compare (unop_val a) (unop_val b).
Definition aggfun_compare (a b: aggfun) := Nat.compare (aggfun_val a) (aggfun_val b).

(* ---------- terms ---------- *)
(* clingo.ast.ASTType values *)
Definition term_rank (t: term) : nat :=
  match t with
  | TVar _ => 1 | TSym _ => 2 | TUn _ _ => 3 | TBin _ _ _ => 4 | TInterval _ _ => 5 | TFun _ _ _ => 6 | TPool _ => 7
  end.

Fixpoint term_compare (a b: term) {struct a} : comparison :=
  match a, b with
  | TVar x, TVar y => String.compare x y                                   (* name *)
  | TSym x, TSym y => sym_compare x y                                      (* symbol *)
  | TUn o x, TUn p y => unop_compare o p >>> term_compare x y              (* operator_type, argument *)
  | TBin o l r, TBin p l' r' =>                                            (* operator_type, left, right *)
      binop_compare o p >>> term_compare l l' >>> term_compare r r'
  | TInterval l r, TInterval l' r' => term_compare l l' >>> term_compare r r'   (* left, right *)
  | TFun n xs e, TFun m ys e' =>                                           (* name, arguments, external *)
      String.compare n m >>> list_compare term_compare xs ys >>> bool_compare e e'
  | TPool xs, TPool ys => list_compare term_compare xs ys                  (* arguments *)
  | _, _ => Nat.compare (term_rank a) (term_rank b)
  end.

(* Guard: comparison, term *)
Definition guard_compare (a b: guard) : comparison :=
  cmp_compare (fst a) (fst b) >>> term_compare (snd a) (snd b).
Definition oguard_compare := option_compare guard_compare.

(* ---------- atoms and literals ---------- *)
Definition atom_rank (a: atom) : nat :=
  match a with
  | ABool _ => 8 | ASym _ => 9 | ACmp _ _ => 10 | AAgg _ _ _ => 13 | ABodyAgg _ _ _ _ => 15 | ATheory _ => 25
  end.

(* ATheory is opaque text in the mirror: two different theory atoms are ordered by their text here,
   which is NOT clingo's order (TheoryAtom: term, elements, guard); against every other atom kind
   the order is exact.  The correspondence families skip pairs that contain different theory atoms. *)
Fixpoint atom_compare (a b: atom) {struct a} : comparison :=
  match a, b with
  | ASym x, ASym y => term_compare x y                                     (* symbol *)
  | ACmp t gs, ACmp t' gs' => term_compare t t' >>> list_compare guard_compare gs gs'   (* term, guards *)
  | ABool x, ABool y => bool_compare x y                                   (* value *)
  | ABodyAgg lg f es rg, ABodyAgg lg' f' es' rg' =>                        (* left_guard, function, elements, right_guard *)
      oguard_compare lg lg' >>>
      aggfun_compare f f' >>>
      list_compare (fun e e' : list term * list lit =>                     (* BodyAggregateElement: terms, condition *)
                      list_compare term_compare (fst e) (fst e') >>>
                      list_compare lit_compare (snd e) (snd e')) es es' >>>
      oguard_compare rg rg'
  | AAgg lg es rg, AAgg lg' es' rg' =>                                     (* left_guard, elements, right_guard *)
      oguard_compare lg lg' >>>
      list_compare (fun e e' : lit * list lit =>                           (* ConditionalLiteral: literal, condition *)
                      lit_compare (fst e) (fst e') >>>
                      list_compare lit_compare (snd e) (snd e')) es es' >>>
      oguard_compare rg rg'
  | ATheory x, ATheory y => String.compare x y
  | _, _ => Nat.compare (atom_rank a) (atom_rank b)
  end
with lit_compare (a b: lit) {struct a} : comparison :=
  match a, b with Lit s x, Lit s' y => sign_compare s s' >>> atom_compare x y end.   (* sign, atom *)

Definition lits_compare := list_compare lit_compare.
(* ConditionalLiteral: literal, condition *)
Definition condlit_compare (a b: condlit) : comparison :=
  lit_compare (fst a) (fst b) >>> lits_compare (snd a) (snd b).
(* BodyAggregateElement: terms, condition *)
Definition belem_compare (a b: belem) : comparison :=
  list_compare term_compare (fst a) (fst b) >>> lits_compare (snd a) (snd b).
(* HeadAggregateElement: terms, condition (a ConditionalLiteral) *)
Definition helem_compare (a b: helem) : comparison :=
  list_compare term_compare (fst a) (fst b) >>> condlit_compare (snd a) (snd b).

(* body elements: ConditionalLiteral = 12 < Literal = 26 *)
Definition bodyelem_rank (x: bodyelem) : nat := match x with BCond _ _ => 12 | BLit _ => 26 end.
Definition bodyelem_compare (a b: bodyelem) : comparison :=
  match a, b with
  | BLit x, BLit y => lit_compare x y
  | BCond l c, BCond l' c' => condlit_compare (l, c) (l', c')
  | _, _ => Nat.compare (bodyelem_rank a) (bodyelem_rank b)
  end.

(* heads: Aggregate = 13 < HeadAggregate = 17 < Disjunction = 18 < TheoryAtom = 25 < Literal = 26 *)
Definition head_rank (h: head) : nat :=
  match h with HAgg _ _ _ => 13 | HHeadAgg _ _ _ _ => 17 | HDisj _ => 18 | HTheory _ => 25 | HLit _ => 26 end.
Definition head_compare (a b: head) : comparison :=
  match a, b with
  | HLit x, HLit y => lit_compare x y
  | HDisj x, HDisj y => list_compare condlit_compare x y                   (* elements *)
  | HAgg lg es rg, HAgg lg' es' rg' =>
      oguard_compare lg lg' >>> list_compare condlit_compare es es' >>> oguard_compare rg rg'
  | HHeadAgg lg f es rg, HHeadAgg lg' f' es' rg' =>
      oguard_compare lg lg' >>> aggfun_compare f f' >>> list_compare helem_compare es es' >>> oguard_compare rg rg'
  | HTheory x, HTheory y => String.compare x y                             (* not clingo's order, see above *)
  | _, _ => Nat.compare (head_rank a) (head_rank b)
  end.

(* ngo.utils.ast.Predicate is a dataclass(order=True): (name, arity); Python compares str by code
   point, which coincides with the byte order of the UTF-8 encoding *)
Definition pred_compare (a b: pred) : comparison :=
  String.compare (fst a) (fst b) >>> Nat.compare (snd a) (snd b).

(* ---------- sorted() ---------- *)
Definition sort_syms : list sym -> list sym := sort_by sym_compare.
Definition sort_terms : list term -> list term := sort_by term_compare.
Definition sort_lits : list lit -> list lit := sort_by lit_compare.
Definition sort_bodyelems : list bodyelem -> list bodyelem := sort_by bodyelem_compare.
Definition sort_preds : list pred -> list pred := sort_by pred_compare.
(* sorted() on Variable nodes given by their names: all have the same type and `name` is the only attribute *)
Definition sort_strings_as_vars : list string -> list string := sort_by String.compare.

Definition term_ltb (a b: term) : bool := chk_cmp (term_compare a b) Lt.
Definition lit_ltb (a b: lit) : bool := chk_cmp (lit_compare a b) Lt.
Definition sym_ltb (a b: sym) : bool := chk_cmp (sym_compare a b) Lt.
