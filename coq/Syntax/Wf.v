(* Lexical validity of identifiers in gringo's syntax: predicate/function names  _*[a-z][A-Za-z0-9_']*  and
   variable names  _*[A-Z][A-Za-z0-9_']* . *)
From Coq Require Import List String Ascii Bool Arith.
Import ListNotations.
Open Scope string_scope.

Definition ascii_between (lo hi c: ascii) : bool :=
  andb (Nat.leb (nat_of_ascii lo) (nat_of_ascii c)) (Nat.leb (nat_of_ascii c) (nat_of_ascii hi)).
Definition is_lower c := ascii_between "a" "z" c.
Definition is_upper c := ascii_between "A" "Z" c.
Definition is_digit c := ascii_between "0" "9" c.
Definition is_underscore (c: ascii) := Ascii.eqb c "_".
Definition ident_char c := is_lower c || is_upper c || is_digit c || is_underscore c || Ascii.eqb c "'".

Fixpoint all_ident_chars (s: string) : bool :=
  match s with EmptyString => true | String c r => andb (ident_char c) (all_ident_chars r) end.

Fixpoint valid_name (first: ascii -> bool) (s: string) : bool :=
  match s with
  | EmptyString => false
  | String c r => if is_underscore c then valid_name first r else andb (first c) (all_ident_chars r)
  end.
Definition valid_pred_name := valid_name is_lower.
Definition valid_var_name := valid_name is_upper.

Lemma all_ident_chars_app a b : all_ident_chars (a ++ b) = andb (all_ident_chars a) (all_ident_chars b).
Proof. induction a as [|c a IH]; simpl; [reflexivity|]. rewrite IH. rewrite andb_assoc. reflexivity. Qed.

(* appending identifier characters to a valid name keeps it valid *)
Lemma valid_name_app first a b : valid_name first a = true -> all_ident_chars b = true -> valid_name first (a ++ b) = true.
Proof.
  induction a as [|c a IH]; simpl; intros Va Vb; [discriminate|].
  destruct (is_underscore c); [apply IH; assumption|].
  apply andb_true_iff in Va. destruct Va as [F R]. rewrite F, all_ident_chars_app, R, Vb. reflexivity.
Qed.
