(* Typed mirror of the fragment of clingo.ast that ngo manipulates.
   One constructor per clingo node kind; locations are dropped except for the
   begin line of rules / minimize statements (the only location field that can
   influence ngo's output, see DESIGN 5.2). No proofs about ngo live here. *)
From Coq Require Import List String ZArith Bool.
Import ListNotations.
Open Scope string_scope. Open Scope list_scope.

Inductive sign := NoSign | Neg | NegNeg.
Inductive cmp := CEq | CNe | CLt | CLe | CGt | CGe.
Inductive binop := BXor | BOr | BAnd | BPlus | BMinus | BMul | BDiv | BMod | BPow.
Inductive unop := UMinus | UNeg | UAbs.
Inductive aggfun := FCount | FSum | FSumPlus | FMin | FMax.

(* clingo symbols (ground values) *)
Inductive sym :=
| SInf
| SNum (z: Z)
| SStr (s: string)
| SFun (name: string) (args: list sym) (positive: bool)
| SSup.

Inductive term :=
| TVar (x: string)
| TSym (s: sym)                       (* SymbolicTerm *)
| TUn (o: unop) (t: term)
| TBin (o: binop) (l r: term)
| TInterval (l r: term)
| TFun (name: string) (args: list term) (ext: bool)
| TPool (alts: list term).

Definition guard := (cmp * term)%type.

Inductive atom :=
| ASym (t: term)                                        (* SymbolicAtom *)
| ACmp (t: term) (guards: list guard)                   (* Comparison *)
| ABool (b: bool)                                       (* BooleanConstant *)
| ABodyAgg (lg: option guard) (f: aggfun) (elems: list (list term * list lit)) (rg: option guard)
| AAgg (lg: option guard) (elems: list (lit * list lit)) (rg: option guard)   (* old style {..} *)
| ATheory (text: string)                                (* opaque *)
with lit := Lit (s: sign) (a: atom).

Definition condlit := (lit * list lit)%type.            (* ConditionalLiteral *)
Definition belem := (list term * list lit)%type.        (* BodyAggregateElement *)
Definition helem := (list term * condlit)%type.         (* HeadAggregateElement *)

Inductive bodyelem := BLit (l: lit) | BCond (l: lit) (c: list lit).
Inductive head :=
| HLit (l: lit)
| HDisj (elems: list condlit)
| HAgg (lg: option guard) (elems: list condlit) (rg: option guard)
| HHeadAgg (lg: option guard) (f: aggfun) (elems: list helem) (rg: option guard)
| HTheory (text: string).
Inductive stmt :=
| SRule (line: nat) (h: head) (b: list bodyelem)
| SMin (line: nat) (w p: term) (ts: list term) (b: list bodyelem)
| SShowSig (name: string) (arity: nat) (pos: bool)
| SShowTerm (t: term) (b: list bodyelem)
| SOther (kind: string) (text: string).
Definition program := list stmt.

Definition pred := (string * nat)%type.
Definition spred := (sign * pred)%type.

(* ---------- boolean equality (clingo's == ignores locations) ---------- *)
Definition sign_eqb (a b: sign) := match a,b with NoSign,NoSign|Neg,Neg|NegNeg,NegNeg => true | _,_ => false end.
Definition cmp_eqb (a b: cmp) := match a,b with CEq,CEq|CNe,CNe|CLt,CLt|CLe,CLe|CGt,CGt|CGe,CGe => true | _,_ => false end.
Definition binop_eqb (a b: binop) :=
  match a,b with BXor,BXor|BOr,BOr|BAnd,BAnd|BPlus,BPlus|BMinus,BMinus|BMul,BMul|BDiv,BDiv|BMod,BMod|BPow,BPow => true | _,_ => false end.
Definition unop_eqb (a b: unop) := match a,b with UMinus,UMinus|UNeg,UNeg|UAbs,UAbs => true | _,_ => false end.
Definition aggfun_eqb (a b: aggfun) :=
  match a,b with FCount,FCount|FSum,FSum|FSumPlus,FSumPlus|FMin,FMin|FMax,FMax => true | _,_ => false end.

Section ListEqb.
  Context {A: Type} (e: A -> A -> bool).
  Fixpoint list_eqb (x y: list A) : bool :=
    match x, y with
    | [], [] => true
    | a :: x', b :: y' => andb (e a b) (list_eqb x' y')
    | _, _ => false
    end.
End ListEqb.
Definition option_eqb {A} (e: A -> A -> bool) (x y: option A) :=
  match x, y with None, None => true | Some a, Some b => e a b | _, _ => false end.
Definition pair_eqb {A B} (ea: A -> A -> bool) (eb: B -> B -> bool) (x y: A * B) :=
  andb (ea (fst x) (fst y)) (eb (snd x) (snd y)).

Fixpoint sym_eqb (a b: sym) {struct a} : bool :=
  match a, b with
  | SInf, SInf => true
  | SSup, SSup => true
  | SNum x, SNum y => Z.eqb x y
  | SStr x, SStr y => String.eqb x y
  | SFun n xs p, SFun m ys q =>
      andb (String.eqb n m) (andb (Bool.eqb p q)
        ((fix go (xs ys: list sym) : bool :=
            match xs, ys with
            | [], [] => true
            | x :: xs', y :: ys' => andb (sym_eqb x y) (go xs' ys')
            | _, _ => false end) xs ys))
  | _, _ => false
  end.

Fixpoint term_eqb (a b: term) {struct a} : bool :=
  match a, b with
  | TVar x, TVar y => String.eqb x y
  | TSym x, TSym y => sym_eqb x y
  | TUn o x, TUn p y => andb (unop_eqb o p) (term_eqb x y)
  | TBin o l r, TBin p l' r' => andb (binop_eqb o p) (andb (term_eqb l l') (term_eqb r r'))
  | TInterval l r, TInterval l' r' => andb (term_eqb l l') (term_eqb r r')
  | TFun n xs e, TFun m ys e' =>
      andb (String.eqb n m) (andb (Bool.eqb e e')
        ((fix go (xs ys: list term) : bool :=
            match xs, ys with
            | [], [] => true
            | x :: xs', y :: ys' => andb (term_eqb x y) (go xs' ys')
            | _, _ => false end) xs ys))
  | TPool xs, TPool ys =>
        (fix go (xs ys: list term) : bool :=
            match xs, ys with
            | [], [] => true
            | x :: xs', y :: ys' => andb (term_eqb x y) (go xs' ys')
            | _, _ => false end) xs ys
  | _, _ => false
  end.

Definition guard_eqb (a b: guard) := andb (cmp_eqb (fst a) (fst b)) (term_eqb (snd a) (snd b)).

Fixpoint atom_eqb (a b: atom) {struct a} : bool :=
  match a, b with
  | ASym x, ASym y => term_eqb x y
  | ACmp t gs, ACmp t' gs' => andb (term_eqb t t') (list_eqb guard_eqb gs gs')
  | ABool x, ABool y => Bool.eqb x y
  | ABodyAgg lg f es rg, ABodyAgg lg' f' es' rg' =>
      andb (option_eqb guard_eqb lg lg') (andb (aggfun_eqb f f') (andb (option_eqb guard_eqb rg rg')
        ((fix go (es es': list (list term * list lit)) : bool :=
            match es, es' with
            | [], [] => true
            | (ts, cs) :: r, (ts', cs') :: r' =>
                andb (list_eqb term_eqb ts ts')
                  (andb ((fix goc (cs cs': list lit) : bool :=
                            match cs, cs' with
                            | [], [] => true
                            | c :: q, c' :: q' => andb (lit_eqb c c') (goc q q')
                            | _, _ => false end) cs cs') (go r r'))
            | _, _ => false end) es es')))
  | AAgg lg es rg, AAgg lg' es' rg' =>
      andb (option_eqb guard_eqb lg lg') (andb (option_eqb guard_eqb rg rg')
        ((fix go (es es': list (lit * list lit)) : bool :=
            match es, es' with
            | [], [] => true
            | (l, cs) :: r, (l', cs') :: r' =>
                andb (lit_eqb l l')
                  (andb ((fix goc (cs cs': list lit) : bool :=
                            match cs, cs' with
                            | [], [] => true
                            | c :: q, c' :: q' => andb (lit_eqb c c') (goc q q')
                            | _, _ => false end) cs cs') (go r r'))
            | _, _ => false end) es es'))
  | ATheory x, ATheory y => String.eqb x y
  | _, _ => false
  end
with lit_eqb (a b: lit) {struct a} : bool :=
  match a, b with Lit s x, Lit s' y => andb (sign_eqb s s') (atom_eqb x y) end.

Definition condlit_eqb (a b: condlit) := andb (lit_eqb (fst a) (fst b)) (list_eqb lit_eqb (snd a) (snd b)).
Definition belem_eqb (a b: belem) := andb (list_eqb term_eqb (fst a) (fst b)) (list_eqb lit_eqb (snd a) (snd b)).
Definition helem_eqb (a b: helem) := andb (list_eqb term_eqb (fst a) (fst b)) (condlit_eqb (snd a) (snd b)).

Definition bodyelem_eqb (a b: bodyelem) :=
  match a, b with
  | BLit x, BLit y => lit_eqb x y
  | BCond l c, BCond l' c' => andb (lit_eqb l l') (list_eqb lit_eqb c c')
  | _, _ => false
  end.
Definition head_eqb (a b: head) :=
  match a, b with
  | HLit x, HLit y => lit_eqb x y
  | HDisj x, HDisj y => list_eqb condlit_eqb x y
  | HAgg lg es rg, HAgg lg' es' rg' =>
      andb (option_eqb guard_eqb lg lg') (andb (list_eqb condlit_eqb es es') (option_eqb guard_eqb rg rg'))
  | HHeadAgg lg f es rg, HHeadAgg lg' f' es' rg' =>
      andb (option_eqb guard_eqb lg lg') (andb (aggfun_eqb f f')
        (andb (list_eqb helem_eqb es es') (option_eqb guard_eqb rg rg')))
  | HTheory x, HTheory y => String.eqb x y
  | _, _ => false
  end.
(* statement equality ignores the line, as clingo's == ignores locations *)
Definition stmt_eqb (a b: stmt) :=
  match a, b with
  | SRule _ h bd, SRule _ h' bd' => andb (head_eqb h h') (list_eqb bodyelem_eqb bd bd')
  | SMin _ w p ts bd, SMin _ w' p' ts' bd' =>
      andb (term_eqb w w') (andb (term_eqb p p') (andb (list_eqb term_eqb ts ts') (list_eqb bodyelem_eqb bd bd')))
  | SShowSig n a p, SShowSig n' a' p' => andb (String.eqb n n') (andb (Nat.eqb a a') (Bool.eqb p p'))
  | SShowTerm t bd, SShowTerm t' bd' => andb (term_eqb t t') (list_eqb bodyelem_eqb bd bd')
  | SOther k t, SOther k' t' => andb (String.eqb k k') (String.eqb t t')
  | _, _ => false
  end.

Definition pred_eqb (a b: pred) := andb (String.eqb (fst a) (fst b)) (Nat.eqb (snd a) (snd b)).
Definition spred_eqb (a b: spred) := andb (sign_eqb (fst a) (fst b)) (pred_eqb (snd a) (snd b)).

Definition mem {A} (e: A -> A -> bool) (x: A) (l: list A) : bool := existsb (e x) l.

(* ---------- variables ---------- *)
Fixpoint vars_term (t: term) : list string :=
  match t with
  | TVar x => [x]
  | TSym _ => []
  | TUn _ t => vars_term t
  | TBin _ l r => vars_term l ++ vars_term r
  | TInterval l r => vars_term l ++ vars_term r
  | TFun _ args _ => flat_map vars_term args
  | TPool alts => flat_map vars_term alts
  end.
Definition vars_guard (g: guard) := vars_term (snd g).
Definition vars_oguard (g: option guard) := match g with Some g => vars_guard g | None => [] end.

(* order of collection follows clingo's Transformer: attributes in declaration order *)
Fixpoint vars_atom (a: atom) : list string :=
  match a with
  | ASym t => vars_term t
  | ACmp t gs => vars_term t ++ flat_map vars_guard gs
  | ABool _ => []
  | ABodyAgg lg _ es rg =>
      vars_oguard lg ++ flat_map (fun e => flat_map vars_term (fst e) ++ flat_map vars_lit (snd e)) es ++ vars_oguard rg
  | AAgg lg es rg =>
      vars_oguard lg ++ flat_map (fun e => vars_lit (fst e) ++ flat_map vars_lit (snd e)) es ++ vars_oguard rg
  | ATheory _ => []
  end
with vars_lit (l: lit) : list string := match l with Lit _ a => vars_atom a end.

Definition vars_condlit (c: condlit) := vars_lit (fst c) ++ flat_map vars_lit (snd c).
Definition vars_bodyelem (b: bodyelem) :=
  match b with BLit l => vars_lit l | BCond l c => vars_condlit (l, c) end.
Definition vars_head (h: head) : list string :=
  match h with
  | HLit l => vars_lit l
  | HDisj es => flat_map vars_condlit es
  | HAgg lg es rg => vars_oguard lg ++ flat_map vars_condlit es ++ vars_oguard rg
  | HHeadAgg lg _ es rg =>
      vars_oguard lg ++ flat_map (fun e => flat_map vars_term (fst e) ++ vars_condlit (snd e)) es ++ vars_oguard rg
  | HTheory _ => []
  end.
Definition vars_stmt (s: stmt) : list string :=
  match s with
  | SRule _ h b => vars_head h ++ flat_map vars_bodyelem b
  | SMin _ w p ts b => vars_term w ++ vars_term p ++ flat_map vars_term ts ++ flat_map vars_bodyelem b
  | SShowTerm t b => vars_term t ++ flat_map vars_bodyelem b
  | _ => []
  end.

(* the result type of every model function that mirrors Python code which may raise *)
Inductive result (A: Type) :=
| Ok (a: A)
| Raise (kind: string)
| OutOfFragment
| OutOfFuel.
Arguments Ok {A} a. Arguments Raise {A} kind. Arguments OutOfFragment {A}. Arguments OutOfFuel {A}.
Definition rbind {A B} (r: result A) (f: A -> result B) : result B :=
  match r with Ok a => f a | Raise k => Raise k | OutOfFragment => OutOfFragment | OutOfFuel => OutOfFuel end.
