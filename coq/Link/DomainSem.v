(* C20: the generated DOMAIN PREDICATES describe the real domain  (ngo/dependency.py, class DomainPredicates:
   __compute_domains / add_domain_rules / create_domain; executable model Model/Dependency.v).

   What the Python emits.  For every rule  h :- B  (and every element  p(t) : C  of a choice / disjunction / head
   aggregate) whose head predicate p gets a domain predicate  __dom_p  the rule

        __dom_p(t) :- (C ++ B)[ q(u) |-> dom(q)(u)  for EVERY symbolic atom, whatever its sign or position ]

   where dom(q) = q for a static predicate and __dom_q otherwise.  Nothing is dropped: negative literals,
   comparisons, aggregates over static predicates and conditional literals stay in the body (a predicate gets no
   domain when one of its rules has an aggregate over a non-static predicate, when it lies on a cycle or when a
   head variable is unbound).

   Contents
     0. Lift         heads satisfied by (T,T) are satisfied by (X,T), X <= T: choices and head aggregates with ANY bounds
                     and ANY conditions (Sem/Sat.v evaluates their bounds in the total interpretation only, as clingo
                     does); disjunctions whose conditions mean the same in X and T.
     1. Overapprox   domain_overapprox: in every stable model T of a program Q that contains, for every rule /
                     head element deriving a predicate p with dom p = Some dp, a rule  dp(args) :- B'  whose body
                     elements are [covered] by the source (copied simple literal of any sign; domain image of a POSITIVE
                     atom; any element copied verbatim / conditional literal with static condition and replaced head
                     atom when the global variables agree),       T (p, vs) -> T (dp, vs).
                     Proof: H := T minus the atoms p(vs) whose domain atom is missing is an HT-model; no level mapping,
                     no acyclicity, no safety hypothesis (the domain rule is used with the substitution of the source).
                     domain_overapprox_split: the P ++ DR shape with instance facts over predicates without domain.
     2. ChoiceFree   strat_step_sub; domain_least_model: T restricted to the low (= static + domain) predicates is the
                     LEAST model of the definite bottom part; domain_choice_free / domain_choice_free_strat: the
                     extension of the low predicates is the same in all stable models, also of DIFFERENT programs and
                     instances with the same bottom part and low facts (negation / aggregates over lower layers allowed).
     1b. Checker     fragb / facts_nodomb: boolean validator for the hypotheses of 1 (sound, for simple-literal domain
                     bodies); domain_overapprox_checked, model_output_validated (translation validation).
     3. Witnesses    domain_negation_refuted       `__dom_p(X,M) :- q(X,M), not __dom_r(X)` (known finding domain-negation)
                     domain_ignores_input_refuted  instance facts of a predicate with a domain (finding domain-ignores-input)
                     domain_condition_refuted      `__dom_a :- b(X) : __dom_c(X)` (condition of a conditional literal; NEW)
                     lower_bound_cycle_unsat       `1 {p : c}. c :- p.` has NO stable model (as in clingo: the bounds of a
                                                   choice are evaluated in the total interpretation only)
                     each with the rules computed from Model.Dependency by vm_compute and an explicit stable model.
     4. ModelLink    the rules Model.Dependency.create_domain emits for
                        {a(X)} :- d(X).  b(X,Y) :- a(X), e(X,Y).  c(X) :- b(X,_), not f(X).
                     by vm_compute, and both theorems instantiated on them (model_domains_overapprox,
                     model_domains_choice_free); the validator accepts them and rejects the witnesses of 3.
   Axiom used: Classical_Prop.classic in sections 0-2, 1b, 4 and domain_negation_not_covered (case splits on T a).
   The four witnesses of section 3 are axiom-free. *)
From Coq Require Import List String ZArith Bool Classical Permutation Arith Lia.
From NGO Require Import Syntax.Ast Sem.Sym Sem.Sat Link.AggSem Link.NormalizeSpec Link.SubstSpec Link.InlineSem.
From NGO Require Link.Ground Link.ChainSem Link.CleanupSpec Model.Normalize Model.Globals Model.Dependency.
Import ListNotations.
Open Scope string_scope. Open Scope list_scope.

(* the positive symbolic literal n(args) *)
Definition dlit (n: string) (args: list term) (e: bool) : lit := Lit NoSign (ASym (TFun n args e)).

(* ================================================================================================ *)
(* 0. Lifting the satisfaction of heads from (T,T) to (X,T), X <= T                                 *)
(* ================================================================================================ *)
Section Lift.
Variable sym_lt : sym -> sym -> Prop.
Notation lit_sat := (Sat.lit_sat sym_lt).
Notation lits_sat := (Sat.lits_sat sym_lt).
Notation bodyelem_sat := (Sat.bodyelem_sat sym_lt).
Notation body_sat := (Sat.body_sat sym_lt).
Notation head_sat := (Sat.head_sat sym_lt).
Notation choice_tuples := (Sat.choice_tuples sym_lt).
Notation headagg_tuples := (Sat.headagg_tuples sym_lt).
Notation guard_ok := (Sat.guard_ok sym_lt).
Notation agg_holds := (Sat.agg_holds sym_lt).

Lemma lit_sat_fun G H T s sg n args e :
  lit_sat G H T s (Lit sg (ASym (TFun n args e))) <->
  exists vs, eval_list s args = Some vs /\ apply_sign sg (H (n, vs)) (T (n, vs)).
Proof. apply ChainSem.lit_sat_fun. Qed.

Lemma dlit_sat G H T s n args e : lit_sat G H T s (dlit n args e) <-> exists vs, eval_list s args = Some vs /\ H (n, vs).
Proof. unfold dlit. rewrite lit_sat_fun. simpl. tauto. Qed.

Lemma lits_persist G X T th cs : subi X T -> lits_sat G X T th cs -> lits_sat G T T th cs.
Proof. intros S C. eapply CleanupSpec.lits_sat_persist_proof; [exact S|exact C]. Qed.

Lemma lit_persist G X T th l : subi X T -> lit_sat G X T th l -> lit_sat G T T th l.
Proof. intros S C. eapply CleanupSpec.lit_sat_persist_all_proof; [exact S|exact C]. Qed.

(* the element-wise part of a choice head: an atom of T whose condition holds in (X,T) is kept in X *)
Definition keeps (G: list string) (X T: interp) (s: subst) (es: list condlit) : Prop :=
  forall c th, In c es -> agree_on G s th -> lits_sat G X T th (snd c) -> lit_sat G T T th (fst c) -> lit_sat G X T th (fst c).

Lemma keeps_choice_elems_ok G X T s es : keeps G X T s es -> Sat.choice_elems_ok sym_lt G X T s es.
Proof.
  intros K c th Hc Ag Cs. destruct (classic (lit_sat G T T th (fst c))) as [Y|N]; [left|right; exact N].
  exact (K c th Hc Ag Cs Y).
Qed.

(* choice with ANY bounds and ANY conditions: Sem/Sat.v evaluates the bounds in the total interpretation only (clingo:
   `l { .. } u :- B` is the choice `{ .. } :- B` plus the constraint `:- B, not l { .. } u`) *)
Lemma choice_lift G X T s lg es rg :
  keeps G X T s es -> head_sat G T T s (HAgg lg es rg) -> head_sat G X T s (HAgg lg es rg).
Proof.
  intros K [_ AT']. simpl. split; [exact (keeps_choice_elems_ok _ _ _ _ _ K)|exact AT'].
Qed.

(* ... the same for head aggregates *)
Lemma headagg_lift G X T s lg f es rg :
  keeps G X T s (map snd es) -> head_sat G T T s (HHeadAgg lg f es rg) -> head_sat G X T s (HHeadAgg lg f es rg).
Proof.
  intros K [_ AT']. simpl. split; [exact (keeps_choice_elems_ok _ _ _ _ _ K)|exact AT'].
Qed.

(* disjunctions are evaluated in (X,T): conditions that mean the same in (X,T) and (T,T) *)
Definition conds_inv (G: list string) (X T: interp) (s: subst) (cs: list (list lit)) : Prop :=
  forall c th, In c cs -> agree_on G s th -> lits_sat G T T th c -> lits_sat G X T th c.

Lemma disj_inv_lift G X T s es : conds_inv G X T s (map snd es) -> keeps G X T s es ->
  head_sat G T T s (HDisj es) -> head_sat G X T s (HDisj es).
Proof.
  intros CI K (c & th & Hc & Ag & Cs & L). simpl.
  assert (Cs': lits_sat G X T th (snd c)) by (apply (CI (snd c) th); [apply in_map; exact Hc|exact Ag|exact Cs]).
  exists c, th. repeat (split; [assumption|]). exact (K c th Hc Ag Cs' L).
Qed.

(* simple literals that are not positive symbolic atoms do not look at H *)
Lemma nonpos_lit_HT G X T s l : Normalize.simple_lit_b l = true -> (forall t, l <> Lit NoSign (ASym t)) ->
  (lit_sat G X T s l <-> lit_sat G T T s l).
Proof.
  intros Sm NP. destruct l as [sg a]. destruct a as [t|t gs|b| | |]; try discriminate Sm.
  - rewrite !lit_sat_sym_eq. unfold sym_atom_sat. destruct (eval s t) as [[ |z|x|n vs [|]| ]|]; try tauto.
    destruct sg; simpl; try tauto. exfalso. exact (NP t eq_refl).
  - rewrite !lit_sat_cmp_eq. tauto.
  - rewrite !lit_sat_bool_eq. tauto.
Qed.
End Lift.

(* ================================================================================================ *)
(* 1. The domain predicates over-approximate                                                        *)
(* ================================================================================================ *)
Section Overapprox.
Variable sym_lt : sym -> sym -> Prop.
Variable dom : pred -> option string.           (* p |-> name of its domain predicate (same arity) *)
Notation lit_sat := (Sat.lit_sat sym_lt).
Notation lits_sat := (Sat.lits_sat sym_lt).
Notation bodyelem_sat := (Sat.bodyelem_sat sym_lt).
Notation body_sat := (Sat.body_sat sym_lt).
Notation head_sat := (Sat.head_sat sym_lt).
Notation stmt_sat := (Sat.stmt_sat sym_lt).
Notation prog_sat := (Sat.prog_sat sym_lt).
Notation stable := (Sat.stable sym_lt).

(* T minus the atoms p(vs) of predicates with a domain whose domain atom is missing *)
Definition good (T: interp) : interp := fun a => T a /\ forall dn, dom (gpred a) = Some dn -> T (dn, snd a).
Lemma good_sub T : subi (good T) T.
Proof. intros a [Ta _]. exact Ta. Qed.

Definition nodom (p: pred) : bool := match dom p with None => true | Some _ => false end.
Lemma good_agree T : agreeK nodom (good T) T.
Proof.
  intros a Ka. split; [apply good_sub|]. intro Ta. split; [exact Ta|]. intros dn E. unfold nodom in Ka. rewrite E in Ka. discriminate Ka.
Qed.

(* where the literals of a domain rule come from: the body B of the source rule, or the condition C of the
   head element *)
Definition from_src (b: list bodyelem) (C: list lit) (l: lit) : Prop := In (BLit l) b \/ In l C.

(* literals (any kind, aggregates included) that only mention predicates without domain, or negated atoms: they mean 
   the same in (good T, T) and (T, T) *)
Definition static_lit (l: lit) : Prop :=
  lit_in nodom l = true \/ exists sg t, sg <> NoSign /\ l = Lit sg (ASym t).

(* body elements of the domain rule (G, G' = global variables of the source rule / of the domain rule) *)
Inductive covered (b: list bodyelem) (C: list lit) (G G': list string) : bodyelem -> Prop :=
| CV_copy l :                   (* a symbolic / comparison / boolean literal of ANY sign, copied *)
    Normalize.simple_lit_b l = true -> from_src b C l -> covered b C G G' (BLit l)
| CV_dom n args e e' dn :       (* a POSITIVE atom replaced by its domain atom *)
    from_src b C (dlit n args e) -> dom (n, List.length args) = Some dn -> covered b C G G' (BLit (dlit dn args e'))
| CV_any x :                    (* any body element (aggregate, conditional literal) copied, when the global variables agree *)
    In x b -> same_members G G' -> covered b C G G' x
| CV_cond n args e e' dn c :    (* conditional literal  n(args) : c  with a STATIC condition: its head atom replaced *)
    In (BCond (dlit n args e) c) b -> (forall l, In l c -> static_lit l) -> dom (n, List.length args) = Some dn ->
    same_members G G' -> covered b C G G' (BCond (dlit dn args e') c).

(* Q has a domain rule  dn(args) :- B'  for the derivation of p(args) from body b and condition C *)
Definition has_dom_rule (Q: program) (G: list string) (b: list bodyelem) (C: list lit) (dn: string) (args: list term) : Prop :=
  exists line' e' b', In (SRule line' (HLit (dlit dn args e')) b') Q /\
    forall x, In x b' -> covered b C G (gvars_rule (HLit (dlit dn args e')) b') x.

Definition elem_ok (Q: program) (G: list string) (b: list bodyelem) (c: condlit) : Prop :=
  exists n args e, fst c = dlit n args e /\
    forall dn, dom (n, List.length args) = Some dn -> has_dom_rule Q G b (snd c) dn args.

(* the heads of the fragment, each with its obligation *)
Inductive dhead (Q: program) (b: list bodyelem) (G: list string) : head -> Prop :=
| DH_atom n args e :
    (forall dn, dom (n, List.length args) = Some dn -> has_dom_rule Q G b [] dn args) ->
    dhead Q b G (HLit (dlit n args e))
| DH_lit l :                    (* #false, not p(t), not not p(t), comparisons *)
    Normalize.simple_lit_b l = true -> (forall t, l <> Lit NoSign (ASym t)) -> dhead Q b G (HLit l)
| DH_choice lg es rg :          (* ANY bounds, ANY conditions *)
    (forall c, In c es -> elem_ok Q G b c) ->
    dhead Q b G (HAgg lg es rg)
| DH_disj es :
    (forall c, In c es -> elem_ok Q G b c) -> (forall c l, In c es -> In l (snd c) -> static_lit l) ->
    dhead Q b G (HDisj es)
| DH_headagg lg f es rg :       (* ANY bounds, ANY conditions *)
    (forall e, In e es -> elem_ok Q G b (snd e)) ->
    dhead Q b G (HHeadAgg lg f es rg).

Lemma static_lit_inv G T th l : static_lit l -> lit_sat G T T th l -> lit_sat G (good T) T th l.
Proof.
  intros [In_|[sg [t [Ns ->]]]] L.
  - apply (lit_sat_in sym_lt nodom G (good T) T T T th l In_ (good_agree T) (agreeK_refl nodom T)). exact L.
  - apply (nonpos_lit_HT sym_lt G (good T) T th (Lit sg (ASym t)) eq_refl); [|exact L].
    intros t' E. injection E as E _. exact (Ns E).
Qed.

Lemma static_conds_inv G T s (cs: list (list lit)) :
  (forall c l, In c cs -> In l c -> static_lit l) -> conds_inv sym_lt G (good T) T s cs.
Proof.
  intros St c th Hc _ Cs. unfold Sat.lits_sat in *. rewrite Forall_forall in *. intros l Hl.
  apply static_lit_inv; [exact (St c l Hc Hl)|exact (Cs l Hl)].
Qed.

(* a positive atom of (good T) has its domain atom in T *)
Lemma dlit_good G G' T s n args e dn e' : dom (n, List.length args) = Some dn ->
  lit_sat G (good T) T s (dlit n args e) -> lit_sat G' T T s (dlit dn args e').
Proof.
  intros D L. apply dlit_sat in L. destruct L as [vs [E [Tv K]]]. apply dlit_sat. exists vs. split; [exact E|].
  apply (K dn). unfold gpred. simpl. rewrite (ChainSem.eval_list_length _ _ _ E). exact D.
Qed.

Lemma simple_move G G' X T s th l : Normalize.simple_lit_b l = true ->
  (forall x, In x (vars_lit l) -> s x = th x) -> lit_sat G X T s l -> lit_sat G' X T th l.
Proof. intros Sm A. apply (proj1 (lit_sat_coincide_simple sym_lt G G' X T s th l Sm A)). Qed.

Lemma covered_sat b C G G' T s th x :
  (forall y, In y (flat_map gvars_bodyelem b) -> In y G) -> agree_on G s th ->
  body_sat G (good T) T s b -> lits_sat G (good T) T th C ->
  covered b C G G' x -> bodyelem_sat G' T T th x.
Proof.
  intros GB Ag BS CS Cv. unfold Sat.body_sat in BS. rewrite Forall_forall in BS.
  unfold Sat.lits_sat in CS. rewrite Forall_forall in CS.
  assert (Vars: forall l, Normalize.simple_lit_b l = true -> In (BLit l) b -> forall y, In y (vars_lit l) -> s y = th y).
  { intros l Sm Hl y Hy. apply Ag. apply GB. apply in_flat_map. exists (BLit l). split; [exact Hl|].
    simpl. rewrite (gvars_simple_lit l Sm). exact Hy. }
  destruct Cv as [l Sm [Hb|Hc]|n args e e' dn [Hb|Hc] D|x Hx SM|n args e e' dn c Hx St D SM]; simpl.
  - apply (simple_move G G' T T s th l Sm (Vars l Sm Hb)). apply (lit_persist sym_lt _ _ _ _ _ (good_sub T)). exact (BS _ Hb).
  - apply (simple_move G G' T T th th l Sm (fun _ _ => eq_refl)). apply (lit_persist sym_lt _ _ _ _ _ (good_sub T)). exact (CS _ Hc).
  - apply (simple_move G G' T T s th (dlit dn args e') eq_refl).
    + exact (Vars (dlit n args e) eq_refl Hb).
    + apply (dlit_good G G T s n args e dn e' D). exact (BS _ Hb).
  - apply (dlit_good G G' T th n args e dn e' D). exact (CS _ Hc).
  - apply (bodyelem_sat_gext sym_lt G G' T T th x SM).
    apply (bodyelem_sat_coincide_dir sym_lt G T T s th x).
    + intros y Hy. apply Ag. apply GB. apply in_flat_map. exists x. split; assumption.
    + intros y _ HG. apply Ag. exact HG.
    + apply (ChainSem.bodyelem_sat_persist sym_lt G (good T) T s x (good_sub T)). exact (BS _ Hx).
  - intros th' Ag'. pose proof (BS _ Hx) as F. simpl in F.
    assert (Ag2: agree_on G s th').
    { intros y Hy. rewrite (Ag y Hy). apply Ag'. apply SM. exact Hy. }
    destruct (F th' Ag2) as [F1 _].
    assert (K: lits_sat G' T T th' c -> lit_sat G' T T th' (dlit dn args e')).
    { intro Cs. apply (dlit_good G G' T th' n args e dn e' D). apply F1.
      apply (lits_sat_gext sym_lt G G' T T th' c SM) in Cs. unfold Sat.lits_sat in *. rewrite Forall_forall in *.
      intros l Hl. apply static_lit_inv; [exact (St l Hl)|exact (Cs l Hl)]. }
    split; exact K.
Qed.

(* the domain rule fires *)
Lemma keep Q T h b s th C dn args vs :
  prog_sat T T Q -> agree_on (gvars_rule h b) s th ->
  body_sat (gvars_rule h b) (good T) T s b -> lits_sat (gvars_rule h b) (good T) T th C ->
  has_dom_rule Q (gvars_rule h b) b C dn args -> eval_list th args = Some vs -> T (dn, vs).
Proof.
  intros PT Ag BS CS (line' & e' & b' & Hin & Cov) Ev.
  pose proof (PT _ Hin) as R. simpl in R. destruct (R th) as [_ RT].
  assert (B': body_sat (gvars_rule (HLit (dlit dn args e')) b') T T th b').
  { unfold Sat.body_sat. rewrite Forall_forall. intros x Hx.
    apply (covered_sat b C (gvars_rule h b) _ T s th x); try assumption; [|exact (Cov x Hx)].
    intros y Hy. unfold gvars_rule. apply in_or_app. right. exact Hy. }
  specialize (RT B'). change (lit_sat (gvars_rule (HLit (dlit dn args e')) b') T T th (dlit dn args e')) in RT.
  apply dlit_sat in RT. destruct RT as [vs' [Ev' Tv]]. rewrite Ev in Ev'. injection Ev' as <-. exact Tv.
Qed.

Lemma elems_keep Q T h b s es :
  prog_sat T T Q -> body_sat (gvars_rule h b) (good T) T s b ->
  (forall c, In c es -> elem_ok Q (gvars_rule h b) b c) -> keeps sym_lt (gvars_rule h b) (good T) T s es.
Proof.
  intros PT BS EO c th Hc Ag Cs L. destruct (EO c Hc) as (n & args & e & Ef & Dr). rewrite Ef in *.
  apply dlit_sat in L. destruct L as [vs [Ev Tv]]. apply dlit_sat. exists vs. split; [exact Ev|]. split; [exact Tv|].
  intros dn D. simpl. unfold gpred in D. simpl in D. rewrite (ChainSem.eval_list_length _ _ _ Ev) in D.
  exact (keep Q T h b s th (snd c) dn args vs PT Ag BS Cs (Dr dn D) Ev).
Qed.

(* THE THEOREM.  Hypotheses:
     Frag  every rule of Q has a head of the fragment, and for every head atom / head element over a predicate p with
           dom p = Some dn the program contains a domain rule  dn(args) :- B'  with B' covered by the source;
     Facts the instance facts are closed under dom (in particular: no instance facts over predicates with a domain,
           see domain_ignores_input_refuted). *)
Theorem domain_overapprox Q I T :
  (forall line h b, In (SRule line h b) Q -> dhead Q b (gvars_rule h b) h) ->
  (forall a dn, In a I -> dom (gpred a) = Some dn -> In (dn, snd a) I) ->
  stable Q I T ->
  forall n vs dn, dom (n, List.length vs) = Some dn -> T (n, vs) -> T (dn, vs).
Proof.
  intros Frag Facts [[PT FT] Min].
  pose proof (good_sub T) as S.
  assert (PS: prog_sat (good T) T Q).
  { intros st Hin. destruct st as [line h b| | | |]; try exact Logic.I.
    pose proof (PT _ Hin) as RT. simpl in RT. simpl. intros s. destruct (RT s) as [_ RTs]. split; [|exact RTs].
    intros BH. pose proof (ChainSem.body_sat_persist sym_lt _ _ _ _ _ S BH) as BT. specialize (RTs BT).
    pose proof (Frag _ _ _ Hin) as DH. set (G := gvars_rule h b) in *.
    assert (Ag0: agree_on G s s) by (intros x _; reflexivity).
    inversion DH as [n args e Dr E|l Sm NP E|lg es rg EO E|es EO St E|lg f es rg EO E]; subst h.
    - (* atom head *)
      change (lit_sat G T T s (dlit n args e)) in RTs. change (lit_sat G (good T) T s (dlit n args e)).
      apply dlit_sat in RTs. destruct RTs as [vs [Ev Tv]]. apply dlit_sat. exists vs. split; [exact Ev|]. split; [exact Tv|].
      intros dn D. simpl. unfold gpred in D. simpl in D. rewrite (ChainSem.eval_list_length _ _ _ Ev) in D.
      apply (keep Q T _ b s s [] dn args vs PT Ag0 BH); [constructor|exact (Dr dn D)|exact Ev].
    - change (lit_sat G T T s l) in RTs. change (lit_sat G (good T) T s l).
      apply (nonpos_lit_HT sym_lt G (good T) T s l Sm NP). exact RTs.
    - pose proof (elems_keep Q T _ b s es PT BH EO) as K. fold G in K.
      exact (choice_lift sym_lt G (good T) T s lg es rg K RTs).
    - pose proof (elems_keep Q T _ b s es PT BH EO) as K. fold G in K.
      apply (disj_inv_lift sym_lt G (good T) T s es); try assumption.
      apply static_conds_inv. intros c l Hc Hl. apply in_map_iff in Hc. destruct Hc as [c0 [<- Hc0]]. exact (St c0 l Hc0 Hl).
    - assert (EO': forall c, In c (map snd es) -> elem_ok Q G b c).
      { intros c Hc. apply in_map_iff in Hc. destruct Hc as [e0 [<- He0]]. exact (EO e0 He0). }
      pose proof (elems_keep Q T _ b s (map snd es) PT BH EO') as K. fold G in K.
      exact (headagg_lift sym_lt G (good T) T s lg f es rg K RTs). }
  assert (FH: facts_sat (good T) I).
  { intros a Ha. split; [apply FT; exact Ha|]. intros dn D. apply FT. exact (Facts a dn Ha D). }
  intros n vs dn D Tv. destruct (Min (good T) S PS FH (n, vs) Tv) as [_ K]. exact (K dn D).
Qed.

(* the shape P ++ DR with instance facts I: the domain rules have heads over predicates without domain and the
   instance has no facts over predicates with a domain *)
Corollary domain_overapprox_split P DR I T :
  (forall line h b, In (SRule line h b) P -> dhead (P ++ DR) b (gvars_rule h b) h) ->
  (forall line h b, In (SRule line h b) DR -> exists dn args e, h = HLit (dlit dn args e) /\ dom (dn, List.length args) = None) ->
  (forall a, In a I -> dom (gpred a) = None) ->
  stable (P ++ DR) I T ->
  forall n vs dn, dom (n, List.length vs) = Some dn -> T (n, vs) -> T (dn, vs).
Proof.
  intros FP FD FI St. apply (domain_overapprox (P ++ DR) I T); [| |exact St].
  - intros line h b Hin. apply in_app_or in Hin. destruct Hin as [Hin|Hin]; [exact (FP _ _ _ Hin)|].
    destruct (FD _ _ _ Hin) as (dn & args & e & -> & N). apply DH_atom. intros dn' D. rewrite N in D. discriminate D.
  - intros a dn Ha D. rewrite (FI a Ha) in D. discriminate D.
Qed.
End Overapprox.

(* ================================================================================================ *)
(* 2. The domain predicates do not depend on choices                                                *)
(* ================================================================================================ *)
Definition none_pred : pred -> bool := fun _ => false.
Definition restrK (low: pred -> bool) (T: interp) : interp := fun a => low (gpred a) = true /\ T a.

(* body elements of a rule that is DEFINITE MODULO low0: positive atoms, or anything (negative literals, comparisons,
   aggregates, conditional literals) that only mentions predicates of the lower layer low0 *)
Definition def_elem (low0: pred -> bool) (x: bodyelem) : Prop :=
  (exists n args e, x = BLit (dlit n args e)) \/ bodyelem_in low0 x = true.
Definition def_rule (low0: pred -> bool) (st: stmt) : Prop :=
  match st with
  | SRule _ h b => (exists n args e, h = HLit (dlit n args e)) /\ forall x, In x b -> def_elem low0 x
  | _ => True
  end.
(* a choice (ANY bounds) over predicates that are not low: its CONDITIONS may mention low predicates *)
Definition choice_top (low: pred -> bool) (st: stmt) : Prop :=
  match st with
  | SRule _ (HAgg lg es rg) _ =>
      forall c, In c es -> exists n args e, fst c = dlit n args e /\ low (n, List.length args) = false
  | _ => False
  end.
(* Q = bottom part B (within low, definite modulo low0)  +  statements whose heads do not mention low at all
   (constraints included) + choices over non-low predicates *)
Definition layered (low0 low: pred -> bool) (B Q: program) : Prop :=
  forall st, In st Q ->
    (In st B /\ stmt_in low st = true /\ def_rule low0 st) \/ stmt_head_in (nlow low) st = true \/ choice_top low st.

Section ChoiceFree.
Variable sym_lt : sym -> sym -> Prop.
Notation lit_sat := (Sat.lit_sat sym_lt).
Notation lits_sat := (Sat.lits_sat sym_lt).
Notation bodyelem_sat := (Sat.bodyelem_sat sym_lt).
Notation body_sat := (Sat.body_sat sym_lt).
Notation head_sat := (Sat.head_sat sym_lt).
Notation stmt_sat := (Sat.stmt_sat sym_lt).
Notation prog_sat := (Sat.prog_sat sym_lt).
Notation stable := (Sat.stable sym_lt).

(* one layer, one direction: the low atoms of a stable model T1 of Q1 lie in every classical model T2 of the bottom
   part that contains the low facts and agrees with T1 on the lower layer *)
Theorem strat_step_sub (low0 low: pred -> bool) (B Q1: program) (I1: list gatom) (T1 T2: interp) :
  layered low0 low B Q1 -> stable Q1 I1 T1 -> prog_sat T2 T2 B ->
  (forall a, In a I1 -> low (gpred a) = true -> T2 a) -> agreeK low0 T1 T2 ->
  forall a, low (gpred a) = true -> T1 a -> T2 a.
Proof.
  intros Lay [[PT FT] Min] M2 F2 A0.
  set (H := fun a : gatom => T1 a /\ (low (gpred a) = true -> T2 a)).
  assert (S: subi H T1) by (intros a [Ta _]; exact Ta).
  assert (AH: agreeK low0 H T2).
  { intros a La. unfold H. pose proof (A0 a La) as E. tauto. }
  assert (ATop: agreeK (nlow low) T1 H).
  { intros a La. unfold nlow in La. apply negb_true_iff in La. unfold H. rewrite La. split; [intro Ta; split; [exact Ta|discriminate]|tauto]. }
  assert (PS: prog_sat H T1 Q1).
  { intros st Hin. destruct (Lay st Hin) as [[HB [Lo Df]]|[Top|Up]].
    - destruct st as [line h b| | | |]; try exact Logic.I.
      destruct Df as [(n & args & e & ->) Db]. simpl in Lo. apply andb_true_iff in Lo. destruct Lo as [Lh Lb].
      pose proof (PT _ Hin) as R1. pose proof (M2 _ HB) as R2. simpl in R1, R2 |- *.
      set (G := gvars_rule (HLit (dlit n args e)) b) in *. intros s. destruct (R1 s) as [_ R1s]. split; [|exact R1s].
      intros BH. pose proof (ChainSem.body_sat_persist sym_lt _ _ _ _ _ S BH) as BT. specialize (R1s BT).
      assert (B2: body_sat G T2 T2 s b).
      { unfold Sat.body_sat in *. rewrite Forall_forall in *. intros x Hx. specialize (BH x Hx).
        unfold body_in in Lb. rewrite forallb_forall in Lb. specialize (Lb x Hx).
        destruct (Db x Hx) as [(n' & args' & e' & ->)|L0].
        - simpl in BH |- *. apply dlit_sat in BH. destruct BH as [vs [Ev [_ K]]]. apply dlit_sat. exists vs. split; [exact Ev|].
          apply K. unfold gpred. simpl. rewrite (ChainSem.eval_list_length _ _ _ Ev). exact Lb.
        - apply (bodyelem_sat_in sym_lt low0 G H T2 T1 T2 s x L0 AH A0). exact BH. }
      destruct (R2 s) as [_ R2s]. specialize (R2s B2).
      change (lit_sat G T1 T1 s (dlit n args e)) in R1s. change (lit_sat G T2 T2 s (dlit n args e)) in R2s.
      change (lit_sat G H T1 s (dlit n args e)).
      apply dlit_sat in R1s. destruct R1s as [vs [Ev Tv]]. apply dlit_sat in R2s. destruct R2s as [vs' [Ev' Tv']].
      rewrite Ev in Ev'. injection Ev' as <-. apply dlit_sat. exists vs. split; [exact Ev|]. split; [exact Tv|intros _; exact Tv'].
    - exact (head_in_sat_lift sym_lt (nlow low) H T1 st Top S ATop (PT st Hin)).
    - destruct st as [line h b| | | |]; try contradiction. destruct h as [l|es|lg es rg|lg f es rg|tx]; try contradiction.
      rename Up into At. pose proof (PT _ Hin) as R1. simpl in R1 |- *. intros s. destruct (R1 s) as [_ R1s]. split; [|exact R1s].
      intros BH. pose proof (ChainSem.body_sat_persist sym_lt _ _ _ _ _ S BH) as BT. specialize (R1s BT).
      apply (choice_lift sym_lt _ H T1 s lg es rg); [|exact R1s].
      intros c th Hc Ag Cs L. destruct (At c Hc) as (n & args & e & Ef & Nl). rewrite Ef in *.
      apply dlit_sat in L. destruct L as [vs [Ev Tv]]. apply dlit_sat. exists vs. split; [exact Ev|]. split; [exact Tv|].
      unfold gpred. simpl. rewrite (ChainSem.eval_list_length _ _ _ Ev), Nl. discriminate. }
  assert (FH: facts_sat H I1).
  { intros a Ha. split; [apply FT; exact Ha|]. intro La. exact (F2 a Ha La). }
  intros a La Ta. destruct (Min H S PS FH a Ta) as [_ K]. exact (K La).
Qed.

(* LEAST MODEL: bottom part definite (negation-free; comparisons allowed).  restrK low T is a model of the bottom part
   and of the low facts, and is contained in every such model. *)
Theorem domain_least_model (low: pred -> bool) (B Q: program) (I: list gatom) (T: interp) :
  layered none_pred low B Q -> (forall st, In st B -> In st Q /\ stmt_in low st = true) -> stable Q I T ->
  (prog_sat (restrK low T) (restrK low T) B /\ (forall a, In a I -> low (gpred a) = true -> restrK low T a)) /\
  (forall M, prog_sat M M B -> (forall a, In a I -> low (gpred a) = true -> M a) ->
     forall a, restrK low T a -> M a).
Proof.
  intros Lay BQ St. split; [split|].
  - intros st Hst. destruct (BQ st Hst) as [HQ Lo]. destruct St as [[PT _] _].
    assert (A: agreeK low (restrK low T) T) by (intros a La; unfold restrK; tauto).
    apply (stmt_sat_in sym_lt low (restrK low T) T (restrK low T) T st Lo A A). exact (PT st HQ).
  - intros a Ha La. split; [exact La|]. destruct St as [[_ FT] _]. exact (FT a Ha).
  - intros M MB MF a [La Ta]. apply (strat_step_sub none_pred low B Q I T M Lay St MB MF); [|exact La|exact Ta].
    intros x Lx. discriminate Lx.
Qed.

(* the extension of the low predicates is determined by the bottom part and the low facts: two stable models -- of the
   same or of DIFFERENT programs with the same bottom part -- agree on low *)
Theorem strat_step (low0 low: pred -> bool) (B Q1 Q2: program) (I1 I2: list gatom) (T1 T2: interp) :
  layered low0 low B Q1 -> layered low0 low B Q2 -> incl B Q1 -> incl B Q2 ->
  (forall a, low (gpred a) = true -> (In a I1 <-> In a I2)) ->
  stable Q1 I1 T1 -> stable Q2 I2 T2 -> agreeK low0 T1 T2 -> agreeK low T1 T2.
Proof.
  intros L1 L2 B1 B2 FI S1 S2 A0 a La. split.
  - apply (strat_step_sub low0 low B Q1 I1 T1 T2 L1 S1); [| |exact A0|exact La].
    + intros st Hst. destruct S2 as [[PT _] _]. exact (PT st (B2 st Hst)).
    + intros x Hx Lx. destruct S2 as [[_ FT] _]. apply FT. apply (FI x Lx). exact Hx.
  - apply (strat_step_sub low0 low B Q2 I2 T2 T1 L2 S2); [| |apply agreeK_sym; exact A0|exact La].
    + intros st Hst. destruct S1 as [[PT _] _]. exact (PT st (B1 st Hst)).
    + intros x Hx Lx. destruct S1 as [[_ FT] _]. apply FT. apply (FI x Lx). exact Hx.
Qed.

Corollary domain_choice_free (low: pred -> bool) (B Q1 Q2: program) (I1 I2: list gatom) (T1 T2: interp) :
  layered none_pred low B Q1 -> layered none_pred low B Q2 -> incl B Q1 -> incl B Q2 ->
  (forall a, low (gpred a) = true -> (In a I1 <-> In a I2)) ->
  stable Q1 I1 T1 -> stable Q2 I2 T2 -> agreeK low T1 T2.
Proof.
  intros L1 L2 B1 B2 FI S1 S2. apply (strat_step none_pred low B Q1 Q2 I1 I2 T1 T2); try assumption.
  intros a La. discriminate La.
Qed.

(* several layers low_1, low_2, ...: layer k+1 is definite modulo layer k (stratified negation, aggregates over lower
   layers) *)
Fixpoint strat (low0: pred -> bool) (ls: list (pred -> bool)) (B Q: program) : Prop :=
  match ls with
  | [] => True
  | low :: r => layered low0 low B Q /\ strat low r B Q
  end.

Lemma strat_gen (B Q1 Q2: program) (I1 I2: list gatom) (T1 T2: interp) :
  incl B Q1 -> incl B Q2 -> stable Q1 I1 T1 -> stable Q2 I2 T2 ->
  forall (ls: list (pred -> bool)) (low0: pred -> bool), agreeK low0 T1 T2 -> strat low0 ls B Q1 -> strat low0 ls B Q2 ->
  (forall low a, In low ls -> low (gpred a) = true -> (In a I1 <-> In a I2)) ->
  forall low, In low ls -> agreeK low T1 T2.
Proof.
  intros B1 B2 S1 S2. induction ls as [|l r IH]; intros low0 A0 X1 X2 FI low Hl; [contradiction|].
  destruct X1 as [L1 R1]. destruct X2 as [L2 R2].
  assert (Al: agreeK l T1 T2).
  { apply (strat_step low0 l B Q1 Q2 I1 I2 T1 T2); try assumption. intros a La. apply (FI l a); [left; reflexivity|exact La]. }
  destruct Hl as [<-|Hr]; [exact Al|].
  exact (IH l Al R1 R2 (fun lw a Hlw => FI lw a (or_intror Hlw)) low Hr).
Qed.

Theorem domain_choice_free_strat (ls: list (pred -> bool)) (B Q1 Q2: program) (I1 I2: list gatom) (T1 T2: interp) :
  strat none_pred ls B Q1 -> strat none_pred ls B Q2 -> incl B Q1 -> incl B Q2 ->
  (forall low a, In low ls -> low (gpred a) = true -> (In a I1 <-> In a I2)) ->
  stable Q1 I1 T1 -> stable Q2 I2 T2 -> forall low, In low ls -> agreeK low T1 T2.
Proof.
  intros St1 St2 B1 B2 FI S1 S2. apply (strat_gen B Q1 Q2 I1 I2 T1 T2 B1 B2 S1 S2 ls none_pred); try assumption.
  intros a La. discriminate La.
Qed.
End ChoiceFree.

(* the domain map of a DomainPredicates state *)
Definition dom_of (ds: list (pred * pred)) (p: pred) : option string :=
  match Dependency.alookup pred_eqb p ds with Some d => Some (fst d) | None => None end.

(* DomainPredicates(prg) with input predicates ins, then list(create_domain(p)):  (self.domains, the rules) *)
Definition run_create_domain (P: program) (ins: list pred) (p: pred) : list (pred * pred) * result (list stmt) :=
  match Dependency.dp_init (Globals.init_names P ins) P with
  | Ok st => (Dependency.domains st, snd (Dependency.create_domain_top p st))
  | _ => ([], Raise "init")
  end.


(* ================================================================================================ *)
(* 1b. A boolean validator for the hypotheses of domain_overapprox (translation validation)         *)
(* ================================================================================================ *)
(* Sound, not complete: it accepts domain rules whose bodies consist of copied simple literals and domain images of
   positive atoms (CV_copy, CV_dom); bodies with aggregates / conditional literals (CV_any, CV_cond) are rejected. *)
Section Checker.
Variable dom : pred -> option string.

Lemma cmp_eqb_eq a b : cmp_eqb a b = true -> a = b.
Proof. destruct a, b; simpl; try discriminate; reflexivity. Qed.
Lemma guard_eqb_eq (a b: guard) : guard_eqb a b = true <-> a = b.
Proof.
  destruct a as [o t], b as [o' t']. unfold guard_eqb. simpl. rewrite andb_true_iff, CleanupSpec.term_eqb_eq. split.
  - intros [Eo ->]. apply cmp_eqb_eq in Eo. subst. reflexivity.
  - intros E. injection E as -> ->. split; [destruct o'; reflexivity|reflexivity].
Qed.

Lemma simple_lit_eqb_eq l l' : Normalize.simple_lit_b l = true -> lit_eqb l l' = true -> l = l'.
Proof.
  destruct l as [sg a], l' as [sg' a']. rewrite CleanupSpec.lit_eqb_unfold. intros Sm E.
  apply andb_true_iff in E. destruct E as [Es Ea]. apply CleanupSpec.sign_eqb_eq in Es. subst sg'. f_equal.
  destruct a as [t|t gs|b| | |]; try discriminate Sm; destruct a' as [t'|t' gs'|b'| | |]; try discriminate Ea; simpl in Ea.
  - apply CleanupSpec.term_eqb_eq in Ea. subst. reflexivity.
  - apply andb_true_iff in Ea. destruct Ea as [Et Eg]. apply CleanupSpec.term_eqb_eq in Et.
    apply (CleanupSpec.list_eqb_eq guard_eqb guard_eqb_eq) in Eg. subst. reflexivity.
  - apply Bool.eqb_prop in Ea. subst. reflexivity.
Qed.

Definition pos_fun (l: lit) : option (string * list term) :=
  match l with Lit NoSign (ASym (TFun n args _)) => Some (n, args) | _ => None end.
Lemma pos_fun_inv l n args : pos_fun l = Some (n, args) -> exists e, l = dlit n args e.
Proof.
  destruct l as [sg a]. destruct sg; try discriminate. destruct a as [t| | | | |]; try discriminate.
  destruct t as [| | | | |m xs e|]; try discriminate. simpl. intro E. injection E as <- <-. exists e. reflexivity.
Qed.

(* the element l' of a domain body is justified by the source literal l *)
Definition justifies (l l': lit) : bool :=
  (Normalize.simple_lit_b l && lit_eqb l l') ||
  match pos_fun l, pos_fun l' with
  | Some (n, args), Some (dn, args') =>
      match dom (n, List.length args) with
      | Some d => String.eqb d dn && list_eqb term_eqb args args'
      | None => false
      end
  | _, _ => false
  end.
Definition body_lits (b: list bodyelem) : list lit := flat_map (fun x => match x with BLit l => [l] | BCond _ _ => [] end) b.
Definition coveredb (b: list bodyelem) (C: list lit) (x: bodyelem) : bool :=
  match x with BLit l' => existsb (fun l => justifies l l') (C ++ body_lits b) | BCond _ _ => false end.

Lemma body_lits_in b l : In l (body_lits b) -> In (BLit l) b.
Proof.
  unfold body_lits. rewrite in_flat_map. intros [x [Hx Hl]]. destruct x as [l0|l0 c]; [|contradiction].
  destruct Hl as [<-|[]]. exact Hx.
Qed.

Lemma coveredb_sound b C G G' x : coveredb b C x = true -> covered dom b C G G' x.
Proof.
  destruct x as [l'|l' c]; [|discriminate]. simpl. rewrite existsb_exists. intros [l [Hl J]].
  assert (Src: from_src b C l).
  { apply in_app_or in Hl. destruct Hl as [Hc|Hb]; [right; exact Hc|left; exact (body_lits_in b l Hb)]. }
  unfold justifies in J. apply orb_true_iff in J. destruct J as [J|J].
  - apply andb_true_iff in J. destruct J as [Sm E]. pose proof (simple_lit_eqb_eq l l' Sm E) as <-.
    apply CV_copy; assumption.
  - destruct (pos_fun l) as [[n args]|] eqn:P1; [|discriminate]. destruct (pos_fun l') as [[dn args']|] eqn:P2; [|discriminate].
    destruct (dom (n, List.length args)) as [d|] eqn:D; [|discriminate]. apply andb_true_iff in J. destruct J as [Ed Ea].
    apply String.eqb_eq in Ed. apply CleanupSpec.list_eqb_term_eq in Ea. subst d args'.
    destruct (pos_fun_inv l n args P1) as [e ->]. destruct (pos_fun_inv l' dn args P2) as [e' ->].
    exact (CV_dom dom b C G G' n args e e' dn Src D).
Qed.

Definition dom_rule_forb (Q: program) (b: list bodyelem) (C: list lit) (dn: string) (args: list term) : bool :=
  existsb (fun st => match st with
                     | SRule _ (HLit l) b' =>
                         match pos_fun l with
                         | Some (dn', args') => String.eqb dn dn' && list_eqb term_eqb args args' && forallb (coveredb b C) b'
                         | None => false
                         end
                     | _ => false
                     end) Q.

Lemma dom_rule_forb_sound Q G b C dn args : dom_rule_forb Q b C dn args = true -> has_dom_rule dom Q G b C dn args.
Proof.
  unfold dom_rule_forb. rewrite existsb_exists. intros [st [Hin E]].
  destruct st as [line h b'| | | |]; try discriminate. destruct h as [l| | | |]; try discriminate.
  destruct (pos_fun l) as [[dn' args']|] eqn:P; [|discriminate].
  apply andb_true_iff in E. destruct E as [E Cv]. apply andb_true_iff in E. destruct E as [Ed Ea].
  apply String.eqb_eq in Ed. apply CleanupSpec.list_eqb_term_eq in Ea. subst dn' args'.
  destruct (pos_fun_inv l dn args P) as [e' ->]. exists line, e', b'. split; [exact Hin|].
  rewrite forallb_forall in Cv. intros x Hx. apply coveredb_sound. exact (Cv x Hx).
Qed.

Definition elem_okb (Q: program) (b: list bodyelem) (c: condlit) : bool :=
  match pos_fun (fst c) with
  | Some (n, args) => match dom (n, List.length args) with Some dn => dom_rule_forb Q b (snd c) dn args | None => true end
  | None => false
  end.
Lemma elem_okb_sound Q G b c : elem_okb Q b c = true -> elem_ok dom Q G b c.
Proof.
  unfold elem_okb. destruct (pos_fun (fst c)) as [[n args]|] eqn:P; [|discriminate]. intro E.
  destruct (pos_fun_inv _ n args P) as [e Ef]. exists n, args, e. split; [exact Ef|]. intros dn D. rewrite D in E.
  exact (dom_rule_forb_sound Q G b (snd c) dn args E).
Qed.

Definition static_litb (l: lit) : bool :=
  lit_in (nodom dom) l || match l with Lit NoSign _ => false | Lit _ (ASym _) => true | _ => false end.
Lemma static_litb_sound l : static_litb l = true -> static_lit dom l.
Proof.
  unfold static_litb. intro E. apply orb_true_iff in E. destruct E as [E|E]; [left; exact E|right].
  destruct l as [sg a]. destruct sg; try discriminate; destruct a as [t| | | | |]; try discriminate;
    eexists; exists t; (split; [|reflexivity]); discriminate.
Qed.

Definition dheadb (Q: program) (b: list bodyelem) (h: head) : bool :=
  match h with
  | HLit l =>
      match l with
      | Lit NoSign (ASym t) =>
          match t with
          | TFun n args _ => match dom (n, List.length args) with Some dn => dom_rule_forb Q b [] dn args | None => true end
          | _ => false
          end
      | _ => Normalize.simple_lit_b l
      end
  | HAgg lg es rg =>
      forallb (elem_okb Q b) es
  | HDisj es => forallb (elem_okb Q b) es && forallb (fun c => forallb static_litb (snd c)) es
  | HHeadAgg _ _ es _ => forallb (fun e: helem => elem_okb Q b (snd e)) es
  | HTheory _ => false
  end.

Lemma static_all_sound {A} (f: A -> list lit) (es: list A) :
  forallb (fun c => forallb static_litb (f c)) es = true -> forall c l, In c es -> In l (f c) -> static_lit dom l.
Proof.
  rewrite forallb_forall. intros F c l Hc Hl. specialize (F c Hc). rewrite forallb_forall in F. exact (static_litb_sound l (F l Hl)).
Qed.

Lemma dheadb_sound Q G b h : dheadb Q b h = true -> dhead dom Q b G h.
Proof.
  destruct h as [l|es|lg es rg|lg f es rg|tx]; simpl; intro E; try discriminate.
  - destruct l as [sg a]. destruct sg.
    + destruct a as [t|t gs|bb| | |]; try discriminate E.
      * destruct t as [| | | | |n args e|]; try discriminate E. apply (DH_atom dom Q b G n args e). intros dn D. rewrite D in E.
        exact (dom_rule_forb_sound Q G b [] dn args E).
      * apply DH_lit; [reflexivity|discriminate].
      * apply DH_lit; [reflexivity|discriminate].
    + apply DH_lit; [exact E|discriminate].
    + apply DH_lit; [exact E|discriminate].
  - apply andb_true_iff in E. destruct E as [E1 E2]. rewrite forallb_forall in E1. apply DH_disj.
    + intros c Hc. exact (elem_okb_sound Q G b c (E1 c Hc)).
    + exact (static_all_sound snd es E2).
  - rewrite forallb_forall in E. apply DH_choice. intros c Hc. exact (elem_okb_sound Q G b c (E c Hc)).
  - rewrite forallb_forall in E. apply DH_headagg. intros e He. exact (elem_okb_sound Q G b (snd e) (E e He)).
Qed.

Definition fragb (Q: program) : bool :=
  forallb (fun st => match st with SRule _ h b => dheadb Q b h | _ => true end) Q.
Definition facts_nodomb (I: list gatom) : bool := forallb (fun a => nodom dom (gpred a)) I.

Theorem domain_overapprox_checked (sym_lt: sym -> sym -> Prop) Q I T :
  fragb Q = true -> facts_nodomb I = true -> Sat.stable sym_lt Q I T ->
  forall n vs dn, dom (n, List.length vs) = Some dn -> T (n, vs) -> T (dn, vs).
Proof.
  intros F FI St. apply (domain_overapprox sym_lt dom Q I T); [| |exact St].
  - unfold fragb in F. rewrite forallb_forall in F. intros line h b Hin. apply dheadb_sound. exact (F _ Hin).
  - unfold facts_nodomb in FI. rewrite forallb_forall in FI. intros a dn Ha D. specialize (FI a Ha). unfold nodom in FI.
    rewrite D in FI. discriminate FI.
Qed.
End Checker.

(* translation validation of the real pipeline: whatever DomainPredicates emits, if the validator accepts the program
   extended by the emitted rules, the domain predicates over-approximate in every answer set *)
Corollary model_output_validated (sym_lt: sym -> sym -> Prop) (P: program) (ins: list pred) (p: pred)
    (doms: list (pred * pred)) (DR: program) (I: list gatom) (T: interp) :
  run_create_domain P ins p = (doms, Ok DR) ->
  fragb (dom_of doms) (P ++ DR) = true -> facts_nodomb (dom_of doms) I = true -> Sat.stable sym_lt (P ++ DR) I T ->
  forall n vs dn, dom_of doms (n, List.length vs) = Some dn -> T (n, vs) -> T (dn, vs).
Proof. intros _. apply domain_overapprox_checked. Qed.

(* ================================================================================================ *)
(* 3. Refutations: what the Python emits where a side condition fails                               *)
(* ================================================================================================ *)
Module Witnesses.
Import InlineSem.Refutations.
Section W.
Variable sym_lt : sym -> sym -> Prop.
Notation lit_sat := (Sat.lit_sat sym_lt).
Notation lits_sat := (Sat.lits_sat sym_lt).
Notation body_sat := (Sat.body_sat sym_lt).
Notation head_sat := (Sat.head_sat sym_lt).
Notation stmt_sat := (Sat.stmt_sat sym_lt).
Notation prog_sat := (Sat.prog_sat sym_lt).
Notation stable := (Sat.stable sym_lt).
Notation prule_sat := (prule_sat sym_lt).
Notation nrule_sat := (nrule_sat sym_lt).
Notation at_sat := (ProjectionSem.Example.at_sat sym_lt).

Ltac inl H := simpl in H; repeat (destruct H as [H|H]); try discriminate H; try contradiction.

(* { hn(hxs) } :- bs. *)
Definition choice1 (line: nat) (hn: string) (hxs: list string) (bs: list (string * list string)) : stmt :=
  SRule line (HAgg None [(at_ hn hxs, [])] None) (pbody bs).

(* a choice none of whose atoms is in T is satisfied by every (X,T), X <= T *)
Lemma choice_head_none G X T s lg_unused hn hxs (C: list lit) : lg_unused = tt -> subi X T -> (forall vs, ~ T (hn, vs)) ->
  head_sat G X T s (HAgg None [(at_ hn hxs, C)] None).
Proof.
  intros _ S N. simpl. split.
  - intros e th [<-|[]] Ag Cs. right. simpl. rewrite at_sat. apply N.
  - exists (SNum 0). split; [|split; exact Logic.I]. exists []. split; [|reflexivity]. split; [constructor|].
    intro tv. split; [intros []|]. intros (c & th & n & args & ext & vs & [<-|[]] & Ag & Ef & Ev & Etv & Cs & Hv).
    simpl in Ef. injection Ef as -> _ _. exact (N vs Hv).
Qed.

Lemma choice1_none X T line hn hxs bs : subi X T -> (forall vs, ~ T (hn, vs)) -> stmt_sat X T (choice1 line hn hxs bs).
Proof.
  intros S N. simpl. intro s. split; intros _.
  - exact (choice_head_none _ X T s tt hn hxs [] eq_refl S N).
  - exact (choice_head_none _ T T s tt hn hxs [] eq_refl (fun a F => F) N).
Qed.

(* a rule whose body is false in T *)
Lemma body_false_sat X T line h b : subi X T -> (forall s, ~ body_sat (gvars_rule h b) T T s b) -> stmt_sat X T (SRule line h b).
Proof.
  intros S F. simpl. intro s. split; intro B; exfalso; apply (F s); [|exact B].
  exact (ChainSem.body_sat_persist sym_lt _ _ _ _ _ S B).
Qed.

Definition c1 : sym := SNum 1.
Definition c5 : sym := SNum 5.

(* ---- (a) known finding domain-negation:  { r(X) } :- q(X,_).  p(X,M) :- q(X,M), not r(X).   input q/2 ---- *)
Definition neg_P : program :=
  [choice1 1 "r" ["X"] [("q", ["X"; "_"])]; nrule 1 "p" ["X"; "M"] [("q", ["X"; "M"])] "r" ["X"]].
(* __dom_r(X) :- q(X,_).   __dom_p(X,M) :- q(X,M), not __dom_r(X). *)
Definition neg_DR : program :=
  [prule 1 "__dom_r" ["X"] [("q", ["X"; "_"])]; nrule 1 "__dom_p" ["X"; "M"] [("q", ["X"; "M"])] "__dom_r" ["X"]].
Definition neg_doms : list (pred * pred) := [(("r", 1%nat), ("__dom_r", 1%nat)); (("p", 2%nat), ("__dom_p", 2%nat))].
Definition neg_I : list gatom := [("q", [c1; c1])].
Definition neg_T : interp := fun a => In a [("q", [c1; c1]); ("p", [c1; c1]); ("__dom_r", [c1])].

Lemma neg_model : run_create_domain neg_P [("q", 2%nat)] ("p", 2%nat) = (neg_doms, Ok neg_DR).
Proof. vm_compute. reflexivity. Qed.

Lemma neg_stable : stable (neg_P ++ neg_DR) neg_I neg_T.
Proof.
  split; [split|].
  - intros st [<-|[<-|[<-|[<-|[]]]]].
    + apply choice1_none; [exact (fun a F => F)|]. intros vs F. inl F.
    + apply nrule_sat. intro s. split; intros F _; pose proof (F _ (or_introl eq_refl)) as Y; inl Y;
        injection Y as Y1 Y2; simpl; rewrite <- Y1, <- Y2; unfold neg_T; simpl; tauto.
    + apply prule_sat. intro s. split; intros F; pose proof (F _ (or_introl eq_refl)) as Y; inl Y;
        injection Y as Y1 Y2; simpl; rewrite <- Y1; unfold neg_T; simpl; tauto.
    + apply nrule_sat. intro s. split; intros F N; pose proof (F _ (or_introl eq_refl)) as Y; inl Y;
        injection Y as Y1 Y2; exfalso; apply N; simpl; rewrite <- Y1; unfold neg_T; simpl; tauto.
  - intros a Ha. inl Ha. subst a. unfold neg_T. simpl. tauto.
  - intros H S PS FS a Ta.
    assert (Hq: H ("q", [c1; c1])) by (apply FS; left; reflexivity).
    assert (Hp: H ("p", [c1; c1])).
    { pose proof (proj1 (nrule_sat H neg_T _ _ _ _ _ _) (PS (nrule 1 "p" ["X"; "M"] [("q", ["X"; "M"])] "r" ["X"]) (or_intror (or_introl eq_refl))) (sX c1)) as [R _].
      apply R; [intros p [<-|[]]; exact Hq|]. intro F. inl F. }
    assert (Hd: H ("__dom_r", [c1])).
    { pose proof (proj1 (prule_sat H neg_T _ _ _ _) (PS (prule 1 "__dom_r" ["X"] [("q", ["X"; "_"])]) (or_intror (or_intror (or_introl eq_refl)))) (sX c1)) as [R _].
      apply R. intros p [<-|[]]. exact Hq. }
    inl Ta; subst a; assumption.
Qed.

(* the model emits exactly these rules; p(1,1) holds in an answer set, __dom_p(1,1) does not *)
Theorem domain_negation_refuted :
  run_create_domain neg_P [("q", 2%nat)] ("p", 2%nat) = (neg_doms, Ok neg_DR) /\
  (forall a, In a neg_I -> dom_of neg_doms (gpred a) = None) /\
  stable (neg_P ++ neg_DR) neg_I neg_T /\
  dom_of neg_doms ("p", 2%nat) = Some "__dom_p" /\ neg_T ("p", [c1; c1]) /\ ~ neg_T ("__dom_p", [c1; c1]).
Proof.
  split; [exact neg_model|]. split; [intros a [<-|[]]; reflexivity|]. split; [exact neg_stable|].
  split; [reflexivity|]. split; [unfold neg_T; simpl; tauto|]. intro F. inl F.
Qed.

(* hence the fragment hypothesis of domain_overapprox_split must fail on the emitted rules (the literal
   `not __dom_r(X)` is not covered: only POSITIVE atoms may be replaced by their domain atoms) *)
Corollary domain_negation_not_covered :
  ~ (forall line h b, In (SRule line h b) neg_P ->
       dhead (dom_of neg_doms) (neg_P ++ neg_DR) b (gvars_rule h b) h).
Proof.
  intros Frag. destruct domain_negation_refuted as (_ & FI & St & D & Tp & NTd). apply NTd.
  assert (DRh: forall line h b, In (SRule line h b) neg_DR ->
            exists dn args e, h = HLit (dlit dn args e) /\ dom_of neg_doms (dn, List.length args) = None).
  { intros line h b [E|[E|[]]]; injection E as _ <- _; do 3 eexists; (split; [reflexivity|reflexivity]). }
  exact (domain_overapprox_split sym_lt (dom_of neg_doms) neg_P neg_DR neg_I neg_T Frag DRh FI St "p" [c1; c1] "__dom_p" D Tp).
Qed.

(* ---- (b) known finding domain-ignores-input:  { a(X) } :- d(X).  b(X) :- a(X).   inputs a/1, d/1, instance a(5) ---- *)
Definition inp_P : program := [choice1 1 "a" ["X"] [("d", ["X"])]; prule 1 "b" ["X"] [("a", ["X"])]].
Definition inp_DR : program := [prule 1 "__dom_a" ["X"] [("d", ["X"])]; prule 1 "__dom_b" ["X"] [("__dom_a", ["X"])]].
Definition inp_doms : list (pred * pred) := [(("a", 1%nat), ("__dom_a", 1%nat)); (("b", 1%nat), ("__dom_b", 1%nat))].
Definition inp_I : list gatom := [("a", [c5])].
Definition inp_T : interp := fun a => In a [("a", [c5]); ("b", [c5])].

Lemma inp_model : run_create_domain inp_P [("a", 1%nat); ("d", 1%nat)] ("b", 1%nat) = (inp_doms, Ok inp_DR).
Proof. vm_compute. reflexivity. Qed.

Lemma inp_stable : stable (inp_P ++ inp_DR) inp_I inp_T.
Proof.
  split; [split|].
  - intros st [<-|[<-|[<-|[<-|[]]]]].
    + apply body_false_sat; [exact (fun a F => F)|]. intros s B. pose proof (proj1 (pbody_sat sym_lt _ _ _ _ _) B) as B0.
      pose proof (B0 _ (or_introl eq_refl)) as Y. inl Y.
    + apply prule_sat. intro s. split; intros F; pose proof (F _ (or_introl eq_refl)) as Y; inl Y;
        injection Y as Y1; simpl; rewrite <- Y1; unfold inp_T; simpl; tauto.
    + apply prule_sat. intro s. split; intros F; pose proof (F _ (or_introl eq_refl)) as Y; inl Y.
    + apply prule_sat. intro s. split; intros F; pose proof (F _ (or_introl eq_refl)) as Y; inl Y.
  - intros a Ha. inl Ha. subst a. unfold inp_T. simpl. tauto.
  - intros H S PS FS a Ta.
    assert (Ha: H ("a", [c5])) by (apply FS; left; reflexivity).
    assert (Hb: H ("b", [c5])).
    { pose proof (proj1 (prule_sat H inp_T _ _ _ _) (PS (prule 1 "b" ["X"] [("a", ["X"])]) (or_intror (or_introl eq_refl))) (sX c5)) as [R _].
      apply R. intros p [<-|[]]. exact Ha. }
    inl Ta; subst a; assumption.
Qed.

(* every hypothesis of domain_overapprox_split holds except the one on the instance *)
Theorem domain_ignores_input_refuted :
  run_create_domain inp_P [("a", 1%nat); ("d", 1%nat)] ("b", 1%nat) = (inp_doms, Ok inp_DR) /\
  (forall line h b, In (SRule line h b) inp_P -> dhead (dom_of inp_doms) (inp_P ++ inp_DR) b (gvars_rule h b) h) /\
  (forall line h b, In (SRule line h b) inp_DR ->
     exists dn args e, h = HLit (dlit dn args e) /\ dom_of inp_doms (dn, List.length args) = None) /\
  In ("a", [c5]) inp_I /\ dom_of inp_doms (gpred ("a", [c5])) = Some "__dom_a" /\       (* the hypothesis that fails *)
  stable (inp_P ++ inp_DR) inp_I inp_T /\
  dom_of inp_doms ("b", 1%nat) = Some "__dom_b" /\ inp_T ("b", [c5]) /\ ~ inp_T ("__dom_b", [c5]).
Proof.
  split; [exact inp_model|]. split; [|split; [|split; [left; reflexivity|split; [reflexivity|split; [exact inp_stable|]]]]].
  - intros line h b [E|[E|[]]]; injection E as _ <- <-.
    + apply DH_choice. intros c [<-|[]]. exists "a", [TVar "X"], false. split; [reflexivity|].
      intros dn D. vm_compute in D. injection D as <-. exists 1%nat, false, [BLit (at_ "d" ["X"])].
      split; [simpl; tauto|]. intros x [<-|[]]. apply CV_copy; [reflexivity|left; left; reflexivity].
    + apply (DH_atom (dom_of inp_doms) _ _ _ "b" [TVar "X"] false). intros dn D. vm_compute in D. injection D as <-.
      exists 1%nat, false, [BLit (at_ "__dom_a" ["X"])]. split; [simpl; tauto|]. intros x [<-|[]].
      apply (CV_dom (dom_of inp_doms) _ _ _ _ "a" [TVar "X"] false false "__dom_a"); [left; left; reflexivity|reflexivity].
  - intros line h b [E|[E|[]]]; injection E as _ <- _; do 3 eexists; (split; [reflexivity|reflexivity]).
  - split; [reflexivity|]. split; [unfold inp_T; simpl; tauto|]. intro F. inl F.
Qed.

(* ---- (c) the CONDITION of a body conditional literal is replaced too:  { c(X) } :- d(X).  a :- b(X) : c(X).
        The condition is anti-monotone, its over-approximation __dom_c makes the body of the domain rule STRONGER. ---- *)
(* hn :- bn(X) : cn(X). *)
Definition crule (line: nat) (hn bn cn: string) : stmt :=
  SRule line (HLit (at_ hn [])) [BCond (at_ bn ["X"]) [at_ cn ["X"]]].

Lemma crule_sat X T line hn bn cn : stmt_sat X T (crule line hn bn cn) <->
  ((forall v, (X (cn, [v]) -> X (bn, [v])) /\ (T (cn, [v]) -> T (bn, [v]))) -> X (hn, [])) /\
  ((forall v, T (cn, [v]) -> T (bn, [v])) -> T (hn, [])).
Proof.
  unfold crule. simpl. unfold Sat.rule_sat, Sat.head_sat.
  assert (E: forall Y s, body_sat [] Y T s [BCond (at_ bn ["X"]) [at_ cn ["X"]]] <->
              forall v, (Y (cn, [v]) -> Y (bn, [v])) /\ (T (cn, [v]) -> T (bn, [v]))).
  { intros Y s. unfold Sat.body_sat. rewrite Forall_cons_iff. simpl.
    split.
    - intros [F _] v. destruct (F (sX v) (fun x (Hx: In x []) => match Hx with end)) as [F1 F2].
      rewrite !(lits_sat_one sym_lt), !at_sat in F1, F2. simpl in F1, F2. tauto.
    - intros F. split; [|constructor]. intros th _. rewrite !(lits_sat_one sym_lt), !at_sat. simpl.
      destruct (F (th "X")) as [F1 F2]. tauto. }
  split.
  - intros F. destruct (F (sX c1)) as [FX FT]. rewrite E, at_sat in FX. rewrite E, at_sat in FT. simpl in FX, FT.
    split; [exact FX|]. intro A. apply FT. intro v. split; apply A.
  - intros [FX FT] s. rewrite !E, !at_sat. simpl. split; [exact FX|]. intro A. apply FT. intro v. exact (proj1 (A v)).
Qed.

Definition cnd_P : program := [choice1 1 "c" ["X"] [("d", ["X"])]; crule 1 "a" "b" "c"].
(* __dom_c(X) :- d(X).   __dom_a :- b(X) : __dom_c(X). *)
Definition cnd_DR : program := [prule 1 "__dom_c" ["X"] [("d", ["X"])]; crule 1 "__dom_a" "b" "__dom_c"].
Definition cnd_doms : list (pred * pred) := [(("c", 1%nat), ("__dom_c", 1%nat)); (("a", 0%nat), ("__dom_a", 0%nat))].
Definition cnd_I : list gatom := [("d", [c1])].
Definition cnd_T : interp := fun a => In a [("d", [c1]); ("a", []); ("__dom_c", [c1])].

Lemma cnd_model : run_create_domain cnd_P [("b", 1%nat); ("d", 1%nat)] ("a", 0%nat) = (cnd_doms, Ok cnd_DR).
Proof. vm_compute. reflexivity. Qed.

Lemma cnd_stable : stable (cnd_P ++ cnd_DR) cnd_I cnd_T.
Proof.
  split; [split|].
  - intros st [<-|[<-|[<-|[<-|[]]]]].
    + apply choice1_none; [exact (fun a F => F)|]. intros vs F. inl F.
    + apply crule_sat. split; intros _; unfold cnd_T; simpl; tauto.
    + apply prule_sat. intro s. split; intros F; pose proof (F _ (or_introl eq_refl)) as Y; inl Y;
        injection Y as Y1; simpl; rewrite <- Y1; unfold cnd_T; simpl; tauto.
    + apply crule_sat. split; intro F; exfalso.
      * destruct (F c1) as [_ F2]. assert (Y: cnd_T ("b", [c1])) by (apply F2; unfold cnd_T; simpl; tauto). inl Y.
      * assert (Y: cnd_T ("b", [c1])) by (apply F; unfold cnd_T; simpl; tauto). inl Y.
  - intros a Ha. inl Ha. subst a. unfold cnd_T. simpl. tauto.
  - intros H S PS FS a Ta.
    assert (Hd: H ("d", [c1])) by (apply FS; left; reflexivity).
    assert (Ha: H ("a", [])).
    { pose proof (proj1 (crule_sat H cnd_T _ _ _ _) (PS (crule 1 "a" "b" "c") (or_intror (or_introl eq_refl)))) as [R _].
      apply R. intro v. split; intro F; [apply S in F|]; inl F. }
    assert (Hc: H ("__dom_c", [c1])).
    { pose proof (proj1 (prule_sat H cnd_T _ _ _ _) (PS (prule 1 "__dom_c" ["X"] [("d", ["X"])]) (or_intror (or_intror (or_introl eq_refl)))) (sX c1)) as [R _].
      apply R. intros p [<-|[]]. exact Hd. }
    inl Ta; subst a; assumption.
Qed.

Theorem domain_condition_refuted :
  run_create_domain cnd_P [("b", 1%nat); ("d", 1%nat)] ("a", 0%nat) = (cnd_doms, Ok cnd_DR) /\
  (forall a, In a cnd_I -> dom_of cnd_doms (gpred a) = None) /\
  stable (cnd_P ++ cnd_DR) cnd_I cnd_T /\
  dom_of cnd_doms ("a", 0%nat) = Some "__dom_a" /\ cnd_T ("a", []) /\ ~ cnd_T ("__dom_a", []).
Proof.
  split; [exact cnd_model|]. split; [intros a [<-|[]]; reflexivity|]. split; [exact cnd_stable|].
  split; [reflexivity|]. split; [unfold cnd_T; simpl; tauto|]. intro F. inl F.
Qed.

(* ---- (d) a choice with a LOWER bound and a non-static condition:   1 { p : c }.  c :- p.
        with  dp :- dc.  dc :- dp.   Every element has its covered domain rule.  clingo 5.8.2 reports this program
        UNSATISFIABLE: it reads the bound as a constraint `:- not 1 { p : c }`.  So does Sem/Sat.v: the bounds of a
        choice are evaluated in the total interpretation only, hence H := T minus {p, c} is a smaller HT-model of
        every candidate T.  (Under the former reading of Sat.v, bounds evaluated in H as well, {p, c} was stable
        with neither dp nor dc; that artefact is gone, and with it the reason to treat lower bounds specially.) ---- *)
Definition lb_choice : stmt := SRule 1 (HAgg (Some (CLe, TSym (SNum 1))) [(at_ "p" [], [at_ "c" []])] None) [].
Definition lb_Q : program := [lb_choice; prule 1 "c" [] [("p", [])]; prule 1 "dp" [] [("dc", [])]; prule 1 "dc" [] [("dp", [])]].
Definition lb_dom (p: pred) : option string :=
  if pred_eqb p ("p", 0%nat) then Some "dp" else if pred_eqb p ("c", 0%nat) then Some "dc" else None.

Lemma lb_tuples G (X T: interp) s tv : Sat.choice_tuples sym_lt G X T s [(at_ "p" [], [at_ "c" []])] tv <->
  tv = [SFun "p" [] true] /\ X ("c", []) /\ X ("p", []).
Proof.
  split.
  - intros (c & th & n & args & ext & vs & [<-|[]] & Ag & Ef & Ev & Etv & Cs & Hv). simpl in Ef. injection Ef as <- <- _.
    simpl in Ev. injection Ev as <-. simpl in Cs. rewrite (lits_sat_one sym_lt), at_sat in Cs. simpl in Cs. tauto.
  - intros (-> & Xc & Xp). exists (at_ "p" [], [at_ "c" []]), s, "p", [], false, []. split; [left; reflexivity|].
    split; [intros x _; reflexivity|]. split; [reflexivity|]. split; [reflexivity|]. split; [reflexivity|]. split; [|exact Xp].
    simpl. rewrite (lits_sat_one sym_lt), at_sat. simpl. exact Xc.
Qed.

(* no answer set, as in clingo *)
Lemma lb_unsat : sym_order sym_lt -> forall T, ~ stable lb_Q [] T.
Proof.
  intros Ord T [[PT _] Min].
  pose proof (PT lb_choice (or_introl eq_refl)) as R. simpl in R. destruct (R (sX c1)) as [_ RT].
  destruct (RT (Forall_nil _)) as [_ [v [[l [[_ En] ->]] [GL _]]]]. simpl in GL.
  assert (Ne: l <> []).
  { intros ->. simpl in GL. destruct GL as [L|E]; [apply (lt_num _ Ord) in L; lia|discriminate E]. }
  destruct l as [|tv l]; [contradiction|]. pose proof (proj1 (En tv) (or_introl eq_refl)) as Tu.
  apply lb_tuples in Tu. destruct Tu as (_ & Tc & Tp).
  set (H := fun a : gatom => T a /\ a <> ("p", []) /\ a <> ("c", [])).
  assert (S: subi H T) by (intros a [Ta _]; exact Ta).
  assert (PS: prog_sat H T lb_Q).
  { intros st [<-|[<-|[<-|[<-|[]]]]].
    - simpl. intro s. destruct (R s) as [_ RTs]. split; intros _; [|exact (RTs (Forall_nil _))].
      destruct (RTs (Forall_nil _)) as [_ AT]. split; [|exact AT].
      intros e th [<-|[]] _ Cs. simpl in Cs. rewrite (lits_sat_one sym_lt), at_sat in Cs. simpl in Cs.
      destruct Cs as [_ [_ N]]. exfalso. apply N. reflexivity.
    - apply prule_sat. intro s.
      pose proof (proj1 (prule_sat T T _ _ _ _) (PT (prule 1 "c" [] [("p", [])]) (or_intror (or_introl eq_refl))) s) as [_ R2].
      split; [|exact R2]. intros F. pose proof (F _ (or_introl eq_refl)) as Y. simpl in Y.
      destruct Y as [_ [N _]]. exfalso. apply N. reflexivity.
    - apply prule_sat. intro s.
      pose proof (proj1 (prule_sat T T _ _ _ _) (PT (prule 1 "dp" [] [("dc", [])]) (or_intror (or_intror (or_introl eq_refl)))) s) as [_ R2].
      split; [|exact R2]. intros F. split; [|split; discriminate].
      apply R2. intros p Hp. apply S. apply F. exact Hp.
    - apply prule_sat. intro s.
      pose proof (proj1 (prule_sat T T _ _ _ _) (PT (prule 1 "dc" [] [("dp", [])]) (or_intror (or_intror (or_intror (or_introl eq_refl))))) s) as [_ R2].
      split; [|exact R2]. intros F. split; [|split; discriminate].
      apply R2. intros p Hp. apply S. apply F. exact Hp. }
  destruct (Min H S PS (fun a (F: In a []) => match F with end) _ Tp) as [_ [N _]]. apply N. reflexivity.
Qed.

Theorem lower_bound_cycle_unsat : sym_order sym_lt ->
  (* every rule is in the fragment of domain_overapprox (the choice has a LOWER bound and a non-static condition) ... *)
  (forall line h b, In (SRule line h b) lb_Q -> dhead lb_dom lb_Q b (gvars_rule h b) h) /\
  ~ static_lit lb_dom (at_ "c" []) /\
  (* ... and the program has no answer set (the bound acts as a constraint) *)
  forall T, ~ stable lb_Q [] T.
Proof.
  intro Ord. split; [|split; [|exact (lb_unsat Ord)]].
  - intros line h b [E|[E|[E|[E|[]]]]]; injection E as _ <- <-.
    + apply DH_choice. intros c [<-|[]]. exists "p", [], false. split; [reflexivity|]. intros dn D. vm_compute in D. injection D as <-.
      exists 1%nat, false, [BLit (at_ "dc" [])]. split; [simpl; tauto|]. intros x [<-|[]].
      apply (CV_dom lb_dom _ _ _ _ "c" [] false false "dc"); [right; left; reflexivity|reflexivity].
    + apply (DH_atom lb_dom _ _ _ "c" [] false). intros dn D. vm_compute in D. injection D as <-.
      exists 1%nat, false, [BLit (at_ "dp" [])]. split; [simpl; tauto|]. intros x [<-|[]].
      apply (CV_dom lb_dom _ _ _ _ "p" [] false false "dp"); [left; left; reflexivity|reflexivity].
    + apply (DH_atom lb_dom _ _ _ "dp" [] false). intros dn D. vm_compute in D. discriminate D.
    + apply (DH_atom lb_dom _ _ _ "dc" [] false). intros dn D. vm_compute in D. discriminate D.
  - intros [E|(sg & t & Ns & E)]; [vm_compute in E; discriminate E|]. injection E as <- _. apply Ns. reflexivity.
Qed.
End W.
End Witnesses.

(* ================================================================================================ *)
(* 4. The executable model: both theorems apply to the rules Model.Dependency emits                 *)
(* ================================================================================================ *)
Module ModelLink.
Definition v (x: string) : term := TVar x.
(* { a(X) } :- d(X).   b(X,Y) :- a(X), e(X,Y).   c(X) :- b(X,_), not f(X).        inputs d/1, e/2, f/1 *)
Definition P4 : program :=
  [SRule 1 (HAgg None [(dlit "a" [v "X"] false, [])] None) [BLit (dlit "d" [v "X"] false)];
   SRule 1 (HLit (dlit "b" [v "X"; v "Y"] false)) [BLit (dlit "a" [v "X"] false); BLit (dlit "e" [v "X"; v "Y"] false)];
   SRule 1 (HLit (dlit "c" [v "X"] false)) [BLit (dlit "b" [v "X"; v "_"] false); BLit (Lit Neg (ASym (TFun "f" [v "X"] false)))]].
Definition ins4 : list pred := [("d", 1%nat); ("e", 2%nat); ("f", 1%nat)].
(* __dom_a(X) :- d(X).   __dom_b(X,Y) :- __dom_a(X), e(X,Y).   __dom_c(X) :- __dom_b(X,_), not f(X). *)
Definition DR4 : program :=
  [SRule 1 (HLit (dlit "__dom_a" [v "X"] false)) [BLit (dlit "d" [v "X"] false)];
   SRule 1 (HLit (dlit "__dom_b" [v "X"; v "Y"] false)) [BLit (dlit "__dom_a" [v "X"] false); BLit (dlit "e" [v "X"; v "Y"] false)];
   SRule 1 (HLit (dlit "__dom_c" [v "X"] false)) [BLit (dlit "__dom_b" [v "X"; v "_"] false); BLit (Lit Neg (ASym (TFun "f" [v "X"] false)))]].
Definition doms4 : list (pred * pred) :=
  [(("a", 1%nat), ("__dom_a", 1%nat)); (("b", 2%nat), ("__dom_b", 2%nat)); (("c", 1%nat), ("__dom_c", 1%nat))].
Definition dom4 : pred -> option string := dom_of doms4.

(* DomainPredicates(P4).create_domain(c/1) yields the three rules (create_domain recurses into the body predicates) *)
Lemma model4 : run_create_domain P4 ins4 ("c", 1%nat) = (doms4, Ok DR4).
Proof. vm_compute. reflexivity. Qed.

Lemma frag4 : forall line h b, In (SRule line h b) P4 -> dhead dom4 (P4 ++ DR4) b (gvars_rule h b) h.
Proof.
  intros line h b [E|[E|[E|[]]]]; injection E as _ <- <-.
  - apply DH_choice. intros c [<-|[]]. exists "a", [v "X"], false. split; [reflexivity|].
    intros dn D. vm_compute in D. injection D as <-. exists 1%nat, false, [BLit (dlit "d" [v "X"] false)].
    split; [simpl; tauto|]. intros x [<-|[]]. apply CV_copy; [reflexivity|left; left; reflexivity].
  - apply (DH_atom dom4 _ _ _ "b" [v "X"; v "Y"] false). intros dn D. vm_compute in D. injection D as <-.
    exists 1%nat, false, [BLit (dlit "__dom_a" [v "X"] false); BLit (dlit "e" [v "X"; v "Y"] false)].
    split; [simpl; tauto|]. intros x [<-|[<-|[]]].
    + apply (CV_dom dom4 _ _ _ _ "a" [v "X"] false false "__dom_a"); [left; left; reflexivity|reflexivity].
    + apply CV_copy; [reflexivity|left; right; left; reflexivity].
  - apply (DH_atom dom4 _ _ _ "c" [v "X"] false). intros dn D. vm_compute in D. injection D as <-.
    exists 1%nat, false, [BLit (dlit "__dom_b" [v "X"; v "_"] false); BLit (Lit Neg (ASym (TFun "f" [v "X"] false)))].
    split; [simpl; tauto|]. intros x [<-|[<-|[]]].
    + apply (CV_dom dom4 _ _ _ _ "b" [v "X"; v "_"] false false "__dom_b"); [left; left; reflexivity|reflexivity].
    + apply CV_copy; [reflexivity|left; right; left; reflexivity].
Qed.

Lemma heads4 : forall line h b, In (SRule line h b) DR4 ->
  exists dn args e, h = HLit (dlit dn args e) /\ dom4 (dn, List.length args) = None.
Proof. intros line h b [E|[E|[E|[]]]]; injection E as _ <- _; do 3 eexists; (split; [reflexivity|reflexivity]). Qed.

(* OVER-APPROXIMATION for the model's actual output *)
Theorem model_domains_overapprox (sym_lt: sym -> sym -> Prop) :
  exists doms DR, run_create_domain P4 ins4 ("c", 1%nat) = (doms, Ok DR) /\
    forall I T, (forall a, In a I -> dom_of doms (gpred a) = None) -> Sat.stable sym_lt (P4 ++ DR) I T ->
      forall n vs dn, dom_of doms (n, List.length vs) = Some dn -> T (n, vs) -> T (dn, vs).
Proof.
  exists doms4, DR4. split; [exact model4|]. intros I T FI St.
  exact (domain_overapprox_split sym_lt dom4 P4 DR4 I T frag4 heads4 FI St).
Qed.

(* the two layers: the input predicates, then the domain predicates (`not f(X)` refers to the lower layer) *)
Definition low_in (p: pred) : bool := Traverse.pmem p ins4.
Definition low_dom (p: pred) : bool := orb (low_in p) (Traverse.pmem p (map snd doms4)).

Lemma strat4 : strat none_pred [low_in; low_dom] DR4 (P4 ++ DR4).
Proof.
  split; [|split; [|exact Logic.I]].
  - intros st Hin. right. left. simpl in Hin. repeat (destruct Hin as [<-|Hin]; [reflexivity|]). contradiction.
  - intros st Hin. simpl in Hin. destruct Hin as [<-|[<-|[<-|Hin]]]; [right; left; reflexivity..|].
    left. split; [exact Hin|]. simpl in Hin. destruct Hin as [<-|[<-|[<-|[]]]]; (split; [reflexivity|]); (split; [do 3 eexists; reflexivity|]).
    + intros x [<-|[]]. left. do 3 eexists. reflexivity.
    + intros x [<-|[<-|[]]]; left; do 3 eexists; reflexivity.
    + intros x [<-|[<-|[]]]; [left; do 3 eexists; reflexivity|right; reflexivity].
Qed.

(* CHOICE-FREENESS for the model's actual output: all answer sets (for instances with the same input facts) have the
   same extension of d, e, f, __dom_a, __dom_b, __dom_c *)
Theorem model_domains_choice_free (sym_lt: sym -> sym -> Prop) :
  exists doms DR, run_create_domain P4 ins4 ("c", 1%nat) = (doms, Ok DR) /\
    forall I1 I2 T1 T2, (forall a, low_dom (gpred a) = true -> (In a I1 <-> In a I2)) ->
      Sat.stable sym_lt (P4 ++ DR) I1 T1 -> Sat.stable sym_lt (P4 ++ DR) I2 T2 ->
      forall a, low_dom (gpred a) = true -> (T1 a <-> T2 a).
Proof.
  exists doms4, DR4. split; [exact model4|]. intros I1 I2 T1 T2 FI S1 S2.
  apply (domain_choice_free_strat sym_lt [low_in; low_dom] DR4 (P4 ++ DR4) (P4 ++ DR4) I1 I2 T1 T2 strat4 strat4);
    try assumption; try (intros st Hst; apply in_or_app; right; exact Hst); [|right; left; reflexivity].
  intros low a [<-|[<-|[]]] La; apply FI; [|exact La]. unfold low_dom. rewrite La. reflexivity.
Qed.

(* the validator of section 1b accepts the model's output for P4 and pins down what is wrong with the witnesses of section 3 *)
Lemma validator_accepts4 : fragb dom4 (P4 ++ DR4) = true.
Proof. vm_compute. reflexivity. Qed.
Lemma validator_rejects_negation :
  fragb (dom_of Witnesses.neg_doms) (Witnesses.neg_P ++ Witnesses.neg_DR) = false.
Proof. vm_compute. reflexivity. Qed.
Lemma validator_rejects_condition :
  fragb (dom_of Witnesses.cnd_doms) (Witnesses.cnd_P ++ Witnesses.cnd_DR) = false.
Proof. vm_compute. reflexivity. Qed.
Lemma validator_input_facts :
  fragb (dom_of Witnesses.inp_doms) (Witnesses.inp_P ++ Witnesses.inp_DR) = true /\
  facts_nodomb (dom_of Witnesses.inp_doms) Witnesses.inp_I = false.
Proof. split; vm_compute; reflexivity. Qed.
End ModelLink.

Print Assumptions domain_overapprox.
Print Assumptions domain_overapprox_split.
Print Assumptions domain_overapprox_checked.
Print Assumptions model_output_validated.
Print Assumptions strat_step_sub.
Print Assumptions domain_least_model.
Print Assumptions domain_choice_free.
Print Assumptions domain_choice_free_strat.
Print Assumptions Witnesses.domain_negation_refuted.
Print Assumptions Witnesses.domain_negation_not_covered.
Print Assumptions Witnesses.domain_ignores_input_refuted.
Print Assumptions Witnesses.domain_condition_refuted.
Print Assumptions Witnesses.lower_bound_cycle_unsat.
Print Assumptions ModelLink.model_domains_overapprox.
Print Assumptions ModelLink.model_domains_choice_free.
